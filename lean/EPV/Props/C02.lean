/-
C02 — property theorems for the node-tree builder model (EPV/Model/Builder.lean) against the XDM
specification (EPV/Spec/XDMTree.lean).  Helper lemmas live in EPV/Lemmas/Builder*.lean, XDMItems.lean.

Reading guide
* `Input`            : what is handed to `get_node_tree` (library, Element / ElementTree / lxml sub-element,
                       `fragment`, `namespaces`, prolog / top element / epilog)
* `build i`          : the node tree with the positions the Python builders assign (`Except`: lxml raises for
                       a fragment of an empty tree)
* `iter root`        : `root.iter()` — every node incl. the lazily created namespace and attribute nodes, as
                       records `(kind, name, pos, parent position, string value)`
* `specItems i`      : the XDM nodes of the call in document order `(idx, kind, name, parent idx, string value)`
* `place s it`       : the item `it` put at position `s + it.idx` (parent at `s + parent idx`)
* `inputWF i`        : every namespace map read by the builder has unique keys (it is a Python dict)
* `blankIf true r`   : `r` with the string value erased if `r` is a document or element node
-/
import EPV.Lemmas.BuilderMain
import EPV.Lemmas.BuilderOps
import EPV.Lemmas.XDMItems
import EPV.Lemmas.XDMParents
import EPV.Lemmas.BuilderAnc
import EPV.Lemmas.BuilderReget
import EPV.Model.BuilderFocus
import EPV.Lemmas.BuilderForest
import EPV.Lemmas.BuilderLoop
namespace EPV.C02
open EPV.Builder EPV.XDM

/-! ## positions -/

/-- HEADLINE.  For every input (any tree, any nesting, any attribute counts, any namespace maps — even
ill-formed ones —, Element or ElementTree, lxml or xml.etree, every `fragment`, every `namespaces`
argument) the positions of the nodes listed by `root.iter()` — element, its namespace nodes, its
attributes, then its children — are strictly increasing; hence unique, and comparing positions is
comparing document order. -/
theorem build_positions_strict (i : Input) (root : PNode) (h : build i = .ok root) :
    List.Pairwise (· < ·) ((iter root).map (·.pos)) :=
  let ⟨_, hs⟩ := build_seg i root h
  hs.1

/-- positions are pairwise distinct -/
theorem build_positions_nodup (i : Input) (root : PNode) (h : build i = .ok root) :
    ((iter root).map (·.pos)).Nodup :=
  (build_positions_strict i root h).imp (fun hlt => Nat.ne_of_lt hlt)

/-- test on a literal: the hypotheses are satisfiable on a non-trivial tree
(`<x a="1" b="2">t<y/>u<!--c--></x>` in an lxml document with a prolog PI, namespaces `{None: u, p: v}`) -/
example :
    let m : NsMap := [(none, "u"), (some "p", "v")]
    let t : XTree := .elem "x" m [("a", "1"), ("b", "2")] (some "t")
      [.elem "y" m [] none [] (some "u"), .comment "c" none] none
    let i : Input := { cfg := { lxml := true, namespaces := [], fragment := none }, isTree := true,
                       prolog := [.pi "p" "d" none], top := some t, epilog := [], path := [] }
    (build i).toOption.map (fun r => (iter r).map (·.pos)) = some (List.range' 1 15) ∧ inputWF i = true := by
  decide

/-! ## the explicit-stack loop of the Python builders -/

/-- LOOP = RECURSION.  The `while True / for elem in children / else: pop` loop of `build_node_tree` and
`build_lxml_node_tree`, transcribed with its `iterators` / `ancestors` stacks, current `parent`,
running `position` and the `parent.children[-1].elem.tail` lookup (EPV/Model/BuilderLoop.lean), entered
for any root element `e` created at any position `p`: it terminates within `stepsKids e.kids + 1`
passes, never takes the crashing branch, and the nodes it has constructed are — in order, with
positions, parents and contents — exactly the eagerly built nodes (everything except the lazy
namespace/attribute nodes) of the recursive `buildOne` that all other theorems speak about. -/
theorem loop_eq_build (c : Cfg) (par : Option Nat) (p : Nat) (e : XTree) (he : e.isElem = true) :
    ∃ out, run c (stepsKids e.kids + 1) (enterLoop c par p e) = some out ∧
      out.map (·.node) = (iterNode par (buildOne c p e).1).filter eager :=
  run_enterLoop c par p e he

/-- test on a literal: the loop on `<a>x<b><c/>t<!--k-->u</b>v<d w="1"/></a>` (7 passes) -/
example :
    let t : XTree := .elem "a" [] [] (some "x")
      [.elem "b" [] [] none [.elem "c" [] [] none [] (some "t"), .comment "k" (some "u")] (some "v"),
       .elem "d" [] [("w", "1")] none [] none] none
    let c : Cfg := { lxml := false, namespaces := [], fragment := none }
    stepsKids t.kids + 1 = 6 ∧
    ((run c 6 (enterLoop c none 1 t)).map fun out => out.map (·.node.pos)) = some [1, 3, 4, 6, 8, 9, 10, 11, 12] := by
  decide

/-- `tree.elements` (wrapped object ↦ node; objects identified by their pre-order index in the input,
nodes by position).  After the loop the registry — one entry per constructed element / comment / PI
node, in construction order — lists exactly the etree objects of the input in pre-order
(`elem.iter()`), the k-th entry carrying the kind and name of the k-th object, and the entries point to
pairwise different nodes (strictly increasing positions): the map is total on the input objects,
injective, and `elements[obj]` is the node built for `obj`. -/
theorem elements_registry (c : Cfg) (par : Option Nat) (p : Nat) (e : XTree) (he : e.isElem = true) :
    ∃ out, run c (stepsKids e.kids + 1) (enterLoop c par p e) = some out ∧
      (out.filter wrapped).map tagOf = srcsOne e ∧
      ((out.filter wrapped).map (·.node.pos)).Pairwise (· < ·) := by
  obtain ⟨out, hrun, htags, hpos⟩ := run_registry c par p e he
  refine ⟨out, hrun, htags, ?_⟩
  rw [hpos]
  have hs := (buildOne_seg c e p par).2.1
  exact hs.sublist (List.Sublist.map _ List.filter_sublist)

/-! ## faithful image of the XDM tree -/

/-- FAITHFUL IMAGE.  For every well-formed input on which the builder succeeds, the spec denotes a
tree too, and `root.iter()` is exactly the XDM node list of the spec — same kinds, names, parents,
string values of attribute/namespace/text/comment/PI nodes, in document order — with node number `k`
sitting at position `root.pos + k`.  (Including the string values of documents/elements: `iter_eq_spec_full`.) -/
theorem iter_eq_spec (i : Input) (root : PNode) (h : build i = .ok root) (hwf : inputWF i = true) :
    ∃ items, specItems i = some items ∧
      (iter root).map (blankIf true) = (items.map (place root.pos)).map (blankIf true) :=
  iter_eq_spec_aux true i root h hwf

/-- `build_count`: exactly one node per element, attribute, in-scope namespace, comment, PI, document
and non-`None` text/tail chunk — as many nodes as the XDM tree has. -/
theorem build_count (i : Input) (root : PNode) (h : build i = .ok root) (hwf : inputWF i = true) :
    ∃ items, specItems i = some items ∧ (iter root).length = items.length := by
  obtain ⟨items, hs, he⟩ := iter_eq_spec i root h hwf
  refine ⟨items, hs, ?_⟩
  have := congrArg List.length he
  simpa using this

theorem pos_blankIf (b : Bool) (r : Rec) : (blankIf b r).pos = r.pos := by
  unfold blankIf; split <;> rfl

/-- `gap_exact`, global form: positions are *consecutive* — the reserved gap after every element is
exactly filled by its namespace and attribute nodes, nothing overlaps, nothing is skipped:
`root.iter()` carries the positions `p, p+1, p+2, …` (p = 1, or 0 for the dummy document). -/
theorem gap_exact (i : Input) (root : PNode) (h : build i = .ok root) (hwf : inputWF i = true) :
    (iter root).map (·.pos) = List.range' root.pos (iter root).length := by
  obtain ⟨items, hs, he⟩ := iter_eq_spec i root h hwf
  have hlen : (iter root).length = items.length := by simpa using congrArg List.length he
  have h1 : (iter root).map (·.pos) = ((iter root).map (blankIf true)).map (·.pos) := by
    simp [List.map_map, Function.comp_def, pos_blankIf]
  rw [h1, he, hlen]
  have h2 : ((items.map (place root.pos)).map (blankIf true)).map (·.pos) = (idxs items).map (root.pos + ·) := by
    simp [List.map_map, Function.comp_def, pos_blankIf, place, idxs]
  rw [h2, specItems_idxs i items hs, List.map_add_range']
  simp

/-- `gap_exact`, local form: a subtree built at position `p` ends exactly `number of its XDM nodes`
positions later (the next sibling / tail text gets `p + size`). -/
theorem gap_exact_subtree (c : Cfg) (t : XTree) (p : Nat) (hwf : treeWF c t = true) :
    (buildOne c p t).2 = p + (itemsOne c none 0 t).length := by
  have := (buildOne_spec c true p t p 0 none rfl hwf).2
  exact this

theorem blankIf_fields (b : Bool) (r : Rec) :
    (blankIf b r).pos = r.pos ∧ (blankIf b r).parent = r.parent ∧ (blankIf b r).kind = r.kind := by
  unfold blankIf; split <;> exact ⟨rfl, rfl, rfl⟩

/-- `parent_children`: in the built tree every node except the root has a parent link, and it points
(by position) to a node that occurs *earlier* in `root.iter()` and is an element or the document;
the root — the node at the first position — is the only node without parent. -/
theorem parent_children (i : Input) (root : PNode) (h : build i = .ok root) (hwf : inputWF i = true) :
    ∀ r ∈ iter root,
      (r.pos = root.pos ∧ r.parent = none) ∨
      ∃ q, r.parent = some q ∧ q < r.pos ∧
        ∃ pr ∈ iter root, pr.pos = q ∧ (pr.kind = .element ∨ pr.kind = .document) := by
  obtain ⟨items, hs, he⟩ := iter_eq_spec i root h hwf
  have hpar := specItems_parentOK i items hs
  intro r hr
  have hr' : blankIf true r ∈ ((items.map (place root.pos)).map (blankIf true)) := by
    rw [← he]; exact List.mem_map_of_mem hr
  simp only [List.mem_map] at hr'
  obtain ⟨_, ⟨it, hit, rfl⟩, heq⟩ := hr'
  have f1 := blankIf_fields true r
  have f2 := blankIf_fields true (place root.pos it)
  rw [← heq] at f1
  have hpos : r.pos = root.pos + it.idx := by rw [← f1.1, f2.1]; rfl
  have hparent : r.parent = it.parent.map (root.pos + ·) := by rw [← f1.2.1, f2.2.1]; rfl
  rcases hpar it hit with ⟨h0, hn⟩ | ⟨q, hq, hlt, pit, hpm, hpi, hpk⟩
  · left; rw [hpos, hparent, h0, hn]; exact ⟨rfl, rfl⟩
  · right
    refine ⟨root.pos + q, by rw [hparent, hq]; rfl, by rw [hpos]; omega, ?_⟩
    have hp' : blankIf true (place root.pos pit) ∈ (iter root).map (blankIf true) := by
      rw [he]; exact List.mem_map_of_mem (List.mem_map_of_mem hpm)
    simp only [List.mem_map] at hp'
    obtain ⟨pr, hprm, hpreq⟩ := hp'
    have g1 := blankIf_fields true pr
    have g2 := blankIf_fields true (place root.pos pit)
    rw [hpreq] at g1
    refine ⟨pr, hprm, ?_, ?_⟩
    · rw [← g1.1, g2.1]; simp [place, hpi]
    · rw [← g1.2.2, g2.2.2]; exact hpk

/-- the well-formedness hypothesis cannot be dropped from `gap_exact`: with a (non-dict) map that
lists the `xml` prefix twice a position is skipped — while the strict order still holds. -/
theorem gap_exact_needs_wf :
    let m : NsMap := [(some "xml", "u"), (some "xml", "u")]
    let i : Input := { cfg := { lxml := false, namespaces := m, fragment := none }, isTree := false,
                       prolog := [], top := some (.elem "x" [] [("a", "1")] none [] none), epilog := [], path := [] }
    inputWF i = false ∧ (build i).toOption.map (fun r => (iter r).map (·.pos)) = some [1, 2, 4] := by
  decide

/-! ## string values -/

/-- `string_value_concat` (full strength since fix F02a): for EVERY element the string value the
implementation computes — the document-order walk of `etree_iter_strings` — is the XDM string value,
the concatenation of the string values of its text-node descendants in document order. -/
theorem string_value_concat (t : XTree) : elemStringValue t = stringValue t :=
  elemStringValue_eq t

/-- stronger, on the chunk lists: the walk yields exactly the text chunks of the spec, in order -/
theorem string_value_chunks_eq (t : XTree) : chunksOne true t = textsOne t :=
  chunksOne_top t

/-- regression witness of the former finding F02a (`<a><b>1<c>2</c></b>3</a>`: the old walk gave `132`)
and the coordinator's witness `<r><a>1<b>2</b>3</a>T<c/>U</r>` (old: `1T23U`): now document order. -/
theorem string_value_order_examples :
    let t : XTree := .elem "a" [] [] none [.elem "b" [] [] (some "1") [.elem "c" [] [] (some "2") [] none] (some "3")] none
    let r : XTree := .elem "r" [] [] none
      [.elem "a" [] [] (some "1") [.elem "b" [] [] (some "2") [] (some "3")] (some "T"),
       .elem "c" [] [] none [] (some "U")] none
    (elemStringValue t).toList = ['1', '2', '3'] ∧ (elemStringValue r).toList = ['1', '2', '3', 'T', 'U'] := by
  decide

/-- The complete faithful image, string values of documents and elements included (a document's string
value is that of its top element: comments and PIs do not contribute): `root.iter()` IS the XDM node
list of the spec placed at consecutive positions. -/
theorem iter_eq_spec_full (i : Input) (root : PNode) (h : build i = .ok root) (hwf : inputWF i = true) :
    ∃ items, specItems i = some items ∧ iter root = items.map (place root.pos) := by
  obtain ⟨items, hs, he⟩ := iter_eq_spec_aux false i root h hwf
  refine ⟨items, hs, ?_⟩
  have hid : ∀ l : List Rec, l.map (blankIf false) = l := by
    intro l; induction l with
    | nil => rfl
    | cons a l ih => simp [blankIf, ih]
  rwa [hid, hid] at he

/-! ## operator layer (a node is its index in `iter root`, standing for Python object identity) -/

/-- `$a is $b` ⇔ same node -/
theorem is_iff_same_index (a b : Nat) : opIs a b = specIs a b := rfl

/-- `precedes_iff_pos_lt`: on a built tree, `$a << $b` computed by walking `root.iter_document()` is
`position(a) < position(b)`, which is document order `a < b`; never FOCA0002 for nodes of the tree. -/
theorem precedes_iff_pos_lt (i : Input) (root : PNode) (h : build i = .ok root) (a b : Nat)
    (ha : a < (iter root).length) (hb : b < (iter root).length) :
    opPrecedes (iter root) a b = some (decide (posOf (iter root) a < posOf (iter root) b)) ∧
    opPrecedes (iter root) a b = some (specPrecedes a b) := by
  have hs : Strict (iter root) := build_positions_strict i root h
  have hiff := posOf_lt_iff (iter root) hs ha hb
  unfold opPrecedes specPrecedes
  by_cases hab : a = b
  · subst hab; simp
  · have hw := walk_spec a b hab (iter root) 0 (Nat.zero_le _) (Nat.zero_le _) (by omega)
    have : (a == b) = false := by simpa using hab
    simp only [this, Bool.false_eq_true, if_false, hw, Option.some.injEq, decide_eq_decide]
    exact ⟨hiff.symm, trivial⟩

/-- `$a >> $b` likewise -/
theorem follows_iff_pos_gt (i : Input) (root : PNode) (h : build i = .ok root) (a b : Nat)
    (ha : a < (iter root).length) (hb : b < (iter root).length) :
    opFollows (iter root) a b = some (decide (posOf (iter root) b < posOf (iter root) a)) ∧
    opFollows (iter root) a b = some (specFollows a b) := by
  have hs : Strict (iter root) := build_positions_strict i root h
  have hiff := posOf_lt_iff (iter root) hs hb ha
  unfold opFollows specFollows
  by_cases hab : a = b
  · subst hab; simp
  · have hw := walk_spec a b hab (iter root) 0 (Nat.zero_le _) (Nat.zero_le _) (by omega)
    have : (a == b) = false := by simpa using hab
    simp only [this, Bool.false_eq_true, if_false, hw, Option.map_some, Option.some.injEq]
    constructor
    · by_cases hlt : a < b <;> simp [hlt, hiff] <;> omega
    · by_cases hlt : a < b <;> simp [hlt] <;> omega

/-- `union_sorted_nodup`: whatever order the Python `set` enumerates the operand nodes in (`l'` is any
permutation), sorting by `position` returns the union in document order without duplicates —
the spec's list. -/
theorem union_eq_spec (i : Input) (root : PNode) (h : build i = .ok root) (xs ys l' : List Nat)
    (hx : ∀ a ∈ xs, a < (iter root).length) (hy : ∀ a ∈ ys, a < (iter root).length)
    (hl : l'.Perm (toSet (xs ++ ys))) :
    sortByPos (iter root) l' = specUnion (iter root).length xs ys := by
  have hs : Strict (iter root) := build_positions_strict i root h
  refine sortByPos_eq (iter root) hs _ l' (select_pairwise _ _) (fun a ha => ((mem_select _ _ a).1 ha).1) ?_
  refine hl.trans (perm_of_nodup_mem (nodup_toSet _) (select_nodup _ _) ?_)
  intro a
  unfold specUnion
  rw [mem_toSet, mem_select]
  simp only [List.mem_append, Bool.or_eq_true, List.contains_iff_mem]
  constructor
  · intro hm; exact ⟨hm.elim (hx a) (hy a), hm⟩
  · intro hm; exact hm.2

theorem intersect_eq_spec (i : Input) (root : PNode) (h : build i = .ok root) (xs ys l' : List Nat)
    (hx : ∀ a ∈ xs, a < (iter root).length)
    (hl : l'.Perm ((toSet xs).filter (ys.contains ·))) :
    sortByPos (iter root) l' = specIntersect (iter root).length xs ys := by
  have hs : Strict (iter root) := build_positions_strict i root h
  refine sortByPos_eq (iter root) hs _ l' (select_pairwise _ _) (fun a ha => ((mem_select _ _ a).1 ha).1) ?_
  refine hl.trans (perm_of_nodup_mem ((nodup_toSet _).filter _) (select_nodup _ _) ?_)
  intro a
  unfold specIntersect
  rw [List.mem_filter, mem_toSet, mem_select]
  simp only [Bool.and_eq_true, List.contains_iff_mem]
  constructor
  · intro hm; exact ⟨hx a hm.1, hm⟩
  · intro hm; exact hm.2

theorem except_eq_spec (i : Input) (root : PNode) (h : build i = .ok root) (xs ys l' : List Nat)
    (hx : ∀ a ∈ xs, a < (iter root).length)
    (hl : l'.Perm ((toSet xs).filter (!ys.contains ·))) :
    sortByPos (iter root) l' = specExcept (iter root).length xs ys := by
  have hs : Strict (iter root) := build_positions_strict i root h
  refine sortByPos_eq (iter root) hs _ l' (select_pairwise _ _) (fun a ha => ((mem_select _ _ a).1 ha).1) ?_
  refine hl.trans (perm_of_nodup_mem ((nodup_toSet _).filter _) (select_nodup _ _) ?_)
  intro a
  unfold specExcept
  rw [List.mem_filter, mem_toSet, mem_select]
  simp only [Bool.and_eq_true, List.contains_iff_mem]
  constructor
  · intro hm; exact ⟨hx a hm.1, hm⟩
  · intro hm; exact hm.2

/-- the operators of the model are instances (`l'` = the model's own enumeration) -/
theorem opUnion_eq_spec (i : Input) (root : PNode) (h : build i = .ok root) (xs ys : List Nat)
    (hx : ∀ a ∈ xs, a < (iter root).length) (hy : ∀ a ∈ ys, a < (iter root).length) :
    opUnion (iter root) xs ys = specUnion (iter root).length xs ys :=
  union_eq_spec i root h xs ys _ hx hy (List.Perm.refl _)

/-- results of `union` are strictly increasing in document order, hence duplicate-free -/
theorem union_sorted_nodup (n : Nat) (xs ys : List Nat) :
    (specUnion n xs ys).Pairwise (· < ·) ∧ (specUnion n xs ys).Nodup :=
  ⟨select_pairwise _ _, select_nodup _ _⟩

/-- `fn:innermost` / `fn:outermost` (and every other position-sorted result): for any duplicate-free
set of nodes of the tree, in any enumeration order, the result is that set in document order. -/
theorem sorted_result_is_document_order (i : Input) (root : PNode) (h : build i = .ok root)
    (s l' : List Nat) (hs' : s.Nodup) (hv : ∀ a ∈ s, a < (iter root).length) (hl : l'.Perm s) :
    sortByPos (iter root) l' = select (iter root).length (s.contains ·) := by
  have hs : Strict (iter root) := build_positions_strict i root h
  refine sortByPos_eq (iter root) hs _ l' (select_pairwise _ _) (fun a ha => ((mem_select _ _ a).1 ha).1) ?_
  refine hl.trans (perm_of_nodup_mem hs' (select_nodup _ _) ?_)
  intro a
  rw [mem_select]
  simp only [List.contains_iff_mem]
  exact ⟨fun hm => ⟨hv a hm, hm⟩, fun hm => hm.2⟩

/-- `fn:innermost($S)` as implemented (collect the `ancestor` axis of every member by following
`.parent`, drop the members found there, sort by position) is the spec's "members that are not an
ancestor of another member, in document order, without duplicates". -/
theorem innermost_eq_spec (i : Input) (root : PNode) (h : build i = .ok root) (hwf : inputWF i = true)
    (xs : List Nat) (hx : ∀ a ∈ xs, a < (iter root).length) :
    ∃ items, specItems i = some items ∧ opInnermost (iter root) xs = specInnermost items xs := by
  obtain ⟨items, hs, he⟩ := iter_eq_spec i root h hwf
  have F := faithful_of_image (iter root) items root.pos he (specItems_idxs i items hs) (specItems_parentOK i items hs)
  exact ⟨items, hs, F.innermost (build_positions_strict i root h) xs hx⟩

/-- `fn:outermost($S)` likewise: "members that have no ancestor among the members". -/
theorem outermost_eq_spec (i : Input) (root : PNode) (h : build i = .ok root) (hwf : inputWF i = true)
    (xs : List Nat) (hx : ∀ a ∈ xs, a < (iter root).length) :
    ∃ items, specItems i = some items ∧ opOutermost (iter root) xs = specOutermost items xs := by
  obtain ⟨items, hs, he⟩ := iter_eq_spec i root h hwf
  have F := faithful_of_image (iter root) items root.pos he (specItems_idxs i items hs) (specItems_parentOK i items hs)
  exact ⟨items, hs, F.outermost (build_positions_strict i root h) xs hx⟩

/-- test on a literal (`<x><y><x/></y><a/></x>`, S = {x, y, inner x, a}): innermost = {inner x, a},
outermost = {x} -/
example :
    let t : XTree := .elem "x" [] [] none [.elem "y" [] [] none [.elem "x" [] [] none [] none] none,
                                             .elem "a" [] [] none [] none] none
    let i : Input := { cfg := { lxml := false, namespaces := [], fragment := none }, isTree := false,
                       prolog := [], top := some t, epilog := [], path := [] }
    inputWF i = true ∧
    (specItems i).map (fun items => (specInnermost items [0, 2, 4, 6, 4], specOutermost items [6, 2, 4, 0]))
      = some ([4, 6], [0]) := by decide

/-- `fn:root($n)` of a node of the tree is the first node of `root.iter()` -/
theorem root_is_top (nodes : List Rec) (a : Nat) : opRoot nodes a = specRoot nodes.length a := rfl

/-! ## the other walks over a built tree: `iter_lazy`, `iter_descendants`, `iter_document`

`LazyState` records which elements (by position) have already built their `_namespace_nodes` /
`_attributes`; `keep L r` = "`r` is not a namespace/attribute node, or its owner element has built it".
`iter_document` *is* `iter` (xpath_nodes.py:1003, 1660). -/

/-- `root.iter_lazy()` — the explicit-stack loop of `ElementNode.iter_lazy` (per element child for a
document root) — terminates and yields, in the order of `root.iter()`, exactly the nodes that exist
without building anything: every element/text/comment/PI/document node and the namespace / attribute
nodes of exactly those elements that have already built them. -/
theorem iter_lazy_eq_filter (i : Input) (root : PNode) (h : build i = .ok root) (L : LazyState) :
    iterLazy L root = some (((iter root).filter (keep L)).map (·.pos)) := by
  rw [iterLazy_eq L root (build_rootOK i root h), lazyNode_filter]; rfl

/-- once every element has built its lazy nodes, `iter_lazy()` enumerates all of `iter()` -/
theorem iter_lazy_all_built (i : Input) (root : PNode) (h : build i = .ok root) (L : LazyState)
    (hall : ∀ r ∈ iter root, keep L r = true) :
    iterLazy L root = some ((iter root).map (·.pos)) := by
  rw [iter_lazy_eq_filter i root h L, List.filter_eq_self.2 hall]

/-- `iter_lazy()` never repeats a node and lists nodes in document order (strictly increasing positions) -/
theorem iter_lazy_document_order (i : Input) (root : PNode) (h : build i = .ok root) (L : LazyState)
    (out : List Nat) (ho : iterLazy L root = some out) : out.Pairwise (· < ·) := by
  rw [iter_lazy_eq_filter i root h L] at ho
  injection ho with ho; subst ho
  have hs := build_positions_strict i root h
  exact hs.sublist (List.Sublist.map _ List.filter_sublist)

/-- `root.iter_descendants()` (its own explicit-stack loop) yields exactly the nodes of `iter()` that are
not namespace or attribute nodes, in document order. -/
theorem iter_descendants_eq (i : Input) (root : PNode) (h : build i = .ok root) :
    iterDescendants root = some (((iter root).filter eager).map (·.pos)) := by
  rw [iterDescendants_eq_lazy, iter_lazy_eq_filter i root h]
  congr 2
  exact List.filter_congr (fun r _ => keep_empty_eq_eager r)

/-- test on a literal: `<x a="1"><y b="2"/>t</x>` with only `y`'s attributes built -/
example :
    let t : XTree := .elem "x" [] [("a", "1")] none [.elem "y" [] [("b", "2")] none [] (some "t")] none
    let i : Input := { cfg := { lxml := false, namespaces := [], fragment := none }, isTree := true,
                       prolog := [], top := some t, epilog := [], path := [] }
    ((build i).toOption.bind fun r => iterLazy ⟨[], [5]⟩ r) = some [1, 2, 5, 7, 8] ∧
    ((build i).toOption.bind fun r => iterDescendants r) = some [1, 2, 5, 8] := by decide

/-! ## `get_node_tree` applied to a node tree -/

/-- IDEMPOTENCE.  `get_node_tree(node)` on any node of a built tree (default `fragment`) returns that
very node and leaves the tree as it is. -/
theorem get_node_tree_idempotent (tree : PNode) (sel : Nat) (n : PNode) (h : nodeAt tree sel = some n) :
    reget none tree sel = .ok ⟨tree, sel⟩ :=
  reget_none tree sel n h

mutual
theorem buildOne_fragment (c : Cfg) (f : Option Bool) : ∀ (t : XTree) (p : Nat),
    buildOne { c with fragment := f } p t = buildOne c p t
  | .elem name nsmap attrib text kids tail, p => by
    simp only [buildOne, Cfg.nsmapOf]
    rw [buildKids_fragment c f kids]
  | .comment s tl, p => rfl
  | .pi t s tl, p => rfl
theorem buildKids_fragment (c : Cfg) (f : Option Bool) : ∀ (ts : List XTree) (p : Nat),
    buildKids { c with fragment := f } p ts = buildKids c p ts
  | [], p => rfl
  | t :: ts, p => by
    simp only [buildKids]
    rw [buildOne_fragment c f t, buildKids_fragment c f ts]
end

/-- asking for a document afterwards (`get_node_tree(root_node, fragment=False)`) gives the same tree as
asking for it at once (`get_node_tree(elem, fragment=False)`) — xml.etree Element roots: the dummy
document sits one position before the root and the positions stay strictly increasing. -/
theorem reget_false_eq_build_false (ns : NsMap) (f : Option Bool) (hf : f ≠ some false) (e : XTree)
    (root : PNode)
    (h : build { cfg := ⟨false, ns, f⟩, isTree := false, prolog := [], top := some e, epilog := [], path := [] } = .ok root) :
    ∃ root', build { cfg := ⟨false, ns, some false⟩, isTree := false, prolog := [], top := some e,
                     epilog := [], path := [] } = .ok root' ∧
      reget (some false) root root.pos = .ok ⟨root', root'.pos⟩ := by
  have hf' : (f == some false) = false := by simpa using hf
  simp only [build, Bool.false_eq_true, if_false, buildET] at h ⊢
  cases he : e.isElem with
  | false => simp [he] at h
  | true =>
    simp only [he, Bool.not_true, Bool.false_eq_true, if_false, hf', Except.ok.injEq] at h
    subst h
    have hb := buildOne_fragment ⟨false, ns, f⟩ (some false) e 1
    simp only at hb
    refine ⟨.doc ((buildOne ⟨false, ns, some false⟩ 1 e).1.pos - 1) [(buildOne ⟨false, ns, some false⟩ 1 e).1],
      by simp only [Bool.not_true, Bool.false_eq_true, if_false, beq_self_eq_true, if_true], ?_⟩
    rw [hb]
    cases e with
    | comment s tl => simp [XTree.isElem] at he
    | pi t s tl => simp [XTree.isElem] at he
    | elem name nsmap attrib text kids tail =>
      simp only [buildOne, PNode.pos]
      exact reget_false_elem_root _ _ _ _ _ _

/-- idempotence of the explicit forms: a second `fragment=False` returns the document again; a second
`fragment=True` the element again. -/
theorem reget_false_twice (d : Nat) (kids : List PNode) :
    reget (some false) (.doc d kids) d = .ok ⟨.doc d kids, d⟩ := reget_false_idem d kids

theorem reget_true_twice (tree : PNode) (sel : Nat) (n : PNode) (h : nodeAt tree sel = some n)
    (hd : n.isDoc = false) : reget (some true) tree sel = .ok ⟨tree, sel⟩ :=
  reget_true_nondoc tree sel n h hd

/-! ## the `namespaces` argument -/

mutual
theorem buildOne_lxml_namespaces (n0 ns : NsMap) (fr : Option Bool) : ∀ (t : XTree) (p : Nat),
    buildOne ⟨true, ns, fr⟩ p t = buildOne ⟨true, n0, fr⟩ p t
  | .elem name nsmap attrib text kids tail, p => by
    simp only [buildOne, Cfg.nsmapOf, if_true]
    rw [buildKids_lxml_namespaces n0 ns fr kids]
  | .comment s tl, p => rfl
  | .pi t s tl, p => rfl
theorem buildKids_lxml_namespaces (n0 ns : NsMap) (fr : Option Bool) : ∀ (ts : List XTree) (p : Nat),
    buildKids ⟨true, ns, fr⟩ p ts = buildKids ⟨true, n0, fr⟩ p ts
  | [], p => rfl
  | t :: ts, p => by
    simp only [buildKids]
    rw [buildOne_lxml_namespaces n0 ns fr t, buildKids_lxml_namespaces n0 ns fr ts]
end

/-- for lxml trees the `namespaces` argument is irrelevant (the in-scope maps come from the elements):
whatever is passed — prefixes that shadow, miss or contradict the document's declarations — the same
tree with the same positions is built. -/
theorem lxml_ignores_namespaces (i : Input) (hl : i.cfg.lxml = true) (ns : NsMap) :
    build { i with cfg := { i.cfg with namespaces := ns } } = build i := by
  obtain ⟨⟨lx, n0, fr⟩, isTree, pro, top, epi, path⟩ := i
  simp only at hl; subst hl
  have h1 := fun t p => buildOne_lxml_namespaces n0 ns fr t p
  simp only [build, if_true, buildLxml, buildLxmlDoc, h1]

/-! ## `fn:root` and `<<` relative to the context root (one tree) -/

/-- `XPathContext.get_root(node)` with the built tree's root as context root is the tree root for every
node: `fn:root($n)` is the spec's answer. -/
theorem get_root_built_node (root : PNode) (L : LazyState) (node : Nat) :
    ctxGetRoot root (some root.pos) L node = some root.pos :=
  ctxGetRoot_root root L node

/-- `get_root` for ANY context root of the tree (document, top element, inner element) is total: the
context root exactly for the nodes its `iter_lazy()` meets, the root of the tree for every other node
of the tree (formerly finding F02e: the empty sequence). -/
theorem get_root_any_context_root (root : PNode) (cr : Nat) (sub : PNode) (hsub : nodeAt root cr = some sub)
    (L : LazyState) (node : Nat) :
    ctxGetRoot root (some cr) L node =
      if node ∈ ((iterNode none sub).filter (keep L)).map (·.pos) then some cr else some root.pos := by
  unfold ctxGetRoot
  simp only [hsub, lazyNode_filter, List.contains_iff_mem]

/-- a context without root (`XPathContext(item=node)`): the root of the node's tree (formerly `()`) -/
theorem get_root_item_only (root : PNode) (L : LazyState) (node : Nat) :
    ctxGetRoot root none L node = some root.pos := rfl

/-- test on a literal: context root = inner element `y` (position 4) of `<x><y/></x>`: `root(.)` is the
context root, `root(..)` the document -/
example :
    let t : XTree := .elem "x" [] [] none [.elem "y" [] [] none [] none] none
    let i : Input := { cfg := { lxml := false, namespaces := [], fragment := none }, isTree := true,
                       prolog := [], top := some t, epilog := [], path := [] }
    ((build i).toOption.map fun r => (ctxGetRoot r (some 4) ⟨[], []⟩ 4, ctxGetRoot r (some 4) ⟨[], []⟩ 2))
      = some (some 4, some 1) := by decide

/-- `$a << $b` / `$a >> $b` for two different nodes of one tree, for ANY context root or none: position
comparison (formerly F02e: wrong or FOCA0002 when an operand was outside the context root's subtree);
with `build_positions_strict` this is document order. -/
theorem ctx_precedes_position (root : PNode) (cr : Option Nat) (a b : Nat) (hab : a ≠ b) :
    ctxPrecedes root cr false a b = some (decide (a < b)) ∧
    ctxPrecedes root cr true a b = some (decide (b < a)) := by
  have hne : (a == b) = false := by simpa using hab
  simp [ctxPrecedes, hne]

/-! ## nodes of several trees (context tree, documents, variables, fn:doc, fn:parse-xml) -/

open EPV.Forest in
/-- CROSS-TREE ORDER.  A node is (tree key, position); the tree key is implementation-dependent and
fixed while the trees are alive.  Whatever order the Python `set` enumerates a node set in (`l'` any
permutation), sorting by `node_position` yields the ONE list of these nodes that is strictly
increasing in (tree key, position): the result is deterministic — stable across the evaluation. -/
theorem forest_sort_eq (s l' : List FNode) (hs : s.Pairwise keyLt) (hp : l'.Perm s) : fSort l' = s :=
  fSort_eq s l' hs hp

open EPV.Forest in
/-- … the trees are kept apart (XDM 2.4: if a node of T1 precedes a node of T2, every node of T1 precedes
every node of T2): along the result the tree keys never decrease, so between two nodes of one tree
there is no node of another tree. -/
theorem forest_sort_trees_apart (l : List FNode) :
    (fSort l).Pairwise (fun a b => a.1 ≤ b.1) ∧
    ∀ (xs ys zs : List FNode) (a b c : FNode), fSort l = xs ++ a :: ys ++ b :: zs ++ [c] → a.1 = c.1 → b.1 = a.1 := by
  have hp := fSort_pairwise l
  have h1 : (fSort l).Pairwise (fun a b => a.1 ≤ b.1) := by
    refine hp.imp ?_
    intro a b h
    unfold keyLe at h
    simp only [Bool.or_eq_true, Bool.and_eq_true, decide_eq_true_eq, beq_iff_eq] at h
    omega
  refine ⟨h1, ?_⟩
  intro xs ys zs a b c heq hac
  rw [heq] at h1
  simp only [List.append_assoc, List.cons_append, List.pairwise_append, List.pairwise_cons,
    List.mem_append, List.mem_cons] at h1
  have hab : a.1 ≤ b.1 := h1.2.1.1 b (Or.inr (Or.inl rfl))
  have hbc : b.1 ≤ c.1 := by
    have := h1.2.1.2.2.1
    exact this.1 c (Or.inr (by simp))
  omega

open EPV.Forest in
/-- … and inside each tree the order is document order (positions never decrease; strictly increase for
duplicate-free input) -/
theorem forest_sort_within_tree (l : List FNode) (k : Nat) :
    (((fSort l).filter (fun a => a.1 == k)).map (·.2)).Pairwise (· ≤ ·) := by
  have hp := (fSort_pairwise l).filter (fun a => a.1 == k)
  rw [List.pairwise_map]
  refine List.Pairwise.imp_of_mem ?_ hp
  intro a b ha hb h
  have hak : a.1 = k := by simpa using (List.mem_filter.1 ha).2
  have hbk : b.1 = k := by simpa using (List.mem_filter.1 hb).2
  unfold keyLe at h
  simp only [Bool.or_eq_true, Bool.and_eq_true, decide_eq_true_eq, beq_iff_eq] at h
  omega

open EPV.Forest in
/-- `<<` / `>>` agree with that order: whenever an answer is given it is the comparison of the sort keys
(positions inside one tree); an answer IS given for two nodes of one tree and whenever one of the trees is
the context tree or a document variable; `$a << $b` and `$b << $a` are never both true. -/
theorem forest_precedes_consistent (walked : List Nat) (a b : FNode) (hab : a ≠ b) :
    (∀ r, fPrecedes walked false a b = some r → r = decide (keyLt a b)) ∧
    (a.1 = b.1 → fPrecedes walked false a b = some (decide (a.2 < b.2))) ∧
    (walked.contains a.1 = true ∨ walked.contains b.1 = true → fPrecedes walked false a b ≠ none) ∧
    ¬ (fPrecedes walked false a b = some true ∧ fPrecedes walked false b a = some true) := by
  have hne : (a == b) = false := by simpa using hab
  have hne' : (b == a) = false := by simpa using (Ne.symm hab)
  refine ⟨?_, ?_, ?_, ?_⟩
  · intro r h
    unfold fPrecedes at h
    simp only [hne, Bool.false_eq_true, if_false] at h
    split at h
    · simpa using h.symm
    · split at h
      · simpa using h.symm
      · cases h
  · intro hk
    unfold fPrecedes
    simp only [hne, Bool.false_eq_true, if_false, hk, beq_self_eq_true, if_true, Option.some.injEq,
      decide_eq_decide, keyLt]
    constructor
    · intro h; rcases h with h | h
      · omega
      · exact h.2
    · intro h; exact Or.inr ⟨trivial, h⟩
  · intro hw
    unfold fPrecedes
    simp only [hne, Bool.false_eq_true, if_false]
    split
    · simp
    · have : (walked.contains a.1 || walked.contains b.1) = true := by
        rcases hw with h | h
        · rw [h]; rfl
        · rw [h]; exact Bool.or_true _
      rw [if_pos this]; simp
  · rintro ⟨h1, h2⟩
    have k1 : keyLt a b := by
      have := (show ∀ r, fPrecedes walked false a b = some r → r = decide (keyLt a b) from by
        intro r h
        unfold fPrecedes at h
        simp only [hne, Bool.false_eq_true, if_false] at h
        split at h
        · simpa using h.symm
        · split at h
          · simpa using h.symm
          · cases h) true h1
      simpa using this.symm
    have k2 : keyLt b a := by
      have := (show ∀ r, fPrecedes walked false b a = some r → r = decide (keyLt b a) from by
        intro r h
        unfold fPrecedes at h
        simp only [hne', Bool.false_eq_true, if_false] at h
        split at h
        · simpa using h.symm
        · split at h
          · simpa using h.symm
          · cases h) true h2
      simpa using this.symm
    unfold keyLt at k1 k2
    omega

open EPV.Forest in
/-- the tree key is needed: sorted by position alone (the key before fix-c02-5) the list
`(tree 2, 1), (tree 1, 2), (tree 2, 3)` is "in order" although tree 1 sits between two nodes of tree 2;
KNOWN FINDING F02e (what is left of it): for two nodes of two trees that are neither the context tree
nor document variables `<<` raises FOCA0002, and `fn:root` of a node of such a tree is empty when the
context has a root — both pinned by the suite. -/
theorem forest_witnesses :
    [((2, 1) : FNode), (1, 2), (2, 3)].Pairwise (fun a b => posLe a b = true) ∧
    ¬ [((2, 1) : FNode), (1, 2), (2, 3)].Pairwise (fun a b => a.1 ≤ b.1) ∧
    fPrecedes [0] false (5, 2) (7, 1) = none ∧ fPrecedes [0] false (0, 9) (7, 1) = some true ∧
    fGetRoot (some 0) false [] (7, 3) = none ∧ fGetRoot (some 0) false [7] (7, 3) = some (7, false) ∧
    fGetRoot none false [] (7, 3) = some (7, false) := by
  decide

/-! ## operands are evaluated from the operator's focus -/

/-- MODEL-LEVEL FACT.  In the model the value of `E1 op E2` at a focus depends on the two operand
values *at that same focus* only: replacing the first operand by any expression with the same value
at the focus — whatever it does elsewhere, e.g. an absolute path — cannot change what the second
operand contributes (no focus leaks from one operand into the other). -/
theorem operands_same_focus {α : Type} (op : List Nat → List Nat → α) (e1 e1' e2 : Nat → List Nat) (focus : Nat)
    (h : e1 focus = e1' focus) : opAtFocus op e1 e2 focus = opAtFocus op e1' e2 focus := by
  unfold opAtFocus; rw [h]

/-- … and with path operands the operators still agree with the spec: e.g. `E1 except E2` at a focus
of a built tree is the spec's difference of the two operand values taken at that focus. -/
theorem except_at_focus_eq_spec (i : Input) (root : PNode) (h : build i = .ok root) (e1 e2 : Nat → List Nat)
    (focus : Nat) (hx : ∀ a ∈ e1 focus, a < (iter root).length) :
    opAtFocus (opExcept (iter root)) e1 e2 focus = specExcept (iter root).length (e1 focus) (e2 focus) :=
  except_eq_spec i root h (e1 focus) (e2 focus) _ hx (List.Perm.refl _)

theorem intersect_at_focus_eq_spec (i : Input) (root : PNode) (h : build i = .ok root) (e1 e2 : Nat → List Nat)
    (focus : Nat) (hx : ∀ a ∈ e1 focus, a < (iter root).length) :
    opAtFocus (opIntersect (iter root)) e1 e2 focus = specIntersect (iter root).length (e1 focus) (e2 focus) :=
  intersect_eq_spec i root h (e1 focus) (e2 focus) _ hx (List.Perm.refl _)

/-! ## the caller's focus survives every expression of the fragment -/

open EPV.Focus in
/-- FOCUS PRESERVATION (model-level lemma).  For every expression built from restoring step selectors,
leading `/` `//`, path steps, `union` `|` `intersect` `except`, `,`, `is` `<<` `>>`, `innermost`
`outermost` `root` — at ANY focus (item, position, size, axis) — the evaluation as the implementation
performs it on the caller's mutable context (shared context for the comparisons, copies for the set
operators, save/restore for the root path) returns exactly the value obtained by evaluating every
operand at the focus of its enclosing expression, and leaves the caller's context exactly as it was. -/
theorem evalSt_spec : ∀ (e : Expr) (f : Focus), evalSt e f = (evalPure e f, f)
  | .leaf g, f => rfl
  | .rootPath e, f => by
    simp only [evalSt, evalPure, evalSt_spec e]
  | .step norm e1 e2, f => by
    simp only [evalSt, evalPure, evalSt_spec e1, evalSt_spec e2]
  | .setop op e1 e2, f => by simp only [evalSt, evalPure, evalSt_spec e1, evalSt_spec e2]
  | .cmp op e1 e2, f => by simp only [evalSt, evalPure, evalSt_spec e1, evalSt_spec e2]
  | .comma e1 e2, f => by simp only [evalSt, evalPure, evalSt_spec e1, evalSt_spec e2]
  | .scan op e, f => by simp only [evalSt, evalPure, evalSt_spec e]

open EPV.Focus in
/-- corollary: (item, position, size, axis) after = before -/
theorem focus_preserved (e : Expr) (f : Focus) : (evalSt e f).2 = f := by rw [evalSt_spec]

open EPV.Focus in
/-- corollary (why the missed seeded change became invisible): since every operand gives the focus
back, evaluating the operands of a set operator on ONE shared context instead of copies yields the
same value. -/
theorem shared_context_is_harmless (op : List Nat → List Nat → List Nat) (e1 e2 : Expr) (f : Focus) :
    cmpShared op (evalSt e1) (evalSt e2) f = evalSt (.setop op e1 e2) f := by
  simp only [cmpShared, evalSt, evalSt_spec]

open EPV.Focus in
/-- the discipline is needed: with the pre-F02g root path (item left on the document) a comparison on
the shared context sees the second operand from the wrong node — `/* is .` at item 4: the model of
the old code compares node 1 with node 0, the spec node 1 with node 4. -/
theorem root_path_leak_witness :
    let top : Sel := fun f => ([1], f)                       -- `*` below the document: the top element 1
    let self : Sel := fun f => ([f.item], f)                 -- `.`
    let f : Focus := ⟨4, 1, 1, none⟩
    (cmpShared (fun a b => a ++ b) (rootPathOld top) self f).1 = [1, 0] ∧
    evalPure (.cmp (fun a b => a ++ b) (.rootPath (.leaf fun _ => [1])) (.leaf fun i => [i])) f = [1, 4] := by
  decide

end EPV.C02

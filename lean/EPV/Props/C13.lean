/-
C13 — property theorems for the UnicodeSubset model (set algebra, canonical form).
Only statements a reader needs; helper lemmas live in EPV/Lemmas/USet*.lean.

Reading guide
* `memL x l`       : the set denoted by the representation list `l`
* `WInv l`         : sorted, non-overlapping, non-empty entries (entries may touch)
* `Canon l`        : `WInv` + merged (gap ≥ 1 between entries) + singletons stored as `one`
* `add/discard/…`  : transcriptions of the Python methods (EPV/Model/UnicodeSubset.lean)
-/
import EPV.Lemmas.USetAdd
import EPV.Lemmas.USetDiscard
namespace EPV.C13
open EPV.USet

/-- `add` is set union with the argument — every list satisfying the weak invariant, every argument. -/
theorem add_mem (v : CP) (l : List CP) (hv : v.lo < v.hi) (hw : WInv l) (x : Nat) :
    memL x (add v l) ↔ (memL x l ∨ v.mem x) :=
  addAux_mem v l v.lo v.hi hv hw (Or.inl ⟨rfl, rfl⟩) x

/-- `add` preserves sortedness / disjointness. -/
theorem add_winv (v : CP) (l : List CP) (hv : v.lo < v.hi) (hw : WInv l) : WInv (add v l) :=
  addAux_winv v hv l v.lo v.hi hv hw (Or.inl ⟨rfl, rfl⟩)

/-- `discard` is set difference with the argument. -/
theorem discard_mem (v : CP) (l : List CP) (hv : v.lo < v.hi) (hw : WInv l) (x : Nat) :
    memL x (discard v l) ↔ (memL x l ∧ ¬ v.mem x) :=
  (discardAux_spec v.lo v.hi hv l hw).1 x

theorem discard_winv (v : CP) (l : List CP) (hv : v.lo < v.hi) (hw : WInv l) : WInv (discard v l) :=
  (discardAux_spec v.lo v.hi hv l hw).2.1

/-- `discard` keeps the canonical (merged) form. -/
theorem discard_canon (v : CP) (l : List CP) (hv : v.lo < v.hi) (hc : Canon l) : Canon (discard v l) :=
  discardAux_canon v.lo v.hi hv l hc

/-- PARTIAL (known finding F13): `add` keeps the canonical form only when `addSafe v l`, i.e. the
stored argument is not a one-element range and the extended entry does not reach the next one.
The full statement `Canon l → Canon (add v l)` is false: see `add_canon_fails_*` below. -/
theorem add_canon_partial (v : CP) (l : List CP) (hv : v.canon) (hc : Canon l)
    (hs : addSafe v l = true) : Canon (add v l) :=
  addAux_canon_safe v hv l hc hs

/-- F13b: canonical list, canonical argument, result has touching unmerged entries. -/
theorem add_canon_fails_touching :
    Canon [.rng 1 3, .rng 5 7] ∧ CP.canon (.rng 2 9) ∧
    add (.rng 2 9) [.rng 1 3, .rng 5 7] = [.rng 1 5, .rng 5 9] ∧
    ¬ Canon (add (.rng 2 9) [.rng 1 3, .rng 5 7]) := by decide

/-- F13b': adding the code point between two entries leaves them unmerged. -/
theorem add_canon_fails_bridge :
    Canon [.rng 1 3, .rng 4 6] ∧ add (.one 3) [.rng 1 3, .rng 4 6] = [.rng 1 4, .rng 4 6] ∧
    ¬ Canon (add (.one 3) [.rng 1 3, .rng 4 6]) := by decide

/-- F13a: a one-element range is stored as given, so two representations of `{5}` exist. -/
theorem add_canon_fails_unit_range :
    add (.rng 5 6) [] = [.rng 5 6] ∧ add (.one 5) [] = [.one 5] ∧ ¬ Canon (add (.rng 5 6) []) := by decide

/-- the hypotheses of the partial theorem are satisfiable on a non-trivial state -/
example : Canon [.rng 1 3, .rng 7 9] ∧ CP.canon (.rng 2 5) ∧ addSafe (.rng 2 5) [.rng 1 3, .rng 7 9] = true ∧
    add (.rng 2 5) [.rng 1 3, .rng 7 9] = [.rng 1 5, .rng 7 9] := by decide

end EPV.C13

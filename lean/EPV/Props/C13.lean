/-
C13 — property theorems for the UnicodeSubset model (set algebra, canonical form).
Only statements a reader needs; helper lemmas live in EPV/Lemmas/USet*.lean.

Reading guide
* `memL x l`       : the set denoted by the representation list `l`
* `WInv l`         : sorted, non-overlapping, non-empty entries (entries may touch)
* `Canon l`        : `WInv` + merged (gap ≥ 1 between entries) + singletons stored as `one`
* `add/discard/…`  : transcriptions of the Python methods (EPV/Model/UnicodeSubset.lean)
-/
import EPV.Lemmas.USetOps
import EPV.Lemmas.USetCompl
import EPV.Lemmas.USetExt
import EPV.Lemmas.USetIcp
import EPV.Lemmas.USetEq
namespace EPV.C13
open EPV.USet

/-- `add` is set union with the argument — every list satisfying the weak invariant, every argument. -/
theorem add_mem (v : CP) (l : List CP) (hv : v.lo < v.hi) (hw : WInv l) (x : Nat) :
    memL x (add v l) ↔ (memL x l ∨ v.mem x) :=
  addAux_mem v l v.lo v.hi hv hw (Or.inl ⟨rfl, rfl⟩) x

/-- `add` preserves sortedness / disjointness. -/
theorem add_winv (v : CP) (l : List CP) (hv : v.lo < v.hi) (hw : WInv l) : WInv (add v l) :=
  addAux_winv v hv l v.lo v.hi hv hw (Or.inl ⟨rfl, rfl⟩)

/-- `discard` is set difference with the argument. -/
theorem discard_mem (v : CP) (l : List CP) (hv : v.lo < v.hi) (hw : WInv l) (x : Nat) :
    memL x (discard v l) ↔ (memL x l ∧ ¬ v.mem x) :=
  (discardAux_spec v.lo v.hi hv l hw).1 x

theorem discard_winv (v : CP) (l : List CP) (hv : v.lo < v.hi) (hw : WInv l) : WInv (discard v l) :=
  (discardAux_spec v.lo v.hi hv l hw).2.1

/-- `discard` keeps the canonical (merged) form. -/
theorem discard_canon (v : CP) (l : List CP) (hv : v.lo < v.hi) (hc : Canon l) : Canon (discard v l) :=
  discardAux_canon v.lo v.hi hv l hc

/-- PARTIAL (known finding F13): `add` keeps the canonical form only when `addSafe v l`, i.e. the
stored argument is not a one-element range and the extended entry does not reach the next one.
The full statement `Canon l → Canon (add v l)` is false: see `add_canon_fails_*` below. -/
theorem add_canon_partial (v : CP) (l : List CP) (hv : v.canon) (hc : Canon l)
    (hs : addSafe v l = true) : Canon (add v l) :=
  addAux_canon_safe v hv l hc hs

/-- F13b: canonical list, canonical argument, result has touching unmerged entries. -/
theorem add_canon_fails_touching :
    Canon [.rng 1 3, .rng 5 7] ∧ CP.canon (.rng 2 9) ∧
    add (.rng 2 9) [.rng 1 3, .rng 5 7] = [.rng 1 5, .rng 5 9] ∧
    ¬ Canon (add (.rng 2 9) [.rng 1 3, .rng 5 7]) := by decide

/-- F13b': adding the code point between two entries leaves them unmerged. -/
theorem add_canon_fails_bridge :
    Canon [.rng 1 3, .rng 4 6] ∧ add (.one 3) [.rng 1 3, .rng 4 6] = [.rng 1 4, .rng 4 6] ∧
    ¬ Canon (add (.one 3) [.rng 1 3, .rng 4 6]) := by decide

/-- F13a: a one-element range is stored as given, so two representations of `{5}` exist. -/
theorem add_canon_fails_unit_range :
    add (.rng 5 6) [] = [.rng 5 6] ∧ add (.one 5) [] = [.one 5] ∧ ¬ Canon (add (.rng 5 6) []) := by decide

/-- the hypotheses of the partial theorem are satisfiable on a non-trivial state -/
example : Canon [.rng 1 3, .rng 7 9] ∧ CP.canon (.rng 2 5) ∧ addSafe (.rng 2 5) [.rng 1 3, .rng 7 9] = true ∧
    add (.rng 2 5) [.rng 1 3, .rng 7 9] = [.rng 1 5, .rng 7 9] := by decide


/-- `__contains__` (with its early exits) decides membership on every sorted list. -/
theorem contains_iff_mem (x : Nat) (l : List CP) (hw : WInv l) : contains x l = true ↔ memL x l :=
  contains_iff x l hw

/-- iteration yields exactly the members, in strictly increasing order (hence `len` = cardinality). -/
theorem iter_sorted_members (l : List CP) (hw : WInv l) :
    (iter l).Pairwise (· < ·) ∧ ∀ x, x ∈ iter l ↔ memL x l :=
  ⟨iter_pairwise l hw, fun x => mem_iter x l⟩

/-- argument well-formedness of one protocol operation (what `add`/`discard` accept, resp. the
operand being a sorted `UnicodeSubset`) -/
def OpOk : Op → Prop
  | .add v | .discard v => v.lo < v.hi
  | .ior o | .isub o | .iand o | .ixor o => WInv o

/-- **one step refines the set-level operation** (`|=` union, `-=` difference, `&=` intersection,
`^=` symmetric difference, add, discard) and keeps the representation invariant. -/
theorem step_refines (l : List CP) (op : Op) (hw : WInv l) (hop : OpOk op) :
    WInv (step l op) ∧ ∀ x, memL x (step l op) ↔ specStep (fun y => memL y l) op x := by
  cases op with
  | add v => exact ⟨add_winv v l hop hw, fun x => add_mem v l hop hw x⟩
  | discard v => exact ⟨discard_winv v l hop hw, fun x => discard_mem v l hop hw x⟩
  | ior o =>
    obtain ⟨h1, h2⟩ := foldl_add o.reverse (allValid_reverse (winv_allValid hop)) l hw
    refine ⟨h1, fun x => ?_⟩
    simp only [step, ior, specStep, h2 x, memL_iff_exists x o, List.mem_reverse]
  | isub o =>
    obtain ⟨h1, h2⟩ := foldl_discard o.reverse (allValid_reverse (winv_allValid hop)) l hw
    refine ⟨h1, fun x => ?_⟩
    simp only [step, isub, specStep, h2 x, memL_iff_exists x o, List.mem_reverse]
  | iand o =>
    obtain ⟨h1, h2⟩ := foldl_discard o.reverse (allValid_reverse (winv_allValid hop)) l hw
    have hv : AllValid ((iter (isub l o)).map CP.one) := by
      intro v hv; obtain ⟨n, _, rfl⟩ := List.mem_map.mp hv; simp
    obtain ⟨h3, h4⟩ := foldl_discard _ hv l hw
    simp only [step, iand, foldl_discard_one]
    refine ⟨h3, fun x => ?_⟩
    rw [h4 x]
    simp only [specStep]
    have hi : ∀ n, n ∈ iter (isub l o) ↔ (memL n l ∧ ¬ memL n o) := by
      intro n; rw [mem_iter]; simp only [isub, h2 n, memL_iff_exists n o, List.mem_reverse]
    constructor
    · rintro ⟨hl, hne⟩
      refine ⟨hl, ?_⟩
      apply Classical.byContradiction
      intro hno
      exact hne ⟨.one x, List.mem_map.mpr ⟨x, (hi x).mpr ⟨hl, hno⟩, rfl⟩, by simp [CP.mem]⟩
    · rintro ⟨hl, ho⟩
      refine ⟨hl, ?_⟩
      rintro ⟨v, hv', hx⟩
      obtain ⟨n, hn, rfl⟩ := List.mem_map.mp hv'
      simp only [CP.mem, CP.lo_one, CP.hi_one] at hx
      have : n = x := by omega
      subst this
      exact ((hi n).mp hn).2 ho
  | ixor o =>
    obtain ⟨h1, h2⟩ := foldl_xor (iter o) (iter_nodup o hop) l hw
    refine ⟨h1, fun x => ?_⟩
    simp only [step, ixor, specStep, h2 x, mem_iter]

/-- **any sequence of operations refines the set algebra**: starting from any sorted list, after
any list of well-formed operations the model list still satisfies the invariant and denotes
exactly the set obtained by running the mathematical operations. -/
theorem run_refines (ops : List Op) : ∀ (l : List CP), WInv l → (∀ op ∈ ops, OpOk op) →
    WInv (run ops l) ∧ ∀ x, memL x (run ops l) ↔ (ops.foldl specStep (fun y => memL y l)) x := by
  induction ops with
  | nil => intro l hw _; exact ⟨hw, fun x => Iff.rfl⟩
  | cons op ops ih =>
    intro l hw hok
    obtain ⟨h1, h2⟩ := step_refines l op hw (hok op (List.mem_cons_self ..))
    obtain ⟨h3, h4⟩ := ih (step l op) h1 (fun o ho => hok o (List.mem_cons_of_mem _ ho))
    refine ⟨h3, fun x => ?_⟩
    simp only [run, List.foldl_cons] at h4 ⊢
    rw [h4 x]
    have : (fun y => memL y (step l op)) = specStep (fun y => memL y l) op := by
      funext y; exact propext (h2 y)
    rw [this]

/-- `complement()` never raises on a sorted bounded list and yields exactly the non-members. -/
theorem complement_mem (l : List CP) (hw : WInv l) (hb : ∀ c ∈ l, c.hi ≤ maxCP1) :
    ∃ r, complement l = some r ∧ ∀ x, memL x r ↔ (x < maxCP1 ∧ ¬ memL x l) := by
  obtain ⟨r, hr, hm⟩ := complementAux_spec l 0 hw
    (by cases l <;> simp [headLoGe]) hb (by simp [maxCP1])
  exact ⟨r, hr, fun x => by rw [hm x]; simp⟩

/-- **equality is extensional on canonical lists** (`==` compares the lists). -/
theorem canonical_eq_iff_same_set (a b : List CP) (ha : Canon a) (hb : Canon b) :
    a = b ↔ ∀ x, memL x a ↔ memL x b :=
  ⟨fun h x => by rw [h], canon_ext a b ha hb⟩

/-- sequences made of `discard`, `-=` and `&=` keep the canonical form (only `add` can break it: F13) -/
theorem removal_ops_canon (l : List CP) (hc : Canon l) :
    (∀ v, v.lo < v.hi → Canon (discard v l)) ∧
    (∀ o, WInv o → Canon (isub l o)) ∧ (∀ o, WInv o → Canon (iand l o)) := by
  refine ⟨fun v hv => discard_canon v l hv hc, fun o ho => ?_, fun o ho => ?_⟩
  · exact foldl_discard_canon _ (allValid_reverse (winv_allValid ho)) l hc
  · simp only [iand, foldl_discard_one]
    apply foldl_discard_canon _ _ l hc
    intro v hv; obtain ⟨n, _, rfl⟩ := List.mem_map.mp hv; simp

/-- `iter_code_points` (used by `update`, `difference_update`, `|=`/`-=` with plain iterables and the
`str`/iterable constructor): whatever the order and overlaps of the input entries, the merged output
denotes their union and consists of non-empty entries. -/
theorem iter_code_points_mem (reverse : Bool) (o : List CP) (ho : AllValid o) :
    AllValid (iterCodePoints reverse o) ∧ ∀ x, memL x (iterCodePoints reverse o) ↔ memL x o :=
  ⟨iterCodePoints_allValid reverse o ho, iterCodePoints_mem reverse o ho⟩

/-- **`update(iterable)` is union and `difference_update(iterable)` is difference**, for ANY list of
valid entries (unsorted, overlapping, repeated), and both keep the representation invariant.
The same statement covers `|=` / `-=` with a plain iterable operand (`iorList`, `isubList`). -/
theorem update_refines (l o : List CP) (hw : WInv l) (ho : AllValid o) :
    (WInv (update l o) ∧ ∀ x, memL x (update l o) ↔ (memL x l ∨ memL x o)) ∧
    (WInv (differenceUpdate l o) ∧ ∀ x, memL x (differenceUpdate l o) ↔ (memL x l ∧ ¬ memL x o)) := by
  have hv := iterCodePoints_allValid true o ho
  have hm := iterCodePoints_mem true o ho
  obtain ⟨a1, a2⟩ := foldl_add _ hv l hw
  obtain ⟨d1, d2⟩ := foldl_discard _ hv l hw
  refine ⟨⟨a1, fun x => ?_⟩, ⟨d1, fun x => ?_⟩⟩
  · simp only [update, a2 x, ← memL_iff_exists, hm x]
  · simp only [differenceUpdate, d2 x, ← memL_iff_exists, hm x]

/-- `&=` with a plain iterable operand is intersection -/
theorem iand_list_refines (l o : List CP) (hw : WInv l) (ho : AllValid o) :
    WInv (iandList l o) ∧ ∀ x, memL x (iandList l o) ↔ (memL x l ∧ memL x o) := by
  obtain ⟨⟨_, _⟩, ⟨d1, d2⟩⟩ := update_refines l o hw ho
  have hv : AllValid ((iter (differenceUpdate l o)).map CP.one) := by
    intro v hv; obtain ⟨n, _, rfl⟩ := List.mem_map.mp hv; simp
  obtain ⟨h3, h4⟩ := foldl_discard _ hv l hw
  simp only [iandList, foldl_discard_one]
  refine ⟨h3, fun x => ?_⟩
  rw [h4 x]
  have hi : ∀ n, n ∈ iter (differenceUpdate l o) ↔ (memL n l ∧ ¬ memL n o) := by
    intro n; rw [mem_iter, d2 n]
  constructor
  · rintro ⟨hl, hne⟩
    refine ⟨hl, ?_⟩
    apply Classical.byContradiction
    intro hno
    exact hne ⟨.one x, List.mem_map.mpr ⟨x, (hi x).mpr ⟨hl, hno⟩, rfl⟩, by simp [CP.mem]⟩
  · rintro ⟨hl, ho'⟩
    refine ⟨hl, ?_⟩
    rintro ⟨v, hv', hx⟩
    obtain ⟨n, hn, rfl⟩ := List.mem_map.mp hv'
    simp only [CP.mem, CP.lo_one, CP.hi_one] at hx
    have : n = x := by omega
    subst this
    exact ((hi n).mp hn).2 ho'

/-- `UnicodeSubset(list)` (after the F13d repair) is canonical and denotes the union of the list's
entries, whatever their order and overlaps -/
theorem of_list_canon (o : List CP) (ho : AllValid o) :
    Canon (ofList o) ∧ ∀ x, memL x (ofList o) ↔ memL x o :=
  ⟨iterCodePoints_canon o ho, iterCodePoints_mem false o ho⟩

/-- **`^=` with a plain list operand is the symmetric difference** with the union of the operand's
entries, for ANY list of valid entries (unsorted, overlapping, repeated), and keeps the invariant.
(Before the repair of the list constructor this held only for non-overlapping operands: F13d.) -/
theorem ixor_list_refines (l o : List CP) (hw : WInv l) (ho : AllValid o) :
    WInv (ixorList l o) ∧
    ∀ x, memL x (ixorList l o) ↔ ((memL x l ∧ ¬ memL x o) ∨ (¬ memL x l ∧ memL x o)) := by
  obtain ⟨hc, hm⟩ := of_list_canon o ho
  obtain ⟨h1, h2⟩ := step_refines l (.ixor (ofList o)) hw (canon_winv hc)
  refine ⟨h1, fun x => ?_⟩
  have := h2 x
  simp only [step, specStep] at this
  rw [ixorList, this, hm x]

/-- regression of the F13d witness: the overlap 3, 4 is toggled once -/
example : ∀ x, memL x (ixorList [.rng 0 10] [.rng 1 5, .rng 3 7]) ↔
    ((memL x [.rng 0 10] ∧ ¬ memL x [.rng 1 5, .rng 3 7]) ∨ (¬ memL x [.rng 0 10] ∧ memL x [.rng 1 5, .rng 3 7])) :=
  (ixor_list_refines _ _ (by decide) (by intro v hv; simp at hv; rcases hv with rfl | rfl <;> simp)).2

/-- non-vacuity of `run_refines`: a concrete non-trivial run (a test, not the theorem) -/
example : run [.add (.rng 2 9), .discard (.one 4), .ixor [.rng 0 3]] [.rng 1 3, .rng 5 7]
    = [.one 0, .one 3, .rng 5 9] := by decide


/-- **operand = the subset itself**: `s |= s` and `s &= s` leave the set as it is, `s -= s` and
`s ^= s` empty it; the invariant is kept. -/
theorem self_operand_refines (l : List CP) (hw : WInv l) :
    (WInv (iorSelf l) ∧ ∀ x, memL x (iorSelf l) ↔ memL x l) ∧
    (WInv (isubSelf l) ∧ ∀ x, ¬ memL x (isubSelf l)) ∧
    (WInv (iandSelf l) ∧ ∀ x, memL x (iandSelf l) ↔ memL x l) ∧
    (∀ x, ¬ memL x (ixorSelf l)) := by
  obtain ⟨a1, a2⟩ := step_refines l (.ior l) hw hw
  obtain ⟨b1, b2⟩ := step_refines l (.isub l) hw hw
  obtain ⟨c1, c2⟩ := step_refines l (.iand l) hw hw
  refine ⟨⟨a1, fun x => ?_⟩, ⟨b1, fun x => ?_⟩, ⟨c1, fun x => ?_⟩, fun x h => h⟩
  · have := a2 x; simp only [step, specStep] at this; rw [iorSelf, this]; exact or_self_iff
  · have := b2 x; simp only [step, specStep] at this; rw [isubSelf, this]; exact fun h => h.2 h.1
  · have := c2 x; simp only [step, specStep] at this; rw [iandSelf, this]; exact and_self_iff

/-- **reflected difference** `iterable - s` is the iterable's set minus `s`, for any list of valid
entries on the left (unsorted, overlapping) -/
theorem rsub_list_refines (l o : List CP) (hw : WInv l) (ho : AllValid o) :
    WInv (rsubList l o) ∧ ∀ x, memL x (rsubList l o) ↔ (memL x o ∧ ¬ memL x l) := by
  obtain ⟨⟨u1, u2⟩, _⟩ := update_refines [] o (by simp [WInv]) ho
  obtain ⟨b1, b2⟩ := step_refines (update [] o) (.isub l) u1 hw
  refine ⟨b1, fun x => ?_⟩
  have := b2 x
  simp only [step, specStep] at this
  rw [rsubList, this, u2 x]
  simp [memL]


/-- **Equality is extensional for every representation** (`__eq__` after the repair compares the
merged forms): for ANY two lists of non-empty entries — canonical or not, sorted or not, e.g. what
`add` leaves behind (finding F13) — `a == b` holds exactly when they contain the same code points. -/
theorem eq_extensional (a b : List CP) (ha : AllValid a) (hb : AllValid b) :
    eqSubset a b = true ↔ ∀ x, memL x a ↔ memL x b :=
  eqSubset_iff a b ha hb

/-- the F13 witnesses now compare equal to their merged forms -/
example : eqSubset [.rng 19 22, .one 22] [.rng 19 23] = true :=
  (eq_extensional _ _ (by intro v hv; simp at hv; rcases hv with rfl | rfl <;> simp)
    (by intro v hv; simp at hv; subst hv; simp)).mpr
    (fun x => by
      simp only [memL, CP.mem, CP.lo_rng, CP.hi_rng, CP.lo_one, CP.hi_one, or_false]
      constructor <;> intro h <;> omega)

end EPV.C13

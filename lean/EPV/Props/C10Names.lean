/-
C10 — the XML-name family (xs:NCName, xs:ID, xs:IDREF, xs:ENTITY, xs:Name, xs:NMTOKEN).  The constructors match
Python-`re` character classes built on `\w` / `\d`; the translator enumerates them from the live patterns into
`EPV.Gen.C10.{ncname,name,nmtoken}{First,Later}`.  The specification is XML 1.0 (Fifth Edition) NameStartChar /
NameChar (`XSD.nameStartNoColon`, `XSD.nameCharNoColon`).  The two classifications differ on many code points
(finding F10n) on the tree before fix-c10-4; the `_partial` lemmas carry the hypothesis that the characters of the string are
classified alike, `name_tables_agree` discharges it for every string now that the patterns are the productions.
-/
import EPV.Gen.C10Tables
import EPV.Lemmas.LexicalStrip
import EPV.Lemmas.LexicalRanges
namespace EPV.C10
open EPV EPV.LexLemmas EPV.Gen.C10

/-- the characters of `t` are classified alike by the code's tables and by the XML productions:
first character against the first-position tables, the others against the later-position tables -/
def classifiedAlike (first later specFirst specLater : List (Nat × Nat)) : List Char → Bool
  | [] => true
  | c :: r => (Lex.inRanges first c == XSD.inSet specFirst c) &&
      r.all (fun x => Lex.inRanges later x == XSD.inSet specLater x)

/-- the shape shared by the three productions: one character of the first set, then characters of the second -/
def specNameLike (specFirst specLater : List (Nat × Nat)) : List Char → Bool
  | [] => false
  | c :: r => XSD.inSet specFirst c && r.all (XSD.inSet specLater)

theorem all_congr_mem {p q : Char → Bool} : (r : List Char) → (∀ x ∈ r, p x = q x) → r.all p = r.all q
  | [], _ => rfl
  | x :: r, h => by
    simp only [List.all_cons, h x (List.mem_cons_self ..),
      all_congr_mem r (fun y hy => h y (List.mem_cons_of_mem _ hy))]

theorem nameLike_eq (first later specFirst specLater : List (Nat × Nat)) (t : List Char)
    (h : classifiedAlike first later specFirst specLater t = true) :
    Lex.matchNameLike first later t = specNameLike specFirst specLater t := by
  cases t with
  | nil => rfl
  | cons c r =>
    simp only [classifiedAlike, Bool.and_eq_true, beq_iff_eq, List.all_eq_true] at h
    simp only [Lex.matchNameLike, specNameLike, h.1, all_congr_mem r h.2]

/-- lemma (pointwise form, used by `ncname_ctor_iff_lexical`) **ctor_iff_lexical (xs:NCName, xs:ID, xs:IDREF, xs:ENTITY)**: for strings whose
collapsed form is classified alike, the constructor succeeds exactly on the NCNames of Namespaces in XML (XML 1.0
5th edition name characters without the colon), value = the collapsed string.  Full statement (false, see
`name_tables_deviate`): the same without the hypothesis. -/
theorem ncname_ctor_iff_lexical_partial (s : List Char)
    (h : classifiedAlike ncnameFirst ncnameLater XSD.nameStartNoColon XSD.nameCharNoColon (XSD.wsCollapse s) = true) :
    Lex.nameCtor ncnameFirst ncnameLater s =
      if XSD.ncNameLex (XSD.wsCollapse s) then some (XSD.wsCollapse s) else none := by
  unfold Lex.nameCtor
  rw [collapse_eq_wsCollapse_all, nameLike_eq _ _ _ _ _ h]
  congr 1

/-- lemma (pointwise form) **ctor_iff_lexical (xs:Name)** -/
theorem name_ctor_iff_lexical_partial (s : List Char)
    (h : classifiedAlike nameFirst nameLater (XSD.nameStartNoColon ++ XSD.colon) (XSD.nameCharNoColon ++ XSD.colon)
      (XSD.wsCollapse s) = true) :
    Lex.nameCtor nameFirst nameLater s =
      if XSD.nameLex (XSD.wsCollapse s) then some (XSD.wsCollapse s) else none := by
  unfold Lex.nameCtor
  rw [collapse_eq_wsCollapse_all, nameLike_eq _ _ _ _ _ h]
  congr 1

/-- lemma (pointwise form) **ctor_iff_lexical (xs:NMTOKEN)** -/
theorem nmtoken_ctor_iff_lexical_partial (s : List Char)
    (h : classifiedAlike nmtokenFirst nmtokenLater (XSD.nameCharNoColon ++ XSD.colon) (XSD.nameCharNoColon ++ XSD.colon)
      (XSD.wsCollapse s) = true) :
    Lex.nameCtor nmtokenFirst nmtokenLater s =
      if XSD.nmtokenLex (XSD.wsCollapse s) then some (XSD.wsCollapse s) else none := by
  unfold Lex.nameCtor
  rw [collapse_eq_wsCollapse_all, nameLike_eq _ _ _ _ _ h]
  congr 1

/-! ### xs:QName -/

/-- every character of `t` is classified alike in every position -/
def alikeEverywhere (t : List Char) : Bool :=
  t.all fun c => (Lex.inRanges qnameFirst c == XSD.inSet XSD.nameStartNoColon c) &&
    (Lex.inRanges qnameLater c == XSD.inSet XSD.nameCharNoColon c)

/-- the prefix tables are the local-name tables (the pattern uses the same classes twice) -/
theorem qname_prefix_tables : qnamePFirst = qnameFirst ∧ qnamePLater = qnameLater := by decide +kernel

theorem colon_not_name : XSD.inSet XSD.nameStartNoColon ':' = false ∧ XSD.inSet XSD.nameCharNoColon ':' = false := by
  decide

theorem ncName_colon_false : (t : List Char) → ':' ∈ t → XSD.ncNameLex t = false
  | c :: r, h => by
    simp only [XSD.ncNameLex]
    rcases List.mem_cons.1 h with h | h
    · rw [← h, colon_not_name.1]; rfl
    · have : r.all (XSD.inSet XSD.nameCharNoColon) = false := by
        apply Bool.eq_false_iff.2
        intro ha
        have := List.all_eq_true.1 ha _ h
        rw [colon_not_name.2] at this
        exact Bool.noConfusion this
      rw [this, Bool.and_false]

/-- the splits at a colon, against a pair of predicates of which the first rejects every string with a colon -/
theorem any_colonSplits (Q : List Char → Bool) : (t : List Char) → (P : List Char → Bool) →
    (∀ x, ':' ∈ x → P x = false) →
    (XSD.colonSplits t).any (fun pl => P pl.1 && Q pl.2) =
      (t.contains ':' && (P (t.takeWhile (· != ':')) && Q ((t.dropWhile (· != ':')).drop 1)))
  | [], P, _ => rfl
  | c :: r, P, hP => by
    by_cases hc : c = ':'
    · subst hc
      have h2 : ((XSD.colonSplits r).map fun pl => (':' :: pl.1, pl.2)).any (fun pl => P pl.1 && Q pl.2) = false := by
        apply Bool.eq_false_iff.2
        intro ha
        rcases List.any_eq_true.1 ha with ⟨pl, hm, hv⟩
        rcases List.mem_map.1 hm with ⟨q, _, rfl⟩
        rw [hP _ (List.mem_cons_self ..)] at hv
        exact Bool.noConfusion hv
      simp only [XSD.colonSplits, beq_self_eq_true, if_true, List.any_append, h2, Bool.or_false, List.any_cons, List.any_nil,
        List.contains_cons, Bool.true_or, Bool.true_and, List.takeWhile_cons, List.dropWhile_cons, bne_self_eq_false,
        Bool.false_eq_true, if_false, List.drop_succ_cons, List.drop_zero]
    · have hb : (c == ':') = false := by simpa using hc
      have hb' : (':' == c) = false := by simpa using (fun h => hc h.symm)
      have hn : (c != ':') = true := by simp [hc]
      have ih := any_colonSplits Q r (fun x => P (c :: x)) (fun x hx => hP _ (List.mem_cons_of_mem _ hx))
      simp only [XSD.colonSplits, hb, Bool.false_eq_true, if_false, List.nil_append, List.any_map, List.contains_cons, hb',
        Bool.false_or, List.takeWhile_cons, List.dropWhile_cons, hn, if_true]
      exact ih

/-- lemma (pointwise form) **ctor_iff_lexical (xs:QName, lexical part)**: `AbstractQName.pattern` accepts the collapsed string exactly
when it is a QName of Namespaces in XML (`NCName` or `NCName ':' NCName`, every split at a colon considered), for strings
whose characters are classified alike. -/
theorem qname_pattern_iff_lexical_partial (t : List Char) (h : alikeEverywhere t = true) :
    Lex.matchQName qnamePFirst qnamePLater qnameFirst qnameLater t = XSD.qNameLex t := by
  have hall := List.all_eq_true.1 h
  have alike : ∀ u : List Char, (∀ c ∈ u, c ∈ t) →
      Lex.matchNameLike qnameFirst qnameLater u = XSD.ncNameLex u := by
    intro u hu
    have : classifiedAlike qnameFirst qnameLater XSD.nameStartNoColon XSD.nameCharNoColon u = true := by
      cases u with
      | nil => rfl
      | cons c r =>
        have h1 := hall c (hu c (List.mem_cons_self ..))
        simp only [Bool.and_eq_true] at h1
        simp only [classifiedAlike, h1.1, Bool.true_and, List.all_eq_true]
        intro x hx
        have h2 := hall x (hu x (List.mem_cons_of_mem _ hx))
        simp only [Bool.and_eq_true] at h2
        exact h2.2
    rw [nameLike_eq _ _ _ _ _ this]
    cases u <;> rfl
  unfold Lex.matchQName XSD.qNameLex
  rw [qname_prefix_tables.1, qname_prefix_tables.2, any_colonSplits _ t _ ncName_colon_false]
  by_cases hc : t.contains ':' = true
  · have hm : ':' ∈ t := List.contains_iff_mem.1 hc |> fun h => by simpa using h
    rw [if_pos hc, hc, ncName_colon_false t hm, Bool.false_or, Bool.true_and,
      alike _ (fun c hx => (List.takeWhile_sublist _).subset hx),
      alike _ (fun c hx => (List.dropWhile_sublist _).subset ((List.drop_sublist _ _).subset hx))]
  · have hc' : t.contains ':' = false := by simpa using hc
    rw [if_neg hc, hc', Bool.false_and, Bool.or_false, alike t (fun _ hx => hx)]

/-- the white characters are in none of the QName tables -/
theorem qname_tables_no_white : [9, 10, 13, 32].all (fun n =>
    !Lex.inRanges qnameFirst (Char.ofNat n) && !Lex.inRanges qnameLater (Char.ofNat n)) = true := by decide +kernel

theorem white_not_qname (w : Char) (h : Lex.isPyWhite w = true) :
    Lex.inRanges qnameFirst w = false ∧ Lex.inRanges qnameLater w = false := by
  have hc : w.toNat = 9 ∨ w.toNat = 10 ∨ w.toNat = 13 ∨ w.toNat = 32 := by
    simpa [Lex.isPyWhite, Lex.pyWhiteCPs] using h
  have ht := qname_tables_no_white
  simp only [List.all_cons, List.all_nil, Bool.and_true, Bool.and_eq_true, Bool.not_eq_true'] at ht
  have : w = Char.ofNat 9 ∨ w = Char.ofNat 10 ∨ w = Char.ofNat 13 ∨ w = Char.ofNat 32 := by
    rcases hc with h | h | h | h
    · exact Or.inl (char_eq_of_toNat _ _ h)
    · exact Or.inr (Or.inl (char_eq_of_toNat _ _ h))
    · exact Or.inr (Or.inr (Or.inl (char_eq_of_toNat _ _ h)))
    · exact Or.inr (Or.inr (Or.inr (char_eq_of_toNat _ _ h)))
  rcases this with h | h | h | h <;> subst h
  · exact ht.1
  · exact ht.2.1
  · exact ht.2.2.1
  · exact ht.2.2.2

theorem nameLike_rejects (first later : List (Nat × Nat)) (w : Char) (h1 : Lex.inRanges first w = false)
    (h2 : Lex.inRanges later w = false) : (x : List Char) → w ∈ x → Lex.matchNameLike first later x = false
  | c :: r, h => by
    simp only [Lex.matchNameLike]
    rcases List.mem_cons.1 h with h | h
    · rw [← h, h1]; rfl
    · have : r.all (Lex.inRanges later) = false := by
        apply Bool.eq_false_iff.2
        intro ha
        have := List.all_eq_true.1 ha _ h
        rw [h2] at this; exact Bool.noConfusion this
      rw [this, Bool.and_false]

theorem matchQName_rejects_white (x : List Char) (hx : ∃ w ∈ x, Lex.isPyWhite w = true) :
    Lex.matchQName qnamePFirst qnamePLater qnameFirst qnameLater x = false := by
  rcases hx with ⟨w, hw, hww⟩
  have ⟨t1, t2⟩ := white_not_qname w hww
  have hne : w ≠ ':' := fun e => by subst e; exact absurd hww (by decide)
  unfold Lex.matchQName
  rw [qname_prefix_tables.1, qname_prefix_tables.2]
  split
  · have hsplit := List.takeWhile_append_dropWhile (p := (· != ':')) (l := x)
    rw [← hsplit] at hw
    rcases List.mem_append.1 hw with hm | hm
    · rw [nameLike_rejects _ _ w t1 t2 _ hm]; rfl
    · have : w ∈ (x.dropWhile (· != ':')).drop 1 := by
        cases hd : x.dropWhile (· != ':') with
        | nil => rw [hd] at hm; cases hm
        | cons y ys =>
          rw [hd] at hm
          have hy : (y != ':') = false := head?_dropWhile_false _ x y (by rw [hd]; rfl)
          have hy' : y = ':' := by simpa using hy
          rcases List.mem_cons.1 hm with hm | hm
          · exact absurd (hm.trans hy') hne
          · simpa using hm
      rw [nameLike_rejects _ _ w t1 t2 _ this, Bool.and_false]
  · exact nameLike_rejects _ _ w t1 t2 _ hw

/-- lemma (pointwise form) **ctor_iff_lexical (xs:QName, lexical part)** on the constructor's own normalisation: `AbstractQName.__init__`
strips (`qname.strip(' \\t\\n\\r')`) where XSD collapses; the pattern decides `QName` of the collapsed string. -/
theorem qname_ctor_iff_lexical_partial (s : List Char) (h : alikeEverywhere (XSD.wsCollapse s) = true) :
    Lex.matchQName qnamePFirst qnamePLater qnameFirst qnameLater (Lex.pyStrip s) = XSD.qNameLex (XSD.wsCollapse s) := by
  rw [strip_vs_collapse _ matchQName_rejects_white s, collapse_eq_wsCollapse_all]
  exact qname_pattern_iff_lexical_partial _ h

/-- xs:ID, xs:IDREF, xs:ENTITY carry the pattern of xs:NCName (the tables are generated from xs:NCName only) -/
theorem id_idref_entity_pattern : ["ID", "IDREF", "ENTITY"].all (fun n =>
    patterns.lookup n == patterns.lookup "NCName" && (patterns.lookup n).isSome) = true := by decide +kernel

/-! ### the tables against the productions as sets

`nameTablesAgree` compares the canonical forms (sorted, merged) of the ten generated tables with those of the XML
productions.  `name_tables_status` evaluates it in the kernel and finds the value the translator computed code point
by code point in Python (a cross-check of translator and kernel; `false` before fix-c10-4, `true` since);
`name_tables_agree` below asserts the agreement outright. -/

def nameTablesAgree : Bool :=
  rangesAgree ncnameFirst XSD.nameStartNoColon && rangesAgree ncnameLater XSD.nameCharNoColon &&
  rangesAgree nameFirst (XSD.nameStartNoColon ++ XSD.colon) && rangesAgree nameLater (XSD.nameCharNoColon ++ XSD.colon) &&
  rangesAgree nmtokenFirst (XSD.nameCharNoColon ++ XSD.colon) && rangesAgree nmtokenLater (XSD.nameCharNoColon ++ XSD.colon) &&
  rangesAgree qnameFirst XSD.nameStartNoColon && rangesAgree qnameLater XSD.nameCharNoColon

theorem name_tables_status : nameTablesAgree = nameTablesAgreeClaim := by decide +kernel

theorem alike_of_agree {first later sf sl : List (Nat × Nat)} (h1 : rangesAgree first sf = true)
    (h2 : rangesAgree later sl = true) (t : List Char) : classifiedAlike first later sf sl t = true := by
  cases t with
  | nil => rfl
  | cons c r =>
    simp only [classifiedAlike, rangesAgree_sound _ _ h1, beq_self_eq_true, Bool.true_and, List.all_eq_true]
    intro x _
    rw [rangesAgree_sound _ _ h2]; exact beq_self_eq_true _

/-- **ctor_iff_lexical (xs:NCName, xs:ID, xs:IDREF, xs:ENTITY, xs:Name, xs:NMTOKEN, xs:QName), every string**, given that
the generated tables are the XML productions (`nameTablesAgree`, a closed Boolean evaluated by `name_tables_status`) -/
theorem names_ctor_iff_lexical_of_tables (h : nameTablesAgree = true) (s : List Char) :
    (Lex.nameCtor ncnameFirst ncnameLater s = if XSD.ncNameLex (XSD.wsCollapse s) then some (XSD.wsCollapse s) else none) ∧
    (Lex.nameCtor nameFirst nameLater s = if XSD.nameLex (XSD.wsCollapse s) then some (XSD.wsCollapse s) else none) ∧
    (Lex.nameCtor nmtokenFirst nmtokenLater s = if XSD.nmtokenLex (XSD.wsCollapse s) then some (XSD.wsCollapse s) else none) ∧
    (Lex.matchQName qnamePFirst qnamePLater qnameFirst qnameLater (Lex.pyStrip s) = XSD.qNameLex (XSD.wsCollapse s)) := by
  simp only [nameTablesAgree, Bool.and_eq_true] at h
  obtain ⟨⟨⟨⟨⟨⟨⟨a1, a2⟩, b1⟩, b2⟩, c1⟩, c2⟩, d1⟩, d2⟩ := h
  refine ⟨ncname_ctor_iff_lexical_partial s (alike_of_agree a1 a2 _), name_ctor_iff_lexical_partial s (alike_of_agree b1 b2 _),
    nmtoken_ctor_iff_lexical_partial s (alike_of_agree c1 c2 _), qname_ctor_iff_lexical_partial s ?_⟩
  simp only [alikeEverywhere, List.all_eq_true, Bool.and_eq_true, beq_iff_eq]
  intro c _
  exact ⟨rangesAgree_sound _ _ d1 c, rangesAgree_sound _ _ d2 c⟩

/-! ### full strength (since fix-c10-4, former finding F10n) -/

/-- **the character classes of the live patterns are the XML productions** (kernel evaluation on the translator-generated
tables): all ten tables, as sets of code points -/
theorem name_tables_agree : nameTablesAgree = true := by decide +kernel

/-- **ctor_iff_lexical (xs:NCName, xs:ID, xs:IDREF, xs:ENTITY)**, every string: the constructor succeeds exactly on the NCNames
of Namespaces in XML (XML 1.0 5th edition name characters without the colon) of the collapsed string and returns it -/
theorem ncname_ctor_iff_lexical (s : List Char) :
    Lex.nameCtor ncnameFirst ncnameLater s = if XSD.ncNameLex (XSD.wsCollapse s) then some (XSD.wsCollapse s) else none :=
  (names_ctor_iff_lexical_of_tables name_tables_agree s).1

/-- **ctor_iff_lexical (xs:Name)**, every string -/
theorem name_ctor_iff_lexical (s : List Char) :
    Lex.nameCtor nameFirst nameLater s = if XSD.nameLex (XSD.wsCollapse s) then some (XSD.wsCollapse s) else none :=
  (names_ctor_iff_lexical_of_tables name_tables_agree s).2.1

/-- **ctor_iff_lexical (xs:NMTOKEN)**, every string -/
theorem nmtoken_ctor_iff_lexical (s : List Char) :
    Lex.nameCtor nmtokenFirst nmtokenLater s = if XSD.nmtokenLex (XSD.wsCollapse s) then some (XSD.wsCollapse s) else none :=
  (names_ctor_iff_lexical_of_tables name_tables_agree s).2.2.1

/-- **ctor_iff_lexical (xs:QName, lexical part)**, every string: `AbstractQName.__init__` (strip, then the pattern) accepts
exactly `NCName` or `NCName ':' NCName` of the collapsed string -/
theorem qname_ctor_iff_lexical (s : List Char) :
    Lex.matchQName qnamePFirst qnamePLater qnameFirst qnameLater (Lex.pyStrip s) = XSD.qNameLex (XSD.wsCollapse s) :=
  (names_ctor_iff_lexical_of_tables name_tables_agree s).2.2.2

/-! ### the namespace of an xs:QName cast from a string -/

/-- an accepted lexical QName has no white space left after `strip`, so `strip` and `collapse` coincide on it -/
theorem strip_eq_collapse_of_qname (s : List Char)
    (h : Lex.matchQName qnamePFirst qnamePLater qnameFirst qnameLater (Lex.pyStrip s) = true) :
    Lex.pyStrip s = XSD.wsCollapse s := by
  rw [← collapse_eq_wsCollapse_all]
  rcases pyStrip_or_white s with e | ⟨hw, _⟩
  · exact e
  · rw [matchQName_rejects_white _ hw] at h; cases h

/-- **cast xs:string → xs:QName, the value**: `AbstractQName.make` under a parser whose prefix map is the statically known
namespaces `known` plus the entry `'' ↦ default_namespace` produces, for every string, exactly the expanded QName of
F&O / XPath: the prefix resolved in the statically known namespaces, **an unprefixed name in the default element/type
namespace**, an error otherwise (prefixes are bound to non-empty URIs). -/
theorem qname_make_eq_spec (known : List (List Char × List Char)) (dflt s : List Char)
    (hk : ∀ e ∈ known, e.1 ≠ [] ∧ e.2 ≠ []) :
    (match Lex.qnameMake (Lex.matchQName qnamePFirst qnamePLater qnameFirst qnameLater) (([], dflt) :: known) s with
      | .ok r => some r | .error _ => none) = XSD.castToQName known dflt s := by
  have hl := qname_ctor_iff_lexical s
  unfold Lex.qnameMake XSD.castToQName
  simp only []
  cases hL : Lex.matchQName qnamePFirst qnamePLater qnameFirst qnameLater (Lex.pyStrip s) with
  | false =>
    rw [hL] at hl
    rw [← hl]
    simp only [Bool.not_false, if_true]
    split
    · rename_i heq
      split at heq <;> cases heq
    · rfl
  | true =>
    have hc := strip_eq_collapse_of_qname s hL
    rw [hL] at hl
    rw [← hl, ← hc]
    simp only [Bool.not_true, Bool.false_eq_true, if_false]
    generalize Lex.pyStrip s = c at hL
    by_cases hcol : c.contains ':' = true
    · simp only [hcol, if_true, Bool.and_true]
      have hpre : c.takeWhile (· != ':') ≠ [] := by
        intro e
        unfold Lex.matchQName at hL
        rw [if_pos hcol, e] at hL
        simp [Lex.matchNameLike] at hL
      have hfind : Lex.lookupNs (([], dflt) :: known) (c.takeWhile (· != ':')) =
          (known.find? (·.1 == c.takeWhile (· != ':'))).map (·.2) := by
        unfold Lex.lookupNs
        rw [List.find?_cons_of_neg]
        simp only [beq_iff_eq]
        exact fun e => hpre e.symm
      rw [hfind]
      cases hf : known.find? (·.1 == c.takeWhile (· != ':')) with
      | none => rfl
      | some e =>
        have hne := (hk e (List.mem_of_find?_eq_some hf)).2
        have : e.2.isEmpty = false := by
          cases h2 : e.2 with
          | nil => exact absurd h2 hne
          | cons _ _ => rfl
        simp only [Option.map_some, this, Bool.false_eq_true, if_false]
    · have hcol' : c.contains ':' = false := by simpa using hcol
      simp only [hcol', Bool.false_eq_true, if_false, Bool.and_false]
      rfl

/-- tests on literals -/
example : classifiedAlike ncnameFirst ncnameLater XSD.nameStartNoColon XSD.nameCharNoColon "a-b.c_1".toList = true ∧
    Lex.nameCtor ncnameFirst ncnameLater " a-b.c_1\n".toList = some "a-b.c_1".toList ∧
    Lex.nameCtor ncnameFirst ncnameLater "a:b".toList = none ∧ Lex.nameCtor nameFirst nameLater ":a:b".toList = some ":a:b".toList ∧
    Lex.nameCtor ncnameFirst ncnameLater "1a".toList = none ∧ Lex.nameCtor nmtokenFirst nmtokenLater "1a".toList = some "1a".toList ∧
    Lex.nameCtor nmtokenFirst nmtokenLater "".toList = none := by decide +kernel

end EPV.C10

/-
C11 — property theorems: date/time values follow the proleptic Gregorian timeline.

Reading guide
* `Cal.*`       : the model = transcription of elementpath/datatypes/datetime.py + helpers.py
                  (EPV/Model/Calendar.lean); years are the library's internal numbers (never 0;
                  -1 is 1 BCE in both XSD versions, only the lexical mapping differs).
* `Timeline.*`  : the specification (EPV/Spec/Timeline.lean); `daysBeforeYear`/`dayNum` are plain
                  sums of year and month lengths, `instant` = µs since 0001-01-01T00:00:00Z
                  (`instantC`/`localC` are the closed forms, equal on valid values: `instant_eq_instantC`).
* `absV v`      : the specification value denoted by a model value (internal year -> astronomical).
* `v.Valid`     : year ≠ 0, real calendar date, time inside the day, timezone within ±14:00.
* `TdOk t`      : `t` fits a `datetime.timedelta` (|days| ≤ 999 999 999).  Its complement is exactly
                  the trigger of known finding F11d (representation limit ≈ ±2.7 million years);
                  `AddDomain`, `DiffDomain`, `CmpDomain`, `AdjustDomain` are conjunctions of `TdOk`
                  for the timedeltas the respective operation builds.
All theorems quantify over unbounded `Int` years, times and durations.
-/
import EPV.Lemmas.CalendarOps
import EPV.Lemmas.CalendarMk
import EPV.Lemmas.CalendarDuration
import EPV.Lemmas.CalendarTime
import EPV.Lemmas.CalendarLex
namespace EPV.C11
open EPV.Cal EPV.Timeline

/-! ### calendar arithmetic -/

/-- `days_from_common_era` (three branches, floor divisions) equals the **sum of the lengths of the
years** between 0001-01-01 and the end of year `y` (negative for BCE years) — every `Int` year. -/
theorem dfce_eq_sum (y : Int) : dfce y = daysBeforeYear (y + 1) := by
  rw [dfce_eq_C, daysBeforeYear_eq_C]

/-- the definitional instant (sums of year/month lengths) equals the closed form the driver evaluates -/
theorem instant_eq_instantC (v : Val) (hv : v.Valid) : v.instant = v.instantC :=
  (instantC_eq v hv).symm

/-- the specification's own inverse: `civil n` is the calendar date whose (definitional) day number is `n` -/
theorem civil_dayNum (n : Int) :
    1 ≤ (civil n).2.1 ∧ (civil n).2.1 ≤ 12 ∧ 1 ≤ (civil n).2.2 ∧
    (civil n).2.2 ≤ monthLen (civil n).1 (civil n).2.1 ∧
    dayNum (civil n).1 (civil n).2.1 (civil n).2.2 = n := by
  have h := civil_spec n
  refine ⟨h.1, h.2.1, h.2.2.1, h.2.2.2.1, ?_⟩
  rw [dayNum_eq_C _ _ _ h.1 h.2.1]; exact h.2.2.2.2

/-- valid values with the same timezone and the same instant are equal (the timeline is faithful) -/
theorem instant_injective {v w : DT} (hv : v.Valid) (hw : w.Valid) (htz : v.tz = w.tz)
    (h : (absV v).instant = (absV w).instant) : v = w := by
  apply dt_instant_inj hv hw htz
  rw [instantC_eq _ hv.2.1, instantC_eq _ hw.2.1]; exact h

/-! ### todelta / fromdelta -/

/-- **`todelta()` is the value's instant on the timeline**: for every valid value whose instant fits a
`timedelta`, in both eras and beyond year 9999. -/
theorem todelta_eq_instant (v : DT) (hv : v.Valid) (h : TdOk (absV v).instant) :
    todelta v = .ok (absV v).instant := by
  rw [todelta_eq v hv, instantC_eq _ hv.2.1, tdNorm_ok h]

/-- PARTIAL (known finding F11d): outside the `timedelta` range `todelta()` raises `OverflowError`;
the full statement "`todelta v` is the instant for every year in ±2^31" is false. -/
theorem todelta_overflow (v : DT) (hv : v.Valid) (h : ¬ TdOk (absV v).instant) :
    todelta v = .error .overflow := by
  rw [todelta_eq v hv, instantC_eq _ hv.2.1, tdNorm_err h]

/-- F11d witness: 3000000-01-01T00:00:00 is a valid value whose timeline offset does not fit. -/
theorem todelta_overflow_witness :
    (⟨3000000, 1, 1, 0, none⟩ : DT).Valid ∧ ¬ TdOk (absV ⟨3000000, 1, 1, 0, none⟩).instantC ∧
    todelta ⟨3000000, 1, 1, 0, none⟩ = .error .overflow := by decide

/-- test (literals): the hypotheses of `todelta_eq_instant` hold on a BCE leap day with timezone -/
example : (⟨-5, 2, 29, 45015000001, some 330⟩ : DT).Valid ∧ TdOk (absV ⟨-5, 2, 29, 45015000001, some 330⟩).instantC ∧
    todelta ⟨-5, 2, 29, 45015000001, some 330⟩ = .ok (-152729984999999) := by decide

/-- **`todelta (fromdelta t) = t`**: for every offset that fits a `timedelta`, `fromdelta` yields a valid
value without timezone whose `todelta` is `t` again (all four code paths of `fromdelta`). -/
theorem todelta_fromdelta (t : Int) (h : TdOk t) :
    ∃ v, fromdelta false t = .ok v ∧ v.Valid ∧ v.tz = none ∧ todelta v = .ok t := by
  obtain ⟨w, hw, hwv, hwtz, hwl⟩ := fromdelta_ok t h
  refine ⟨w, hw, hwv, hwtz, ?_⟩
  rw [todelta_eq w hwv, instantC_local, absV_tz, hwtz, hwl]
  simp only [offUs]
  rw [show t - 0 = t by omega]; exact tdNorm_ok h

/-- **`fromdelta (todelta d) = d`** for every valid value without timezone whose instant fits a
`timedelta` — BCE values with a time part and leap years after 9999 included. -/
theorem fromdelta_todelta (v : DT) (hv : v.Valid) (htz : v.tz = none) (h : TdOk (absV v).instant) :
    (todelta v >>= fromdelta false) = .ok v := by
  rw [todelta_eq_instant v hv h]
  simp only [bind, Except.bind]
  have e : (absV v).instant = (absV v).localC := by
    rw [← instantC_eq _ hv.2.1, instantC_local, absV_tz, htz]; simp [offUs]
  rw [e, fromdelta_localC v hv (by rw [← e]; exact h)]
  congr 1
  obtain ⟨y, m, d, u, z⟩ := v
  simp only at htz; subst htz; rfl

/-- with a timezone the round trip gives the same instant expressed in UTC without timezone
(what `fromdelta` is documented to return) -/
theorem fromdelta_todelta_tz (v : DT) (hv : v.Valid) (h : TdOk (absV v).instant) :
    ∃ w, (todelta v >>= fromdelta false) = .ok w ∧ w.Valid ∧ w.tz = none ∧ (absV w).localC = (absV v).instant := by
  rw [todelta_eq_instant v hv h]
  simp only [bind, Except.bind]
  exact fromdelta_ok _ h

/-- the `Date` classes: `fromdelta` returns the day that contains the offset -/
theorem fromdelta_date (t : Int) (h : TdOk t) :
    ∃ v, fromdelta true t = .ok v ∧ v.Valid ∧ v.tz = none ∧ v.us = 0 ∧ (absV v).localC = t - t % Cal.US := by
  obtain ⟨w, hw, hwv, hwtz, hwl⟩ := fromdelta_spec true t h
  refine ⟨w, hw, hwv, hwtz, ?_, by simpa using hwl⟩
  have hl : (absV w).localC = t - t % Cal.US := by simpa using hwl
  have hu := hwv.2.1.2.2.2.2
  simp only [absV] at hu
  simp only [Val.localC, absV, Cal.US, Timeline.US] at hl hu
  omega

/-- test (literals): F11a's input now round-trips -/
example : (todelta ⟨-820, 1, 1, 45015000000, none⟩ >>= fromdelta false) = .ok ⟨-820, 1, 1, 45015000000, none⟩ := by decide

/-! ### ± dayTimeDuration, differences -/

/-- **`d ± dur`** (dateTime classes): the result is a valid value with the operand's timezone whose
instant is the operand's instant ± the duration. -/
theorem add_dur_instant (v : DT) (dur : Int) (neg : Bool) (hv : v.Valid) (hd : AddDomain v dur neg) :
    ∃ w, addDur false v dur neg = .ok w ∧ w.Valid ∧ w.tz = v.tz ∧
      (absV w).instant = (absV v).instant + (if neg then -dur else dur) := by
  obtain ⟨w, h1, h2, h3, h4⟩ := addDur_spec v dur neg hv hd
  exact ⟨w, h1, h2, h3, by rw [← instantC_eq _ h2.2.1, ← instantC_eq _ hv.2.1]; exact h4⟩

/-- **`date ± dur`** (the `Date` classes, F&O `op:add-dayTimeDuration-to-date`): the result is the day that
contains the starting instant of the date moved by the duration, with the operand's timezone. -/
theorem add_dur_date (v : DT) (dur : Int) (neg : Bool) (hv : v.Valid) (hd : AddDomain v dur neg) :
    ∃ w, addDur true v dur neg = .ok w ∧ w.Valid ∧ w.tz = v.tz ∧
      (absV w).localC = ((absV v).localC + (if neg then -dur else dur)) -
        ((absV v).localC + (if neg then -dur else dur)) % Cal.US :=
  addDur_date_spec v dur neg hv hd

/-- **`d + dur − dur = d`** for every valid value and every duration inside the domain. -/
theorem add_sub_duration (v : DT) (dur : Int) (hv : v.Valid) (hd : AddDomain v dur false)
    (hl : TdOk (absV v).localC) :
    ∃ w, addDur false v dur false = .ok w ∧ addDur false w dur true = .ok v := by
  obtain ⟨w, h1, h2, h3, h4⟩ := addDur_spec v dur false hv hd
  refine ⟨w, h1, ?_⟩
  have hlw : (absV w).localC = (absV v).localC + dur := by
    have a := instantC_local (absV w); have b := instantC_local (absV v)
    rw [absV_tz] at a b; rw [h3] at a
    simp only [Bool.false_eq_true, ↓reduceIte] at h4; omega
  simp only [Bool.false_eq_true, ↓reduceIte] at h4
  have hd' : AddDomain w dur true := by
    obtain ⟨d1, d2, d3, d4⟩ := hd
    simp only [Bool.false_eq_true, ↓reduceIte] at d3 d4
    refine ⟨by rw [h4]; exact d3, d2, ?_, ?_⟩
    · simp only [↓reduceIte]; rw [h4, show (absV v).instantC + dur + -dur = (absV v).instantC by omega]; exact d1
    · simp only [↓reduceIte]; rw [hlw, show (absV v).localC + dur + -dur = (absV v).localC by omega]; exact hl
  obtain ⟨u, g1, g2, g3, g4⟩ := addDur_spec w dur true h2 hd'
  rw [g1]; congr 1
  apply dt_instant_inj g2 hv (by rw [g3, h3])
  simp only [↓reduceIte] at g4
  rw [g4, h4]; omega

/-- **`d2 − d1` is the elapsed time** between the two instants (also across eras and year 9999/10000). -/
theorem diff_is_elapsed (a b : DT) (ha : a.Valid) (hb : b.Valid) (hd : DiffDomain a b) :
    diff a b = .ok ((absV a).instant - (absV b).instant) := by
  rw [diff_spec a b ha hb hd, instantC_eq _ ha.2.1, instantC_eq _ hb.2.1]

/-- **`d1 + (d2 − d1) = d2`** when both have the same timezone (in general: the instant of `d2` in the
timezone of `d1`). -/
theorem sub_then_add (a b : DT) (ha : a.Valid) (hb : b.Valid) (htz : a.tz = b.tz) (hd : DiffDomain b a)
    (hadd : AddDomain a ((absV b).instantC - (absV a).instantC) false) :
    ∃ δ, diff b a = .ok δ ∧ addDur false a δ false = .ok b := by
  refine ⟨_, diff_spec b a hb ha hd, ?_⟩
  obtain ⟨w, h1, h2, h3, h4⟩ := addDur_spec a _ false ha hadd
  rw [h1]; congr 1
  apply dt_instant_inj h2 hb (by rw [h3, htz])
  simp only [Bool.false_eq_true, ↓reduceIte] at h4
  rw [h4]; omega

/-- PARTIAL (F11d): outside `AddDomain` the addition raises `OverflowError` instead of returning the value;
witness `2800000-01-01T00:00:00 + P1D`. -/
theorem add_dur_overflow_witness :
    (⟨2800000, 1, 1, 0, none⟩ : DT).Valid ∧ ¬ AddDomain ⟨2800000, 1, 1, 0, none⟩ 86400000000 false ∧
    addDur false ⟨2800000, 1, 1, 0, none⟩ 86400000000 false = .error .overflow := by decide

/-- test (literals): the domain hypotheses are satisfiable across the era boundary (1 BCE -> 1 CE) -/
example : AddDomain ⟨-1, 12, 31, 86399999999, some 330⟩ 1 false ∧
    addDur false ⟨-1, 12, 31, 86399999999, some 330⟩ 1 false = .ok ⟨1, 1, 1, 0, some 330⟩ := by decide

/-! ### comparison -/

/-- **the comparison operators order values as instants on the timeline** (a value without timezone is
placed at UTC, as the library's `_compare` does): `lt`, `le`, `eq`, `gt`, `ge`, every pair of valid
values of the same class, also across a new year with different timezones (former F11b). -/
theorem compare_iff_instant_order (op : Cmp) (a b : DT) (ha : a.Valid) (hb : b.Valid) (hd : CmpDomain a b) :
    compare op a b = op.op (absV a).instant (absV b).instant := by
  rw [compare_spec op a b ha hb hd, instantC_eq _ ha.2.1, instantC_eq _ hb.2.1]

/-- test (literals): F11b's pair: 2000-12-31T23:00:00-05:00 is *not* before 2001-01-01T01:00:00+05:00 -/
example : compare .lt ⟨2000, 12, 31, 82800000000, some (-300)⟩ ⟨2001, 1, 1, 3600000000, some 300⟩ = false ∧
    CmpDomain ⟨2000, 12, 31, 82800000000, some (-300)⟩ ⟨2001, 1, 1, 3600000000, some 300⟩ := by decide

/-- PARTIAL (F11d): for contiguous different years beyond the `timedelta` range `_compare` falls back
to the order of the year numbers, which timezones can contradict. -/
theorem compare_overflow_witness :
    let a : DT := ⟨3000000, 12, 31, 82800000000, some (-300)⟩
    let b : DT := ⟨3000001, 1, 1, 3600000000, some 300⟩
    a.Valid ∧ b.Valid ∧ ¬ CmpDomain a b ∧ compare .lt a b = true ∧ ¬ ((absV a).instantC < (absV b).instantC) := by
  decide

/-- PARTIAL (known finding F11n): the value comparison operators do not apply the *implicit timezone* of the
dynamic context (only the arithmetic operators do); they place a value without timezone at UTC.  The
comparison therefore equals the F&O order under an implicit timezone of `itz` minutes only when that
timezone cannot matter: both or neither operand have a timezone, or `itz = 0`.  The full statement
(every pair, every implicit timezone) is false: `compare_implicit_tz_witness`. -/
theorem compare_implicit_tz_partial (op : Cmp) (a b : DT) (itz : Int) (ha : a.Valid) (hb : b.Valid)
    (hd : CmpDomain a b) (h : ImplicitTzIrrelevant a b itz) :
    compare op a b = op.op ((absV a).instantI itz) ((absV b).instantI itz) :=
  compare_implicit op a b itz ha hb hd h

/-- F11n witness: with implicit timezone +14:00, 2002-02-01T00:00:00 (= 2002-01-31T10:00:00Z) precedes
2002-01-31T20:37:00Z, but the comparison says it does not. -/
theorem compare_implicit_tz_witness :
    let a : DT := ⟨2002, 2, 1, 0, none⟩
    let b : DT := ⟨2002, 1, 31, 74220000000, some 0⟩
    a.Valid ∧ b.Valid ∧ CmpDomain a b ∧ ¬ ImplicitTzIrrelevant a b 840 ∧
    compare .lt a b = false ∧ (absV a).instantI 840 < (absV b).instantI 840 := by decide

/-- **the XPath comparison operators under a dynamic context order values as instants, using the implicit
timezone** for an operand without timezone (former F11n; `compareCtx` = `_compare` on the operands filled by
`implicit_timezone_operands`): every pair of valid values, every implicit timezone within ±14:00 or none. -/
theorem compare_ctx_iff_instant_order (itz : Option Int) (op : Cmp) (a b : DT) (ha : a.Valid) (hb : b.Valid)
    (hi : TzOk itz) (hd : CmpDomain (fillTz itz a) (fillTz itz b)) :
    compareCtx itz op a b = op.op ((absV a).instantI (itz.getD 0)) ((absV b).instantI (itz.getD 0)) :=
  compareCtx_spec itz op a b ha hb hi hd

/-- test (literals): F11n's pair under implicit timezone +14:00 is now ordered by the instants -/
example : compareCtx (some 840) .lt ⟨2002, 2, 1, 0, none⟩ ⟨2002, 1, 31, 74220000000, some 0⟩ = true := by decide

/-- PARTIAL (known finding F11t): `fn:max`, `fn:min`, `fn:distinct-values`, `fn:index-of`, `fn:deep-equal` and
`fn:sort` compare date/time values with the raw `_compare` (a value without timezone at UTC) instead of the
comparison under the implicit timezone of the context.  The two agree — so every function of the comparison
results agrees — exactly when the implicit timezone cannot matter; otherwise they can differ:
`compare_implicit_tz_witness`. -/
theorem seq_functions_implicit_tz_partial (itz : Int) (op : Cmp) (a b : DT) (ha : a.Valid) (hb : b.Valid)
    (hi : TzOk (some itz)) (hd : CmpDomain a b) (hd' : CmpDomain (fillTz (some itz) a) (fillTz (some itz) b))
    (h : ImplicitTzIrrelevant a b itz) : compare op a b = compareCtx (some itz) op a b :=
  compare_raw_eq_ctx itz op a b ha hb hi hd hd' h

/-! ### timezone adjustment -/

/-- **`adjust-dateTime-to-timezone` preserves the instant** when both the value and the argument have a
timezone; the result carries the new timezone. -/
theorem adjust_tz_preserves_instant (v : DT) (z0 z : Int) (hv : v.Valid) (htz : v.tz = some z0)
    (hz : -840 ≤ z ∧ z ≤ 840) (hd : AdjustDomain v z) :
    ∃ w, adjustDateTime v (some z) = .ok w ∧ w.Valid ∧ w.tz = some z ∧ (absV w).instant = (absV v).instant := by
  obtain ⟨w, h1, h2, h3, h4⟩ := adjust_spec v z0 z hv htz hz hd
  exact ⟨w, h1, h2, h3, by rw [← instantC_eq _ h2.2.1, ← instantC_eq _ hv.2.1]; exact h4⟩

/-- without a timezone on either side the components are kept and only the timezone is replaced
(F&O 3.1 §9.6.1) -/
theorem adjust_tz_components (v : DT) (tz : Option Int) (h : v.tz = none ∨ tz = none) :
    adjustDateTime v tz = .ok { v with tz := tz } := by
  unfold adjustDateTime
  rcases h with h | h
  · rw [h]
  · subst h; cases v.tz <;> rfl

/-- **`adjust-date-to-timezone`** with both timezones present returns the day that contains, in the new
timezone, the first instant of the date (offsets up to 28 hours apart, former F11j). -/
theorem adjust_date_is_day_of_instant (v : DT) (z0 z : Int) (hv : v.Valid) (htz : v.tz = some z0)
    (hz : -840 ≤ z ∧ z ≤ 840) (hd : AddDomain v ((z - z0) * Cal.UM) false) :
    ∃ w, Cal.adjustDate v (some z) = .ok w ∧ w.Valid ∧ w.tz = some z ∧
      (absV w).localC = ((absV v).localC + (z - z0) * Cal.UM) - ((absV v).localC + (z - z0) * Cal.UM) % Cal.US :=
  adjustDate_spec v z0 z hv htz hz hd

/-- test (literals): 9999-02-28-14:00 adjusted to +14:00 is 9999-03-01+14:00 (28 hours later) -/
example : Cal.adjustDate ⟨9999, 2, 28, 0, some (-840)⟩ (some 840) = .ok ⟨9999, 3, 1, 0, some 840⟩ := by decide

/-- **the adjust functions leave their argument alone** (object level): on a heap of date/time objects,
`adjust_datetime` applied to object `i` returns a *new* object (index ≥ the old heap size) holding the
adjusted value, and every object of the old heap — the argument included — is unchanged, whatever the
timezones (value without timezone, `$timezone` empty, both present). -/
theorem adjust_argument_unchanged (isDate : Bool) (h : List DT) (i : Nat) (tz : Option Int) (h' : List DT) (k : Nat)
    (hr : adjustObj isDate h i tz = .ok (h', k)) :
    (∀ n, n < h.length → h'[n]? = h[n]?) ∧ h.length ≤ k ∧
    ∃ item, h[i]? = some item ∧
      (h'[k]?).map Except.ok = some (if isDate then Cal.adjustDate item tz else adjustDateTime item tz) :=
  adjustObj_spec isDate h i tz h' k hr

/-- **component extraction returns the value's own components**: for a value built from lexical year `n`
the components are `n` and the stored month, day, hours, minutes, seconds — the specification's components
of the denoted value (both XSD numberings). -/
theorem components_eq_spec (v11 : Bool) (v : DT) (hy : v.year ≠ 0) :
    Cal.components v11 v = Timeline.components v11 (absV v) := by
  unfold Cal.components Timeline.components yearFrom absV astro lex11OfAstro lex10OfAstro
  cases v11 <;> simp <;> split <;> (try split) <;> omega

/-- **the `[Z]` picture component shows the value's own timezone**, and nothing for a value without timezone
(F&O 3.1 §9.8.4.6; former F11y) — together with `components_eq_spec` the numeric picture components
`[Y][M][D][H][m][s][f][Z]` are the specification's components of the value. -/
theorem picture_tz_is_value_tz (tz : Option Int) : pictureTz tz = tz := by cases tz <;> rfl

/-- test (literals) -/
example : pictureTz none = none ∧ pictureTz (some (-300)) = some (-300) := by decide

/-! ### ± yearMonthDuration -/

/-- **adding a yearMonthDuration clamps the day to the target month**: the result is the value whose
astronomical year and month are `(12·year + month − 1 + months) divmod 12`, whose day is
`min day (monthLen target)`, time and timezone unchanged — also across the era boundary, for BCE leap
years and beyond year 9999 (former F11g). -/
theorem ym_add_clamps (v : DT) (ms : Int) (hv : v.Valid)
    (hyb : (internal (Timeline.addYM (absV v) ms).year).natAbs ≤ 2 ^ 31) :
    ∃ w, Cal.addYM false v ms = .ok w ∧ w.Valid ∧ absV w = Timeline.addYM (absV v) ms ∧
      (absV w).day = min v.day (monthLen (absV w).year (absV w).month) := by
  obtain ⟨w, h1, h2, h3⟩ := addYM_spec v ms hv hyb
  refine ⟨w, h1, h2, h3, ?_⟩
  rw [h3]; rfl

/-- test (literals): 0000-01-31 (1 BCE, leap) + P1M = 0000-02-29; 0001-01-31 − P1M = 1 BCE-12-31 -/
example : Cal.addYM false ⟨-1, 1, 31, 7, some 330⟩ 1 = .ok ⟨-1, 2, 29, 7, some 330⟩ ∧
    Cal.addYM false ⟨1, 1, 31, 0, none⟩ (-1) = .ok ⟨-1, 12, 31, 0, none⟩ := by decide

/-! ### lexical year numbering and components -/

theorem isoYear_v11 (y : Int) : isoYear true y = (if y < 0 then y + 1 else y) := by
  unfold isoYear
  simp only [Bool.true_eq_false, or_false, ↓reduceIte]
  repeat' split
  all_goals omega

theorem isoYear_v10 (y : Int) : isoYear false y = y := by
  unfold isoYear
  simp only [Bool.false_eq_true, or_true, ↓reduceIte]
  repeat' split
  all_goals omega

/-- **the year component survives the lexical round trip** in both XSD versions: the string form and
`year-from-dateTime` give back the lexical year `n`, and the stored year denotes the astronomical year
the XSD version assigns to `n` (XSD 1.0: no year 0, `-0001` is 1 BCE; XSD 1.1: `0000` is 1 BCE). -/
theorem lex_year_roundtrip (v11 : Bool) (n y : Int) (h : lexYear v11 n = .ok y) :
    y ≠ 0 ∧ isoYear v11 y = n ∧ yearFrom v11 y = n ∧
    some (astro y) = (if v11 then astroOfLex11 n else astroOfLex10 n) := by
  unfold lexYear at h
  cases v11 with
  | true =>
    simp only [↓reduceIte, Except.ok.injEq] at h
    subst h
    rw [isoYear_v11]
    unfold yearFrom astro astroOfLex11
    simp only [↓reduceIte, and_true, Option.some.injEq]
    refine ⟨?_, ?_, ?_, ?_⟩ <;> repeat' split
    all_goals omega
  | false =>
    simp only [Bool.false_eq_true, ↓reduceIte] at h
    split at h
    · cases h
    · rename_i hn
      simp only [Except.ok.injEq] at h
      subst h
      rw [isoYear_v10]
      unfold yearFrom astro astroOfLex10
      simp only [Bool.false_eq_true, ↓reduceIte, hn, and_false, Option.some.injEq]
      refine ⟨hn, trivial, trivial, ?_⟩
      repeat' split
      all_goals omega

/-- **the constructor builds the value of the lexical fields** (`components_roundtrip`): for a non-zero
year (|year| < 2^31), a real calendar date of that year and either a time of day or the form
`24:00:00`, the stored value denotes `Timeline.ofFields` — month, day and time are the given ones, and
`24:00:00` is the first instant of the next day, also on a 31st of December of BCE years and of years
≥ 9999 (former F11f), with the proleptic Gregorian leap years in both eras (former F11c/F11e). -/
theorem components_roundtrip (year m d h mi s us : Int) (tz : Option Int) (hy : year ≠ 0)
    (hyb : year.natAbs < 2 ^ 31) (hm : 1 ≤ m ∧ m ≤ 12) (hd : 1 ≤ d ∧ d ≤ monthLen (astro year) m)
    (ht : (0 ≤ h ∧ h ≤ 23 ∧ 0 ≤ mi ∧ mi ≤ 59 ∧ 0 ≤ s ∧ s ≤ 59 ∧ 0 ≤ us ∧ us ≤ 999999) ∨
          (h = 24 ∧ mi = 0 ∧ s = 0 ∧ us = 0)) :
    ∃ w, mk year m d h mi s us tz = .ok w ∧ w.year ≠ 0 ∧
      absV w = Timeline.ofFields (astro year) m d h mi s us tz :=
  mk_spec year m d h mi s us tz hy (by omega) (fun _ => by omega) hm hd ht

/-- a month/day that does not exist in the proleptic Gregorian year is rejected (`ValueError`, FORG0001
through XPath): e.g. 29 February of 10003, of -0004 (XSD 1.0) or of -0003 (XSD 1.1) -/
theorem ctor_rejects_invalid_date (year m d h mi s us : Int) (tz : Option Int) (hy : year ≠ 0)
    (hyb : year.natAbs ≤ 2 ^ 31) (hh : 0 ≤ h ∧ h ≤ 23)
    (hbad : ¬ (1 ≤ m ∧ m ≤ 12 ∧ 1 ≤ d ∧ d ≤ monthLen (astro year) m)) :
    mk year m d h mi s us tz = .error .value :=
  mk_invalid_date year m d h mi s us tz hy hyb hh hbad

/-- test (literals): -0001-12-31T24:00:00 (XSD 1.0: 1 BCE) is 0001-01-01T00:00:00 -/
example : mk (-1) 12 31 24 0 0 0 none = .ok ⟨1, 1, 1, 0, none⟩ ∧ mk 10000 2 29 0 0 0 0 none = .ok ⟨10000, 2, 29, 0, none⟩ ∧
    mk 10003 2 29 0 0 0 0 none = .error .value ∧ mk (-1) 2 29 0 0 0 0 none = .ok ⟨-1, 2, 29, 0, none⟩ := by decide

/-! ### lexical forms (`fromstring`, `__str__`) -/

/-- **the canonical string of an `xs:dateTime` value re-parses to the value** (`fromstring(str(v)) = v`, hence
`str` of the result is the same string: a fixed point), in both XSD versions, for every valid value with
|year| ≤ 2^31: BCE years in either numbering, years of more than four digits (no leading zero), seconds
fractions (trailing zeros stripped, re-padded), all timezones (kernel-evaluated round trip over the 1681 offsets), surrounding
white-space stripping. -/
theorem dateTime_string_roundtrip (v11 : Bool) (v : DT) (hv : v.Valid) (hyb : v.year.natAbs ≤ 2 ^ 31) :
    dateTimeOfLex v11 (fmtDateTime v11 v) = .ok v ∧
    (dateTimeOfLex v11 (fmtDateTime v11 v)).map (fmtDateTime v11) = .ok (fmtDateTime v11 v) := by
  rw [dateTime_lex_roundtrip v11 v hv hyb]; exact ⟨rfl, rfl⟩

/-- the same for `xs:date` -/
theorem date_string_roundtrip (v11 : Bool) (v : DT) (hv : v.Valid) (hus : v.us = 0) (hyb : v.year.natAbs ≤ 2 ^ 31) :
    dateOfLex v11 (fmtDate v11 v) = .ok v :=
  date_lex_roundtrip v11 v hv hus hyb

/-- the same for `xs:time` -/
theorem time_string_roundtrip (t : DT) (ht : IsTime t) : timeOfLex (fmtTime t) = .ok t :=
  time_lex_roundtrip t ht

/-- the same for gYear, gYearMonth, gMonth, gMonthDay and gDay: `Gregorian*.fromstring(str(g)) = g` for every value
whose absent fields are the constructor's defaults (`GShape`) -/
theorem gregorian_string_roundtrip (k : GKind) (v11 : Bool) (v : DT) (hs : GShape k v) (hv : v.Valid)
    (hyb : v.year.natAbs ≤ 2 ^ 31) : gOfLex k v11 (fmtG k v11 v) = .ok v :=
  g_lex_roundtrip k v11 v hs hv hyb

/-- test (literals): gYear '-0045+02:00' (XSD 1.1: 46 BCE), gMonthDay '--02-29', no '--02-30', gYear '2000-05:00' -/
example : gOfLex .gYear true "-0045+02:00".toList = .ok ⟨-46, 1, 1, 0, some 120⟩ ∧
    gOfLex .gMonthDay false "--02-29".toList = .ok ⟨2000, 2, 29, 0, none⟩ ∧ gOfLex .gMonthDay false "--02-30".toList = .error .value ∧
    gOfLex .gYear false "2000-05:00".toList = .ok ⟨2000, 1, 1, 0, some (-300)⟩ ∧
    fmtG .gYearMonth true ⟨-46, 3, 1, 0, none⟩ = "-0045-03".toList := by decide

/-- **every value the constructor returns is well formed** — for *any* arguments: if `AbstractDateTime.__init__` succeeds
(timezone within ±14:00) the value has a non-zero year of magnitude ≤ 2^31, a real calendar date of its proleptic
Gregorian year and a time inside the day.  (The hypotheses of the other theorems, `v.Valid`, are therefore satisfied by
everything the library can construct.) -/
theorem ctor_result_valid (y m d h mi s us : Int) (tz : Option Int) (w : DT) (htz : TzOk tz)
    (hw : mk y m d h mi s us tz = .ok w) : w.Valid ∧ w.year.natAbs ≤ 2 ^ 31 :=
  mk_valid y m d h mi s us tz w htz hw

/-- the timezone group of the patterns only yields offsets within ±14:00 (structural proof over all strings) -/
theorem tz_group_range (s : List Char) (z : Int) (h : EPV.CalLex.tzParse s = some z) : -840 ≤ z ∧ z ≤ 840 :=
  tzParse_range s z h

/-- **canonicalisation is idempotent — no hypothesis on the literal**: whatever string `fromstring` accepts (any white
space, any number of year and fraction digits, `24:00:00`, any timezone, either XSD version), the string form of the value
it returns is read back to exactly that value: `fromstring(str(fromstring(s))) = fromstring(s)`, for xs:dateTime,
xs:date and xs:time. -/
theorem canonical_string_fixed_point (v11 : Bool) (s : List Char) (v : DT) :
    (dateTimeOfLex v11 s = .ok v → dateTimeOfLex v11 (fmtDateTime v11 v) = .ok v) ∧
    (dateOfLex v11 s = .ok v → dateOfLex v11 (fmtDate v11 v) = .ok v) ∧
    (timeOfLex s = .ok v → timeOfLex (fmtTime v) = .ok v) :=
  ⟨dateTime_canonical_fixed_point v11 s v, date_canonical_fixed_point v11 s v, time_canonical_fixed_point s v⟩

/-- test (literals): a non-canonical literal (white space, long fraction, 24:00:00) and its canonical form -/
example : dateTimeOfLex true " 12345-12-31T24:00:00.000-00:00 ".toList = .ok ⟨12346, 1, 1, 0, some 0⟩ ∧
    fmtDateTime true ⟨12346, 1, 1, 0, some 0⟩ = "12346-01-01T00:00:00Z".toList ∧
    dateTimeOfLex true "12346-01-01T00:00:00Z".toList = .ok ⟨12346, 1, 1, 0, some 0⟩ := by decide

/-- **lexical → components → canonical string**: a literal whose fields are a real calendar date and a time of day
is read by `fromstring` into exactly the value `components_roundtrip` describes — here for the canonical
literal of a value: reading it and building the value from its own fields is the same thing. -/
theorem lexical_agrees_with_components (v11 : Bool) (v : DT) (hv : v.Valid) (hyb : v.year.natAbs ≤ 2 ^ 31) :
    dateTimeOfLex v11 (fmtDateTime v11 v) =
      mkUs v.year v.month v.day v.us v.tz := by
  rw [dateTime_lex_roundtrip v11 v hv hyb]
  obtain ⟨hy, ⟨hm1, hm12, hd1, hd2, hu0, hu1⟩, htz⟩ := hv
  simp only [absV] at hm1 hm12 hd1 hd2 hu0 hu1
  have hmd : 1 ≤ v.day ∧ v.day ≤ monthDays (proxyLeap v.year) v.month := by
    rw [proxyLeap_eq v.year hy, monthDays_eq _ _ hm1 hm12]; exact ⟨hd1, hd2⟩
  rw [mkUs_ok v.year v.month v.day v.us v.tz hy hyb ⟨hm1, hm12⟩ hmd ⟨hu0, by simpa [Cal.US, Timeline.US] using hu1⟩]

/-- test (literals): '-0820-01-01T12:30:15.5+05:30' and the XSD 1.1 year 0000 -/
example : dateTimeOfLex false "-0820-01-01T12:30:15.5+05:30".toList = .ok ⟨-820, 1, 1, 45015500000, some 330⟩ ∧
    fmtDateTime false ⟨-820, 1, 1, 45015500000, some 330⟩ = "-0820-01-01T12:30:15.5+05:30".toList ∧
    dateOfLex true "0000-02-29Z".toList = .ok ⟨-1, 2, 29, 0, some 0⟩ ∧ dateOfLex false "0000-02-29Z".toList = .error .value ∧
    dateOfLex false "012345-01-01".toList = .error .value ∧ timeOfLex "24:00:00".toList = .ok ⟨2000, 1, 1, 0, none⟩ ∧
    timeOfLex "24:00:00.000".toList = .ok ⟨2000, 1, 1, 0, none⟩ ∧ timeOfLex "24:00:00.0000001".toList = .error .value := by decide

/-! ### xs:time -/

/-- **`time ± dayTimeDuration` wraps modulo 24 hours** and keeps the timezone (F&O
`op:add-dayTimeDuration-to-time`), for every time of day and **every** duration (former F11o: no overflow,
the duration is reduced modulo 24 h before it is added to the proxy date). -/
theorem time_add_wraps (t : DT) (dur : Int) (neg : Bool) (ht : IsTime t) :
    timeAddDur t dur neg = .ok { t with us := (t.us + (if neg then -dur else dur)) % Cal.US } ∧
    absT { t with us := (t.us + (if neg then -dur else dur)) % Cal.US } = (absT t).add (if neg then -dur else dur) := by
  refine ⟨?_, rfl⟩
  unfold timeAddDur
  simp only []
  have h0 := ht.2.2.2.1; have h1 := ht.2.2.2.2.1
  have hr : -Cal.US < decRem dur Cal.US ∧ decRem dur Cal.US < Cal.US ∧ (decRem dur Cal.US - dur) % Cal.US = 0 := by
    unfold decRem; simp only [Cal.US]; split <;> omega
  have hdom : TimeDomain t (if neg then -decRem dur Cal.US else decRem dur Cal.US) := by
    unfold TimeDomain MAXORD; simp only [Cal.US] at *; split <;> omega
  rw [timeAddUs_spec t _ ht hdom]
  congr 2
  simp only [Cal.US] at *
  cases neg <;> simp only [Bool.false_eq_true, ↓reduceIte] <;> omega

/-- the arithmetic on the proxy date itself (`Time ± datetime.timedelta` of the Python API) still needs the sum to
stay inside CPython's years 1..9999 -/
theorem time_add_timedelta_overflow (t : DT) (d : Int) (ht : IsTime t) (hdom : ¬ TimeDomain t d) :
    timeAddUs t d = .error .overflow := timeAddUs_err t d ht hdom

/-- test (literals): 23:00:00 + P3000000DT2H = 01:00:00 -/
example : timeAddDur ⟨2000, 1, 1, 82800000000, none⟩ (3000000 * 86400000000 + 7200000000) false =
    .ok ⟨2000, 1, 1, 3600000000, none⟩ := by decide

/-- **`adjust-time-to-timezone`** with both timezones present: the time of day moved by the difference of
the offsets, modulo 24 hours, with the new timezone; never an overflow. -/
theorem time_adjust_wraps (t : DT) (z0 z : Int) (ht : IsTime t) (htz : t.tz = some z0) (hz : -840 ≤ z ∧ z ≤ 840) :
    timeAdjust t (some z) = .ok { t with us := (t.us + (z - z0) * Cal.UM) % Cal.US, tz := some z } ∧
    absT { t with us := (t.us + (z - z0) * Cal.UM) % Cal.US, tz := some z } = (absT t).adjust (some z) := by
  have hz0 := ht.2.2.2.2.2 z0 htz
  have hdom : TimeDomain t ((z - z0) * Cal.UM) := by
    unfold TimeDomain MAXORD
    have := ht.2.2.2.1; have := ht.2.2.2.2.1
    simp only [Cal.US, Cal.UM] at *; omega
  constructor
  · unfold timeAdjust
    rw [htz]
    simp only []
    rw [timeAddUs_spec t _ ht hdom]
    rfl
  · simp only [absT, TVal.adjust, htz]

/-- `adjust-time-to-timezone` without a timezone on either side replaces the timezone only -/
theorem time_adjust_components (t : DT) (tz : Option Int) (h : t.tz = none ∨ tz = none) :
    timeAdjust t tz = .ok { t with tz := tz } := by
  unfold timeAdjust
  rcases h with h | h
  · rw [h]
  · subst h; cases t.tz <;> rfl

/-- **times compare by their position on a common reference day** (F&O `op:time-less-than` etc.), under the
implicit timezone of the context when one operand has no timezone. -/
theorem time_compare (itz : Option Int) (op : Cmp) (a b : DT) (ha : IsTime a) (hb : IsTime b) (hi : TzOk itz) :
    compareCtx itz op a b = op.op ((absT a).key (itz.getD 0)) ((absT b).key (itz.getD 0)) := by
  unfold compareCtx
  rw [compare_time op _ _ (fillTz_time ha itz hi) (fillTz_time hb itz hi)]
  have key : ∀ t : DT, (absT (fillTz itz t)).key 0 = (absT t).key (itz.getD 0) := by
    intro t; obtain ⟨y, m, d, u, z⟩ := t
    unfold fillTz
    cases z <;> cases itz <;> simp [absT, TVal.key, Option.getD]
  rw [key, key]

/-- **`time − time`** is the difference of the positions on the reference day (`op:subtract-times`). -/
theorem time_diff (a b : DT) (ha : IsTime a) (hb : IsTime b) :
    timeDiff a b = TVal.diff 0 (absT a) (absT b) := by
  unfold timeDiff TVal.diff
  rw [proxyKey_time a ha, proxyKey_time b hb]; omega

/-- the `xs:time` constructor: the given time of day; `24:00:00` is `00:00:00` -/
theorem time_ctor (h mi s us : Int) (tz : Option Int)
    (ht : (0 ≤ h ∧ h ≤ 23 ∧ 0 ≤ mi ∧ mi ≤ 59 ∧ 0 ≤ s ∧ s ≤ 59 ∧ 0 ≤ us ∧ us ≤ 999999) ∨
          (h = 24 ∧ mi = 0 ∧ s = 0 ∧ us = 0)) :
    timeMk h mi s us tz = .ok ⟨2000, 1, 1, (if h = 24 then 0 else timeUs h mi s us), tz⟩ := by
  unfold timeMk
  rcases ht with ⟨h0, h23, a, b, c, d, e, f⟩ | ⟨rfl, rfl, rfl, rfl⟩
  · have h24 : (h == 24) = false := by simp; omega
    simp only [h24, Bool.false_and, Bool.false_eq_true, ↓reduceIte]
    rw [mk_ok 2000 1 1 h mi s us tz (by decide) (by decide) (by decide) (by decide) ⟨h0, h23⟩ ⟨a, b⟩ ⟨c, d⟩ ⟨e, f⟩]
    rw [if_neg (by omega)]
  · simp only [BEq.rfl, Bool.and_self, ↓reduceIte]
    exact mk_ok 2000 1 1 0 0 0 0 tz (by decide) (by decide) (by decide) (by decide) (by omega) (by omega) (by omega) (by omega)

/-! ### gYear, gYearMonth, gMonth, gMonthDay, gDay -/

/-- the Gregorian partial types store their fields with the defaults year 2000, month 1, day 1 and time
00:00:00, i.e. the value is the **starting instant** of the year / month / day (XSD 1.1 §3.3.11–15). -/
theorem gregorian_fields (k : GKind) (year month day : Int) (tz : Option Int) (w : DT)
    (h : gMk k year month day tz = .ok w) :
    w.us = 0 ∧ w.tz = tz ∧
    (k = .gYear → w.month = 1 ∧ w.day = 1) ∧ (k = .gYearMonth → w.day = 1) ∧
    (k = .gMonth → w.year = 2000 ∧ w.day = 1) ∧ (k = .gMonthDay → w.year = 2000) ∧
    (k = .gDay → w.year = 2000 ∧ w.month = 1) :=
  gMk_spec k year month day tz w h

/-- **equality of gYear … gDay values is equality of their starting instants** (F&O `op:gYear-equal` …
`op:gDay-equal`), the reference year 2000 being a leap year like F&O's 1972. -/
theorem gregorian_eq_iff_start_instant (itz : Option Int) (a b : DT) (ha : a.Valid) (hb : b.Valid) (hi : TzOk itz)
    (hd : CmpDomain (fillTz itz a) (fillTz itz b)) :
    compareCtx itz .eq a b = decide ((absV a).instantI (itz.getD 0) = (absV b).instantI (itz.getD 0)) :=
  compareCtx_spec itz .eq a b ha hb hi hd

/-- test (literals): --02-29 exists, --02-30 does not; gYear 0000 is 1 BCE in XSD 1.1 numbering (-1) -/
example : gMk .gMonthDay 0 2 29 none = .ok ⟨2000, 2, 29, 0, none⟩ ∧ gMk .gMonthDay 0 2 30 none = .error .value ∧
    gMk .gYear (-1) 0 0 (some 60) = .ok ⟨-1, 1, 1, 0, some 60⟩ ∧ gMk .gDay 0 0 31 none = .ok ⟨2000, 1, 31, 0, none⟩ := by decide

/-! ### durations -/

/-- `months2days(year, month, delta)` is the number of days from the 1st of `month` of `year` to the 1st of
the month `delta` months later (earlier when negative) — every year, month 1..12 and delta. -/
theorem months2days_is_day_count (y m δ : Int) (hm : 1 ≤ m ∧ m ≤ 12) :
    months2days y m δ =
      dayNum ((12 * y + (m - 1) + δ) / 12) ((12 * y + (m - 1) + δ) % 12 + 1) 1 - dayNum y m 1 := by
  rw [months2days_eq y m δ hm, dayNum_eq_C _ _ _ (by omega) (by omega), dayNum_eq_C _ _ _ hm.1 hm.2]

/-- **the order of durations is the XSD four-reference-points order** (XSD 1.1 §3.3.6.2): for every pair
of durations (months, µs) and each of `lt le gt ge`, `Duration._compare_durations` holds exactly when
`t + d1 op t + d2` for the four reference dateTimes 1696-09, 1697-02, 1903-03, 1903-07. -/
theorem duration_order_four_points (op : Cmp) (m1 s1 m2 s2 : Int) :
    Cal.durationCmp op m1 s1 m2 s2 = Timeline.durationCmp op.op m1 s1 m2 s2 :=
  durationCmp_eq op m1 s1 m2 s2

/-- `round_number` (both `Decimal.quantize` branches) is F&O's `fn:round`: nearest integer, ties towards +∞ -/
theorem round_number_is_fn_round (num den : Int) (hd : 0 < den) :
    roundNumber num den = Timeline.roundHalfUp num den ∧ IsRoundHalfUp num den (roundNumber num den) :=
  ⟨roundNumber_eq_spec num den hd, roundNumber_spec num den hd⟩

/-- **`yearMonthDuration × number`** (`number = n / d` exactly: integer, decimal or double): the months are
`fn:round(months × number)` (F&O `op:multiply-yearMonthDuration`), whenever the result is returned. -/
theorem ym_mul_rounds (m n d : Int) (hd : 0 < d) (r : Dur) (h : ymMul m n d = .ok r) :
    r.us = 0 ∧ r.months = Timeline.roundHalfUp (m * n) d ∧ IsRoundHalfUp (m * n) d r.months := by
  have := durMk_ok _ _ r h
  subst this
  exact ⟨rfl, roundNumber_eq_spec _ _ hd, roundNumber_spec _ _ hd⟩

/-- **`yearMonthDuration ÷ number`**: `fn:round(months ÷ number)`; a zero divisor is the operator's error. -/
theorem ym_div_rounds (m n d : Int) (hn : n ≠ 0) (r : Dur) (h : ymDiv m n d = .ok r) :
    r.us = 0 ∧ (0 < n → IsRoundHalfUp (m * d) n r.months) ∧ (n < 0 → IsRoundHalfUp (-(m * d)) (-n) r.months) := by
  unfold ymDiv at h
  rw [if_neg hn] at h
  split at h
  · rename_i hp
    have := durMk_ok _ _ r h; subst this
    exact ⟨rfl, fun _ => roundNumber_spec _ _ hp, fun hc => by omega⟩
  · rename_i hp
    have := durMk_ok _ _ r h; subst this
    exact ⟨rfl, fun hc => by omega, fun _ => roundNumber_spec _ _ (by omega)⟩

/-- **`dayTimeDuration × number`** and **`÷ number`**: the µs of the result are a nearest integer of the exact
product / quotient, the even one on a tie (the duration value space is the µs grid). -/
theorem dt_mul_nearest (s n d : Int) (hd : 0 < d) (r : Dur) (h : dtMul s n d = .ok r) :
    r.months = 0 ∧ r.us = Timeline.roundNearestEven (s * n) d ∧ IsRoundHalfEven (s * n) d r.us := by
  have := durMk_ok _ _ r h
  subst this
  exact ⟨rfl, roundHalfEven_eq_spec _ _ hd, roundHalfEven_spec _ _ hd⟩

theorem dt_div_nearest (s n d : Int) (hn : 0 < n) (r : Dur) (h : dtDiv s n d = .ok r) :
    r.months = 0 ∧ IsRoundHalfEven (s * d) n r.us := by
  unfold dtDiv at h
  rw [if_neg (by omega), if_pos hn] at h
  have := durMk_ok _ _ r h; subst this
  exact ⟨rfl, roundHalfEven_spec _ _ hn⟩

theorem duration_div_by_zero (x d : Int) : ymDiv x 0 d = .error .zerodiv ∧ dtDiv x 0 d = .error .zerodiv := ⟨rfl, rfl⟩

/-- **duration ± duration** is exact, and `(a + b) − b = a` for yearMonth- and dayTimeDurations inside the
constructor's limits. -/
theorem duration_add_sub_cancel (a b : Int) :
    (∀ r, ymAdd a b false = .ok r → a.natAbs ≤ 2 ^ 31 → r.months = a + b ∧ ymAdd r.months b true = .ok ⟨a, 0⟩) ∧
    (∀ r, dtAdd a b false = .ok r → a.natAbs ≤ 2 ^ 63 * 1000000 → r.us = a + b ∧ dtAdd r.us b true = .ok ⟨0, a⟩) := by
  constructor
  · intro r h ha
    have := durMk_ok _ _ r h; subst this
    simp only [Bool.false_eq_true, ↓reduceIte]
    refine ⟨trivial, ?_⟩
    unfold ymAdd
    simp only [↓reduceIte, show a + b - b = a by omega]
    exact durMk_of_bounds a 0 (by omega) ha (by decide)
  · intro r h ha
    have := durMk_ok _ _ r h; subst this
    simp only [Bool.false_eq_true, ↓reduceIte]
    refine ⟨trivial, ?_⟩
    unfold dtAdd
    simp only [↓reduceIte, show a + b - b = a by omega]
    exact durMk_of_bounds 0 a (by omega) (by decide) ha

/-- test (literals): P5M × 0.5 = P3M, −P5M × 0.5 = −P2M (ties towards +∞); PT1S × 1.0000005 = PT1S, × 1.0000015 = PT1.000002S -/
example : ymMul 5 1 2 = .ok ⟨3, 0⟩ ∧ ymMul (-5) 1 2 = .ok ⟨-2, 0⟩ ∧ dtMul 1000000 10000005 10000000 = .ok ⟨0, 1000000⟩ ∧
    dtMul 1000000 10000015 10000000 = .ok ⟨0, 1000002⟩ ∧ ymDiv 5 (-2) 1 = .ok ⟨-2, 0⟩ := by decide

/-- XSD 1.0 has no year 0000 (`ValueError`), XSD 1.1 accepts every lexical year -/
theorem lex_year_zero : lexYear false 0 = .error .value ∧ ∀ n : Int, ∃ y, lexYear true n = .ok y :=
  ⟨rfl, fun _ => ⟨_, rfl⟩⟩

end EPV.C11

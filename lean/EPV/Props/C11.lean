/-
C11 — property theorems: date/time values follow the proleptic Gregorian timeline.

Reading guide
* `Cal.*`       : the model = transcription of elementpath/datatypes/datetime.py + helpers.py
                  (EPV/Model/Calendar.lean); years are the library's internal numbers (never 0).
* `Timeline.*`  : the specification (EPV/Spec/Timeline.lean); `daysBeforeYear`/`dayNum` are plain
                  sums of year and month lengths, `instant` = µs since 0001-01-01T00:00:00Z.
* `absV v`      : the specification value denoted by a model value (internal year -> astronomical).
* `v.Valid`     : year ≠ 0, real calendar date, time inside the day, timezone within ±14:00.
* `TdOk t`      : `t` fits a `datetime.timedelta` (|days| ≤ 999 999 999).  Its complement is exactly
                  the trigger of known finding F11d (representation limit ≈ ±2.7 million years).
All theorems quantify over unbounded `Int` years and times.
-/
import EPV.Lemmas.CalendarDelta
namespace EPV.C11
open EPV.Cal EPV.Timeline

/-- `days_from_common_era` (three branches, floor divisions) equals the **sum of the lengths of the
years** between 0001-01-01 and the end of year `y` (negative for BCE years) — every `Int` year. -/
theorem dfce_eq_sum (y : Int) : dfce y = daysBeforeYear (y + 1) := by
  rw [dfce_eq_C, daysBeforeYear_eq_C]

/-- the definitional instant equals the closed form the driver evaluates -/
theorem instant_eq_instantC (v : Val) (hv : v.Valid) : v.instant = v.instantC := by
  unfold Val.instant Val.instantC Val.localT Val.localC
  rw [dayNum_eq_C _ _ _ hv.1 hv.2.1]

/-- **`todelta()` is the value's instant on the timeline**: for every valid value whose instant fits a
`timedelta`, in both eras and beyond year 9999. -/
theorem todelta_eq_instant (v : DT) (hv : v.Valid) (h : TdOk (absV v).instant) :
    todelta v = .ok (absV v).instant := by
  rw [todelta_eq v hv, ← instant_eq_instantC _ hv.2.1, tdNorm_ok h]

/-- PARTIAL (known finding F11d): outside the `timedelta` range `todelta()` raises `OverflowError`;
the full statement "`todelta v` is the instant for every year in ±2^31" is false. -/
theorem todelta_overflow (v : DT) (hv : v.Valid) (h : ¬ TdOk (absV v).instant) :
    todelta v = .error .overflow := by
  rw [todelta_eq v hv, ← instant_eq_instantC _ hv.2.1, tdNorm_err h]

/-- F11d witness: 3000000-01-01T00:00:00 is a valid value whose timeline offset does not fit. -/
theorem todelta_overflow_witness :
    (⟨3000000, 1, 1, 0, none⟩ : DT).Valid ∧ ¬ TdOk (absV ⟨3000000, 1, 1, 0, none⟩).instantC ∧
    todelta ⟨3000000, 1, 1, 0, none⟩ = .error .overflow := by decide

/-- test (literals): the hypotheses of `todelta_eq_instant` hold on a BCE leap day with timezone -/
example : (⟨-5, 2, 29, 45015000001, some 330⟩ : DT).Valid ∧ TdOk (absV ⟨-5, 2, 29, 45015000001, some 330⟩).instantC ∧
    todelta ⟨-5, 2, 29, 45015000001, some 330⟩ = .ok (-152729984999999) := by decide

end EPV.C11

/-
C19 (phase 5b) — the comparison bracket restores `LC_COLLATE` and releases the lock on EVERY exit,
also when `strcoll` / `strxfrm` itself raises; the variant without `finally` does not.
-/
import EPV.Model.GlobalsCollRaise
import EPV.Lemmas.Globals
namespace EPV.C19
open EPV.Globals EPV.Globals.CollRaise

/-- on the normal path the bracket with an explicit primitive outcome is the `useLoc` of the
evaluation model, so every theorem of `Props/C19.lean` speaks about it -/
theorem useLocR_normal (w : World) (eff : Loc) (σ : State) : useLocR w eff false σ = useLoc w eff σ := by
  rfl

/-- **Every exit of the critical section** (any world, any effective locale, primitive returning or
raising, `setlocale` accepting or rejecting the effective locale): from a lock-free state whose
`LC_COLLATE` the C library accepts, `_locale_call` does not block and ends with the lock free,
`LC_COLLATE`, environment and decimal context as they were. -/
theorem locale_call_restores_on_exception (w : World) (eff : Loc) (raises : Bool) (σ : State)
    (hl : σ.lock = false) (ha : w.avail σ.lc = true) :
    isStuck (useLocR w eff raises σ) = false ∧
    (final (useLocR w eff raises σ)).lock = false ∧
    (final (useLocR w eff raises σ)).lc = σ.lc ∧
    (final (useLocR w eff raises σ)).env = σ.env ∧
    (final (useLocR w eff raises σ)).dec = σ.dec := by
  unfold useLocR
  simp only [hl, Bool.false_eq_true, if_false]
  by_cases he : w.avail eff = true
  · cases raises <;> simp [setloc, leave, he, ha, final, isStuck]
  · simp [setloc, he, logFail, final, isStuck]

/-- the exception of the primitive is the one that surfaces (the restore does not replace it) -/
theorem locale_call_raise_surfaces (w : World) (eff : Loc) (σ : State)
    (hl : σ.lock = false) (ha : w.avail σ.lc = true) (he : w.avail eff = true) :
    ∃ τ, useLocR w eff true σ = .err .valueError τ := by
  unfold useLocR
  simp [hl, setloc, leave, he, ha]

/-- any number of comparisons by one manager, any of them raising: same conclusion -/
theorem comparisons_restore_on_exception (w : World) (eff : Loc) (rs : List Bool) :
    ∀ (σ : State), σ.lock = false → w.avail σ.lc = true →
      isStuck (useMany w eff rs σ) = false ∧ (final (useMany w eff rs σ)).lock = false ∧
      (final (useMany w eff rs σ)).lc = σ.lc ∧ (final (useMany w eff rs σ)).env = σ.env ∧
      (final (useMany w eff rs σ)).dec = σ.dec := by
  induction rs with
  | nil => intro σ hl _; simp [useMany, final, isStuck, hl]
  | cons r rs ih =>
    intro σ hl ha
    have h := locale_call_restores_on_exception w eff r σ hl ha
    unfold useMany
    cases hu : useLocR w eff r σ with
    | ok u σ' =>
      rw [hu] at h
      simp only [final] at h
      have := ih σ' h.2.1 (by rw [h.2.2.1]; exact ha)
      simp only
      rw [h.2.2.1, h.2.2.2.1, h.2.2.2.2] at this
      exact this
    | err e σ' => rw [hu] at h; exact h
    | stuck σ' => rw [hu] at h; exact h

/-- test world: `C` and `C.UTF-8` installed, process locale `C` -/
def wCU : World := ⟨fun n => n == "C" || n == "C.UTF-8", fun _ => "C.UTF-8"⟩
def σC : State := ⟨false, "C", [], "", []⟩

example : (final (useLocR wCU "C.UTF-8" true σC)).lc = "C" ∧ (final (useLocR wCU "C.UTF-8" true σC)).lock = false := by
  decide

/-- **Counter-example, kernel-checked**: without `try/finally` a raising `strcoll` leaves
`LC_COLLATE` switched to the collation's locale (lock released) — the seeded change of round 5 —
while the normal path of that variant still restores. -/
theorem no_finally_leaves_locale_switched :
    (final (useLocNoFinally wCU "C.UTF-8" true σC)).lc = "C.UTF-8" ∧
    (final (useLocNoFinally wCU "C.UTF-8" true σC)).lock = false ∧
    (final (useLocNoFinally wCU "C.UTF-8" false σC)).lc = "C" := by
  decide

end EPV.C19

/-
C12 — property theorems: XSD/XPath regular expressions.

Reading guide
* layer 1  `CC` = the `positive`/`negative` pair of `CharacterClass`; `evalClass e` = what
  `parse_character_class` builds for the class expression `e` (items, `^`, `-[...]`);
  `specClass e` = the set XSD 1.1 part 2 appendix G assigns to `e`.
* layer 2  `Matches r p w n` = the word `w` (between characters `p` and `n`) is in the language of
  the core expression `r`; `derivMatch` / `searchB` = the executable derivative matcher the
  correspondence check uses as oracle for Python's `re` on `translate_pattern(P)`.
* layer 3  `spans` = the ordered non-overlapping non-empty matches found in the input;
  `analyzeM`, `tokenizeM`, `replaceM` = the implementation's fn:analyze-string (string values of
  its children), fn:tokenize, fn:replace as functions of `spans`.
Helper lemmas: EPV/Lemmas/Regex*.lean.
-/
import EPV.Lemmas.RegexDeriv
import EPV.Lemmas.RegexClass
import EPV.Lemmas.RegexFuns
import EPV.Lemmas.RegexScanner
import EPV.Lemmas.RegexTranslate
import EPV.Lemmas.RegexClassPlain
import EPV.Lemmas.RegexClassGrammar
import EPV.Lemmas.RegexClassUnits
namespace EPV.C12
open EPV.Regex

/-! ## layer 1: character classes -/

/-- PARTIAL (known finding F12).  Full statement: for every class expression `e` and code point
`x`, `x ∈ CharacterClass(e)` iff `x` is in the XSD set of `e`.  It is false when a negated
multi-character escape stands together with another item (`ClassE.f12`, see the three
`charclass_denote_fails_*` below); outside that it holds for every nesting of subtractions. -/
theorem charclass_denote_partial (e : ClassE) (h12 : e.f12 = false) (hne : e.negTablesNonempty = true)
    (x : Nat) (hx : x < maxCP1) : (evalClass e).contains x = specClass e x :=
  (evalClass_spec e h12 hne).2 x hx

/-- the text produced by `CharacterClass.__str__` (three layouts) denotes exactly `__contains__`,
for every class, pure or not -/
theorem charclass_str_denote (c : CC) (x : Nat) : c.strDenote x = c.contains x := by
  unfold CC.strDenote CC.contains
  cases hn : c.neg.isEmpty <;> cases hp : c.pos.isEmpty <;> simp
  intro h; rw [(isEmpty_iff _).1 hp x] at h; cases h

/-- a small stand-in for the `Nd` table in the witnesses -/
def digits : SetE := .ranges [(48, 58)]
def white : SetE := .ranges [(9, 11), (13, 14), (32, 33)]

/-- F12 witness: `[^a\D]` contains `b` (XSD: the digits only) -/
theorem charclass_denote_fails_neg_mixed :
    let e := ClassE.plain true [⟨false, .single 97⟩, ⟨true, digits⟩]
    e.f12 = true ∧ (evalClass e).contains 98 = true ∧ specClass e 98 = false := by decide

/-- F12 witness: `[^5\D]` contains `5` -/
theorem charclass_denote_fails_neg_mixed5 :
    let e := ClassE.plain true [⟨false, .single 53⟩, ⟨true, digits⟩]
    e.f12 = true ∧ (evalClass e).contains 53 = true ∧ specClass e 53 = false := by decide

/-- F12 witness: `[\D\S]` does not contain `5` (XSD: everything but nothing is both digit and space) -/
theorem charclass_denote_fails_two_neg :
    let e := ClassE.plain false [⟨true, digits⟩, ⟨true, white⟩]
    e.f12 = true ∧ (evalClass e).contains 53 = false ∧ specClass e 53 = true := by decide

/-- test on literals: the hypotheses of `charclass_denote_partial` hold on a non-trivial class,
`[^\d-[^5-[5]]]` style nesting: `[a-z-[aeiou-[e]]]` and `[\D-[a]]` -/
example :
    let e := ClassE.minus false [⟨false, .range 97 122⟩] (.minus false [⟨false, .single 97⟩, ⟨false, .single 101⟩] (.plain false [⟨false, .single 101⟩]))
    e.f12 = false ∧ e.negTablesNonempty = true ∧ (evalClass e).contains 101 = true ∧ (evalClass e).contains 97 = false := by decide
example :
    let e := ClassE.minus false [⟨true, digits⟩] (.plain false [⟨false, .single 97⟩])
    e.f12 = false ∧ e.negTablesNonempty = true ∧ (evalClass e).contains 97 = false ∧ (evalClass e).contains 98 = true := by decide

theorem all_nonempty : SetE.all.isEmpty = false := by decide

/-- `complement()` twice gives back the same set of code points — for every class -/
theorem complement_involutive (c : CC) (x : Nat) (hx : x < maxCP1) :
    c.complement.complement.contains x = c.contains x := by
  cases hp : c.pos.isEmpty <;> cases hn : c.neg.isEmpty
  · simp [CC.complement, hp, hn]
  · simp [CC.complement, hp, hn]
  · simp [CC.complement, hp, hn]
  · have hP := (isEmpty_iff _).1 hp
    have hN := (isEmpty_iff _).1 hn
    simp [CC.complement, hp, hn, all_nonempty, CC.contains, all_mem, hx, hP x, hN x]

/-- PARTIAL (F12): `complement()` denotes the set complement when the class is pure (empty
positive or empty negative part); for a mixed class it does not (`charclass_denote_fails_neg_mixed`). -/
theorem complement_spec_partial (c : CC) (hp : c.Pure) (x : Nat) (hx : x < maxCP1) :
    c.complement.contains x = !c.contains x :=
  (complement_pure c hp).2 x hx

/-- PARTIAL (F12): `self -= other` denotes set difference, and stays pure, for pure operands. -/
theorem subtraction_spec_partial (c o : CC) (hc : c.Pure) (ho : o.Pure) :
    (c.isub o).Pure ∧ ∀ x, (c.isub o).contains x = (c.contains x && !o.contains x) :=
  isub_pure c o hc ho

/-- `__isub__` on a mixed subtrahend: `[a-c-[a\D]]` keeps `a`?  no — it keeps nothing it should
not, but `[^a-[\D5]]`-like mixed operands break it: witness with self `[^a]`, other `[5\D]`:
XSD result = digits other than 5 (and not `a`); implementation result contains `b`. -/
theorem subtraction_fails_mixed :
    let c := evalClass (.plain true [⟨false, .single 97⟩])
    let o := evalClass (.plain false [⟨false, .single 53⟩, ⟨true, digits⟩])
    (c.isub o).contains 98 = true ∧ (c.contains 98 && !o.contains 98) = false := by decide

/-! ### the class scanner (transcribed `parse_character_class` / `_re_char_set.split` /
`CharacterClass.add`; `iterparse_character_subset` is C13's transcription) -/

/-- PARTIAL.  Full statement (DESIGN: `charclass_denote`): for every class text `src`,
`denote (parseClass src) = specClass src` — false in general (findings F12, F12s, F12u).
Proved: for every bracket expression `g : GClass` — optional `^`, a group made of *literal runs that
the XSD group grammar reads* (Spec/CharGroupStrict.lean: characters, ranges `a-b` with `a ≤ b`, a
hyphen first or last) and *single-character escapes* `\n \r \t \| \. \- \^ \? \* \+ \{ \} \( \) \]`, any depth
of `-[...]` subtraction — that is well formed (`GClass.WF`: runs are backslash- and bracket-free and
never adjacent, an escape is not directly preceded by `-`, the run after an escape does not begin with
`-`, the translator's `--` / XSD-1.0 `x-y-z` checks pass, no leading `^` unless negated) and has no
forbidden escape, the scanner accepts the text and builds a pure class whose members are exactly the
grammar's set `g.Den` (union of the parts, complemented under `^`, minus the subtracted class), for
every table set, XSD version and flavour.  Multi-character / category escapes inside brackets are not
in this theorem (their algebra is `charclass_denote_partial`). -/
theorem charclass_scan_grammar_partial (T : MTables) (v10 xp : Bool) (g : GClass) (hwf : g.WF v10)
    (hfe : forbiddenEscape xp none (91 :: g.render) = false) :
    ∃ cc, parseClassText T v10 xp (91 :: g.render) = some cc ∧ cc.Pure ∧
      ∀ x, x < maxCP1 → (cc.contains x = true ↔ g.Den x) := by
  obtain ⟨cc, h, hp, hc⟩ := parseClassM_grammar T v10 g hwf (g.render.length + 1) []
    (Nat.le_succ_of_le g.depth_le_render)
  refine ⟨cc, ?_, hp, hc⟩
  simp only [List.append_nil] at h
  simp [parseClassText, hfe, h]

/-- test on literals: `[^a-f\-0-9+-[c\.]]` is a well-formed `GClass` for XSD 1.1 (hypotheses checked by the
kernel), its text is the expected one -/
example :
    let g := GClass.minus true [.lit [97, 45, 102] [.rng 97 103], .tok 45, .lit [48, 45, 57, 43] [.rng 48 58, .one 43]]
      (.plain false [.lit [99] [.one 99], .tok 46])
    g.render = [94, 97, 45, 102, 92, 45, 48, 45, 57, 43, 45, 91, 99, 92, 46, 93, 93] ∧
    forbiddenEscape true none (91 :: g.render) = false := by decide

/-- … and it satisfies the hypothesis `WF` of the theorem (XSD 1.1 checks) -/
example :
    (GClass.minus true [.lit [97, 45, 102] [.rng 97 103], .tok 45, .lit [48, 45, 57, 43] [.rng 48 58, .one 43]]
      (.plain false [.lit [99] [.one 99], .tok 46])).WF false := by
  refine ⟨⟨by simp, ⟨by simp, ?_, by decide, by simp, trivial, ⟨by decide, by decide, ⟨by simp, ?_, by decide, by simp, trivial, trivial⟩⟩⟩, by simp, by decide⟩,
    ⟨by simp, ⟨by simp, ?_, by decide, by simp, trivial, ⟨by decide, by decide, trivial⟩⟩, by decide, by decide⟩⟩
  all_goals (intro c hc; simp only [List.mem_cons, List.not_mem_nil, or_false] at hc; unfold NoBr; rcases hc with rfl | rfl | rfl | rfl <;> decide)

/-- the same theorem on plain-character bodies, in Boolean form -/
theorem charclass_scan_plain_partial (T : MTables) (v10 xp : Bool) (body : List Ch) (hne : body ≠ [])
    (hp : ∀ c ∈ body, Plain c) (h0 : body.head? ≠ some 94) :
    ∃ cc, parseClassText T v10 xp (91 :: (body ++ [93])) = some cc ∧ ∀ x, x < maxCP1 → cc.contains x = decide (x ∈ body) := by
  have h92 : ∀ c ∈ 91 :: (body ++ [93]), c ≠ 92 := by
    intro c hc
    simp only [List.mem_cons, List.mem_append, List.not_mem_nil, or_false] at hc
    rcases hc with rfl | hc | rfl
    · decide
    · exact (hp c hc).1
    · decide
  obtain ⟨cc, h, _, hc⟩ := charclass_scan_grammar_partial T v10 xp (.plain false [.lit body (body.map EPV.USet.CP.one)])
    (plain_groupWF v10 body hne hp h0)
    (by simpa [GClass.render, caret, renderSegs, Seg.text] using forbidden_none xp _ h92 none)
  refine ⟨cc, by simpa [GClass.render, caret, renderSegs, Seg.text] using h, fun x hx => ?_⟩
  have hh := hc x hx
  simp only [GClass.Den, Bool.false_eq_true, if_false, SegsDen, List.mem_cons, List.not_mem_nil, or_false,
    exists_eq_left, memL_ones] at hh
  cases hcc : cc.contains x with
  | true => exact (decide_eq_true (hh.1 hcc)).symm
  | false =>
    have : ¬ x ∈ body := fun hx' => by rw [hh.2 hx'] at hcc; cases hcc
    exact (decide_eq_false this).symm

/-- test on literals: the hypotheses hold for `[ab^ .]` -/
example : (∀ c ∈ [97, 98, 94, 32, 46], Plain c) ∧ ([97, 98, 94, 32, 46] : List Ch).head? ≠ some 94 := by
  refine ⟨?_, by decide⟩
  intro c hc
  simp only [List.mem_cons, List.not_mem_nil, or_false] at hc
  rcases hc with rfl | rfl | rfl | rfl | rfl <;> (unfold Plain; decide)

/-- small stand-in tables for the witnesses: `\d` = ASCII digits, `\s` = XSD white space -/
def T0 : MTables := { esc := fun e => if e == 100 then digits else white, prop := fun _ => none }
def S0 : Tables := { prop := fun n => if n == nameOf "Nd" then some digits else none }

/-- the XSD reading of a class text: grammar [75]-[81], then `specClass` -/
def specOfText (s : List Ch) (x : Nat) : Option Bool :=
  match s with
  | 91 :: rest =>
    match pClass {} (3 * rest.length + 4) rest {} with
    | some (c, [], _) => (c.toClassE S0).map fun e => specClass e x
    | _ => none
  | _ => none

/-- F12s witness `[\\d]` (escaped backslash, then `d`): the implementation reads backslash + `\d` -/
theorem scanner_fails_escaped_backslash :
    let src := [91, 92, 92, 100, 93]
    (parseClassText T0 false true src).map (fun c => (c.contains 100, c.contains 53)) = some (false, true) ∧
    specOfText src 100 = some true ∧ specOfText src 53 = some false := by decide +kernel

/-- F12s witness `[\$]`: contains the backslash -/
theorem scanner_fails_escaped_dollar :
    let src := [91, 92, 36, 93]
    (parseClassText T0 false true src).map (·.contains 92) = some true ∧ specOfText src 92 = some false := by decide +kernel

/-- F12s witness `[\n-z]`: read as the three characters newline, `-`, `z` instead of a range -/
theorem scanner_fails_escape_range_start :
    let src := [91, 92, 110, 45, 122, 93]
    (parseClassText T0 false true src).map (fun c => (c.contains 97, c.contains 122)) = some (false, true) ∧
    specOfText src 97 = some true := by decide +kernel

/-- F12s witness `[\q]`: accepted (XSD: no such escape) -/
theorem scanner_accepts_bad_escape :
    let src := [91, 92, 113, 93]
    (parseClassText T0 false true src).isSome = true ∧ specOfText src 113 = none := by decide +kernel

/-- F12u witness `[\p{IsFoo}]` under XSD 1.0: accepted as "all characters" -/
theorem scanner_accepts_unknown_block_v10 :
    let src := [91, 92, 112, 123, 73, 115, 70, 111, 111, 125, 93]
    (parseClassText T0 true true src).map (·.contains 97) = some true ∧ specOfText src 97 = none := by decide +kernel

/-- test on literals: scanner + algebra agree with the XSD reading on `[a-z-[aeiou]]`, `[^\d\-x]`,
`[\]a-c-]`, and both reject `[]`, `[a-[b]` and `[z-a]` -/
example :
    (∀ x ∈ [97, 98, 101, 122, 45, 123], (parseClassText T0 false true [91, 97, 45, 122, 45, 91, 97, 101, 105, 111, 117, 93, 93]).map (·.contains x)
        = specOfText [91, 97, 45, 122, 45, 91, 97, 101, 105, 111, 117, 93, 93] x) ∧
    (∀ x ∈ [53, 45, 120, 121], (parseClassText T0 false true [91, 94, 92, 100, 92, 45, 120, 93]).map (·.contains x)
        = specOfText [91, 94, 92, 100, 92, 45, 120, 93] x) ∧
    (∀ x ∈ [93, 97, 98, 99, 100, 45], (parseClassText T0 false true [91, 92, 93, 97, 45, 99, 45, 93]).map (·.contains x)
        = specOfText [91, 92, 93, 97, 45, 99, 45, 93] x) ∧
    parseClassText T0 false true [91, 93] = none ∧ specOfText [91, 93] 97 = none ∧
    (parseClassText T0 false true [91, 97, 45, 91, 98, 93]).isNone = true ∧ specOfText [91, 97, 45, 91, 98, 93] 97 = none ∧
    (parseClassText T0 false true [91, 122, 45, 97, 93]).isNone = true ∧ specOfText [91, 122, 45, 97, 93] 97 = none := by decide +kernel

/-! ## layer 2: the derivative matcher is the language -/

/-- the executable matcher decides the denotational language, for every expression, word and
one-character context (induction on the word) -/
theorem deriv_correct (r : RE) (p : Option Ch) (w : List Ch) (n : Option Ch) :
    derivMatch r p w n = true ↔ Matches r p w n :=
  derivMatch_iff r p w n

/-- the `fn:matches` oracle: `searchB r s` iff some substring of `s` matches `r` in its context -/
theorem search_correct (r : RE) (s : List Ch) : searchB r s = true ↔ Search r s := by
  unfold searchB
  rw [derivMatch_iff, searchRE_iff]

/-- the pattern-facet oracle (whole string) -/
theorem full_correct (r : RE) (s : List Ch) : fullB r s = true ↔ Full r s := derivMatch_iff r none s none

/-- the quantifier `{lo,hi}` / `{lo,}` of the oracle (desugared by `rep` into concatenations,
options and a star) matches exactly `k` consecutive matches of its atom for some `lo ≤ k (≤ hi)` -/
theorem quantifier_spec (r : RE) (lo : Nat) (hi : Option Nat) (hle : ∀ m, hi = some m → lo ≤ m)
    (p : Option Ch) (w : List Ch) (n : Option Ch) :
    Matches (rep r lo hi) p w n ↔ ∃ k, lo ≤ k ∧ (∀ m, hi = some m → k ≤ m) ∧ Pow r k p w n :=
  rep_iff r lo hi hle p w n

/-- the oracle used to check where a match may start: `prefixMatch r p w n` iff some prefix of
`w` is in the language of `r` (in its context) -/
theorem prefix_match_correct (r : RE) (p : Option Ch) (w : List Ch) (n : Option Ch) :
    prefixMatch r p w n = true ↔ ∃ u v, w = u ++ v ∧ Matches r p u (ctxR v n) :=
  prefixMatch_iff r p w n

/-- `leftmostStart r s k = some j`: a match of `r` starts at `j ≥ k` (some prefix of `s[j:]` is in
the language, in its context) and no match starts at any position in `[k, j)` -/
theorem leftmost_start_some (r : RE) (s : List Ch) (k j : Nat) (h : leftmostStart r s k = some j) :
    ∃ u v, s.drop k = u ++ v ∧ j = k + u.length ∧ prefixMatch r (ctxL (s.take k).getLast? u) v none = true ∧
      ∀ u' v', s.drop k = u' ++ v' → u'.length < u.length → prefixMatch r (ctxL (s.take k).getLast? u') v' none = false :=
  lmsGo_some r (s.drop k) _ k j h

/-- `leftmostStart r s k = none`: no match of `r` starts at any position `≥ k` -/
theorem leftmost_start_none (r : RE) (s : List Ch) (k : Nat) (h : leftmostStart r s k = none) :
    ∀ u v, s.drop k = u ++ v → prefixMatch r (ctxL (s.take k).getLast? u) v none = false :=
  lmsGo_none r (s.drop k) _ k h

/-- `translate_pattern`'s multi-digit back-reference loop encodes, for every digit string and every
number of groups opened so far, the F&O resolution: the longest prefix that does not exceed the
group count is the group number, the remaining digits are literal characters -/
theorem backref_resolution_eq_spec (digits : List Nat) (g : Nat) (hne : digits ≠ []) :
    resolveM digits g = resolveS digits g :=
  resolveM_eq_resolveS digits g hne

/-- test on literals: `\10` after ten groups is group 10, after nine groups group 1 + literal `0`;
`\123` after twelve groups is group 12 + literal `3` -/
example : resolveM [1, 0] 10 = (10, []) ∧ resolveM [1, 0] 9 = (1, [0]) ∧ resolveM [1, 2, 3] 12 = (12, [3])
    ∧ resolveS [1, 0] 10 = (10, []) ∧ resolveS [1, 1] 10 = (1, [1]) := by decide

/-- test on literals: `^a(b|c)*$` with and without its anchors -/
example : searchB (.cat (.anchor .bol) (.cat (.cls (· == 97)) (.cat (.star (.alt (.cls (· == 98)) (.cls (· == 99)))) (.anchor .eol)))) [97, 98, 99, 98] = true
    ∧ searchB (.cat (.anchor .bol) (.cls (· == 98))) [97, 98] = false
    ∧ searchB (.cat (.anchor .bolM) (.cls (· == 98))) [97, 10, 98] = true := by decide

/-! ## layer 2b: the scanner of `translate_pattern` -/

/-- PARTIAL.  Full statement: for every pattern `P` valid under the XSD/F&O grammar and every flag
set, the Python regular expression `translate_pattern(P)` has the language of `P`.  Proved for the
transcribed scanner (`translateM`: the `while` loop of patterns.py:114-279 lexeme by lexeme), XPath
flavour, flags `s`/`m`, back-reference-free, relative to
* `sem : PySem` — what Python's `re` makes of each emitted fragment (`^`, `$(?!\n\Z)`, `[^\r\n]`,
  `\.`, `\d`, a bracket text, …) and of the token grammar `parseT`: the only assumptions about CPython;
* `RunOK` — side conditions at each lexeme: no `\s \S \w \W` outside brackets (finding F12w), no
  back-reference, `\p{..}` known to both table sets, every bracket expression is one on which the class
  scanner agrees with the XSD set (F12/F12s/F12u say where it does not; `charclass_scan_plain_partial`
  and CLS where it does), and the structural facts of a valid pattern (balanced groups, no quantifier
  first or directly after a quantifier);
* `forbiddenEscape = false` (holds for every lexable pattern; checked by the driver, not proved).
Conclusion: the scanner does not raise, its fragments denote token for token what the lexemes of `P`
denote, hence `pyRE` (Python's reading of the output) = `specRE` (the XSD language of `P`, `none` when
`P` is not a regExp). -/
theorem translate_eq_spec_partial {T : Tables} {fl : Flags} (sem : PySem T fl) (Tm : MTables) (v10 : Bool)
    (P : List Ch) (xtoks : List (Tok XAtom)) (u : Bool)
    (hfe : forbiddenEscape true none P = false)
    (hlex : specLex xo P = some (xtoks, u))
    (hrun : RunOK (T := T) Tm v10 (P.length + 1) true 0 P 0) :
    ∃ ptoks, translateM Tm (soOf fl v10) P = some ptoks ∧
      ptoks.map (Tok.map sem.den) = xtoks.map (Tok.map (XAtom.den T fl)) ∧
      pyRE sem ptoks = specRE T fl xtoks :=
  translate_eq_spec sem Tm v10 P xtoks u hfe hlex hrun

/-- the class side condition of `translate_eq_spec_partial` is *proved* for bracket expressions with
a plain body (no backslash, hyphen, bracket; not starting with `^`), whatever follows the `]`: the
transcribed class scanner accepts the same text as the grammar [75]-[80], leaves the same rest, and
the class contains exactly what the XSD group denotes -/
theorem translate_class_plain_ok (Tm : MTables) (T : Tables) (v10 atStart : Bool) (nested : Nat) (body tail : List Ch)
    (hne : body ≠ []) (hp : ∀ c ∈ body, Plain c) (h0 : body.head? ≠ some 94) :
    StepOK Tm T v10 atStart nested (91 :: (body ++ 93 :: tail)) :=
  stepOK_class_plain Tm T v10 atStart nested body tail hne hp h0

/-- F12v witness: `\a` (no XSD escape) — the scanner does not raise and hands `\a` to Python; `a}` likewise
passes with the bare `}`; the grammar rejects both -/
theorem scanner_accepts_unknown_escape :
    (translateM T0 (soOf {} false) [92, 97]).isSome = true ∧ (specLex xo [92, 97]).isNone = true ∧
    (translateM T0 (soOf {} false) [97, 125]).isSome = true ∧ (specLex xo [97, 125]).isNone = true := by decide +kernel

/-- F12w witness: `\w` outside brackets is emitted as Python's own `\w` (fragment `esc 'w'`), not as the
XSD set; inside brackets it is expanded (`cls`) -/
theorem scanner_hands_w_to_python :
    (match translateM T0 (soOf {} false) [92, 119] with | some [.atom (.esc 119)] => true | _ => false) = true ∧
    (match translateM T0 (soOf {} false) [91, 92, 119, 93] with | some [.atom (.cls _)] => true | _ => false) = true := by
  decide +kernel

/-- ASCII case variant (all that the F12c witness needs) -/
def asciiVariant (c : Ch) : Ch := if 65 ≤ c && c ≤ 90 then c + 32 else if 97 ≤ c && c ≤ 122 then c - 32 else c

/-- F12c witness.  Under `re.IGNORECASE` a bracket text matches `x` when `x` *or a case variant of `x`*
is in the set.  For `[\p{Lu}]` (stand-in table: A-Z) that makes `a` a member, while F&O 5.6.2 leaves
category escapes untouched by flag `i` (`a` is not a member).  Outside brackets the implementation
protects `\p{Lu}` with `(?-i:…)`; inside brackets it does not. -/
theorem icase_bracket_escape_witness :
    let upper : SetE := .ranges [(65, 91)]
    let cc := evalClass (.plain false [⟨false, upper⟩])
    (cc.contains 97 || cc.contains (asciiVariant 97)) = true ∧ specClass (.plain false [⟨false, upper⟩]) 97 = false := by
  decide

/-- the class side condition of `translate_eq_spec_partial` is proved for every bracket expression of the
XSD group grammar given by units — plain characters, ordered ranges `a-b` of plain characters and
single-character escapes (an escape not directly after `\-`), with `^` and any depth of `-[...]`
subtraction — that passes the translator's hyphen checks: the transcribed class scanner and the grammar
`pClass` of the specification accept the same text, leave the same rest, and denote the same set
(`GClass.Den`).  Extends `translate_class_plain_ok`. -/
theorem translate_class_grammar_ok (Tm : MTables) (T : Tables) (v10 atStart : Bool) (nested : Nat) (uc : UClass)
    (hok : uc.OK) (hchk : uc.checks v10 = true) (tail : List Ch) :
    StepOK Tm T v10 atStart nested (91 :: (uc.toG.render ++ tail)) :=
  stepOK_class_uclass Tm T v10 atStart nested uc hok hchk tail

/-- test on literals: `[^a-fx\.0-9-[c\n]]` given by units: text, hyphen checks (XSD 1.0 and 1.1) -/
example :
    let uc := UClass.minus true [.lit [.rng 97 102, .chr 120], .tok 46, .lit [.rng 48 57]] (.plain false [.lit [.chr 99], .tok 110])
    uc.toG.render = [94, 97, 45, 102, 120, 92, 46, 48, 45, 57, 45, 91, 99, 92, 110, 93, 93] ∧
    uc.checks true = true ∧ uc.checks false = true := by decide

/-- … and it satisfies `UClass.OK` -/
example : (UClass.minus true [.lit [.rng 97 102, .chr 120], .tok 46, .lit [.rng 48 57]] (.plain false [.lit [.chr 99], .tok 110])).OK := by
  refine ⟨by simp, ⟨by simp, ?_, trivial, ⟨by decide, by simp, ⟨by simp, ?_, trivial, trivial⟩⟩⟩, by simp,
    ⟨by simp, ⟨by simp, ?_, trivial, ⟨by decide, by simp, trivial⟩⟩, by decide⟩⟩
  all_goals (intro u hu; simp only [List.mem_cons, List.not_mem_nil, or_false] at hu; rcases hu with rfl | rfl <;> simp [LUnit.OK, Plain])

/-- the assumptions on Python's `re` are consistent: a reading of the fragments satisfying `PySem`
exists for every table set and flag set (it is the one the driver executes) -/
theorem pysem_consistent (T : Tables) (fl : Flags) : Nonempty (PySem T fl) := ⟨PySem.canonical T fl⟩

/-- test on literals: the side conditions hold along `^a(?:b|c)*d{1,2}?\.$` for any tables -/
example (Tm : MTables) (T : Tables) (v10 : Bool) :
    RunOK (T := T) Tm v10 21 true 0 [94, 97, 40, 63, 58, 98, 124, 99, 41, 42, 100, 123, 49, 44, 50, 125, 63, 92, 46, 36] 0 := by
  simp [RunOK, StepOK, lexStepS, xo, depthAfter, isQuantStart, pQuant, pQuantity, readNat, lazyOf, isDigit, singleEsc,
    startsWith1, startsWith2]

/-! ## layer 3: analyze-string / tokenize / replace over the span list -/

/-- fn:analyze-string partitions its input: the string values of the `match`/`non-match` children
concatenate to the input, none is empty, no two `non-match` children are adjacent, and the `match`
children are exactly the matched substrings in order. -/
theorem analyze_partition (s : List Ch) (spans : List Span) (h : SpansOk 0 s.length spans) :
    (analyzeM s 0 spans).flatMap (·.2) = s ∧
    (∀ p ∈ analyzeM s 0 spans, p.2 ≠ []) ∧
    Alternates (analyzeM s 0 spans) ∧
    ((analyzeM s 0 spans).filter (·.1)).map (·.2) = spans.map (fun m => slice s m.1 m.2) :=
  ⟨by simpa using analyze_concat s spans 0 h, analyze_parts_nonempty s spans 0 h,
   analyze_alternates s spans 0 h, analyze_matches s spans 0 h⟩

/-- the implementation's loop computes the F&O 5.6.6 partition -/
theorem analyze_eq_spec (s : List Ch) (spans : List Span) (h : SpansOk 0 s.length spans) :
    analyzeM s 0 spans = specAnalyze s 0 spans :=
  EPV.Regex.analyze_eq_spec s spans 0 h

/-- fn:tokenize (accumulating `for` loop) returns the F&O 5.6.5 token list, for any span list -/
theorem tokenize_eq_spec (s : List Ch) (spans : List Span) : tokenizeM s spans = specTokenize s spans :=
  tokenize_eq_spec' s spans

/-- the non-empty tokens of fn:tokenize are exactly the `non-match` parts of fn:analyze-string -/
theorem tokenize_eq_nonmatch (s : List Ch) (spans : List Span) (h : SpansOk 0 s.length spans) :
    (tokenizeM s spans).filter (fun t => !t.isEmpty)
      = ((analyzeM s 0 spans).filter (fun p => !p.1)).map (·.2) := by
  rw [tokenize_eq_spec]
  unfold specTokenize
  split
  · rename_i he
    have : s = [] := by simpa using he
    subst this
    cases spans with
    | nil => simp [analyzeM]
    | cons m rest => obtain ⟨a, b⟩ := m; simp [SpansOk] at h; omega
  · exact tok_nonmatch s spans 0 h

/-- PARTIAL (known finding F12r).  Full statement: `replace(s, p, '$0') = s`.  The implementation
post-processes the *result* with `.replace('\\$', '$')`, so it holds only when the input has no
`\$` (`replace_dollar0_fails`). -/
theorem replace_dollar0_id_partial (s : List Ch) (spans : List Span) (h : SpansOk 0 s.length spans)
    (hd : hasBackslashDollar s = false) : replaceM s [.whole] spans = s := by
  unfold replaceM
  rw [sub_whole s spans 0 h]
  exact unescDollar_id s hd

/-- F12r witness: input `\$b`, pattern `b`, replacement `$0` gives `$b` -/
theorem replace_dollar0_fails :
    SpansOk 0 3 [(2, 3)] ∧ hasBackslashDollar [92, 36, 98] = true ∧
    replaceM [92, 36, 98] [.whole] [(2, 3)] = [36, 98] := by decide

/-- PARTIAL (F12r): fn:replace with a template of literal text and `$0` is the F&O 5.6.4 result
whenever that result contains no `\$` -/
theorem replace_eq_spec_partial (s : List Ch) (parts : List RPart) (spans : List Span)
    (hd : hasBackslashDollar (specReplace s parts 0 spans) = false) :
    replaceM s parts spans = specReplace s parts 0 spans := by
  unfold replaceM
  rw [sub_eq_spec, unescDollar_id _ hd]

/-- test on literals: hypotheses satisfiable — `abcab` with matches of `b` -/
example : SpansOk 0 5 [(1, 2), (4, 5)] ∧ hasBackslashDollar [97, 98, 99, 97, 98] = false ∧
    analyzeM [97, 98, 99, 97, 98] 0 [(1, 2), (4, 5)] = [(false, [97]), (true, [98]), (false, [99, 97]), (true, [98])] ∧
    tokenizeM [97, 98, 99, 97, 98] [(1, 2), (4, 5)] = [[97], [99, 97], []] := by decide

end EPV.C12

/-
C09 — extension: the one-argument form of `fn:tokenize` (XPath 3.1, F&O 3.1 §5.6.4), a pure string
function: `tokenize($s) = tokenize(normalize-space($s), ' ')`.

Model: EPV/Model/StringsTokenize1.lean (`evaluate__tokenize`, branch `len(self) == 1`, after fix F09o);
spec: EPV/Spec/FOTokenize1.lean + `FOStrings.tokenize1`.

Before fix F09o (branch fix-c09-5) the code stripped and split at SIX characters (`' \t\n\r\f\v'`), while
F&O's `normalize-space` knows the four XML whitespace characters.  The repaired code is proved equal to F&O
for EVERY argument (`tokenize1_eq_spec`); the former witnesses are now theorems about the repaired
behaviour (`tokenize1_ff_vt_kept`), and `tokenize1_six_char_reading_wrong` records that the six-character
reading is wrong on every string holding FF or VT.
-/
import EPV.Lemmas.StringsTokenize1
namespace EPV.C09
open EPV.FOStrings (Str isWs)
open EPV.Strings (fnTokenize1 hasFfVt foldFfVt fnTokenize1Six)

/-- For the empty sequence and EVERY string (no hypothesis) the one-argument `fn:tokenize` of the code
returns `tokenize(normalize-space($s), ' ')`: the empty sequence for `()`, for the zero-length string and
for a string of XML whitespace only. -/
theorem tokenize1_eq_spec (a : Option Str) : fnTokenize1 a = FOStrings.fnTokenize1 a :=
  Strings.fnTokenize1_eq_spec a

/-- test on literals (` a \t\n b&#xA0;c ` → `a`, `b&#xA0;c`) -/
example : fnTokenize1 (some [0x20, 0x61, 0x20, 0x9, 0xA, 0x62, 0xA0, 0x63, 0x20]) = [[0x61], [0x62, 0xA0, 0x63]] := by decide

/-- The former witnesses of F09o, now about the repaired code: FORM FEED and VERTICAL TAB are ordinary
characters — `tokenize('a&#xC;b')` = `'a&#xC;b'`, `tokenize('&#xB;')` = `'&#xB;'`,
`tokenize(' &#xC; a&#xB;b ')` = `('&#xC;', 'a&#xB;b')`. -/
theorem tokenize1_ff_vt_kept :
    hasFfVt (some [0x61, 0xC, 0x62]) = true ∧
    fnTokenize1 (some [0x61, 0xC, 0x62]) = [[0x61, 0xC, 0x62]] ∧
    fnTokenize1 (some [0xB]) = [[0xB]] ∧
    fnTokenize1 (some [0x20, 0xC, 0x20, 0x61, 0xB, 0x62, 0x20]) = [[0xC], [0x61, 0xB, 0x62]] := by decide

/-- the empty sequence and the zero-length string give the empty sequence -/
theorem tokenize1_empty : fnTokenize1 none = [] ∧ fnTokenize1 (some []) = [] ∧
    FOStrings.fnTokenize1 none = [] ∧ FOStrings.fnTokenize1 (some []) = [] := by decide

/-- The specification does not rest on one formulation: `tokenize(normalize-space(s), ' ')` is the list
of the maximal runs of non-whitespace characters of `s`, for every string. -/
theorem tokenize1_spec_eq_max_runs (s : Str) :
    FOStrings.fnTokenize1 (some s) = FOStrings.maxRuns s :=
  Strings.tokenize1_eq_maxRuns s

/-- hence the code returns the maximal runs of non-XML-whitespace characters, for every string -/
theorem tokenize1_eq_max_runs (s : Str) : fnTokenize1 (some s) = FOStrings.maxRuns s := by
  rw [tokenize1_eq_spec]; exact Strings.tokenize1_eq_maxRuns s

/-- The tokens the code returns hold exactly the non-XML-whitespace characters of the input (no character
lost — FF, VT, NBSP … included — and none invented). -/
theorem tokenize1_chars (s : Str) (c : Nat) :
    c ∈ (fnTokenize1 (some s)).flatten ↔ c ∈ s ∧ isWs c = false := by
  rw [tokenize1_eq_spec]
  simp only [FOStrings.fnTokenize1, Strings.tokenize1_eq_words]
  exact Strings.mem_words_flatten s c

/-- What the code did BEFORE the fix (six characters), for every string: the F&O result of the string in
which FF and VT are replaced by a space. -/
theorem tokenize1_six_char_reading_folded (s : Str) :
    fnTokenize1Six (some s) = FOStrings.fnTokenize1 (some (s.map foldFfVt)) :=
  Strings.fnTokenize1Six_eq_spec_folded s

/-- Why fix F09o was needed, and the exact extent of the defect: the six-character reading differs from
F&O (hence from the repaired code) on EVERY string holding FF or VT, and on no other argument. -/
theorem tokenize1_six_char_reading_wrong (a : Option Str) :
    fnTokenize1Six a ≠ fnTokenize1 a ↔ hasFfVt a = true := by
  cases a with
  | none => simp [fnTokenize1Six, fnTokenize1, hasFfVt]
  | some s =>
    rw [tokenize1_eq_spec]
    constructor
    · intro hne
      cases hh : hasFfVt (some s) with
      | true => rfl
      | false =>
        exfalso; apply hne
        rw [Strings.fnTokenize1Six_eq_spec_folded, Strings.map_foldFfVt_id s hh]
    · intro h heq
      have hspec : ∀ c ∈ s, isWs c = false → c ∈ (FOStrings.fnTokenize1 (some s)).flatten := by
        intro c hc hw
        simp only [FOStrings.fnTokenize1, Strings.tokenize1_eq_words]
        exact (Strings.mem_words_flatten s c).2 ⟨hc, hw⟩
      have hmodel : ∀ c ∈ (fnTokenize1Six (some s)).flatten, c ≠ 0xC ∧ c ≠ 0xB := by
        intro c hc
        rw [Strings.fnTokenize1Six_eq_spec_folded] at hc
        simp only [FOStrings.fnTokenize1, Strings.tokenize1_eq_words] at hc
        obtain ⟨hm, hw⟩ := (Strings.mem_words_flatten _ c).1 hc
        obtain ⟨x, _, rfl⟩ := List.mem_map.1 hm
        unfold foldFfVt at hw ⊢
        split <;> simp_all [isWs]
      unfold hasFfVt at h
      obtain ⟨c, hc, hcc⟩ := List.any_eq_true.1 h
      have hw : isWs c = false := by
        simp at hcc; rcases hcc with rfl | rfl <;> decide
      have := hmodel c (heq ▸ hspec c hc hw)
      simp at hcc; omega

/-- test on literals: the six-character reading on `'a&#xC;b'` gave `('a','b')` -/
example : fnTokenize1Six (some [0x61, 0xC, 0x62]) = [[0x61], [0x62]] ∧ fnTokenize1Six (some [0xB]) = [] := by decide

end EPV.C09

/-
C10 — xs:anyURI.  The acceptance decision rests on `urllib.parse.urlparse` (standard library, an oracle of the model:
`Lex.anyUriCtor urlparseFails path s`).  Proved about the library's own part: an accepted value is the collapsed string,
has at most one '#' and uses '%' only in `pct-encoded` triples (RFC 3986 §2.1, §3.5); conversely the library's own checks
reject nothing but strings that violate one of these two facts or have a path starting with ':'.
-/
import EPV.Lemmas.LexicalHex
namespace EPV.C10
open EPV EPV.LexLemmas

theorem twoHex_eq : (r : List Char) → Lex.twoHex r = XSD.hexDigitPair r
  | [] => rfl
  | [_] => rfl
  | a :: b :: _ => by simp only [Lex.twoHex, XSD.hexDigitPair, isHexDigit_eq]

theorem wrongEscape_eq : (t : List Char) → Lex.wrongEscape t = !XSD.pctEncodedOk t
  | [] => rfl
  | c :: r => by
    simp only [Lex.wrongEscape, XSD.pctEncodedOk, wrongEscape_eq r, twoHex_eq]
    cases hc : (c == '%') <;> cases XSD.hexDigitPair r <;> cases XSD.pctEncodedOk r <;> simp [bne, hc]

/-- **xs:anyURI, what an accepted value looks like**: the collapsed argument, with at most one '#' and every '%' part of a
`pct-encoded` triple -/
theorem anyURI_accepted (fails : Bool) (path s v : List Char) (h : Lex.anyUriCtor fails path s = some v) :
    v = XSD.wsCollapse s ∧ XSD.atMostOneHash v = true ∧ XSD.pctEncodedOk v = true := by
  unfold Lex.anyUriCtor at h
  simp only [] at h
  split at h; · cases h
  split at h; · cases h
  split at h; · cases h
  split at h; · cases h
  rename_i _ _ h3 h4
  simp only [Option.some.injEq] at h
  subst h
  refine ⟨collapse_eq_wsCollapse_all s, ?_, ?_⟩
  · unfold XSD.atMostOneHash
    rw [List.count_eq_length_filter] at h3
    exact decide_eq_true (by omega)
  · rw [wrongEscape_eq] at h4
    simpa using h4

/-- **the library's own checks reject only for one of three reasons** (given that `urlparse` accepted) -/
theorem anyURI_rejected (path s : List Char) (h : Lex.anyUriCtor false path s = none) :
    path.head? = some ':' ∨ XSD.atMostOneHash (XSD.wsCollapse s) = false ∨ XSD.pctEncodedOk (XSD.wsCollapse s) = false := by
  unfold Lex.anyUriCtor at h
  simp only [Bool.false_eq_true, if_false] at h
  rw [collapse_eq_wsCollapse_all] at h
  split at h
  · rename_i h1; left; simpa using h1
  · split at h
    · rename_i h3
      right; left
      unfold XSD.atMostOneHash
      rw [List.count_eq_length_filter] at h3
      exact decide_eq_false (by omega)
    · split at h
      · rename_i h4
        right; right
        rw [wrongEscape_eq] at h4
        simpa using h4
      · cases h

example : Lex.anyUriCtor false [] " http://a/b%20c#d ".toList = some "http://a/b%20c#d".toList ∧
    Lex.anyUriCtor false [] "a#b#c".toList = none ∧ Lex.anyUriCtor false [] "%zz".toList = none ∧
    Lex.anyUriCtor false [] "100%".toList = none ∧ Lex.anyUriCtor false ":a".toList ":a".toList = none ∧
    Lex.anyUriCtor true [] "http://[::1".toList = none := by decide

end EPV.C10

/-
C10 — the year-bearing date/time types: xs:date, xs:dateTime, xs:dateTimeStamp, xs:gYear, xs:gYearMonth (and the XSD 1.0
classes Date10, DateTime10, GregorianYear10, GregorianYearMonth10).

Model: C11's `Cal.dateOfLex`, `Cal.dateTimeOfLex`, `Cal.gOfLex` (EPV/Model/CalendarLex.lean, imported read-only — the
regex groups of the patterns, `int()` of the fields, the year checks of `fromstring`, `AbstractDateTime.__init__`) and
`Lex.dateTimeStampOfLex` (EPV/Model/LexicalDate.lean).  Spec: the lexical productions of XSD 1.1 Part 2 in
EPV/Spec/XSDDateLex.lean (`yearFrag`, `monthFrag`, `dayFrag`, the day-of-month constraint `daysInMonth`, the time of day
with `endOfDayFrag`, the enumerated timezone literals) and the value `Timeline.ofFields` of C11's specification.

`Agrees r us f?` (EPV/Lemmas/LexicalDate.lean):
* the literal is in the lexical space with fields `f`  →  every accepted result carries the timezone of the literal, and
  when the year is inside the implementation's limit (|year| < 2^31) the constructor succeeds with a value that denotes
  `Timeline.ofFields f.year f.month f.day f.hour f.minute f.second us f.tz` (`24:00:00` = the first instant of the next day);
* the literal is outside the lexical space  →  the constructor raises (ValueError, or OverflowError for a huge year).
-/
import EPV.Lemmas.LexicalDateWS
import EPV.Lemmas.CalendarLex
import EPV.Props.C10Dur
import EPV.Props.C10Greg
namespace EPV.C10
open EPV EPV.LexLemmas EPV.Cal

/-- **ctor_iff_lexical (xs:date)**, every string, both XSD versions: `Date.fromstring` / `Date10.fromstring` accept
exactly the literals `yearFrag '-' monthFrag '-' dayFrag timezoneFrag?` whose day exists in the month of that
(proleptic Gregorian, astronomical) year — no leading zero beyond four year digits, no year 0000 in XSD 1.0 where `-0001`
is 1 BCE, year 0000 = 1 BCE in XSD 1.1 — and the value has the fields of the literal. -/
theorem date_ctor_iff_lexical (v11 : Bool) (s : List Char) :
    Agrees (dateOfLex v11 s) 0 (XSD.dateLex v11 (XSD.wsCollapse s)) := by
  rw [← dateLex_strip]; exact date_agrees v11 s

/-- **ctor_iff_lexical (xs:dateTime)**: in addition the time of day `hourFrag ':' minuteFrag ':' secondFrag` or
`endOfDayFrag` (`24:00:00(.0+)?`); the fraction of the seconds is cut to microseconds (`XSD.microTrunc`) -/
theorem dateTime_ctor_iff_lexical (v11 : Bool) (s : List Char) :
    Agrees (dateTimeOfLex v11 s) (usOf (XSD.dateTimeLex v11 (XSD.wsCollapse s))) (XSD.dateTimeLex v11 (XSD.wsCollapse s)) := by
  rw [← dateTimeLex_strip]; exact dateTime_agrees v11 s

/-- **ctor_iff_lexical (xs:dateTimeStamp)**: xs:dateTime with the timezone required (XSD 1.1 §3.4.28) -/
theorem dateTimeStamp_ctor_iff_lexical (s : List Char) :
    Agrees (Lex.dateTimeStampOfLex s) (usOf (XSD.dateTimeStampLex true (XSD.wsCollapse s)))
      (XSD.dateTimeStampLex true (XSD.wsCollapse s)) := by
  rw [← dateTimeStampLex_strip]; exact dateTimeStamp_agrees s

/-- **ctor_iff_lexical (xs:gYear)** -/
theorem gYear_ctor_iff_lexical (v11 : Bool) (s : List Char) :
    Agrees (gOfLex .gYear v11 s) 0 (XSD.gYearLex v11 (XSD.wsCollapse s)) := by
  rw [← gYearLex_strip]; exact gYear_agrees v11 s

/-- **ctor_iff_lexical (xs:gYearMonth)** -/
theorem gYearMonth_ctor_iff_lexical (v11 : Bool) (s : List Char) :
    Agrees (gOfLex .gYearMonth v11 s) 0 (XSD.gYearMonthLex v11 (XSD.wsCollapse s)) := by
  rw [← gYearMonthLex_strip]; exact gYearMonth_agrees v11 s

/-- the constructors strip (`strip(' \\t\\n\\r')`) where XSD collapses: the productions contain no white space, so the two
normalisations give the same verdict and the same fields (`LexLemmas.strip_vs_collapse_opt`, `pyStrip_or_white`) -/
theorem date_lexical_strip_eq_collapse (v11 : Bool) (s : List Char) :
    XSD.dateLex v11 (Lex.pyStrip s) = XSD.dateLex v11 (XSD.wsCollapse s) ∧
    XSD.dateTimeLex v11 (Lex.pyStrip s) = XSD.dateTimeLex v11 (XSD.wsCollapse s) ∧
    XSD.gYearLex v11 (Lex.pyStrip s) = XSD.gYearLex v11 (XSD.wsCollapse s) ∧
    XSD.gYearMonthLex v11 (Lex.pyStrip s) = XSD.gYearMonthLex v11 (XSD.wsCollapse s) :=
  ⟨dateLex_strip v11 s, dateTimeLex_strip v11 s, gYearLex_strip v11 s, gYearMonthLex_strip v11 s⟩

/-- acceptance alone, xs:date: inside the year limit the constructor succeeds exactly on the lexical space -/
theorem date_ctor_accepts_iff (v11 : Bool) (s : List Char)
    (hy : ∀ f, XSD.dateLex v11 (XSD.wsCollapse s) = some f → (internal f.year).natAbs < 2 ^ 31) :
    (∃ w, dateOfLex v11 s = .ok w) ↔ (XSD.dateLex v11 (XSD.wsCollapse s)).isSome = true := by
  have h := date_agrees v11 s
  rw [dateLex_strip] at h
  cases hf : XSD.dateLex v11 (XSD.wsCollapse s) with
  | none =>
    rw [hf] at h
    obtain ⟨e, he⟩ := h
    rw [he]; constructor
    · rintro ⟨w, hw⟩; cases hw
    · intro hc; cases hc
  | some f =>
    rw [hf] at h
    obtain ⟨w, hw, _⟩ := h.2 (hy f hf)
    exact ⟨fun _ => rfl, fun _ => ⟨w, hw⟩⟩

/-! ### casting xs:date / xs:dateTime / xs:time ↔ xs:string

`xs:string(v)` is the `__str__` of the value (C11's `fmtDate`, `fmtDateTime`, `fmtTime`, `fmtG`), `xs:T(string)` is
`fromstring`.  C11 proves `fromstring(str(v)) = v` (`date_lex_roundtrip`, …); with the theorems above this also says that
the string form of every value is a literal of the XSD lexical space (canonical fixed point: the value re-read from its
own string form is the value, so the string form of the re-read value is the same string). -/

/-- **cast roundtrip, xs:date → xs:string → xs:date** and the canonical form is in the lexical space -/
theorem date_string_cast_roundtrip (v11 : Bool) (v : DT) (hv : v.Valid) (hus : v.us = 0) (hyb : v.year.natAbs ≤ 2 ^ 31) :
    dateOfLex v11 (fmtDate v11 v) = .ok v ∧ (XSD.dateLex v11 (Lex.pyStrip (fmtDate v11 v))).isSome = true := by
  have h1 := date_lex_roundtrip v11 v hv hus hyb
  refine ⟨h1, ?_⟩
  have h := date_agrees v11 (fmtDate v11 v)
  cases hf : XSD.dateLex v11 (Lex.pyStrip (fmtDate v11 v)) with
  | none => rw [hf] at h; obtain ⟨e, he⟩ := h; rw [h1] at he; cases he
  | some f => rfl

/-- **cast roundtrip, xs:dateTime → xs:string → xs:dateTime** -/
theorem dateTime_string_cast_roundtrip (v11 : Bool) (v : DT) (hv : v.Valid) (hyb : v.year.natAbs ≤ 2 ^ 31) :
    dateTimeOfLex v11 (fmtDateTime v11 v) = .ok v ∧
      (XSD.dateTimeLex v11 (Lex.pyStrip (fmtDateTime v11 v))).isSome = true := by
  have h1 := dateTime_lex_roundtrip v11 v hv hyb
  refine ⟨h1, ?_⟩
  have h := dateTime_agrees v11 (fmtDateTime v11 v)
  cases hf : XSD.dateTimeLex v11 (Lex.pyStrip (fmtDateTime v11 v)) with
  | none => rw [hf] at h; obtain ⟨e, he⟩ := h; rw [h1] at he; cases he
  | some f => rfl

/-- **cast roundtrip, xs:gYear / xs:gYearMonth → xs:string → the same type** -/
theorem gYear_string_cast_roundtrip (v11 : Bool) (v : DT) (hs : GShape .gYear v) (hv : v.Valid)
    (hyb : v.year.natAbs ≤ 2 ^ 31) :
    gOfLex .gYear v11 (fmtG .gYear v11 v) = .ok v ∧ (XSD.gYearLex v11 (Lex.pyStrip (fmtG .gYear v11 v))).isSome = true := by
  have h1 := g_lex_roundtrip .gYear v11 v hs hv hyb
  refine ⟨h1, ?_⟩
  have h := gYear_agrees v11 (fmtG .gYear v11 v)
  cases hf : XSD.gYearLex v11 (Lex.pyStrip (fmtG .gYear v11 v)) with
  | none => rw [hf] at h; obtain ⟨e, he⟩ := h; rw [h1] at he; cases he
  | some f => rfl

theorem gYearMonth_string_cast_roundtrip (v11 : Bool) (v : DT) (hs : GShape .gYearMonth v) (hv : v.Valid)
    (hyb : v.year.natAbs ≤ 2 ^ 31) :
    gOfLex .gYearMonth v11 (fmtG .gYearMonth v11 v) = .ok v ∧
      (XSD.gYearMonthLex v11 (Lex.pyStrip (fmtG .gYearMonth v11 v))).isSome = true := by
  have h1 := g_lex_roundtrip .gYearMonth v11 v hs hv hyb
  refine ⟨h1, ?_⟩
  have h := gYearMonth_agrees v11 (fmtG .gYearMonth v11 v)
  cases hf : XSD.gYearMonthLex v11 (Lex.pyStrip (fmtG .gYearMonth v11 v)) with
  | none => rw [hf] at h; obtain ⟨e, he⟩ := h; rw [h1] at he; cases he
  | some f => rfl

/-! ### the same step for the types of phase 2, whose theorems were stated after `strip` -/

/-- **ctor_iff_lexical (xs:time, xs:gDay, xs:gMonth, xs:gMonthDay)** with the XSD normalisation (full strength of
`greg_ctor_iff_lexical`) -/
theorem greg_ctor_iff_lexical_spec (k : Lex.GKind) (s : List Char) :
    Lex.gCtor k s = (specOf k (XSD.wsCollapse s)).map toDT := by
  rw [← specOf_strip]; exact gParse_eq k (Lex.pyStrip s)

/-- **ctor_iff_lexical (xs:duration)** with the XSD normalisation (full strength of `dur_ctor_value_error_iff`): the
constructor raises `ValueError` exactly outside the lexical space of the collapsed string -/
theorem dur_ctor_value_error_iff_spec (s : List Char) :
    Lex.durCtor .duration s = .error .value ↔ ¬ XSD.DurationLex (XSD.wsCollapse s) := by
  rw [← durationLex_strip]; exact dur_ctor_value_error_iff s

/-- tests on literals (kernel evaluation of the specification): leap days in both eras and numberings, year 0000, leading
zeros, the end-of-day form, the timezone requirement of xs:dateTimeStamp -/
example :
    (XSD.dateLex true "2000-02-29".toList).isSome = true ∧ XSD.dateLex true "1900-02-29".toList = none ∧
    (XSD.dateLex true "0000-02-29Z".toList).map (·.year) = some 0 ∧ XSD.dateLex false "0000-01-01".toList = none ∧
    (XSD.dateLex false "-0001-02-29".toList).map (·.year) = some 0 ∧ XSD.dateLex true "-0001-02-29".toList = none ∧
    XSD.dateLex true "02000-01-01".toList = none ∧ (XSD.dateLex true "12000-01-01".toList).isSome = true ∧
    XSD.dateLex true "200-01-01".toList = none ∧ XSD.dateLex true "2000-1-01".toList = none ∧
    XSD.dateLex true "2000-04-31".toList = none ∧ XSD.dateLex true "2000-01-01+14:01".toList = none ∧
    (XSD.dateTimeLex true "2000-12-31T24:00:00.000-05:00".toList).map (·.hour) = some 24 ∧
    XSD.dateTimeLex true "2000-12-31T24:00:00.001".toList = none ∧ XSD.dateTimeLex true "2000-12-31T24:01:00".toList = none ∧
    (XSD.dateTimeLex true "2000-01-01T23:59:59.1234567Z".toList).map (fun f => XSD.microTrunc f.frac) = some 123456 ∧
    XSD.dateTimeStampLex true "2000-01-01T00:00:00".toList = none ∧
    (XSD.dateTimeStampLex true "2000-01-01T00:00:00Z".toList).isSome = true ∧
    (XSD.gYearLex true "-12345+01:00".toList).map (·.year) = some (-12345) ∧ XSD.gYearLex false "0000".toList = none ∧
    (XSD.gYearMonthLex true "2000-12".toList).map (·.month) = some 12 ∧ XSD.gYearMonthLex true "2000-13".toList = none := by
  decide +kernel

end EPV.C10

/-
C10 — the casting matrix as one table.  `EPV.Gen.C10.castVerdictsCast/Ctor` and `castAllowedCast/Ctor` are regenerated on
every run from the live code: for every pair (source type, target type) the constructor of the target is applied — through
`E cast as xs:T` and through the constructor function `xs:T(E)` — to fixed probe values of the source type, and the pair is
classified Y (all succeed), N (all refused with XPTY0004) or M.  `XSD.castRows` is the table of F&O 3.1 §19.1.1 transcribed.
The theorems are closed equalities decided by the kernel: a constructor that starts to accept, or to refuse, a source type
changes a generated cell and the proof no longer builds; `cast_table_cases` of the harness then names the expression.
-/
import EPV.Gen.C10Tables
import EPV.Spec.XSDCastTable
namespace EPV.C10
open EPV EPV.Gen.C10

/-- **cast_table_eq_spec**: for the 22 types of the F&O casting table (xs:NOTATION has no constructor) the code's verdict
on every one of the 484 pairs — always / depends on the value / never — is the verdict of the recommendation, through the
cast expression and through the constructor function.  (A refused source type is XPTY0004 from the cast expression; the
constructor function reports it as FORG0001 — finding F10l, pinned by the suite — so for that path N is "no probe value is
accepted".) -/
theorem cast_table_eq_spec :
    castVerdictsCast = XSD.castTableFlat ∧ castVerdictsCtor = XSD.castTableFlat := by decide +kernel

/-- **cast_allowed_eq_spec**: for all 44 constructible built-in atomic types (1936 pairs) the code permits a cast exactly when
F&O §19.2/§19.3 does: when the pair of the primitive (table) ancestors is not N. -/
theorem cast_allowed_eq_spec : castAllowedCast = XSD.castAllowedFlat := by decide +kernel

/-- the table is what it should be on cells of each kind (kernel evaluation of the transcription) -/
example :
    XSD.castVerdict "double" "decimal" = some .M ∧ XSD.castVerdict "decimal" "integer" = some .Y ∧
    XSD.castVerdict "date" "time" = some .N ∧ XSD.castVerdict "dateTime" "time" = some .Y ∧
    XSD.castVerdict "boolean" "double" = some .Y ∧ XSD.castVerdict "yearMonthDuration" "dayTimeDuration" = some .Y ∧
    XSD.castVerdict "hexBinary" "base64Binary" = some .Y ∧ XSD.castVerdict "anyURI" "QName" = some .N ∧
    XSD.castVerdict "untypedAtomic" "QName" = some .M ∧ XSD.castVerdict "string" "anyURI" = some .M ∧
    XSD.castAllowed "byte" "float" = true ∧ XSD.castAllowed "dateTimeStamp" "gDay" = true ∧
    XSD.castAllowed "token" "duration" = true ∧ XSD.castAllowed "unsignedByte" "date" = false ∧
    XSD.castAllowed "language" "QName" = true ∧ XSD.castAllowed "QName" "NCName" = true ∧
    XSD.castAllowed "gYear" "dateTimeStamp" = false ∧
    XSD.castTableFlat.length = 484 ∧ XSD.castAllowedFlat.length = 1936 ∧
    (XSD.castRows.all fun r => r.length == 22) = true ∧ XSD.castRows.length = 22 := by decide +kernel

/-- the diagonal is Y and nothing is refused a cast to xs:string or xs:untypedAtomic (F&O 19.1: "Y" columns) -/
example : (XSD.castTypes.all fun t => XSD.castVerdict t t == some .Y && XSD.castVerdict t "string" == some .Y &&
    XSD.castVerdict t "untypedAtomic" == some .Y) = true := by decide +kernel

end EPV.C10

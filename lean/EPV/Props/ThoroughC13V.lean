/-
C13, thorough tier — the table theorems for every Unicode version the package can install
(EPV/Gen/C13V.lean is generated from the live /repo by harness/c13.py in the thorough tier).
Category tables exist for the versions the package ships data for; block tables for all versions.
No `unicodedata` oracle exists for versions other than the interpreter's, so these are internal
consistency theorems (canonical form, major = union of subcategories, disjointness).
-/
import EPV.Gen.C13V
import EPV.Lemmas.USetUnmerge
import EPV.Lemmas.USetDisjoint
namespace EPV.C13V
open EPV.USet EPV.Gen.C13V

/-- every category table of every shipped version is canonical, and each major category passes the
union certificate (interleaving of its subcategories, sorted/disjoint, coalesces to the major) -/
theorem all_versions_tables : ∀ v ∈ versionTables,
    (∀ t ∈ v.2.2, Canon t) ∧
    (∀ p ∈ v.2.1, unmerge p.2.1 p.2.2 = true ∧ WInv p.2.1 ∧ coalesce p.2.1 = p.1) := by decide +kernel

/-- hence, in every shipped version, each major category is the union of its subcategories -/
theorem all_versions_major_is_union (v) (hv : v ∈ versionTables) (p) (hp : p ∈ v.2.1) (x : Nat) :
    memL x p.1 ↔ ∃ m ∈ p.2.2, memL x m := by
  obtain ⟨h1, h2, h3⟩ := (all_versions_tables v hv).2 p hp
  rw [← h3, coalesce_mem _ h2 x, unmerge_spec _ _ h1 x]

/-- versions whose block table reproduces the overlap of the historic Unicode 2.0 `Blocks` file
(U+FEFF is listed both in "Arabic Presentation Forms-B" and in "Specials"): known finding F13c -/
def overlapVersions : List String := ["2.1.8", "2.1.5", "2.1.2", "2.0.0"]

/-- PARTIAL (finding F13c): in every installable version *except the four listed ones* any two
distinct (non-superseded) blocks are disjoint sets of code points.
Full statement (false): the same for all 32 versions. -/
theorem all_versions_blocks_check_partial :
    ∀ v ∈ versionBlocks, v.1 ∉ overlapVersions → pairwiseDisjoint v.2 = true := by decide +kernel

theorem all_versions_blocks_disjoint_partial (v) (hv : v ∈ versionBlocks) (hn : v.1 ∉ overlapVersions) :
    v.2.Pairwise (fun p q => ∀ x, ¬ (memL x p ∧ memL x q)) :=
  pairwiseDisjoint_sound _ (all_versions_blocks_check_partial v hv hn)

/-- F13c witness: in the listed versions U+FEFF (65279) belongs to two blocks -/
theorem old_versions_blocks_overlap :
    ∀ v ∈ versionBlocks, v.1 ∈ overlapVersions →
      (v.2.filter (fun b => decide (memL 65279 b))).length = 2 := by decide +kernel

example : versionBlocks.length = 32 ∧ 0 < versionTables.length := by decide +kernel

end EPV.C13V

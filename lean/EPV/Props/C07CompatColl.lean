/-
C07 (phase 5, second item) — property theorems: the general comparison of
XPath2Parser(compatibility_mode=True) under ANY default collation and implicit timezone against the
XPath 1.0 compatibility rules of XPath 2.0 §3.5.2 with the string comparisons under the default collation
(`CmpSpec.generalAllowedCompatC`, EPV/Spec/FOCompareCompatC.lean).  Helper lemmas:
EPV/Lemmas/CompareCompatColl.lean.
-/
import EPV.Props.C07
import EPV.Lemmas.CompareCompatColl
namespace EPV.C07
open EPV.Cmp EPV.CmpSpec EPV.CmpFind

/-- PARTIAL (finding F07-compat; F07 / F07-promotion through `PairClean`).  XPath2Parser(compatibility_mode=
True) built with ANY default collation, under any implicit timezone, any two operand sequences (atoms of the
17 types, nodes), any operator: outside the F07-compat trigger, and with every pair of the cartesian product
`PairClean` (both evaluated on the operands given the implicit timezone, exactly as in
`compat_v2c_conforms_ctx_partial`), the code's result is one of the outcomes §3.5.2 permits in compatibility
mode — single-boolean rule, fn:number under ordering operators, and for `=` / `!=` the pair rule 3 a-c with
two strings compared as `fn:compare(A, B) op 0` under the default collation.  The full statement is false for
the reason it is false under the codepoint collation: `compat_witness`. -/
theorem compat_v2c_conforms_coll_partial (c : Coll) (itz : Option Int) (op : Op) (L Rr : List Item)
    (ht : CmpFind.trigCompat .v2c op ((L.map (withImplicitTz itz)).map (atomize .v2c))
      ((Rr.map (withImplicitTz itz)).map (atomize .v2c))
      ((L.map (withImplicitTz itz)).any CmpFind.isNode) ((Rr.map (withImplicitTz itz)).any CmpFind.isNode) = false)
    (hclean : ∀ a ∈ (L.map (withImplicitTz itz)).map (atomize .v2c),
      ∀ b ∈ (Rr.map (withImplicitTz itz)).map (atomize .v2c), PairClean .v2c op a b) :
    ∃ allowed, generalAllowedCompatC c itz op L Rr = some allowed ∧
      outOfR (generalCmpC c itz .v2c op L Rr) ∈ allowed := by
  rw [generalCmpC_eq_filled_v2c]
  exact compat_v2c_coll_core c op _ _ ht hclean

/-- the hypotheses are satisfiable on sequences where the collation decides: in compatibility mode
(<e>x</e>, <e>A</e>) = (<e>b</e>, <e>a</e>) is true under html-ascii-case-insensitive and false under the
codepoint collation, 'a' != 'A' is false / true, and both are what the specification says -/
example :
    let L := [Item.node [120], Item.node [65]]
    let Rr := [Item.node [98], Item.node [97]]
    CmpFind.trigCompat .v2c .eq ((L.map (withImplicitTz none)).map (atomize .v2c))
      ((Rr.map (withImplicitTz none)).map (atomize .v2c))
      ((L.map (withImplicitTz none)).any CmpFind.isNode) ((Rr.map (withImplicitTz none)).any CmpFind.isNode) = false ∧
    generalCmpC .asciiCI none .v2c .eq L Rr = .ok true ∧
    generalAllowedCompatC .asciiCI none .eq L Rr = some [.t] ∧
    generalCmpC .codepoint none .v2c .eq L Rr = .ok false ∧
    generalAllowedCompatC .codepoint none .eq L Rr = some [.f] ∧
    generalCmpC .asciiCI none .v2c .ne [.atom (.str [97])] [.atom (.str [65])] = .ok false ∧
    generalAllowedCompatC .asciiCI none .ne [.atom (.str [97])] [.atom (.str [65])] = some [.f] := by
  decide +kernel

/-- rule 1 and rule 2 of the compatibility rules never compare two strings: with a single-boolean operand or
an ordering operator the permitted outcomes do not depend on the collation (they are those of
`generalAllowedCtx … .v2c`) -/
theorem compat_coll_rules12_independent (c : Coll) (itz : Option Int) (op : Op) (L Rr : List Item)
    (h : isSingleBoolS (L.map (withImplicitTz itz)) = true ∨ isSingleBoolS (Rr.map (withImplicitTz itz)) = true ∨
      op.isOrd = true) :
    generalAllowedCompatC c itz op L Rr = generalAllowedCtx itz .v2c op L Rr := by
  have : (isSingleBoolS (L.map (withImplicitTz itz)) || isSingleBoolS (Rr.map (withImplicitTz itz)) || op.isOrd) = true := by
    rcases h with h | h | h <;> simp [h]
  simp [generalAllowedCompatC, compatAllowedC, this, generalAllowedCtx]

/-- test (literals): `true() = 'A'` and `'1' < '2'` are collation-independent in compatibility
mode — '1' < '2' converts both strings with fn:number -/
example :
    generalCmpC .asciiCI none .v2c .lt [.atom (.str [49])] [.atom (.str [50])] = .ok true ∧
    generalAllowedCompatC .asciiCI none .lt [.atom (.str [49])] [.atom (.str [50])] = some [.t] ∧
    generalCmpC .asciiCI none .v2c .eq [.atom (.bool true)] [.atom (.str [65])] = .ok true ∧
    generalAllowedCompatC .asciiCI none .eq [.atom (.bool true)] [.atom (.str [65])] = some [.t] := by
  decide +kernel

/-- COHERENCE with the codepoint collation: the new specification is the one `compat_v2c_conforms_ctx_partial`
speaks about (`generalAllowedCtx … .v2c`), on every input -/
theorem compat_collation_codepoint (itz : Option Int) (op : Op) (L Rr : List Item) :
    generalAllowedCompatC .codepoint itz op L Rr = generalAllowedCtx itz .v2c op L Rr := by
  simp [generalAllowedCompatC, compatAllowedC_codepoint, generalAllowedCtx]

end EPV.C07

/-
C14, phase 5: lazily built node trees (`LazyElementNode`).

Model: `EPV/Model/LazyPath.lean` — `ETree` (the ElementTree object with `.text` / `.tail`), `LNode`
(a `LazyElementNode` with its `children` list, `[]` until `__iter__` has run), `reach` (the tree after
iterating down to a node, children built on demand), `view` (the node tree as it stands), `eager` (the
eagerly built tree of the same object), `iterLazy` (`iter_lazy()`).
All theorems: every ElementTree object, every node; axioms propext / Quot.sound at most.
-/
import EPV.Props.C14
import EPV.Lemmas.LazyPath
namespace EPV.C14
open EPV.NodePath

/-- HEADLINE (lazy).  For every ElementTree object `src` and every reference `r` (element, text,
comment, PI, attribute, namespace node): the `path` of the node reached through the lazy iterator
(`for c in node:` down the child indices `r.path`, `LazyElementNode.__iter__` building each level on
demand, everything else unbuilt) is the `path` of the same node in the eagerly built tree — also
"undefined exactly when" (`none` on both sides for a reference that denotes no node). -/
theorem lazy_path_eq_eager (src : ETree) (r : Ref) : lazyPathOf src r = pathOf (eager src) r :=
  pathOf_reach src r

/-- the same for the absolute text of a parent-less lazy root (`/Q{}r[1]/…`: evaluated through the dummy
document `XPathContext` puts above an element root) -/
theorem lazy_abs_path_eq_eager (src : ETree) (is : List Nat) (sel : Sel) :
    pathOf (docNode [view (reach (lazyRoot src) is)]) ⟨0 :: is, sel⟩ =
      pathOf (docNode [eager src]) ⟨0 :: is, sel⟩ := by
  rw [fn_path_fragment, fn_path_fragment]
  have h := pathOf_reach src ⟨is, sel⟩
  simp only [lazyRoot] at h ⊢
  rw [h]
  have hs : ∀ p, childStep (view (reach (.lazy src []) is)) p = childStep (eager src) p := by
    intro p
    rw [childStep_hd, hd_view_reach, hd_view_fin, ← childStep_hd]; rfl
  simp only [hs]

/-- The lazily computed path evaluates back to exactly that node in the eagerly (= completely) built
tree — which is what the evaluator sees, since it iterates with `for child in node` and so builds
whatever it visits. -/
theorem lazy_path_selects_self (src : ETree) (r : Ref) (steps : List Step) (hw : (eager src).wf = true)
    (hp : lazyPathOf src r = some steps) : evalSteps (eager src) steps = [r] :=
  path_selects_self (eager src) r steps hw (by rw [← lazy_path_eq_eager]; exact hp)

/-- … and, for element / text / comment / PI nodes, also in the tree as it stands after the walk
(nothing else built: unbuilt elements have no children there), without any hypothesis. -/
theorem lazy_path_selects_self_partial_tree (src : ETree) (is : List Nat) (steps : List Step)
    (hp : lazyPathOf src ⟨is, .self⟩ = some steps) :
    evalSteps (view (reach (lazyRoot src) is)) steps = [⟨is, .self⟩] ∧
    evalSteps (eager src) steps = [⟨is, .self⟩] :=
  ⟨path_selects_self_node _ is steps hp,
   path_selects_self_node _ is steps (by rw [← lazy_path_eq_eager]; exact hp)⟩

/-- Two nodes reached lazily (each on its own fresh lazy tree or not) with the same path are the same node. -/
theorem lazy_path_injective (src : ETree) (r₁ r₂ : Ref) (steps : List Step) (hw : (eager src).wf = true)
    (h₁ : lazyPathOf src r₁ = some steps) (h₂ : lazyPathOf src r₂ = some steps) : r₁ = r₂ :=
  path_injective (eager src) r₁ r₂ steps hw (by rw [← lazy_path_eq_eager]; exact h₁)
    (by rw [← lazy_path_eq_eager]; exact h₂)

/-- `LazyElementNode.__iter__` builds, level by level, the children of the eager builder: the children
of the eagerly built element are the lazily built ones, each completed. -/
theorem lazy_children_are_eager_children (src : ETree) :
    (eager src).kids = (lazyChildrenOf src).map fin :=
  eager_kids src

/-- the hypotheses are satisfiable on a non-trivial tree: `<r>t<a><!--c--></a>u<?x?>v<a>w</a></r>`, the second
`a` reached lazily while the first `a` stays unbuilt (test) -/
example :
    let src := ETree.elem ⟨"", "r"⟩ [] [] true false
      [.elem ⟨"", "a"⟩ [] [(⟨"", "k"⟩, "")] false true [.comment false], .pi "x" true, .elem ⟨"", "a"⟩ [] [] true false []]
    (eager src).wf = true ∧
    lazyPathOf src ⟨[5, 0], .self⟩ = some [.child ⟨"", "a"⟩ 2, .text 1] ∧
    lazyPathOf src ⟨[1], .attr 0⟩ = some [.child ⟨"", "a"⟩ 1, .attr ⟨"", "k"⟩] ∧
    ((view (reach (lazyRoot src) [5, 0])).kids[1]?).map (·.kids.length) = some 0 ∧
    ((eager src).kids[1]?).map (·.kids.length) = some 1 ∧
    iterLazy (reach (lazyRoot src) [5, 0]) [] = [[], [0], [1], [2], [3], [4], [5], [5, 0]] := by decide

end EPV.C14

/-
C05 — structural purity facts about the LIVE package, `decide`d over the tables the translator
regenerates on every run (EPV/Gen/C05Sites.lean) against the reviewed lists of
EPV/Spec/PuritySites.lean.  "Modulo the scan" (harness/c05_sites.py: syntactic, name based):

* no code outside the builders of NEW trees writes to an Element (`.text/.tail/.attrib/.tag =`,
  `.set/.append/.remove/.insert/.extend/.clear`, `SubElement`, item assignment/deletion), to a schema
  object, or — outside tree_builders.py / xpath_nodes.py — to an XPath node wrapper;
* every in-place write to a `namespaces` / `variables` dict and every rebinding of a `variables`
  attribute is one of the reviewed sites (all on dicts the package created or copied itself);
* every piece of state stored on a syntax token (or a Selector) at evaluation time is one of the
  reviewed sites;
* every write from inside a function to module-level / class-level / imported-module state, every
  memoising decorator and every mutable default argument is one of the reviewed sites.
-/
import EPV.Gen.C05Sites
import EPV.Spec.PuritySites
namespace EPV.C05
open EPV.PuritySites EPV.Gen.C05

/-- No write site to an Element, a schema object, a node wrapper or a namespaces / variables dict
outside the allow-list (builders of new trees, the node-tree modules, the reviewed own dicts). -/
theorem no_tree_write_outside_allow_list : ∀ w ∈ treeWrites, treeWriteOk w = true := by decide

/-- Every `variables` dict in use is created or copied by the package: all rebinding sites are the
reviewed ones. -/
theorem variable_binds_reviewed : ∀ b ∈ variableBinds, b ∈ reviewedVariableBinds := by decide

/-- No unreviewed state on syntax tokens: every evaluation-time write to `self` in a token class is
a reviewed site. -/
theorem token_state_sites_reviewed : ∀ s ∈ tokenWrites, s ∈ reviewedTokenWrites.map (·.1) := by decide

/-- No unreviewed process-level state: every write, from inside a function, to a module-level name, a
class attribute or an imported module, every memoising decorator and every mutable default argument
in the package is a reviewed site (a cache added at module or class level fails this theorem). -/
theorem module_state_sites_reviewed : ∀ s ∈ moduleWrites, s ∈ reviewedModuleWrites.map (·.1) := by decide

/-- THE CONTEXT IS GIVEN BACK (structural): every axis generator `iter_*` of XPathContext that moves
the focus yields only inside a `try` whose `finally` stores the focus back — so a consumer that
stops early, or a step that raises, leaves the caller's context as it was (CPython closes an
abandoned generator at once, which runs the `finally`). -/
theorem context_iterators_restore : ∀ w ∈ contextIterators, iteratorOk w = true := by decide

/-- … and outside xpath_context.py every store to `context.item / axis / position / size /
variables` and every loop over `context.iter_*()` is on a copy of the context, restored by a
`finally` of the same function, driven by `select_with_focus`, or an iterator loop covered by
`context_iterators_restore` — or one of the exactly reviewed sites of `reviewedFocusSites`.  A new
unprotected site fails this theorem. -/
theorem focus_sites_protected : ∀ w ∈ focusSites, focusSiteOk w = true := by decide

/-- TEST (literals): the predicate rejects a write to an element from an evaluation function and a
schema write, and accepts the json-to-xml builder. -/
example : focusSiteOk ("elementpath/xpath2/_xpath2_functions.py", "evaluate__root", "context.item =", "unprotected") = false ∧
    iteratorOk ("iter_new_axis", "plain") = false ∧ iteratorOk ("iter_product", "no-focus-write") = true ∧
    treeWriteOk ("element", "elementpath/xpath2/_xpath2_functions.py", "evaluate__root", "elem.text =") = false ∧
    treeWriteOk ("schema", "elementpath/xpath_context.py", "XPathContext.schema", "schema.types[...] =") = false ∧
    treeWriteOk ("element", "elementpath/xpath31/_xpath31_functions.py", "evaluate__json_to_xml.value_to_etree", "elem.text =") = true := by
  decide

end EPV.C05

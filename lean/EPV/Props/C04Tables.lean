/-
C04 — theorems over the *generated* operator tables (EPV/Gen/C04Tables.lean is rewritten from the live
symbol tables of /repo on every run, so these `decide` proofs are re-checked against the binding powers,
led/nud kinds, guards and closers the code has now).
-/
import EPV.Gen.C04Tables
import EPV.Lemmas.PrattTables
import EPV.Props.C04
import EPV.Lemmas.PrattLexer
import EPV.Lemmas.PrattSourceAll
namespace EPV.C04
open EPV.Syn EPV.Pratt EPV.Gen.C04

/-! ### the tables realise the W3C level tables -/

/-- XPath 3.1: every operator symbol of A.1 [6]-[53] is in the table, sits at its EBNF level with
lbp = led-rbp = the binding power of the level (prefix `-`/`+`: nud-rbp), brackets/lookup in the last
level, and binding powers strictly increase with the level. -/
theorem consistent_v31 : checkB opTable_v31 levels31 true = true := by decide +kernel

/-- XPath 3.0 -/
theorem consistent_v30 : checkB opTable_v30 levels30 true = true := by decide +kernel

/-- PARTIAL (F04b): the 2.0 table realises the 2.0 levels *plus* the 3.0 dynamic call `Primary(Args)`;
the full statement `checkB opTable_v20 levels20 true = true` is false, see `consistent_v20_fails`. -/
theorem consistent_v20_partial : checkB opTable_v20 levels20impl true = true := by decide +kernel

theorem consistent_v20_fails : checkB opTable_v20 levels20 true = false := by decide +kernel

/-- PARTIAL (F04a, F04b): the 1.0 table realises `levels10impl` (one non-associative comparison level,
unary plus), not the W3C table `levels10`, see `consistent_v10_fails`.  (Unary minus sits between
MultiplicativeExpr and UnionExpr as in the W3C table since the fix of F04c.) -/
theorem consistent_v10_partial : checkB opTable_v10 levels10impl false = true := by decide +kernel

theorem consistent_v10_fails : checkB opTable_v10 levels10 false = false := by decide +kernel

/-! #### the same for the 2.0+ parsers built with `compatibility_mode=True` (separately generated tables):
compatibility mode must not change the grouping, the level tables are the same -/

theorem consistent_v31c : checkB opTable_v31c levels31 true = true := by decide +kernel
theorem consistent_v30c : checkB opTable_v30c levels30 true = true := by decide +kernel
/-- PARTIAL (F04b), as `consistent_v20_partial` -/
theorem consistent_v20c_partial : checkB opTable_v20c levels20impl true = true := by decide +kernel
theorem guards_v31c : guardsB opTable_v31c = true := by decide +kernel
theorem guards_v30c : guardsB opTable_v30c = true := by decide +kernel
theorem guards_v20c : guardsB opTable_v20c = true := by decide +kernel

theorem derives_v31c (toks : List Tok) (t : Tree) (h : parse (tableOf opTable_v31c) toks = .ok t) :
    derivableR (gramOf levels31 true (syms opTable_v31c)) 0 t = true ∧ t.yield = toks :=
  pratt_derives _ _ _ _ (consistent_of_check _ _ _ consistent_v31c) toks t h

theorem derives_v30c (toks : List Tok) (t : Tree) (h : parse (tableOf opTable_v30c) toks = .ok t) :
    derivableR (gramOf levels30 true (syms opTable_v30c)) 0 t = true ∧ t.yield = toks :=
  pratt_derives _ _ _ _ (consistent_of_check _ _ _ consistent_v30c) toks t h

theorem derives_v20c_partial (toks : List Tok) (t : Tree) (h : parse (tableOf opTable_v20c) toks = .ok t) :
    derivableR (gramOf levels20impl true (syms opTable_v20c)) 0 t = true ∧ t.yield = toks :=
  pratt_derives _ _ _ _ (consistent_of_check _ _ _ consistent_v20c_partial) toks t h

theorem complete_v31c (t : Tree) (hd : derivable (gramOf levels31 true (syms opTable_v31c)) 0 t = true)
    (hg : guardsPass (tableOf opTable_v31c) t = true) : parse (tableOf opTable_v31c) t.yield = .ok t :=
  pratt_complete _ _ _ _ (consistent_of_check _ _ _ consistent_v31c) (pos_of_check _ _ _ consistent_v31c) t hd hg

theorem complete_v30c (t : Tree) (hd : derivable (gramOf levels30 true (syms opTable_v30c)) 0 t = true)
    (hg : guardsPass (tableOf opTable_v30c) t = true) : parse (tableOf opTable_v30c) t.yield = .ok t :=
  pratt_complete _ _ _ _ (consistent_of_check _ _ _ consistent_v30c) (pos_of_check _ _ _ consistent_v30c) t hd hg

theorem complete_v20c_partial (t : Tree) (hd : derivable (gramOf levels20impl true (syms opTable_v20c)) 0 t = true)
    (hg : guardsPass (tableOf opTable_v20c) t = true) : parse (tableOf opTable_v20c) t.yield = .ok t :=
  pratt_complete _ _ _ _ (consistent_of_check _ _ _ consistent_v20c_partial)
    (pos_of_check _ _ _ consistent_v20c_partial) t hd hg

/-- in compatibility mode too, `- 1 instance of T` is `(-1) instance of T` (2.0 [16]-[20]: UnaryExpr is below
InstanceofExpr … CastExpr and UnionExpr) -/
theorem unary_typed_compat :
    (modelParse opTable_v20c [opTok opTable_v20c "-", num 1, opTok opTable_v20c "instance", .ty 0]).toOption =
      some (.typed (opTable_v20c.findIdx (·.sym == "instance")) (.pre (opTable_v20c.findIdx (·.sym == "-")) (.atom 1 1)) 0) ∧
    (modelParse opTable_v20c [opTok opTable_v20c "-", num 1, opTok opTable_v20c "instance", .ty 0]).toOption =
      specParse levels20 true opTable_v20c [opTok opTable_v20c "-", num 1, opTok opTable_v20c "instance", .ty 0] := by
  decide +kernel

/-- the guards of the optional-once operators are complete within their class: a general comparison
rejects a general comparison as left operand, a value comparison a value comparison, `is` an `is`,
`to` a `to` (2.0, 3.0, 3.1; the 1.0 table has the general class only) -/
theorem guards_v31 : guardsB opTable_v31 = true := by decide +kernel
theorem guards_v30 : guardsB opTable_v30 = true := by decide +kernel
theorem guards_v20 : guardsB opTable_v20 = true := by decide +kernel
theorem guards_v10 : guardsB opTable_v10 = true := by decide +kernel

/-- hence no accepted input chains two optional-once operators of one guard class (`a = b = c`, `a eq b ne c`,
`a is b is c`, `1 to 2 to 3` are rejected; the laxity L3 of F04b is confined to chains *across* classes
and to `<<` / `>>`) — 3.1; the other versions are the same statement over their tables -/
theorem no_same_class_chain_v31 (toks : List Tok) (t : Tree) (h : parse (tableOf opTable_v31) toks = .ok t) :
    anyNode (sameClassChain fun o => guardClass (symOf opTable_v31 o)) t = false :=
  wfr_no_chain _ _ (guardsComplete_of_check _ guards_v31) t (pratt_wfr _ toks t h)

theorem no_same_class_chain_v20 (toks : List Tok) (t : Tree) (h : parse (tableOf opTable_v20) toks = .ok t) :
    anyNode (sameClassChain fun o => guardClass (symOf opTable_v20 o)) t = false :=
  wfr_no_chain _ _ (guardsComplete_of_check _ guards_v20) t (pratt_wfr _ toks t h)

/-! ### hence: every accepted token list is parsed into a (relaxed) derivation with that yield -/

theorem derives_v31 (toks : List Tok) (t : Tree) (h : parse (tableOf opTable_v31) toks = .ok t) :
    derivableR (gramOf levels31 true (syms opTable_v31)) 0 t = true ∧ t.yield = toks :=
  pratt_derives _ _ _ _ (consistent_of_check _ _ _ consistent_v31) toks t h

theorem derives_v30 (toks : List Tok) (t : Tree) (h : parse (tableOf opTable_v30) toks = .ok t) :
    derivableR (gramOf levels30 true (syms opTable_v30)) 0 t = true ∧ t.yield = toks :=
  pratt_derives _ _ _ _ (consistent_of_check _ _ _ consistent_v30) toks t h

theorem derives_v20_partial (toks : List Tok) (t : Tree) (h : parse (tableOf opTable_v20) toks = .ok t) :
    derivableR (gramOf levels20impl true (syms opTable_v20)) 0 t = true ∧ t.yield = toks :=
  pratt_derives _ _ _ _ (consistent_of_check _ _ _ consistent_v20_partial) toks t h

theorem derives_v10_partial (toks : List Tok) (t : Tree) (h : parse (tableOf opTable_v10) toks = .ok t) :
    derivableR (gramOf levels10impl false (syms opTable_v10)) 0 t = true ∧ t.yield = toks :=
  pratt_derives _ _ _ _ (consistent_of_check _ _ _ consistent_v10_partial) toks t h

/-- strict version: an accepted input whose tree uses none of L1–L3 is an EBNF derivation (3.1) -/
theorem derives_strict_v31 (toks : List Tok) (t : Tree) (h : parse (tableOf opTable_v31) toks = .ok t)
    (hl : laxFree (gramOf levels31 true (syms opTable_v31)) t = true) :
    derivable (gramOf levels31 true (syms opTable_v31)) 0 t = true :=
  pratt_derives_strict _ _ _ _ (consistent_of_check _ _ _ consistent_v31) toks t h hl

def t_mixed : List Tok :=
  let r := opTable_v31
  [nm 1, opTok r "or", nm 2, opTok r "and", nm 3, opTok r "=", nm 4, opTok r "+", nm 5,
   opTok r "*", opTok r "-", nm 6, opTok r "[", num 1, .close 1]

/-! ### and conversely: every EBNF derivation that the guards let pass is what the parser returns -/

/-- XPath 3.1: the parser returns exactly the EBNF derivation on its token sequence -/
theorem complete_v31 (t : Tree) (hd : derivable (gramOf levels31 true (syms opTable_v31)) 0 t = true)
    (hg : guardsPass (tableOf opTable_v31) t = true) : parse (tableOf opTable_v31) t.yield = .ok t :=
  pratt_complete _ _ _ _ (consistent_of_check _ _ _ consistent_v31) (pos_of_check _ _ _ consistent_v31) t hd hg

theorem complete_v30 (t : Tree) (hd : derivable (gramOf levels30 true (syms opTable_v30)) 0 t = true)
    (hg : guardsPass (tableOf opTable_v30) t = true) : parse (tableOf opTable_v30) t.yield = .ok t :=
  pratt_complete _ _ _ _ (consistent_of_check _ _ _ consistent_v30) (pos_of_check _ _ _ consistent_v30) t hd hg

/-- PARTIAL (F04b): with respect to `levels20impl` (2.0 levels + dynamic call) -/
theorem complete_v20_partial (t : Tree) (hd : derivable (gramOf levels20impl true (syms opTable_v20)) 0 t = true)
    (hg : guardsPass (tableOf opTable_v20) t = true) : parse (tableOf opTable_v20) t.yield = .ok t :=
  pratt_complete _ _ _ _ (consistent_of_check _ _ _ consistent_v20_partial)
    (pos_of_check _ _ _ consistent_v20_partial) t hd hg

/-- PARTIAL (F04a): with respect to `levels10impl` (one optional-once comparison level) -/
theorem complete_v10_partial (t : Tree) (hd : derivable (gramOf levels10impl false (syms opTable_v10)) 0 t = true)
    (hg : guardsPass (tableOf opTable_v10) t = true) : parse (tableOf opTable_v10) t.yield = .ok t :=
  pratt_complete _ _ _ _ (consistent_of_check _ _ _ consistent_v10_partial)
    (pos_of_check _ _ _ consistent_v10_partial) t hd hg

/-- non-vacuity: the hypotheses of `complete_v31` hold on a non-trivial tree, and its conclusion computes -/
example : derivable (gramOf levels31 true (syms opTable_v31)) 0 ((modelParse opTable_v31 t_mixed).toOption.getD .nil) = true ∧
    guardsPass (tableOf opTable_v31) ((modelParse opTable_v31 t_mixed).toOption.getD .nil) = true ∧
    ((modelParse opTable_v31 t_mixed).toOption.getD .nil).yield = t_mixed := by decide +kernel

/-! ### kernel-checked witnesses of the findings (token lists are built by symbol lookup) -/

def w_eq_chain : List Tok := [nm 1, opTok opTable_v31 "=", nm 2, opTok opTable_v31 "eq", nm 3]
def w_order_chain : List Tok := [nm 1, opTok opTable_v20 "<<", nm 2, opTok opTable_v20 "<<", nm 3]
def w_cast_chain : List Tok := [num 1, opTok opTable_v20 "cast", .ty 0, opTok opTable_v20 "cast", .ty 0]
def w_prefix_operand : List Tok := [nm 1, opTok opTable_v30 "!", opTok opTable_v30 "-", nm 2]
def w_call20 : List Tok := [.atom 2 1, opTok opTable_v20 "(", num 1, .close 0]
def w_eq10 : List Tok := [num 1, opTok opTable_v10 "=", num 2, opTok opTable_v10 "=", num 3]
def w_rel10 : List Tok := [num 1, opTok opTable_v10 "<", num 2, opTok opTable_v10 "=", num 3]
def w_unary10 : List Tok := [opTok opTable_v10 "-", nm 1, opTok opTable_v10 "|", nm 2]
def w_unary20 : List Tok := [opTok opTable_v20 "-", nm 1, opTok opTable_v20 "|", nm 2]
def w_plus10 : List Tok := [opTok opTable_v10 "+", nm 1]
def w_filter10 : List Tok := [opTok opTable_v10 "(", nm 1, .close 0, opTok opTable_v10 "/", nm 2]
def w_var_step20 : List Tok := [nm 1, opTok opTable_v20 "/", .atom 2 2]
def w_lookup_path31 : List Tok := [nm 1, opTok opTable_v31 "?", nm 2, opTok opTable_v31 "/", nm 3]

/-- F04b (L3): `n1 = n2 eq n3` is accepted by the 3.1 table; the EBNF ([18] ComparisonExpr, optional
once) rejects it and the tree is not an EBNF derivation. -/
theorem f04b_comparison_chain :
    accepts opTable_v31 w_eq_chain = true ∧ modelDerivable levels31 true opTable_v31 w_eq_chain = some false ∧
    specParse levels31 true opTable_v31 w_eq_chain = none := by decide +kernel

/-- F04b (L3): `n1 << n2 << n3` -/
theorem f04b_node_order_chain :
    accepts opTable_v20 w_order_chain = true ∧ specParse levels20 true opTable_v20 w_order_chain = none := by
  decide +kernel

/-- F04b (L2): `1 cast as T cast as T` -/
theorem f04b_cast_chain :
    accepts opTable_v20 w_cast_chain = true ∧ specParse levels20 true opTable_v20 w_cast_chain = none := by
  decide +kernel

/-- F04b (L1): `n1 ! - n2` (3.0 [34] SimpleMapExpr ::= PathExpr ("!" PathExpr)*) -/
theorem f04b_prefix_operand :
    accepts opTable_v30 w_prefix_operand = true ∧ specParse levels30 true opTable_v30 w_prefix_operand = none := by
  decide +kernel

/-- F04b: the 2.0 table accepts the 3.0 dynamic call `$v1(1)`; 1.0 accepts unary plus `+ n1` -/
theorem f04b_foreign_syntax :
    accepts opTable_v20 w_call20 = true ∧ specParse levels20 true opTable_v20 w_call20 = none ∧
    accepts opTable_v10 w_plus10 = true ∧ specParse levels10 false opTable_v10 w_plus10 = none := by
  decide +kernel

/-- F04a: `1 = 2 = 3` and `1 < 2 = 3` are XPath 1.0 ([23] EqualityExpr, [24] RelationalExpr are
left-recursive); the 1.0 table rejects them. -/
theorem f04a_equality_chain :
    (specParse levels10 false opTable_v10 w_eq10).isSome = true ∧ rejects opTable_v10 w_eq10 = true ∧
    (specParse levels10 false opTable_v10 w_rel10).isSome = true ∧ rejects opTable_v10 w_rel10 = true := by
  decide +kernel

/-- fixed F04c: `- n1 | n2` is `-(n1 | n2)` in XPath 1.0 ([27] UnaryExpr ::= UnionExpr | '-' UnaryExpr) and
`(-n1) | n2` in 2.0+ ([20] UnaryExpr below [14] UnionExpr); model and reference parser agree on both. -/
theorem unary_union_versions :
    (modelParse opTable_v10 w_unary10).toOption = specParse levels10 false opTable_v10 w_unary10 ∧
    (modelParse opTable_v10 w_unary10).toOption =
      some (.pre (opTable_v10.findIdx (·.sym == "-")) (.bin (opTable_v10.findIdx (·.sym == "|")) (.atom 0 1) (.atom 0 2))) ∧
    (modelParse opTable_v20 w_unary20).toOption = specParse levels20 true opTable_v20 w_unary20 ∧
    (modelParse opTable_v20 w_unary20).toOption =
      some (.bin (opTable_v20.findIdx (·.sym == "|")) (.pre (opTable_v20.findIdx (·.sym == "-")) (.atom 0 1)) (.atom 0 2)) := by
  decide +kernel

/-- fixed (1.0 half of F04d, fix by the C01 builder): `( n1 ) / n2` is XPath 1.0 ([19] PathExpr ::= FilterExpr '/'
RelativeLocationPath); the 1.0 table accepts it and groups it as the reference parser does. -/
theorem filter_path_v10 :
    accepts opTable_v10 w_filter10 = true ∧
    (modelParse opTable_v10 w_filter10).toOption = specParse levels10 false opTable_v10 w_filter10 := by
  decide +kernel

/-- F04d: `n1 ? n2 / n3` is XPath 3.1 ([38] StepExpr ::= PostfixExpr, [49] … Lookup) and `n1 / $v2` is XPath 2.0
([29] FilterExpr → [41] VarRef as a step); both are rejected. -/
theorem f04d_path_operand :
    (specParse levels31 true opTable_v31 w_lookup_path31).isSome = true ∧ rejects opTable_v31 w_lookup_path31 = true ∧
    (specParse levels20 true opTable_v20 w_var_step20).isSome = true ∧ rejects opTable_v20 w_var_step20 = true := by
  decide +kernel

/-! ### the arrow operator (3.1 [29] ArrowExpr ::= UnaryExpr ( "=>" ArrowFunctionSpecifier ArgumentList )*) -/

def w_arrow : List Tok := [nm 1, opTok opTable_v31 "=>", .atom 2 1, opTok opTable_v31 "(", num 2, .close 0]
def w_arrow_chain : List Tok :=
  [opTok opTable_v31 "-", nm 1, opTok opTable_v31 "=>", nm 2, opTok opTable_v31 "(", .close 0,
   opTok opTable_v31 "=>", opTok opTable_v31 "(", nm 3, .close 0, opTok opTable_v31 "(", num 1, .close 0,
   opTok opTable_v31 "cast", .ty 4]
def w_arrow_map : List Tok := w_arrow ++ [opTok opTable_v31 "!", nm 2]
def w_arrow_pred : List Tok := w_arrow ++ [opTok opTable_v31 "[", num 1, .close 1]
def w_arrow_lookup_spec : List Tok :=
  [nm 1, opTok opTable_v31 "=>", .atom 2 1, opTok opTable_v31 "?", nm 2, opTok opTable_v31 "(", .close 0]
def w_arrow_two_lists : List Tok := w_arrow ++ [opTok opTable_v31 "(", num 3, .close 0]

/-- the `=>` row of the 3.1 table is a ternary `led` (specifier parsed with rbp 80, argument list with rbp 67, which
must be `(`-topped); `consistent_v31` places it on the ArrowExpr level between CastExpr and UnaryExpr.  Hence
(`derives_v31`, `complete_v31`, `model_eq_reference_v31`) arrows group as the EBNF says: `n1 => $v1 ( 2 )` is one
arrow node; `- n1 => n2 ( ) => ( n3 ) ( 1 ) cast as T` is `((-n1 => n2()) => (n3)(1)) cast as T`; `… ! n2` and
`… [ 1 ]` after the argument list are rejected by the table and by the EBNF.  The laxity L4 (part of F04b): a lookup on
the specifier (`n1 => $v1 ? n2 ( )`) and a second argument list (`n1 => $v1 ( 2 ) ( 3 )`) are accepted by the table,
not by the EBNF. -/
theorem arrow_v31 :
    let r := opTable_v31
    let a := r.findIdx (·.sym == "=>")
    let g := r.findIdx (·.sym == "(")
    (modelParse r w_arrow).toOption = some (.arrow a (.atom 0 1) (.atom 2 1) (.group g 0 (.atom 1 2))) ∧
    (modelParse r w_arrow).toOption = specParse levels31 true r w_arrow ∧
    (modelParse r w_arrow_chain).toOption = specParse levels31 true r w_arrow_chain ∧
    (modelParse r w_arrow_chain).toOption =
      some (.typed (r.findIdx (·.sym == "cast"))
        (.arrow a (.arrow a (.pre (r.findIdx (·.sym == "-")) (.atom 0 1)) (.atom 0 2) (.group g 0 .nil))
          (.group g 0 (.atom 0 3)) (.group g 0 (.atom 1 1))) 4) ∧
    rejects r w_arrow_map = true ∧ specParse levels31 true r w_arrow_map = none ∧
    rejects r w_arrow_pred = true ∧ specParse levels31 true r w_arrow_pred = none ∧
    accepts r w_arrow_lookup_spec = true ∧ specParse levels31 true r w_arrow_lookup_spec = none ∧
    trigF04b r levels31 true none w_arrow_lookup_spec = true ∧
    accepts r w_arrow_two_lists = true ∧ specParse levels31 true r w_arrow_two_lists = none ∧
    trigF04b r levels31 true none w_arrow_two_lists = true := by
  decide +kernel

/-- test (literals): `n1 or n2 and n3 = n4 + n5 * - n6 [ 1 ]`: model = reference parser, and it parses -/
example : (modelParse opTable_v31 t_mixed).toOption = specParse levels31 true opTable_v31 t_mixed ∧
    (specParse levels31 true opTable_v31 t_mixed).isSome = true := by decide +kernel

/-- XPath 3.1 / 3.0: the reference parser's tree is the model's tree whenever the guards let it pass -/
theorem model_eq_reference_v31 (toks : List Tok) (t : Tree) (h : specParse levels31 true opTable_v31 toks = some t)
    (hg : guardsPass (tableOf opTable_v31) t = true) : modelParse opTable_v31 toks = .ok t :=
  model_eq_reference _ _ _ _ _ _ (consistent_of_check _ _ _ consistent_v31) (pos_of_check _ _ _ consistent_v31) toks t h hg

theorem model_eq_reference_v30 (toks : List Tok) (t : Tree) (h : specParse levels30 true opTable_v30 toks = some t)
    (hg : guardsPass (tableOf opTable_v30) t = true) : modelParse opTable_v30 toks = .ok t :=
  model_eq_reference _ _ _ _ _ _ (consistent_of_check _ _ _ consistent_v30) (pos_of_check _ _ _ consistent_v30) toks t h hg

/-- the hand-written level tables never use `(` as a prefix operator (side condition of `ebnf_complete`), so for every
version the reference parser decides derivability: `spec=ERR` in the driver means that no EBNF derivation exists -/
theorem levels_paren_ok :
    findLevel true "(" levels10 0 = none ∧ findLevel true "(" levels20 0 = none ∧
    findLevel true "(" levels30 0 = none ∧ findLevel true "(" levels31 0 = none ∧
    findLevel true "(" levels10impl 0 = none ∧ findLevel true "(" levels20impl 0 = none := by decide

theorem reference_rejects_v31 (toks : List Tok) (h : specParse levels31 true opTable_v31 toks = none) :
    ¬ ∃ t, derivable (gramOf levels31 true (syms opTable_v31)) 0 t = true ∧ t.yield = toks :=
  ebnf_reject_no_derivation _ _ _ levels_paren_ok.2.2.2.1 toks h

theorem reference_rejects_v10 (toks : List Tok) (h : specParse levels10 false opTable_v10 toks = none) :
    ¬ ∃ t, derivable (gramOf levels10 false (syms opTable_v10)) 0 t = true ∧ t.yield = toks :=
  ebnf_reject_no_derivation _ _ _ levels_paren_ok.1 toks h

/-! ### unary lookup `?k` (3.1 [76] UnaryLookup ::= "?" KeySpecifier, a PrimaryExpr) -/

/-- the `?` row of the 3.1 table has a prefix `nud` whose rbp is the largest binding power and whose next-token
check admits key specifiers only (part of `consistent_v31`); hence — `derives_v31` — the operand of a unary lookup
in any parse result is a KeySpecifier and the lookup is a primary: with the generated table `( ? 1 + ? 2 )` is
`(?1) + (?2)`, `? n1 [ 1 ]` is `(?n1)[1]`, `? n1 ? 2` is `(?n1)?2`, and model = reference parser on them -/
theorem unary_lookup_v31 :
    let r := opTable_v31
    let q := r.findIdx (·.sym == "?")
    (modelParse r [opTok r "(", opTok r "?", num 1, opTok r "+", opTok r "?", num 2, .close 0]).toOption =
      some (.group (r.findIdx (·.sym == "(")) 0 (.bin (r.findIdx (·.sym == "+")) (.pre q (.atom 1 1)) (.pre q (.atom 1 2)))) ∧
    (modelParse r [opTok r "?", nm 1, opTok r "[", num 1, .close 1]).toOption =
      some (.post (r.findIdx (·.sym == "[")) 1 (.pre q (.atom 0 1)) (.atom 1 1)) ∧
    (modelParse r [opTok r "?", nm 1, opTok r "?", num 2]).toOption = some (.bin q (.pre q (.atom 0 1)) (.atom 1 2)) ∧
    (modelParse r [opTok r "(", opTok r "?", num 1, opTok r "+", opTok r "?", num 2, .close 0]).toOption =
      specParse levels31 true r [opTok r "(", opTok r "?", num 1, opTok r "+", opTok r "?", num 2, .close 0] ∧
    rejects r [opTok r "?", opTok r "-", nm 1] = true ∧
    specParse levels31 true r [opTok r "?", opTok r "-", nm 1] = none := by
  decide +kernel

/-! ### textual `source` round trip, for every parse result -/

open EPV.Source in
/-- the lexical tables fit the operator tables (all seven parser configurations): every symbol can be written the
way `source` writes it in its role (glued / with blanks), closers, type texts and operand texts are separable -/
theorem text_ok :
    textCheckB opTable_v10 textTbl_v10 followCh_v10 startCh_v10 ntys_v10 = true ∧
    textCheckB opTable_v20 textTbl_v20 followCh_v20 startCh_v20 ntys_v20 = true ∧
    textCheckB opTable_v30 textTbl_v30 followCh_v30 startCh_v30 ntys_v30 = true ∧
    textCheckB opTable_v31 textTbl_v31 followCh_v31 startCh_v31 ntys_v31 = true ∧
    textCheckB opTable_v20c textTbl_v20 followCh_v20 startCh_v20 ntys_v20 = true ∧
    textCheckB opTable_v30c textTbl_v30 followCh_v30 startCh_v30 ntys_v30 = true ∧
    textCheckB opTable_v31c textTbl_v31 followCh_v31 startCh_v31 ntys_v31 = true := by decide +kernel

open EPV.Source in
/-- **`source` round trip as a theorem** (3.1; `_v10`, `_v20`, `_v30` and the compatibility-mode tables are the same
statement): for every token list the parser model accepts, the `source` text of the resulting tree (the model of
`XPathToken.source`, compared character by character with the real one on every run) is split by the lexeme
model into exactly the lexemes of the input tokens, and re-parsing those tokens gives the same tree.
`argsOpen t` (3.1 only; the other tables have no arrow symbol): the argument list of every `=>` node starts with its
parenthesis — `led__arrow_operator` also accepts `x => $f 1(2)` (the call `1(2)` is `(`-topped), whose `source`
`x => $f1(2)` reads differently; outside the EBNF (F04b, L4) and excluded here. -/
theorem source_roundtrip_v31 (toks : List Tok) (t : Tree) (h : parse (tableOf opTable_v31) toks = .ok t)
    (ha : argsOpen t = true) :
    lexAll textTbl_v31 (textOf (render textTbl_v31 t)).length (textOf (render textTbl_v31 t)) =
      some (toks.flatMap (tokLex textTbl_v31)) ∧ parse (tableOf opTable_v31) t.yield = .ok t := by
  have hok := textOK_of_check opTable_v31 textTbl_v31 followCh_v31 startCh_v31 ntys_v31
    (by intro n; show (_[n % 48]?).getD [] = (_[n % ntys_v31 % 48]?).getD []; simp [ntys_v31, Nat.mod_mod]) text_ok.2.2.2.1
  refine ⟨?_, parse_yield_idem _ toks t h⟩
  rw [source_lexes_back opTable_v31 textTbl_v31 _ _ hok t (pratt_wfr _ toks t h) ha, pratt_yield _ toks t h]

open EPV.Source in
theorem source_roundtrip_v20 (toks : List Tok) (t : Tree) (h : parse (tableOf opTable_v20) toks = .ok t) :
    lexAll textTbl_v20 (textOf (render textTbl_v20 t)).length (textOf (render textTbl_v20 t)) =
      some (toks.flatMap (tokLex textTbl_v20)) ∧ parse (tableOf opTable_v20) t.yield = .ok t := by
  have hok := textOK_of_check opTable_v20 textTbl_v20 followCh_v20 startCh_v20 ntys_v20
    (by intro n; show (_[n % 48]?).getD [] = (_[n % ntys_v20 % 48]?).getD []; simp [ntys_v20, Nat.mod_mod]) text_ok.2.1
  refine ⟨?_, parse_yield_idem _ toks t h⟩
  have ha := argsOpen_of_noArrow _ (noArrow_of_check opTable_v20 (by decide +kernel)) t (pratt_wfr _ toks t h)
  rw [source_lexes_back opTable_v20 textTbl_v20 _ _ hok t (pratt_wfr _ toks t h) ha, pratt_yield _ toks t h]

open EPV.Source in
theorem source_roundtrip_v10 (toks : List Tok) (t : Tree) (h : parse (tableOf opTable_v10) toks = .ok t) :
    lexAll textTbl_v10 (textOf (render textTbl_v10 t)).length (textOf (render textTbl_v10 t)) =
      some (toks.flatMap (tokLex textTbl_v10)) ∧ parse (tableOf opTable_v10) t.yield = .ok t := by
  have hok := textOK_of_check opTable_v10 textTbl_v10 followCh_v10 startCh_v10 ntys_v10
    (by intro n; show (_[n % 48]?).getD [] = (_[n % ntys_v10 % 48]?).getD []; simp [ntys_v10, Nat.mod_mod]) text_ok.1
  refine ⟨?_, parse_yield_idem _ toks t h⟩
  have ha := argsOpen_of_noArrow _ (noArrow_of_check opTable_v10 (by decide +kernel)) t (pratt_wfr _ toks t h)
  rw [source_lexes_back opTable_v10 textTbl_v10 _ _ hok t (pratt_wfr _ toks t h) ha, pratt_yield _ toks t h]

/-! ### tokenizer: the order of the custom alternatives (a Python `set`, hash-seed dependent) is irrelevant -/

open EPV.Lexer in
/-- the side conditions of `custom_alt_agree` hold for the alternatives of every version's tokenizer, as read
by the translator from the live token patterns: every look-ahead needs a next character that is not a name
character, literal words consist of name characters, and `Q{` cannot match together with any other
alternative -/
theorem alts_ok : altsOK classes_v10 alts_v10 = true ∧ altsOK classes_v20 alts_v20 = true ∧
    altsOK classes_v30 alts_v30 = true ∧ altsOK classes_v31 alts_v31 = true := by decide +kernel

open EPV.Lexer in
/-- **custom_alt_agree** (3.1; the other versions are sub-lists): two custom alternatives that match at the same
offset match the same lexeme — for every text -/
theorem custom_alt_agree_v31 (A B : Alt) (hA : A ∈ alts_v31) (hB : B ∈ alts_v31) (s : List Ch) (n m : Nat)
    (h1 : matchLen classes_v31 A s = some n) (h2 : matchLen classes_v31 B s = some m) : n = m :=
  alt_agree classes_v31 alts_v31 alts_ok.2.2.2 A B hA hB s n m h1 h2

open EPV.Lexer in
/-- hence the lexeme chosen by the alternation `A₁|A₂|…` is the same for every ordering of the alternatives,
i.e. for every hash seed (modulo the translator's reading of the patterns) -/
theorem tokenizer_order_independent (s : List Ch) :
    (∀ l, l.Perm alts_v10 → choose classes_v10 l s = choose classes_v10 alts_v10 s) ∧
    (∀ l, l.Perm alts_v20 → choose classes_v20 l s = choose classes_v20 alts_v20 s) ∧
    (∀ l, l.Perm alts_v30 → choose classes_v30 l s = choose classes_v30 alts_v30 s) ∧
    (∀ l, l.Perm alts_v31 → choose classes_v31 l s = choose classes_v31 alts_v31 s) :=
  ⟨fun l h => (choose_perm _ _ _ h.symm alts_ok.1 s).symm,
   fun l h => (choose_perm _ _ _ h.symm alts_ok.2.1 s).symm,
   fun l h => (choose_perm _ _ _ h.symm alts_ok.2.2.1 s).symm,
   fun l h => (choose_perm _ _ _ h.symm alts_ok.2.2.2 s).symm⟩

/-- test (literals): on `map{` the `map` alternative and on `Q{x}` the `Q{` alternative are chosen; `abc (` is a
function name of length 3, `abc` alone is not matched by any custom alternative -/
example : EPV.Lexer.choose classes_v31 alts_v31 [109, 97, 112, 123] = some 3 ∧
    EPV.Lexer.choose classes_v31 alts_v31 [81, 123, 120, 125] = some 2 ∧
    EPV.Lexer.choose classes_v31 alts_v31 [97, 98, 99, 32, 40] = some 3 ∧
    EPV.Lexer.choose classes_v31 alts_v31 [97, 98, 99] = none := by decide +kernel

end EPV.C04

/-
C19 — theorems that depend on the defaults of the live library, regenerated into
EPV/Gen/C19Defaults.lean on every run (`allow_environment`, `defuse_xml`, kind of lock).
If a default is flipped in /repo these stop type-checking.
-/
import EPV.Model.Globals
import EPV.Spec.GlobalsSpec
import EPV.Gen.C19Defaults
namespace EPV.C19
open EPV.Globals EPV.Gen.C19

/-- **Default settings hide the environment.**  With a context created without
`allow_environment`, `fn:environment-variable` returns the empty sequence for every name and
`fn:available-environment-variables` returns nothing — whatever `os.environ` contains. -/
theorem env_hidden_by_default (σ : State) (name : String) :
    envVar allowEnvironmentDefault σ name = none ∧ availEnvVars allowEnvironmentDefault σ = [] := by
  simp [envVar, availEnvVars, allowEnvironmentDefault]

/-- the gate agrees with the specification's reading of "default settings" -/
theorem env_gate_eq_spec (σ : State) (name : String) :
    envVar allowEnvironmentDefault σ name = EPV.GlobalsSpec.specEnvVar σ.env name ∧
    availEnvVars allowEnvironmentDefault σ = EPV.GlobalsSpec.specAvailEnvVars σ.env := by
  simp [envVar, availEnvVars, allowEnvironmentDefault, EPV.GlobalsSpec.specEnvVar,
    EPV.GlobalsSpec.specAvailEnvVars]

/-- with the flag on, the gate is exactly a lookup (so the theorem above is not vacuous) -/
example : envVar true ⟨false, "C", [("HOME", "/root")], "", []⟩ "HOME" = some "/root" ∧
    availEnvVars true ⟨false, "C", [("HOME", "/root")], "", []⟩ = ["HOME"] := by decide

/-- **Entity declarations are rejected, not expanded** (default `defuse_xml`): for every
document whose DOCTYPE declares a general, parameter, external or unparsed entity,
`fn:parse-xml` raises `XMLResourceForbidden` and `fn:parse-xml-fragment` raises it or FODC0006;
neither returns a document. -/
theorem entity_decl_rejected (d : Doc) (h : EPV.GlobalsSpec.mustReject d = true) :
    parseXml defuseXmlDefault d = .error .forbidden ∧
    (parseXmlFragment defuseXmlDefault d = .error .forbidden ∨
     parseXmlFragment defuseXmlDefault d = .error .FODC0006) := by
  have hx : parseXml defuseXmlDefault d = .error .forbidden := by
    unfold EPV.GlobalsSpec.mustReject at h
    cases hd : d.doctype with
    | none => simp [hd] at h
    | some p =>
      obtain ⟨ext, decls⟩ := p
      simp only [hd] at h
      have h' : decls.any Decl.forbiddenDecl = true := by
        rw [List.any_eq_true] at h ⊢
        obtain ⟨x, hx, hp⟩ := h
        exact ⟨x, hx, by cases x <;> simp_all [Decl.forbiddenDecl, EPV.GlobalsSpec.isEntityDecl]⟩
      simp [parseXml, defuseXmlDefault, defuse, hd, h', bind, Except.bind]
  refine ⟨hx, ?_⟩
  unfold parseXmlFragment
  split
  · right; rfl
  · left; exact hx

/-- `expand` succeeds on a reference only if an internal general entity is declared -/
theorem expand_ok_no_ref (decls : List Decl) (hd : ∀ m v, Decl.entity m v ∉ decls) :
    ∀ (items : List Item) (s : String), expand decls items = .ok s → ∀ n, Item.ref n ∉ items := by
  intro items
  induction items with
  | nil => intro _ _ n hn; cases hn
  | cons it rest ih =>
    intro s he n hn
    cases it with
    | text t =>
      simp only [expand] at he
      cases hr : expand decls rest with
      | error e => simp [hr, Except.map] at he
      | ok s' =>
        rcases List.mem_cons.mp hn with h1 | h1
        · cases h1
        · exact ih s' hr n h1
    | predef t =>
      simp only [expand] at he
      cases hr : expand decls rest with
      | error e => simp [hr, Except.map] at he
      | ok s' =>
        rcases List.mem_cons.mp hn with h1 | h1
        · cases h1
        · exact ih s' hr n h1
    | ref m =>
      simp only [expand] at he
      have : decls.findSome? (entityValue m) = none := by
        rw [List.findSome?_eq_none_iff]
        intro x hx
        cases x <;> first | rfl | (exfalso; exact hd _ _ hx)
      rw [this] at he
      cases he

/-- no expansion under the default: whenever `fn:parse-xml` returns a document, the input
declared no entity and its content had no `&name;` reference at all — the returned text is
made of literal text and predefined/character references only -/
theorem no_entity_expansion_when_defused (d : Doc) (s : String)
    (h : parseXml defuseXmlDefault d = .ok s) :
    EPV.GlobalsSpec.mustReject d = false ∧ ∀ n, Item.ref n ∉ d.content := by
  have hm : EPV.GlobalsSpec.mustReject d = false := by
    cases hr : EPV.GlobalsSpec.mustReject d with
    | false => rfl
    | true => rw [(entity_decl_rejected d hr).1] at h; cases h
  refine ⟨hm, ?_⟩
  have hdecl : ∀ m v, Decl.entity m v ∉
      (match d.doctype with | some (_, ds) => ds | none => []) := by
    intro m v hx
    unfold EPV.GlobalsSpec.mustReject at hm
    cases hdt : d.doctype with
    | none => simp [hdt] at hx
    | some p =>
      obtain ⟨ext, ds⟩ := p
      simp only [hdt] at hx hm
      have : ds.any EPV.GlobalsSpec.isEntityDecl = true :=
        List.any_eq_true.mpr ⟨_, hx, rfl⟩
      rw [this] at hm; cases hm
  unfold parseXml at h
  simp only [defuseXmlDefault, ↓reduceIte, bind, Except.bind] at h
  cases hdf : defuse d with
  | error e => simp [hdf] at h
  | ok u =>
    simp only [hdf] at h
    exact expand_ok_no_ref _ hdecl d.content s h

/-- not vacuous: an entity-declaring document is expanded when `defuse_xml=False` … -/
example : parseXml false ⟨false, 0, some (false, [.entity "e" "EXPANDED"]), [.text "a", .ref "e"]⟩
    = .ok "aEXPANDED" := by rfl
/-- … and rejected by default; a fragment hiding the DOCTYPE behind a comment is still rejected -/
example : parseXmlFragment defuseXmlDefault
    ⟨false, 1, some (false, [.entity "e" "EXPANDED"]), [.ref "e"]⟩ = .error .forbidden := by rfl

/-! ## The entity gate on the text (`XmlText.scanProlog`: the characters, not expat's events) -/

/-- the document `parseText` returns carries exactly the DOCTYPE the prolog scan found -/
theorem parseText_doctype (cs : List Char) (d : Doc) (h : XmlText.parseText cs = some d) :
    d.doctype = (XmlText.scanProlog cs).doctype := by
  unfold XmlText.parseText at h
  simp only at h
  split at h
  · cases h
  · split at h
    · cases h
    · split at h
      · split at h
        · cases h
        · split at h
          · cases h
          · simp only [Option.map_eq_some_iff] at h
            obtain ⟨items, _, rfl⟩ := h
            rfl
      · cases h

/-- **Text level: an entity declaration in the prolog is refused.**  For every string: if the
scan of its prolog reads an entity declaration (general, parameter, external, unparsed —
wherever the DOCTYPE stands: after an XML declaration, comments, PIs, white space; even when a
syntax error follows later) or completes a DOCTYPE with an external identifier, `fn:parse-xml`
with the default parser raises `XMLResourceForbidden`. -/
theorem text_entity_decl_rejected (s : String)
    (h : (XmlText.scanProlog s.toList).forbidden = true) :
    parseXmlText defuseXmlDefault s = .error .forbidden := by
  simp [parseXmlText, defuseXmlDefault, h]

/-- **Text level: nothing is expanded.**  Whenever `fn:parse-xml` (default parser) returns, the
text denotes a document whose DOCTYPE — if any — declares no entity and whose content has no
general entity reference. -/
theorem text_no_expansion_when_defused (s v : String)
    (h : parseXmlText defuseXmlDefault s = .ok v) :
    ∃ d, XmlText.parseText s.toList = some d ∧ EPV.GlobalsSpec.mustReject d = false ∧
      ∀ n, Item.ref n ∉ d.content := by
  unfold parseXmlText at h
  simp only [defuseXmlDefault, Bool.true_and] at h
  cases hf : (XmlText.scanProlog s.toList).forbidden with
  | true => simp [hf] at h
  | false =>
    simp only [hf, Bool.false_eq_true, ↓reduceIte] at h
    cases hp : XmlText.parseText s.toList with
    | none => simp [hp] at h
    | some d =>
      simp only [hp] at h
      have hdt := parseText_doctype _ d hp
      have hnone : ∀ ext decls, d.doctype = some (ext, decls) →
          decls.any Decl.forbiddenDecl = false := by
        intro ext decls hd
        rw [hdt] at hd
        simp only [XmlText.Prolog.forbidden, hd, Bool.or_eq_false_iff] at hf
        exact hf.1
      have hm : EPV.GlobalsSpec.mustReject d = false := by
        unfold EPV.GlobalsSpec.mustReject
        cases hd : d.doctype with
        | none => rfl
        | some p =>
          obtain ⟨ext, decls⟩ := p
          have := hnone ext decls hd
          simp only
          rw [List.any_eq_false] at this ⊢
          intro x hx
          have := this x hx
          cases x <;> simp_all [Decl.forbiddenDecl, EPV.GlobalsSpec.isEntityDecl]
      refine ⟨d, rfl, hm, ?_⟩
      have hdecl : ∀ m v, Decl.entity m v ∉
          (match d.doctype with | some (_, ds) => ds | none => []) := by
        intro m v hx
        cases hd : d.doctype with
        | none => simp [hd] at hx
        | some p =>
          obtain ⟨ext, decls⟩ := p
          simp only [hd] at hx
          have := hnone ext decls hd
          rw [List.any_eq_false] at this
          exact absurd rfl (this _ hx)
      unfold parseXml at h
      simp only [Bool.false_eq_true, ↓reduceIte, bind, Except.bind] at h
      exact expand_ok_no_ref _ hdecl d.content v h

/-- the same for `fn:parse-xml-fragment`: it returns only if the text handed to the parser (the
argument without its XML declaration) passes the same scan -/
theorem text_fragment_no_expansion_when_defused (s v : String) (declOk : Bool)
    (h : parseXmlFragmentText defuseXmlDefault declOk s = .ok v) :
    ∃ b d, XmlText.parseText b = some d ∧ EPV.GlobalsSpec.mustReject d = false ∧
      ∀ n, Item.ref n ∉ d.content := by
  unfold parseXmlFragmentText at h
  simp only at h
  split at h
  · cases h
  · next b _ =>
    split at h
    · cases h
    · obtain ⟨d, h1, h2, h3⟩ := text_no_expansion_when_defused _ v h
      exact ⟨_, d, h1, h2, h3⟩

set_option maxRecDepth 20000 in
/-- kernel-checked instances on texts that defeat textual shortcuts: the DOCTYPE stands after an
XML declaration, a comment that itself contains `<!DOCTYPE`, and a PI; the entity value contains
`]>`; an attribute default contains `>` -/
theorem text_gate_witnesses :
    parseXmlText defuseXmlDefault
      "<?xml version=\"1.0\"?><!-- <!DOCTYPE x> --><?p ?><!DOCTYPE r [<!ATTLIST r a CDATA \">\"><!ENTITY e \"]>EXP\">]><r>&e;</r>"
      = .error .forbidden ∧
    parseXmlFragmentText defuseXmlDefault true "<!-- c --><!DOCTYPE r [<!ENTITY e \"EXP\">]><r>&e;</r>"
      = .error .forbidden ∧
    parseXmlText defuseXmlDefault "<!DOCTYPE r [<!ENTITY % p SYSTEM \"x\"> %p;]><r>t</r>" = .error .forbidden ∧
    parseXmlText defuseXmlDefault "<!DOCTYPE r PUBLIC \"-//x\" \"x.dtd\"><r>t</r>" = .error .forbidden ∧
    parseXmlText defuseXmlDefault "<!-- <!DOCTYPE r [<!ENTITY e \"x\">]> --><r>a&lt;b</r>" = .ok "a<b" ∧
    parseXmlText false "<!DOCTYPE r [<!ENTITY e \"EXP\">]><r>a&e;</r>" = .ok "aEXP" := by
  refine ⟨by rfl, by rfl, by rfl, by rfl, by rfl, by rfl⟩

/-! ## Facts about the package source, regenerated on every run (AST scan + live inspection)

These pin down *where* process-global state can be touched at all; the models above describe
what happens at exactly those places. -/

/-- **Every locale switch goes through `CollationManager`.**  In the whole package the only calls
`setlocale(category, <not None>)` are in `CollationManager.__enter__` (the probe bracket),
`CollationManager._locale_call` (the comparison bracket) and the helper `get_locale_category`,
which nothing in the package calls. -/
theorem locale_switched_only_by_the_brackets :
    setlocaleSetSites = [("elementpath.collations", "CollationManager.__enter__"),
      ("elementpath.collations", "CollationManager._locale_call"),
      ("elementpath.collations", "get_locale_category")] ∧
    getLocaleCategoryCallSites = [] := by decide

/-- **The lock is only ever taken by a `with` statement** (so it is released on every exit path,
as `leave` / `Thr.step` assume), in the two bracket routines and nowhere else. -/
theorem lock_taken_only_by_with :
    lockBareSites = [] ∧
    lockWithSites = [("elementpath.collations", "CollationManager.__enter__"),
      ("elementpath.collations", "CollationManager._locale_call")] := by decide

/-- **The decimal context is only ever swapped inside a `with` block that restores it.**  The only
mentions of `getcontext` / `setcontext` / `localcontext` / the predefined contexts in the package
are three `with localcontext() as ctx:` blocks (fn:round in the 1.0 and 3.0 function sets,
fn:round-half-to-even), each `scoped`: the body neither yields / awaits (so no suspended
generator can keep the modified context installed) nor calls back into evaluation (so no other
code runs under it); plus the private `Context(prec=30)` object of `Duration.__init__`, which
never becomes the thread's context. -/
theorem decimal_context_only_scoped :
    decimalThreadContextSites.all (fun s => s.2.2.2 == "scoped") = true ∧
    decimalThreadContextSites.map (fun s => (s.1, s.2.1)) =
      [("elementpath.xpath1._xpath1_functions", "evaluate__round"),
       ("elementpath.xpath2._xpath2_functions", "evaluate__round_half_to_even"),
       ("elementpath.xpath30._xpath30_functions", "evaluate__round")] ∧
    decimalPrivateContextSites = [("elementpath.datatypes.datetime", "Duration.__init__")] := by
  decide

/-- what such a block does to the state: nothing, whether its body returns or raises -/
theorem local_decimal_context_restored (σ : State) (raises : Option Nat) :
    ∃ out, withLocalDecimal σ raises = .ok out σ := by
  cases raises <;> exact ⟨_, rfl⟩

/-- **`os.environ` is never written**, and it is read only by the two gated functions that
`envVar` / `availEnvVars` model. -/
theorem environ_never_written :
    environWriteSites = [] ∧
    environReadSites = [("elementpath.xpath30._xpath30_functions", "evaluate__available_env_vars"),
      ("elementpath.xpath30._xpath30_functions", "evaluate__environment_variable")] := by decide

/-- **Every XML parse site is guarded.**  Of all calls in the package that hand text to an XML
parser (`etree.XML`, `fromstring`, `parse`, `iterparse`, `pulldom.parse`, … — generated table
`xmlParseSites`), none is `unguarded`: each one either parses `defuse_xml(..)` itself, or is
preceded by a `defuse_xml` call that no backend test / loop / `try` separates from it (only a
test of the `defuse_xml` option may), or is the explicit opt-out branch of that option, or
parses text placed inside an element, or is the scan of `defuse_xml` itself.  The functions that
parse XML at all are exactly `defuse_xml`, `fn:analyze-string`'s result builder, `fn:parse-xml`
and `fn:parse-xml-fragment` (`fn:doc` / `fn:collection` only look up documents the caller parsed). -/
theorem all_parse_sites_guarded :
    xmlParseSites.all (fun s => s.2.2.2 != "unguarded") = true ∧
    3 ≤ (xmlParseSites.filter (fun s => s.2.2.2 == "wrapped" || s.2.2.2 == "dominated")).length ∧
    (xmlParseSites.map (·.2.1)).eraseDups =
      ["defuse_xml", "evaluate__analyze_string", "evaluate__parse_xml",
       "evaluate__parse_xml_fragment"] := by decide

/-- module-level state that is written after import time and has been reviewed: memo caches of
pure functions (`lru_cache`), lazily loaded Unicode tables (`__subsets_cache`, `__unicode_data`,
also replaced by the public `install_unicode_data`; `_blocks` turns a block's range string into a
`UnicodeSubset` on first use), lazily built validator schemas, and the
class-level token / signature tables filled by the registration decorators while the parser
classes are being defined. -/
def reviewedGlobals : List (String × String) :=
  [("elementpath.sequence_types", "normalize_sequence_type"),
   ("elementpath.sequence_types", "is_sequence_type_restriction"),
   ("elementpath.sequence_types", "is_st"),
   ("elementpath.schema_proxy", "cached_find"),
   ("elementpath.regex.unicode_subsets", "__subsets_cache"),
   ("elementpath.regex.unicode_subsets", "__unicode_data"),
   ("elementpath.regex.unicode_subsets", "__unicode_data._blocks"),
   ("elementpath.validators.__init__", "analyzed_string_schema"),
   ("elementpath.validators.__init__", "json_to_xml_schema"),
   ("elementpath.tdop", "*.symbol_table"),
   ("elementpath.xpath1.xpath1_parser", "*.function_signatures")]

/-- every module-level / class-level mutable object that some function body can write (static
scan), and every one that actually changed while the translator's battery ran, is on the
reviewed list — a new piece of runtime-written global state stops this from compiling -/
theorem runtime_written_globals_reviewed :
    (staticallyWrittenGlobals ++ writtenAfterImport).all (fun x => reviewedGlobals.contains x) = true := by
  decide

/-- **Repetition writes nothing and changes no answer**: after the battery has run once, running
it again (in the same and in reverse order, with all four parsers) changes none of the
`mutableGlobalsCount` module-level objects, and every expression returns the same canonical
result all three times -/
theorem repetition_writes_nothing :
    writtenByRepetition = [] ∧ batteryResultsThatDiffer = [] := by decide

/-- the model's lock is the library's lock: not reentrant (if the library switches to an
`RLock` the sequential and thread models no longer describe it) -/
theorem lock_not_reentrant : lockReentrant = false := rfl

end EPV.C19

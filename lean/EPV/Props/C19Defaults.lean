/-
C19 — theorems that depend on the defaults of the live library, regenerated into
EPV/Gen/C19Defaults.lean on every run (`allow_environment`, `defuse_xml`, kind of lock).
If a default is flipped in /repo these stop type-checking.
-/
import EPV.Model.Globals
import EPV.Spec.GlobalsSpec
import EPV.Gen.C19Defaults
namespace EPV.C19
open EPV.Globals EPV.Gen.C19

/-- **Default settings hide the environment.**  With a context created without
`allow_environment`, `fn:environment-variable` returns the empty sequence for every name and
`fn:available-environment-variables` returns nothing — whatever `os.environ` contains. -/
theorem env_hidden_by_default (σ : State) (name : String) :
    envVar allowEnvironmentDefault σ name = none ∧ availEnvVars allowEnvironmentDefault σ = [] := by
  simp [envVar, availEnvVars, allowEnvironmentDefault]

/-- the gate agrees with the specification's reading of "default settings" -/
theorem env_gate_eq_spec (σ : State) (name : String) :
    envVar allowEnvironmentDefault σ name = EPV.GlobalsSpec.specEnvVar σ.env name ∧
    availEnvVars allowEnvironmentDefault σ = EPV.GlobalsSpec.specAvailEnvVars σ.env := by
  simp [envVar, availEnvVars, allowEnvironmentDefault, EPV.GlobalsSpec.specEnvVar,
    EPV.GlobalsSpec.specAvailEnvVars]

/-- with the flag on, the gate is exactly a lookup (so the theorem above is not vacuous) -/
example : envVar true ⟨false, "C", [("HOME", "/root")], "", []⟩ "HOME" = some "/root" ∧
    availEnvVars true ⟨false, "C", [("HOME", "/root")], "", []⟩ = ["HOME"] := by decide

/-- **Entity declarations are rejected, not expanded** (default `defuse_xml`): for every
document whose DOCTYPE declares a general, parameter, external or unparsed entity,
`fn:parse-xml` raises `XMLResourceForbidden` and `fn:parse-xml-fragment` raises it or FODC0006;
neither returns a document. -/
theorem entity_decl_rejected (d : Doc) (h : EPV.GlobalsSpec.mustReject d = true) :
    parseXml defuseXmlDefault d = .error .forbidden ∧
    (parseXmlFragment defuseXmlDefault d = .error .forbidden ∨
     parseXmlFragment defuseXmlDefault d = .error .FODC0006) := by
  have hx : parseXml defuseXmlDefault d = .error .forbidden := by
    unfold EPV.GlobalsSpec.mustReject at h
    cases hd : d.doctype with
    | none => simp [hd] at h
    | some p =>
      obtain ⟨ext, decls⟩ := p
      simp only [hd] at h
      have h' : decls.any Decl.forbiddenDecl = true := by
        rw [List.any_eq_true] at h ⊢
        obtain ⟨x, hx, hp⟩ := h
        exact ⟨x, hx, by cases x <;> simp_all [Decl.forbiddenDecl, EPV.GlobalsSpec.isEntityDecl]⟩
      simp [parseXml, defuseXmlDefault, defuse, hd, h', bind, Except.bind]
  refine ⟨hx, ?_⟩
  unfold parseXmlFragment
  split
  · right; rfl
  · left; exact hx

/-- `expand` succeeds on a reference only if an internal general entity is declared -/
theorem expand_ok_no_ref (decls : List Decl) (hd : ∀ m v, Decl.entity m v ∉ decls) :
    ∀ (items : List Item) (s : String), expand decls items = .ok s → ∀ n, Item.ref n ∉ items := by
  intro items
  induction items with
  | nil => intro _ _ n hn; cases hn
  | cons it rest ih =>
    intro s he n hn
    cases it with
    | text t =>
      simp only [expand] at he
      cases hr : expand decls rest with
      | error e => simp [hr, Except.map] at he
      | ok s' =>
        rcases List.mem_cons.mp hn with h1 | h1
        · cases h1
        · exact ih s' hr n h1
    | predef t =>
      simp only [expand] at he
      cases hr : expand decls rest with
      | error e => simp [hr, Except.map] at he
      | ok s' =>
        rcases List.mem_cons.mp hn with h1 | h1
        · cases h1
        · exact ih s' hr n h1
    | ref m =>
      simp only [expand] at he
      have : decls.findSome? (entityValue m) = none := by
        rw [List.findSome?_eq_none_iff]
        intro x hx
        cases x <;> first | rfl | (exfalso; exact hd _ _ hx)
      rw [this] at he
      cases he

/-- no expansion under the default: whenever `fn:parse-xml` returns a document, the input
declared no entity and its content had no `&name;` reference at all — the returned text is
made of literal text and predefined/character references only -/
theorem no_entity_expansion_when_defused (d : Doc) (s : String)
    (h : parseXml defuseXmlDefault d = .ok s) :
    EPV.GlobalsSpec.mustReject d = false ∧ ∀ n, Item.ref n ∉ d.content := by
  have hm : EPV.GlobalsSpec.mustReject d = false := by
    cases hr : EPV.GlobalsSpec.mustReject d with
    | false => rfl
    | true => rw [(entity_decl_rejected d hr).1] at h; cases h
  refine ⟨hm, ?_⟩
  have hdecl : ∀ m v, Decl.entity m v ∉
      (match d.doctype with | some (_, ds) => ds | none => []) := by
    intro m v hx
    unfold EPV.GlobalsSpec.mustReject at hm
    cases hdt : d.doctype with
    | none => simp [hdt] at hx
    | some p =>
      obtain ⟨ext, ds⟩ := p
      simp only [hdt] at hx hm
      have : ds.any EPV.GlobalsSpec.isEntityDecl = true :=
        List.any_eq_true.mpr ⟨_, hx, rfl⟩
      rw [this] at hm; cases hm
  unfold parseXml at h
  simp only [defuseXmlDefault, ↓reduceIte, bind, Except.bind] at h
  cases hdf : defuse d with
  | error e => simp [hdf] at h
  | ok u =>
    simp only [hdf] at h
    exact expand_ok_no_ref _ hdecl d.content s h

/-- not vacuous: an entity-declaring document is expanded when `defuse_xml=False` … -/
example : parseXml false ⟨false, 0, some (false, [.entity "e" "EXPANDED"]), [.text "a", .ref "e"]⟩
    = .ok "aEXPANDED" := by rfl
/-- … and rejected by default; a fragment hiding the DOCTYPE behind a comment is still rejected -/
example : parseXmlFragment defuseXmlDefault
    ⟨false, 1, some (false, [.entity "e" "EXPANDED"]), [.ref "e"]⟩ = .error .forbidden := by rfl

/-- the model's lock is the library's lock: not reentrant (if the library switches to an
`RLock` the sequential and thread models no longer describe it) -/
theorem lock_not_reentrant : lockReentrant = false := rfl

end EPV.C19

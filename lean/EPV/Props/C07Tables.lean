/-
C07 — theorems over the GENERATED class tables (EPV/Gen/C07Tables.lean, regenerated on every run from
the live datatype classes): the model's reading of every `isinstance` test used in the dispatch chains
of iter_comparison_data / evaluate__value_comparison_operators, of `type(a) is type(b)` and of the
subclass priority of Python's rich comparison agrees with the real classes, for one representative
object per atomic type.  A change of the class hierarchy (e.g. `bool` becoming an `Integer`, `Float`
no longer a `float`, a new common base class) breaks these `decide` proofs at build time.
-/
import EPV.Gen.C07Tables
import EPV.Model.Compare
namespace EPV.C07
open EPV.Cmp

def isUAa : Atom → Bool | .ua _ => true | _ => false
def isDecA : Atom → Bool | .dec _ => true | _ => false
def isDblA : Atom → Bool | .dbl _ => true | _ => false
def isFltA : Atom → Bool | .flt _ => true | _ => false
def isPyInt : Atom → Bool | .int _ => true | .bool _ => true | _ => false

/-- the model's predicates, in the column order of `isinstanceTable`: str, UntypedAtomic, AnyURI, bool,
Integer, AbstractQName, float, Decimal, DoubleProxy10, int, Duration, AbstractDateTime, AbstractBinary,
Float, AnyAtomicType -/
def modelIsinstance (a : Atom) : List Bool :=
  [isStr a, isUAa a, isUri a, isBoolA a, isInteger a, isQN a, a.isFloatCls, isDecA a, isDblA a, isPyInt a,
   a.isDur, a.isDT, a.isBin, isFltA a, true]

/-- every isinstance test of the dispatch chains, on every representative, as the model reads it -/
theorem isinstance_matrix : Gen.C07.reps.map modelIsinstance = Gen.C07.isinstanceTable := by decide +kernel

/-- `type(a) is type(b)` as the model reads it (`Atom.cls`; UntypedAtomic is its own class before
get_atomized_operand turns it into a str) -/
theorem same_class_matrix :
    (Gen.C07.reps.map fun a => Gen.C07.reps.map fun b =>
      (isUAa a && isUAa b) || (!isUAa a && !isUAa b && decide (a.cls = b.cls))) = Gen.C07.sameClassTable := by
  decide +kernel

/-- subclass priority of the rich comparison: exactly the pairs of `subclassFirst`, plus (int, bool)
where the subclass inherits the very same slot (so the order of the two calls is immaterial) -/
theorem subclass_matrix :
    (Gen.C07.reps.map fun a => Gen.C07.reps.map fun b =>
      subclassFirst a b || (isInteger a && isBoolA b)) = Gen.C07.properSubclassTable := by
  decide +kernel

/-- the representatives cover the 17 atom constructors -/
theorem reps_cover : Gen.C07.reps.length = 17 := by decide

end EPV.C07

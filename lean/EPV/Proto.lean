/-
Line-protocol helpers shared by the drivers in `Drivers/`.  Core Lean only.
A driver reads one request per line on stdin and answers with exactly one line.
-/
namespace EPV.Proto

def splitOn (s : String) (sep : String) : List String := s.splitOn sep

def nat? (s : String) : Option Nat := s.trimAscii.toString.toNat?

def int? (s : String) : Option Int := s.trimAscii.toString.toInt?

/-- `k=v` fields separated by single spaces; values contain no spaces -/
def fields (line : String) : List (String × String) :=
  (line.trimAscii.toString.splitOn " ").filterMap fun kv =>
    match kv.splitOn "=" with
    | k :: v :: rest => some (k, "=".intercalate (v :: rest))
    | _ => none

def field (fs : List (String × String)) (k : String) : String :=
  ((fs.find? (·.1 == k)).map (·.2)).getD ""

def bits (l : List Bool) : String := String.ofList (l.map fun b => if b then '1' else '0')

partial def loop (h : IO.FS.Stream) (out : IO.FS.Stream) (f : String → String) : IO Unit := do
  let line ← h.getLine
  if line.isEmpty then return ()
  out.putStrLn (f (line.dropEndWhile (· == '\n')).toString)
  loop h out f

def mainLoop (f : String → String) : IO Unit := do
  let i ← IO.getStdin
  let o ← IO.getStdout
  loop i o f
  o.flush

end EPV.Proto

/-
Model of `elementpath/regex/codepoints.py :: iterparse_character_subset(s, expand_ranges=False)`
(the parser behind `UnicodeSubset.update(str)`, `UnicodeSubset(str)` and `CharacterClass.add`).
Strings are lists of code points.  Transcribed branch by branch; `none` = `RegexError`.
-/
import EPV.Model.UnicodeSubset
namespace EPV.USet

def cpBackslash : Nat := 92
def cpHyphen : Nat := 45
/-- `'|.^?*+{}()'` -/
def isSpecial (c : Nat) : Bool := [124, 46, 94, 63, 42, 43, 123, 125, 40, 41].contains c
/-- `'[]'` -/
def isBracket (c : Nat) : Bool := c == 91 || c == 93
/-- `'-|.^?*+{}()[]'` -/
def isEscapable (c : Nat) : Bool := c == cpHyphen || isSpecial c || isBracket c
/-- `'sSdDiIcCwWpP'` -/
def isMultiEsc (c : Nat) : Bool := [115, 83, 100, 68, 105, 73, 99, 67, 119, 87, 112, 80].contains c

structure PState where
  escaped : Bool := false
  onRange : Bool := false
  char : Nat := 0

/-- loop body for index `k ≥ 1`; `fuel` bounds the recursion (it is `length - k`) -/
def iterparseGo (s : Array Nat) : Nat → Nat → PState → Option (List CP)
  | 0, _, st => some (if st.escaped then [.one cpBackslash] else [])
  | fuel + 1, k, st =>
    let n := s.size
    if k ≥ n then some (if st.escaped then [.one cpBackslash] else []) else
    let c := s[k]!
    if c == cpHyphen then
      if st.escaped || k == n - 1 then
        (iterparseGo s fuel (k + 1) { char := c, escaped := false, onRange := false }).map (.one c :: ·)
      else if st.onRange then
        (iterparseGo s fuel (k + 1) { st with char := c, onRange := false }).map (.one c :: ·)
      else
        -- parse a character range: consume the end character (and a backslash before it)
        let k1 := k + 1
        let e0 := s[k1]!
        -- `esc`: the range ends with an escaped backslash (`escaped = True`, F13g repaired)
        let (k2, e, bad, esc) :=
          if e0 == cpBackslash && k1 < n - 1 then
            if isEscapable s[k1 + 1]! then (k1 + 1, s[k1 + 1]!, false, false)
            else if isMultiEsc s[k1 + 1]! then (k1, e0, true, false)
            else if s[k1 + 1]! == cpBackslash then (k1, e0, false, true)
            else (k1, e0, false, false)
          else (k1, e0, false, false)
        if bad then none
        else if st.char > e then none
        else (iterparseGo s (fuel - (k2 - k)) (k2 + 1) { st with onRange := true, escaped := esc }).map
              (.rng st.char (e + 1) :: ·)
    else if isSpecial c then
      (iterparseGo s fuel (k + 1) { escaped := false, onRange := false, char := c }).map (.one c :: ·)
    else if isBracket c then
      if !st.escaped && n > 1 then none
      else
        let rest := iterparseGo s fuel (k + 1) { escaped := false, onRange := false, char := c }
        if k ≥ n - 2 || s[k + 1]! != cpHyphen then rest.map (.one c :: ·) else rest
    else if c == cpBackslash then
      if st.escaped then
        (iterparseGo s fuel (k + 1) { escaped := false, onRange := false, char := c }).map (.one c :: ·)
      else iterparseGo s fuel (k + 1) { st with escaped := true }
    else
      let pre : List CP := if st.escaped then [.one cpBackslash] else []
      let rest := iterparseGo s fuel (k + 1) { escaped := false, onRange := false, char := c }
      if k ≥ n - 2 || s[k + 1]! != cpHyphen then rest.map (pre ++ .one c :: ·) else rest.map (pre ++ ·)

/-- the whole generator, including the `k == 0` branch -/
def iterparse (s : Array Nat) : Option (List CP) :=
  let n := s.size
  if n == 0 then some [] else
  let c := s[0]!
  if c == cpBackslash then iterparseGo s n 1 { escaped := true, char := c }
  else if isBracket c && n > 1 then none
  else
    let rest := iterparseGo s n 1 { char := c }
    if n ≤ 2 || s[1]! != cpHyphen then rest.map (.one c :: ·) else rest

/-- `update(str)`: `for cp in iter_code_points(iterparse_character_subset(value), reverse=True): add` -/
def updateStr (l : List CP) (s : Array Nat) : Option (List CP) :=
  (iterparse s).map (update l)
def differenceUpdateStr (l : List CP) (s : Array Nat) : Option (List CP) :=
  (iterparse s).map (differenceUpdate l)

end EPV.USet

/-
C03, phase 5 — three `while` loops of the package transcribed with their loop state
(rows of `EPV.C03Cover.whileBaseline` that were `argued`):

1. `xpath30/xpath30_helpers.py:102-115`  `int_to_alphabetic`   `while num >= 0`  (cursor / arithmetic)
2. `xpath_tokens/base.py:374-386`        `get_argument_tokens` `while True`      (walk down the left spine)
3. `xpath_nodes.py:1037-1056`            `ElementNode.iter_descendants` `while True` (explicit stack of iterators)

Every loop is a fuel-indexed iteration of a step function on the Python loop state; running out of
fuel is a separate outcome (`outOfFuel`) — the theorems in `EPV/Props/C03Loops.lean` show that it is
never produced when the fuel is the stated measure.
-/
namespace EPV.C03Loops

/-- outcome of a loop run: a value, an escaping Python exception (class name), or fuel exhausted -/
inductive Out (α : Type) where
  | val (a : α)
  | escape (cls : String)
  | outOfFuel
  deriving Repr, DecidableEq

/-! ## 1. `int_to_alphabetic` (from `base = len(alphabet)` on) -/

/-- loop state of `while num >= 0:` — the Python variables `num` (an int, ends at -1) and `chars` -/
structure AlphaSt where
  num : Int
  chars : List Char
  deriving Repr, DecidableEq

/-- body: `chars.append(alphabet[num % base]); num = (num // base) - 1` (only run when `num >= 0`,
where Python's floor division and Lean's `/` on `Int` agree) -/
def alphaStep (alphabet : List Char) (s : AlphaSt) : AlphaSt :=
  let base : Int := alphabet.length
  { num := s.num / base - 1, chars := s.chars ++ [alphabet.getD (s.num % base).toNat '?'] }

def alphaLoop (alphabet : List Char) : Nat → AlphaSt → Out (List Char)
  | 0, _ => .outOfFuel
  | f + 1, s =>
    if 0 ≤ s.num then
      if alphabet.length = 0 then .escape "ZeroDivisionError"     -- `num % base` with base = 0
      else alphaLoop alphabet f (alphaStep alphabet s)
    else .val s.chars

/-- the measure: `num + 1` (as a natural number) -/
def alphaMeasure (s : AlphaSt) : Nat := (s.num + 1).toNat

/-- lines 102-115: `if not num: return '0'` … `return ''.join(reversed(chars))` -/
def intToAlphabetic (alphabet : List Char) (num : Int) : Out String :=
  if num = 0 then .val "0" else
  let s0 : AlphaSt := ⟨(num.natAbs : Int) - 1, []⟩
  match alphaLoop alphabet (alphaMeasure s0 + 1) s0 with
  | .val chars => .val (String.ofList ((if num < 0 then chars ++ ['-'] else chars).reverse))
  | .escape c => .escape c
  | .outOfFuel => .outOfFuel

/-- spec side (bijective base-`k` numeration): the value denoted by a digit string, most significant
first; digit = 1 + index in the alphabet -/
def alphaValue (alphabet : List Char) (digits : List Char) : Nat :=
  digits.foldl (fun acc c => acc * alphabet.length + (alphabet.idxOf c + 1)) 0

/-! ## 2. `XPathToken.get_argument_tokens` -/

/-- a token tree as far as the loop looks at it: is the symbol `','`, an identity, and the first two
items (`bin` stands for every token with two or more items: only `tk[0]` and `tk[1]` are read) -/
inductive Tk where
  | leaf (comma : Bool) (id : Nat)
  | un (comma : Bool) (id : Nat) (k0 : Tk)
  | bin (comma : Bool) (id : Nat) (k0 k1 : Tk)
  deriving Repr, DecidableEq

def Tk.id : Tk → Nat
  | .leaf _ i | .un _ i _ | .bin _ i _ _ => i

/-- depth of the left spine -/
def Tk.spine : Tk → Nat
  | .leaf _ _ => 0
  | .un _ _ k0 => k0.spine + 1
  | .bin _ _ k0 _ => k0.spine + 1

/-- loop state: `tk` and `tokens` (identities of the collected tokens) -/
structure ArgSt where
  tk : Tk
  tokens : List Nat
  deriving Repr, DecidableEq

inductive ArgStep where
  | cont (s : ArgSt)
  | ret (ids : List Nat)
  | exc (cls : String)

/-- one iteration of `while True:`; `tk[1]` on a `','` token with fewer than two items is an
`IndexError` of `list.__getitem__` (cannot happen for parsed trees: `led` of `','` stores two items) -/
def argStep (s : ArgSt) : ArgStep :=
  match s.tk with
  | .bin true _ k0 k1 => .cont ⟨k0, s.tokens ++ [k1.id]⟩
  | .un true _ _ => .exc "IndexError"
  | .leaf true _ => .exc "IndexError"
  | t => .ret ((s.tokens ++ [t.id]).reverse)

def argLoop : Nat → ArgSt → Out (List Nat)
  | 0, _ => .outOfFuel
  | f + 1, s =>
    match argStep s with
    | .cont s' => argLoop f s'
    | .ret ids => .val ids
    | .exc c => .escape c

def getArgumentTokens (tk : Tk) : Out (List Nat) := argLoop (tk.spine + 1) ⟨tk, []⟩

/-- spec: the arguments of a left-nested comma tree, by recursion on the tree (`none`: a `','` token
on the spine has fewer than two items) -/
def argsSpec : Tk → Option (List Nat)
  | .bin true _ k0 k1 => (argsSpec k0).map (· ++ [k1.id])
  | .un true _ _ => none
  | .leaf true _ => none
  | .leaf false i => some [i]
  | .un false i _ => some [i]
  | .bin false i _ _ => some [i]

/-- every `','` token of the left spine has two items (what the parser builds) -/
def Tk.spineOK : Tk → Bool
  | .bin true _ k0 _ => k0.spineOK
  | .un true _ _ => false
  | .leaf true _ => false
  | _ => true

/-! ## 3. `ElementNode.iter_descendants` -/

/-- a list of sibling nodes (what `iter(node.children)` still has to deliver), first-child /
next-sibling encoding: `cons id isElement children rest` -/
inductive Forest where
  | nil
  | cons (id : Nat) (elem : Bool) (kids : Forest) (rest : Forest)
  deriving Repr, DecidableEq

def Forest.isNil : Forest → Bool
  | .nil => true
  | _ => false

/-- loop state: the running iterator `children`, the stack `iterators` (head = top), what has been
yielded so far -/
structure DescSt where
  children : Forest
  iterators : List Forest
  out : List Nat
  deriving Repr, DecidableEq

/-- one step of `while True: for child in children: … else: …` — either one turn of the inner `for`
(yield the child; `iterators.append(children); children = iter(child.children); break` if it is an
element with children) or the `else` branch (`children = iterators.pop()`, `IndexError` → `return`,
modelled as `none`) -/
def descStep : DescSt → Option DescSt
  | ⟨.cons id el kids rest, its, out⟩ =>
    if el && !kids.isNil then some ⟨kids, rest :: its, out ++ [id]⟩
    else some ⟨rest, its, out ++ [id]⟩
  | ⟨.nil, it :: its, out⟩ => some ⟨it, its, out⟩
  | ⟨.nil, [], _⟩ => none

def descLoop : Nat → DescSt → Out (List Nat)
  | 0, _ => .outOfFuel
  | f + 1, s =>
    match descStep s with
    | some s' => descLoop f s'
    | none => .val s.out

def Forest.size : Forest → Nat
  | .nil => 0
  | .cons _ _ kids rest => 2 + kids.size + rest.size

/-- the measure: nodes not yet delivered (counted twice) + one per stacked iterator -/
def descMeasure (s : DescSt) : Nat :=
  s.children.size + (s.iterators.map (·.size + 1)).sum

def iterDescendants (children : Forest) : Out (List Nat) :=
  descLoop (children.size + 1) ⟨children, [], []⟩

/-- spec: document order (pre-order) of the descendants; children of non-elements are not visited -/
def Forest.pre : Forest → List Nat
  | .nil => []
  | .cons id el kids rest => id :: ((if el then kids.pre else []) ++ rest.pre)

end EPV.C03Loops

/-
C02 — nodes of several trees in one evaluation (context tree, `documents`, variables holding other
trees, fn:doc / fn:parse-xml results).  A node is `(tree key, position)`; the tree key stands for
`id(root node of the tree)` — implementation-dependent, fixed while the trees are alive.

Transcribed (after fix-c02-5):
* `helpers.node_position(node) = (id(tree root), node.position)` — sort key of `union` `|` `intersect`
  `except`, path steps, `innermost`, `outermost`
* `evaluate__node_comparison` (`_xpath2_operators.py`): `is` by identity; `<<` `>>`: same tree → by
  position; distinct trees → by the sort key if one operand is met while walking the context root or a
  document-valued variable, else FOCA0002
* `XPathContext.get_root`: context root if the node is below it; a document of `documents` containing it;
  the node's own tree root if the context has no root or the node is in the context tree; else nothing
Core Lean only.
-/
namespace EPV.Forest

/-- a node of the forest: (key of its tree, position in the tree) -/
abbrev FNode := Nat × Nat

def keyLe (a b : FNode) : Bool := a.1 < b.1 || (a.1 == b.1 && a.2 ≤ b.2)
def keyLt (a b : FNode) : Prop := a.1 < b.1 ∨ (a.1 = b.1 ∧ a.2 < b.2)

instance (a b : FNode) : Decidable (keyLt a b) := by unfold keyLt; infer_instance

/-- `sorted(nodes, key=node_position)` for any enumeration `l` of the node set -/
def fSort (l : List FNode) : List FNode := l.mergeSort keyLe

/-- `$a << $b` (`follows`: `>>`); `walked` = keys of the trees reached from `[context.root] +
document variables`; `none` = FOCA0002 -/
def fPrecedes (walked : List Nat) (follows : Bool) (a b : FNode) : Option Bool :=
  if a == b then some false
  else
    let before := decide (keyLt a b)
    if a.1 == b.1 then some (if follows then !before else before)
    else if walked.contains a.1 || walked.contains b.1 then some (if follows then !before else before)
    else none

/-- `get_root(node)`: `ctx` = key of the context tree (if the context has a root), `inSub` = the node
is met below the context root, `docs` = keys of the `documents` (`_docs` unused without context root: the
answer is the root of the node's tree either way); result: `some (tree key, is it the context root)` -/
def fGetRoot (ctx : Option Nat) (inSub : Bool) (docs : List Nat) (node : FNode) : Option (Nat × Bool) :=
  let _ := docs
  match ctx with
  | some c =>
    if node.1 == c && inSub then some (c, true)            -- the context root itself
    else if docs.contains node.1 then some (node.1, false)  -- that document
    else if node.1 == c then some (c, false)                -- the root of the context tree
    else none
  | none => some (node.1, false)                            -- a document of `documents`, or the own tree root

/-- the sort key before fix-c02-5: position alone -/
def posLe (a b : FNode) : Bool := a.2 ≤ b.2

end EPV.Forest

/-
C19 — model of the process-global state touched by an XPath evaluation.

Python sources transcribed (elementpath, tree with the `fix:` commits of branches fix-c19 and
fix-c19-2):

* `elementpath/collations.py`
    - `CollationManager.__init__`  → `parseColl`
    - `CollationManager.__enter__` → `probe` (sequential) / `Thr.step` on `Br.probe` (threads):
      under the lock, find out which locale serves the collation and restore at once
    - `CollationManager._locale_call` (behind `strcoll` / `strxfrm` of a locale based manager)
      → `useLoc` / `Thr.step` on `Br.use`: lock, switch, call, restore, unlock
    - `CollationManager.__exit__`  → nothing global (only the manager forgets its locale)
    - `_locale_collate_lock = threading.Lock()` → `State.lock` (non-reentrant)
* the `with CollationManager(collation, self) as manager: <body>` call sites in
  `xpath2/_xpath2_functions.py`, `xpath31/_xpath31_functions.py`, `compare.py` → `evalEv`
  (the body is any sequence of comparisons by this manager and further collation-using
  evaluations: `contains-token`, `index-of`, `distinct-values`, `deep-equal` evaluate operands
  inside the block, `index-of`/`distinct-values` stay suspended inside it while their consumer runs)
* the protocol of the tree before fix-c19-2 (lock and locale kept for the whole `with` block) is
  kept as `Scoped.enter`, the one before fix-c19 as `Pinned.enter` — records of F19b / F19 / F19c
* `xpath30/_xpath30_functions.py` 1343-1374 (`fn:environment-variable`,
  `fn:available-environment-variables`) → `envVar`, `availEnvVars`
* `etree.py` 32-74 (`SafeExpatParser`, `defuse_xml`) and `_xpath30_functions.py` 1377-1456
  (`fn:parse-xml`, `fn:parse-xml-fragment`) → `defuse`, `parseXml`, `parseXmlFragment`

Not modelled (trusted, named in docs/C19.md): `locale.setlocale` itself (a name is accepted or
rejected according to `World.avail`; a rejected call changes nothing), Python's locale alias table
(`World.norm`), `threading.Lock`, expat's tokenisation of the XML prolog.

Core Lean only.
-/
namespace EPV.Globals

/-! ## Locales, managers, errors -/

/-- a locale name as passed to / returned by the C-level `setlocale` -/
abbrev Loc := String

/-- the hard-wired fallback locale of `__enter__` (collations.py line 148) -/
def enUS : Loc := "en_US.UTF-8"

/-- what `CollationManager.lc_collate` holds when it is not `None`: a plain name, or the pair
`(lang, 'UTF-8')` built from a `lang=` parameter without an encoding -/
inductive Req where
  | name (s : String)
  | pair (lang : String)
  deriving DecidableEq, Repr, Inhabited

/-- a `CollationManager` after `__init__`: `lc = none` for the code-point / html-ascii /
caseblind collations (no locale switching, no lock) -/
structure Mgr where
  lc : Option Req
  fallback : Bool
  deriving DecidableEq, Repr, Inhabited

inductive Err where
  | XPTY0004                 -- collation argument is the empty sequence
  | FOCH0002                 -- unsupported collation (`xpath_error('FOCH0002', ...)`)
  | localeError              -- a bare `locale.Error` (only `__exit__`'s restore can raise it)
  | valueError               -- `ValueError` from `locale.getlocale` (pinned tree only)
  | body (code : Nat)        -- whatever the body of the `with` block raised
  deriving DecidableEq, Repr, Inhabited

/-! ## `CollationManager.__init__` on the collation URI (string level) -/

def UCA_BASE : String := "http://www.w3.org/2013/collation/UCA"
def CODEPOINT : String := "http://www.w3.org/2005/xpath-functions/collation/codepoint"
def HTML_ASCII : String :=
  "http://www.w3.org/2005/xpath-functions/collation/html-ascii-case-insensitive"
def CASEBLIND : String := "http://www.w3.org/2010/09/qt-fots-catalog/collation/caseblind"

/-- `urlsplit(collation).query` for a string that starts with `UCA_BASE`: the text between the
first `?` and the first `#` of the remainder (urllib strips the fragment first, then splits the
query off).  Tab / CR / LF inside the URI (which urllib deletes) are outside the modelled domain. -/
def ucaQuery (coll : String) : String :=
  let rest := (coll.drop UCA_BASE.length).toString
  let noFrag := (rest.splitOn "#").headD ""
  match noFrag.splitOn "?" with
  | _ :: q :: more => "?".intercalate (q :: more)
  | _ => ""

/-- one round of the `for param in query.split(';')` loop (lines 115-127) -/
def ucaParam (m : Mgr) (param : String) : Mgr :=
  if param.startsWith "lang=" then
    let lang := (param.drop 5).toString
    { m with lc := some (if lang.contains '.' then .name lang else .pair lang) }
  else if param.startsWith "fallback=" then
    if param.endsWith "yes" then { m with fallback := true }
    else if param.endsWith "no" then { m with fallback := false }
    else m
  else m

/-- `CollationManager.__init__` (lines 83-130) with `token.parser.base_uri` unset.
`none` = the collation argument evaluated to the empty sequence. -/
def parseColl : Option String → Except Err Mgr
  | none => .error .XPTY0004
  | some c =>
    if c == CODEPOINT || c == HTML_ASCII || c == CASEBLIND then .ok ⟨none, false⟩
    else if c.startsWith UCA_BASE then
      .ok ((ucaQuery c).splitOn ";" |>.foldl ucaParam ⟨some (.name enUS), true⟩)
    else .ok ⟨some (.name c), false⟩

/-- `XPath2Parser.__init__` (xpath2_parser.py 120-130) when no `default_collation` argument is
given: a UTF-8 `LC_COLLATE` of the process selects the UCA collation of that language, anything
else the code-point collation.  `none` = the `language_code, encoding = _locale.split('.')`
unpacking fails (`ValueError`: a name with two or more dots). -/
def defaultCollation (lc : Loc) : Option String :=
  if lc.contains '.' then
    match lc.splitOn "." with
    | [code, enc] => if enc.toLower == "utf-8" then some (UCA_BASE ++ "?lang=" ++ code)
                     else some CODEPOINT
    | _ => none
  else some CODEPOINT

/-! ## Process state and the C library -/

/-- The world outside the library: which names `setlocale` accepts (installed locales — any
configuration, including "nothing but C"), and the name Python's `locale.setlocale` wrapper hands
to the C function for a given request (`normalize(_build_localename(..))`, alias table). -/
structure World where
  avail : Loc → Bool
  norm : Req → Loc

/-- ghost record of what reached the C library, in call order: a `setlocale(LC_COLLATE, name)`
*set* request with its result, or a `strcoll`/`strxfrm` call made by a manager that wants the
locale `want` while `LC_COLLATE` was `was` -/
inductive LogE where
  | set (name : Loc) (accepted : Bool)
  | coll (want was : Loc)
  deriving DecidableEq, Repr, Inhabited

/-- Process-global state.  `env` = `os.environ`, `dec` = a rendering of `decimal.getcontext()`:
nothing in the model writes them (frame); `log` is compared with the stub's record by the
harness. -/
structure State where
  lock : Bool
  lc : Loc
  env : List (String × String)
  dec : String
  log : List LogE
  deriving DecidableEq, Repr, Inhabited

/-- C `setlocale(LC_COLLATE, name)`: `none` = `locale.Error`, nothing changed (ISO C 7.11.1.1) -/
def setloc (w : World) (σ : State) (n : Loc) : Option State :=
  if w.avail n then some { σ with lc := n, log := σ.log ++ [.set n true] } else none

/-- the state after a *rejected* request: only the ghost log grows -/
def logFail (σ : State) (n : Loc) : State := { σ with log := σ.log ++ [.set n false] }

/-- outcome of running a piece of code: normal return, exception, or blocked forever
(`Lock.acquire()` on a lock that nobody will release — the harness observes this as `HANG`) -/
inductive Res (α : Type) where
  | ok (a : α) (σ : State)
  | err (e : Err) (σ : State)
  | stuck (σ : State)
  deriving Repr

/-! ## `__enter__` and the comparison bracket (sequential reading: one thread) -/

/-- leave a `with _locale_collate_lock:` block that switched the locale: restore `saved`
(a failing restore raises `locale.Error` instead of the pending result), release -/
def leave (w : World) (saved : Loc) {α : Type} (pending : Except Err α) (σ : State) : Res α :=
  match setloc w σ saved with
  | some σ' =>
    match pending with
    | .ok a => .ok a { σ' with lock := false }
    | .error e => .err e { σ' with lock := false }
  | none => .err .localeError { logFail σ saved with lock := false }

/-- `CollationManager.__enter__` (tree with fix-c19-2).  Returns `_effective_lc_collate`
(`none` when the collation is not locale based).

```
if self.lc_collate is not None:
    with _locale_collate_lock:                                      -- blocks if held
        current = locale.setlocale(LC_COLLATE, None)
        try:
            try:    locale.setlocale(LC_COLLATE, self.lc_collate);  eff = self.lc_collate
            except locale.Error:
                if not self.fallback: raise
                locale.setlocale(LC_COLLATE, 'en_US.UTF-8');        eff = 'en_US.UTF-8'
        except locale.Error:
            raise xpath_error('FOCH0002', ...)                      -- nothing was changed
        else:
            locale.setlocale(LC_COLLATE, current)                   -- restore at once
return self
``` -/
def probe (w : World) (m : Mgr) (σ : State) : Res (Option Loc) :=
  match m.lc with
  | none => .ok none σ
  | some req =>
    if σ.lock then .stuck σ
    else
      let σ1 := { σ with lock := true }
      let saved := σ1.lc
      match setloc w σ1 (w.norm req) with
      | some σ2 => leave w saved (.ok (some (w.norm req))) σ2
      | none =>
        let σ1' := logFail σ1 (w.norm req)
        if m.fallback then
          match setloc w σ1' enUS with
          | some σ2 => leave w saved (.ok (some enUS)) σ2
          | none => .err .FOCH0002 { logFail σ1' enUS with lock := false }
        else .err .FOCH0002 { σ1' with lock := false }

/-- `CollationManager._locale_call(func, *args)` — one `strcoll` / `strxfrm` of a locale based
manager whose effective locale is `eff`:
```
with _locale_collate_lock:
    current = locale.setlocale(LC_COLLATE, None)
    locale.setlocale(LC_COLLATE, self._effective_lc_collate)        -- before the try
    try:     return func(*args)
    finally: locale.setlocale(LC_COLLATE, current)
``` -/
def useLoc (w : World) (eff : Loc) (σ : State) : Res Unit :=
  if σ.lock then .stuck σ
  else
    let σ1 := { σ with lock := true }
    let saved := σ1.lc
    match setloc w σ1 eff with
    | none => .err .localeError { logFail σ1 eff with lock := false }
    | some σ2 => leave w saved (.ok ()) { σ2 with log := σ2.log ++ [.coll eff σ2.lc] }

/-! ## The earlier protocols — kept as checked records of F19 / F19c / F19b -/

namespace Scoped
/-- `__enter__` of the tree with fix-c19 but before fix-c19-2: lock and locale are kept for the
whole `with` block (returned: the saved name, restored by `__exit__`) -/
def enter (w : World) (m : Mgr) (σ : State) : Res (Option Loc) :=
  match m.lc with
  | none => .ok none σ
  | some req =>
    if σ.lock then .stuck σ
    else
      let σ1 := { σ with lock := true }
      let saved := σ1.lc
      match setloc w σ1 (w.norm req) with
      | some σ2 => .ok (some saved) σ2
      | none =>
        let σ1' := logFail σ1 (w.norm req)
        if m.fallback then
          match setloc w σ1' enUS with
          | some σ2 => .ok (some saved) σ2
          | none => .err .FOCH0002 { logFail σ1' enUS with lock := false }
        else .err .FOCH0002 { σ1' with lock := false }
end Scoped

/-! The pinned tree (before fix-c19): `__enter__` saved `locale.getlocale(LC_COLLATE)` — a parsed
and normalised `(language, encoding)` pair — and let a failing fallback `setlocale` escape.
`rt n` is the name that `setlocale(LC_COLLATE, getlocale())` asks for when the current name is
`n` (`none`: `getlocale` raises `ValueError: unknown locale`). -/
namespace Pinned

def enter (w : World) (rt : Loc → Option Loc) (m : Mgr) (σ : State) : Res (Option Loc) :=
  match m.lc with
  | none => .ok none σ
  | some req =>
    if σ.lock then .stuck σ
    else
      let σ1 := { σ with lock := true }
      match rt σ1.lc with
      | none => .err .valueError σ1                       -- lock stays held
      | some saved =>
        match setloc w σ1 (w.norm req) with
        | some σ2 => .ok (some saved) σ2
        | none =>
          let σ1' := logFail σ1 (w.norm req)
          if !m.fallback then .err .FOCH0002 { σ1' with lock := false }
          else
            match setloc w σ1' enUS with
            | some σ2 => .ok (some saved) σ2
            | none => .err .localeError (logFail σ1' enUS)   -- bare locale.Error, lock stays held

end Pinned

/-! ## Evaluations and histories -/

/-- One collation-using evaluation `with CollationManager(collation, self) as manager: body`, or
one comparison made by the manager of the enclosing evaluation.
`call mk body raises`: `mk` is the result of `__init__` (`parseColl` of the collation argument);
`body` what happens inside the block, in order — comparisons (`cmp`) by this manager and further
collation-using evaluations, to any depth; `raises = some c` makes the body raise an error tagged
`c` at its end.  `cmp`: one `strcoll`/`strxfrm` call of the enclosing manager. -/
inductive Ev where
  | call (mk : Except Err Mgr) (body : List Ev) (raises : Option Nat)
  | cmp
  deriving Inhabited

/-- outcome of one evaluation as seen by its caller -/
inductive Out where
  | ok
  | err (e : Err)
  deriving DecidableEq, Repr, Inhabited

mutual
/-- `evalEv w encl ev σ`: `encl` = effective locale of the enclosing manager (`none`: no enclosing
manager, or one that is not locale based — its comparisons do not touch the C library).
`.ok out σ'` — returned to the caller with outcome `out` (value or exception) in state `σ'`;
`.stuck σ'` — never returns (blocked in `acquire`).  (`.err` is not produced.) -/
def evalEv (w : World) (encl : Option Loc) : Ev → State → Res Out
  | .cmp, σ =>
    match encl with
    | none => .ok .ok σ
    | some eff =>
      match useLoc w eff σ with
      | .ok _ σ' => .ok .ok σ'
      | .err e σ' => .ok (.err e) σ'
      | .stuck σ' => .stuck σ'
  | .call mk body raises, σ =>
    match mk with
    | .error e => .ok (.err e) σ
    | .ok m =>
      match probe w m σ with
      | .stuck σ' => .stuck σ'
      | .err e σ' => .ok (.err e) σ'
      | .ok eff σ1 =>
        match evalEvs w eff body σ1 with
        | .stuck σ' => .stuck σ'
        | .err e σ2 => .ok (.err e) σ2
        | .ok _ σ2 =>
          match raises with
          | some c => .ok (.err (.body c)) σ2
          | none => .ok .ok σ2
/-- the steps of a body in sequence; the first exception aborts the rest and propagates
(`.err`), `.ok` = all of them returned values -/
def evalEvs (w : World) (encl : Option Loc) : List Ev → State → Res Unit
  | [], σ => .ok () σ
  | e :: es, σ =>
    match evalEv w encl e σ with
    | .stuck σ' => .stuck σ'
    | .err x σ' => .err x σ'
    | .ok (.err x) σ' => .err x σ'
    | .ok .ok σ' => evalEvs w encl es σ'
end

/-- what the harness observes after each top-level evaluation -/
structure Obs where
  out : Option Out      -- `none` = HANG
  lock : Bool
  lc : Loc
  deriving DecidableEq, Repr

/-- A history = successive top-level evaluations in one process; every exception is caught by
the caller.  A stuck evaluation ends the history (the thread never comes back). -/
def runHist (w : World) : List Ev → State → List Obs × Option State
  | [], σ => ([], some σ)
  | e :: es, σ =>
    match evalEv w none e σ with
    | .ok out σ' =>
      let (os, fin) := runHist w es σ'
      (⟨some out, σ'.lock, σ'.lc⟩ :: os, fin)
    | .err x σ' =>                       -- not produced by evalEv; kept total
      let (os, fin) := runHist w es σ'
      (⟨some (.err x), σ'.lock, σ'.lc⟩ :: os, fin)
    | .stuck σ' => ([⟨none, σ'.lock, σ'.lc⟩], none)

/-! ## An evaluation tree as a sequence of brackets

Whether a probe succeeds depends on the installed locales only, never on the current state, so
the control flow of a tree — and with it the exact sequence of critical sections ("brackets") it
performs — is a function of the tree and the world. -/

/-- one critical section on the shared state -/
inductive Br where
  | probe (req : Req) (fb : Bool)     -- `__enter__` of a locale based manager
  | use (eff : Loc)                   -- one `strcoll`/`strxfrm` through `_locale_call`
  deriving DecidableEq, Repr, Inhabited

/-- effective locale a manager ends up with (`none`: not locale based, or unsupported) -/
def Mgr.effective (w : World) (m : Mgr) : Option Loc :=
  match m.lc with
  | none => none
  | some req =>
    if w.avail (w.norm req) then some (w.norm req)
    else if m.fallback && w.avail enUS then some enUS
    else none

/-- does `__enter__` of this manager succeed? -/
def Mgr.supported (w : World) (m : Mgr) : Bool :=
  m.lc.isNone || (m.effective w).isSome

/-- what a single bracket returns, from a clean state -/
def Br.expected (w : World) : Br → Out
  | .probe req fb => if (Mgr.effective w ⟨some req, fb⟩).isSome then .ok else .err .FOCH0002
  | .use eff => if w.avail eff then .ok else .err .localeError

mutual
/-- the outcome of a tree as a function of the tree and the world -/
def outcome (w : World) (encl : Option Loc) : Ev → Out
  | .cmp => match encl with
    | none => .ok
    | some eff => Br.expected w (.use eff)
  | .call mk body raises =>
    match mk with
    | .error e => .err e
    | .ok m =>
      if m.supported w then
        match outcomeL w (m.effective w) body with
        | .err e => .err e
        | .ok => match raises with
          | some c => .err (.body c)
          | none => .ok
      else .err .FOCH0002
def outcomeL (w : World) (encl : Option Loc) : List Ev → Out
  | [] => .ok
  | e :: es => match outcome w encl e with
    | .err x => .err x
    | .ok => outcomeL w encl es
end

/-- the probe bracket of `__enter__` (none for a manager that is not locale based) -/
def Mgr.probeBr (m : Mgr) : List Br :=
  match m.lc with
  | some req => [.probe req m.fallback]
  | none => []

mutual
/-- the brackets a tree performs, in order -/
def compile (w : World) (encl : Option Loc) : Ev → List Br
  | .cmp => match encl with
    | none => []
    | some eff => [.use eff]
  | .call mk body _ =>
    match mk with
    | .error _ => []
    | .ok m =>
      m.probeBr ++ (if m.supported w then compileL w (m.effective w) body else [])
def compileL (w : World) (encl : Option Loc) : List Ev → List Br
  | [] => []
  | e :: es => compile w encl e ++
      (match outcome w encl e with | .ok => compileL w encl es | .err _ => [])
end

/-- run one bracket sequentially -/
def runBr (w : World) (b : Br) (σ : State) : Res Unit :=
  match b with
  | .probe req fb =>
    match probe w ⟨some req, fb⟩ σ with
    | .ok _ σ' => .ok () σ'
    | .err e σ' => .err e σ'
    | .stuck σ' => .stuck σ'
  | .use eff => useLoc w eff σ

/-- run brackets one after the other, exceptions ignored (the control flow is already in the
list); `none` = blocked -/
def runBrs (w : World) : List Br → State → Option State
  | [], σ => some σ
  | b :: bs, σ =>
    match runBr w b σ with
    | .ok _ σ' => runBrs w bs σ'
    | .err _ σ' => runBrs w bs σ'
    | .stuck _ => none

/-! ## The decimal context: `with decimal.localcontext() as ctx:` (fn:round, fn:round-half-to-even) -/

/-- `with localcontext() as ctx: ctx.prec = 2000; <quantize / round>` — `_xpath1_functions.py`
`evaluate__round`, `_xpath2_functions.py` `evaluate__round_half_to_even`, `_xpath30_functions.py`
`evaluate__round`: `__enter__` saves the thread's context and installs a modified copy, the body
is leaf arithmetic (it may raise `InvalidOperation` / `TypeError`), `__exit__` puts the saved
context back on every exit path.  Flags raised by the body land on the copy. -/
def withLocalDecimal (σ : State) (raises : Option Nat) : Res Out :=
  let saved := σ.dec
  let σ1 := { σ with dec := "copy(prec=2000)" }        -- __enter__
  let σ2 := { σ1 with dec := saved }                    -- __exit__ (normal return or exception)
  match raises with
  | none => .ok .ok σ2
  | some c => .ok (.err (.body c)) σ2

/-! ## `fn:environment-variable`, `fn:available-environment-variables` (XPath 3.0+) -/

/-- `evaluate__environment_variable` (_xpath30_functions.py 1343-1357): `[]` unless the dynamic
context was created with `allow_environment=True`; then `os.environ.get(name)` -/
def envVar (allow : Bool) (σ : State) (name : String) : Option String :=
  if !allow then none else (σ.env.find? (·.1 == name)).map (·.2)

/-- `evaluate__available_env_vars` (1360-1373) -/
def availEnvVars (allow : Bool) (σ : State) : List String :=
  if !allow then [] else σ.env.map (·.1)

/-! ## `fn:parse-xml`, `fn:parse-xml-fragment`: the entity gate

The XML text is modelled at the level of the events expat reports (tokenisation is trusted):
an optional XML declaration, comments / PIs, an optional DOCTYPE with its internal subset, then
the root element whose content is text, predefined / character references and general entity
references. -/

/-- markup declarations of the internal DTD subset -/
inductive Decl where
  | entity (name value : String)       -- `<!ENTITY name "value">`  (EntityDeclHandler)
  | paramEntity (name : String)        -- `<!ENTITY % name "..">`   (EntityDeclHandler)
  | extEntity (name : String)          -- `<!ENTITY name SYSTEM "..">` (EntityDeclHandler)
  | unparsed (name : String)           -- `<!ENTITY name SYSTEM ".." NDATA n>` (UnparsedEntityDecl)
  | element | attlist | notation | comment | pi
  deriving DecidableEq, Repr, Inhabited

/-- content items of the root element -/
inductive Item where
  | text (s : String)
  | predef (s : String)                -- `&lt;` `&amp;` `&#65;` ... : the character it stands for
  | ref (name : String)                -- `&name;`
  deriving DecidableEq, Repr, Inhabited

structure Doc where
  xmlDecl : Bool                       -- `<?xml version="1.0" encoding="utf-8"?>` first
  leading : Nat                        -- number of comments / PIs before the DOCTYPE
  doctype : Option (Bool × List Decl)  -- (has an external id `SYSTEM ".."`, internal subset)
  content : List Item
  deriving DecidableEq, Repr, Inhabited

inductive XErr where
  | forbidden                          -- `XMLResourceForbidden` raised by `SafeExpatParser`
  | FODC0006
  deriving DecidableEq, Repr, Inhabited

/-- the handlers installed by `SafeExpatParser.reset` (etree.py 32-52): which declarations make
the scan raise `XMLResourceForbidden` -/
def Decl.forbiddenDecl : Decl → Bool
  | .entity .. | .paramEntity .. | .extEntity .. | .unparsed .. => true
  | _ => false

/-- `defuse_xml` (etree.py 55-72): pull events up to the first start tag through
`SafeExpatParser`; any entity declaration, or an external DTD subset
(`forbid_external_entity_reference`), raises -/
def defuse (d : Doc) : Except XErr Unit :=
  match d.doctype with
  | none => .ok ()
  | some (ext, decls) =>
    if decls.any Decl.forbiddenDecl || ext then .error .forbidden else .ok ()

/-- the replacement text of `&n;` if this declaration is the internal general entity `n` -/
def entityValue (n : String) : Decl → Option String
  | .entity m v => if m == n then some v else none
  | _ => none

/-- what `etree.XML` (ElementTree's expat parser, which does not load external entities) makes
of the content: internal general entities are expanded, anything else undeclared is a
well-formedness error (`ParseError` → FODC0006) -/
def expand (decls : List Decl) : List Item → Except XErr String
  | [] => .ok ""
  | .text s :: r => (expand decls r).map (s ++ ·)
  | .predef s :: r => (expand decls r).map (s ++ ·)
  | .ref n :: r =>
    match decls.findSome? (entityValue n) with
    | some v => (expand decls r).map (v ++ ·)
    | none => .error .FODC0006

/-- `evaluate__parse_xml` (1377-1399): `defuse_xml` first when `parser.defuse_xml`; result =
string value of the parsed root -/
def parseXml (defuseFlag : Bool) (d : Doc) : Except XErr String := do
  if defuseFlag then defuse d
  expand (match d.doctype with | some (_, ds) => ds | none => []) d.content

/-- `evaluate__parse_xml_fragment` (1402-1456): after the optional XML declaration, text that
starts with `<!DOCTYPE` is refused outright; otherwise as `parse-xml` (the `<document>` wrapper
retry only matters for ill-formed fragments, which are outside the modelled documents) -/
def parseXmlFragment (defuseFlag : Bool) (d : Doc) : Except XErr String :=
  if d.doctype.isSome && d.leading == 0 then .error .FODC0006 else parseXml defuseFlag d

/-- does the document declare any entity? -/
def Doc.declaresEntity (d : Doc) : Bool :=
  match d.doctype with
  | some (_, decls) => decls.any Decl.forbiddenDecl
  | none => false

/-! ## The entity gate on the text itself

`XmlText.scanProlog` reads the characters of the argument of `fn:parse-xml` the way expat does up
to the first start tag: XML declaration, comments, PIs, white space, the DOCTYPE declaration with
its external identifier and internal subset (entity / element / attlist / notation declarations,
comments, PIs, parameter-entity references), quoted literals honoured.  It stops at the first
ill-formed construct, remembering what it had seen — which is what decides whether
`SafeExpatParser` raises before the syntax error is met.  Not a validating parser: names are any
run of name characters, element/attlist/notation declarations are skipped up to their `>`. -/
namespace XmlText

def isWs (c : Char) : Bool := c == ' ' || c == '\t' || c == '\n' || c == '\r'

def skipWs (s : List Char) : List Char := s.dropWhile isWs

/-- `some rest` if `s` starts with `p` -/
def stripPrefix : List Char → List Char → Option (List Char)
  | [], s => some s
  | _ :: _, [] => none
  | p :: ps, c :: cs => if p == c then stripPrefix ps cs else none

/-- the text after the first occurrence of `pat` -/
def after (pat : List Char) : List Char → Option (List Char)
  | [] => if pat.isEmpty then some [] else none
  | c :: cs =>
    match stripPrefix pat (c :: cs) with
    | some r => some r
    | none => after pat cs

/-- the text before the first occurrence of `pat`, and the text after it -/
def splitAt (pat : List Char) : List Char → Option (List Char × List Char)
  | [] => if pat.isEmpty then some ([], []) else none
  | c :: cs =>
    match stripPrefix pat (c :: cs) with
    | some r => some ([], r)
    | none => (splitAt pat cs).map fun (a, b) => (c :: a, b)

/-- the text after a comment whose `<!--` has been consumed: the first `--` must be the closing
`-->` (XML 1.0 §2.5: `--` must not occur within comments) -/
def afterComment (s : List Char) : Option (List Char) :=
  (after "--".toList s).bind (stripPrefix ['>'])

def isNameChar (c : Char) : Bool :=
  c.isAlphanum || c == '_' || c == '-' || c == '.' || c == ':' || c.toNat ≥ 128

def takeName (s : List Char) : List Char × List Char := s.span isNameChar

/-- a quoted literal `"…"` or `'…'`: (content, rest) -/
def quoted : List Char → Option (List Char × List Char)
  | '"' :: cs => splitAt ['"'] cs
  | '\'' :: cs => splitAt ['\''] cs
  | _ => none

/-- optional `SYSTEM "…"` / `PUBLIC "…" "…"` after white space: (present, rest) -/
def externalId (s : List Char) : Option (Bool × List Char) :=
  let s := skipWs s
  match stripPrefix "SYSTEM".toList s with
  | some r => (quoted (skipWs r)).map fun (_, r') => (true, r')
  | none =>
    match stripPrefix "PUBLIC".toList s with
    | some r => do
      let (_, r1) ← quoted (skipWs r)
      let (_, r2) ← quoted (skipWs r1)
      pure (true, r2)
    | none => some (false, s)

/-- skip a declaration body up to its closing `>`, honouring quoted literals -/
def skipDecl : Nat → List Char → Option (List Char)
  | 0, _ => none
  | _ + 1, [] => none
  | _ + 1, '>' :: cs => some cs
  | f + 1, '"' :: cs => (after ['"'] cs).bind (skipDecl f)
  | f + 1, '\'' :: cs => (after ['\''] cs).bind (skipDecl f)
  | f + 1, _ :: cs => skipDecl f cs

/-- the definition part of an entity declaration (after the name and white space): an entity value,
or an external identifier optionally followed by `NDATA` Name; then `S? >` -/
def entityBody (param : Bool) (name : List Char) (s : List Char) : Option (Decl × List Char) :=
  match quoted s with
  | some (v, r) =>
    (stripPrefix ['>'] (skipWs r)).map fun r' =>
      (if param then .paramEntity (String.ofList name)
       else .entity (String.ofList name) (String.ofList v), r')
  | none =>
    match externalId s with
    | some (true, r) =>
      let r := skipWs r
      match stripPrefix "NDATA".toList r with
      | some r' =>
        let nr := takeName (skipWs r')
        if nr.1.isEmpty then none
        else (stripPrefix ['>'] (skipWs nr.2)).map fun r3 => (.unparsed (String.ofList name), r3)
      | none =>
        (stripPrefix ['>'] r).map fun r3 =>
          (if param then .paramEntity (String.ofList name) else .extEntity (String.ofList name), r3)
    | _ => none

/-- optional `%` S in front of the name of an entity declaration: (is a parameter entity, rest) -/
def entityPercent (s : List Char) : Bool × List Char :=
  match s with
  | '%' :: r => (true, skipWs r)
  | _ => (false, s)

/-- `<!ENTITY` already consumed: the declaration and the rest -/
def entityDecl (s : List Char) : Option (Decl × List Char) :=
  let ps := entityPercent (skipWs s)
  let nr := takeName ps.2
  if nr.1.isEmpty then none else entityBody ps.1 nr.1 (skipWs nr.2)

/-- the internal subset after `[`: the declarations read so far, and `some rest` after the
closing `]` if it was reached without a syntax error.  `live`: no parameter-entity reference has
been passed yet — a non-validating parser that does not read parameter entities (expat as used
here) must not process the entity declarations that follow one (XML 1.0 §5.1); they are recorded
as inert (`.element`). -/
def intSubset : Nat → List Char → List Decl → Bool → List Decl × Option (List Char)
  | 0, _, acc, _ => (acc.reverse, none)
  | f + 1, s, acc, live =>
    let s := skipWs s
    match s with
    | ']' :: r => (acc.reverse, some r)
    | '%' :: r =>                       -- parameter-entity reference `%name;`
      let (n, r') := takeName r
      match r' with
      | ';' :: r'' => if n.isEmpty then (acc.reverse, none) else intSubset f r'' acc false
      | _ => (acc.reverse, none)
    | _ =>
      match stripPrefix "<!--".toList s with
      | some r => match afterComment r with
        | some r' => intSubset f r' (.comment :: acc) live
        | none => (acc.reverse, none)
      | none =>
      match stripPrefix "<?".toList s with
      | some r => match after "?>".toList r with
        | some r' => intSubset f r' (.pi :: acc) live
        | none => (acc.reverse, none)
      | none =>
      match stripPrefix "<!ENTITY".toList s with
      | some r => match entityDecl r with
        | some (d, r') => intSubset f r' ((if live then d else .element) :: acc) live
        | none => (acc.reverse, none)
      | none =>
      match stripPrefix "<!ELEMENT".toList s with
      | some r => match skipDecl r.length r with
        | some r' => intSubset f r' (.element :: acc) live
        | none => (acc.reverse, none)
      | none =>
      match stripPrefix "<!ATTLIST".toList s with
      | some r => match skipDecl r.length r with
        | some r' => intSubset f r' (.attlist :: acc) live
        | none => (acc.reverse, none)
      | none =>
      match stripPrefix "<!NOTATION".toList s with
      | some r => match skipDecl r.length r with
        | some r' => intSubset f r' (.notation :: acc) live
        | none => (acc.reverse, none)
      | none => (acc.reverse, none)

/-- what the scan of the prolog found -/
structure Prolog where
  standalone : Bool                      -- the XML declaration says `standalone="yes"`
  xmlDecl : Bool
  leading : Nat                          -- comments / PIs before the DOCTYPE (or before the root)
  doctype : Option (Bool × List Decl)    -- external id present, declarations read
  complete : Bool                        -- the DOCTYPE declaration was closed by `>` without error
  rest : Option (List Char)              -- text from the root element's `<` on, if reached
  deriving Repr

/-- the DOCTYPE declaration after its name and optional external identifier: `S?`, then the
internal subset in brackets and `S?`, or nothing; then `>` -/
def doctypeTail (ext : Bool) (s2 : List Char) : (Bool × List Decl) × Option (List Char) :=
  match skipWs s2 with
  | '[' :: r =>
    let dr := intSubset (r.length + 1) r [] true
    match dr.2 with
    | none => ((ext, dr.1), none)
    | some r' => ((ext, dr.1), stripPrefix ['>'] (skipWs r'))
  | '>' :: r => ((ext, []), some r)
  | _ => ((ext, []), none)

/-- `<!DOCTYPE` already consumed -/
def doctypeDecl (s : List Char) : (Bool × List Decl) × Option (List Char) :=
  let nr := takeName (skipWs s)
  if nr.1.isEmpty then ((false, []), none) else
  match externalId nr.2 with
  | none => ((false, []), none)
  | some (ext, s2) => doctypeTail ext s2

/-- Misc* (doctypedecl Misc*)? up to the root element -/
def misc : Nat → List Char → Nat → Option (Bool × List Decl) → Bool → Bool → Prolog
  | 0, _, n, dt, c, xd => ⟨false, xd, n, dt, c, none⟩
  | f + 1, s, n, dt, c, xd =>
    let s := skipWs s
    match stripPrefix "<!--".toList s with
    | some r => match afterComment r with
      | some r' => misc f r' (if dt.isNone then n + 1 else n) dt c xd
      | none => ⟨false, xd, n, dt, c, none⟩
    | none =>
    match stripPrefix "<?".toList s with
    | some r =>
      -- a PI whose target is `xml` (any case) is an XML declaration out of place: a syntax error
      if ((takeName r).1.map Char.toLower) == "xml".toList then ⟨false, xd, n, dt, c, none⟩ else
      match after "?>".toList r with
      | some r' => misc f r' (if dt.isNone then n + 1 else n) dt c xd
      | none => ⟨false, xd, n, dt, c, none⟩
    | none =>
    match stripPrefix "<!DOCTYPE".toList s with
    | some r =>
      if dt.isSome then ⟨false, xd, n, dt, c, none⟩ else
      match doctypeDecl r with
      | (d, some r') => misc f r' n (some d) true xd
      | (d, none) => ⟨false, xd, n, some d, false, none⟩
    | none =>
    match s with
    | '<' :: _ => ⟨false, xd, n, dt, c, some s⟩
    | _ => ⟨false, xd, n, dt, c, none⟩

/-- the whole prolog: optional XML declaration (only at the very start; `version` comes first and
is mandatory, XML 1.0 §2.8), then `misc` -/
def scanProlog (s : List Char) : Prolog :=
  match stripPrefix "<?xml".toList s with
  | some (c :: r) =>
    if isWs c then
      match splitAt "?>".toList r with
      | some (decl, r') =>
        if (stripPrefix "version".toList (skipWs decl)).isNone then ⟨false, true, 0, none, false, none⟩ else
        let sa := ((splitAt "standalone".toList decl).bind fun (_, t) => splitAt "yes".toList t).isSome
        { misc (r'.length + 1) r' 0 none false true with standalone := sa }
      | none => ⟨false, true, 0, none, false, none⟩
    else misc (s.length + 1) s 0 none false false
  | _ => misc (s.length + 1) s 0 none false false

/-- does `SafeExpatParser` raise on this text?  An entity declaration that was read — even when a
syntax error follows — or an external identifier on a DOCTYPE declaration that was completed
(expat asks for the external subset unless the document is `standalone="yes"`) -/
def Prolog.forbidden (p : Prolog) : Bool :=
  match p.doctype with
  | none => false
  | some (ext, decls) => decls.any Decl.forbiddenDecl || (ext && p.complete && !p.standalone)

/-- value of a character / predefined reference body (`lt`, `#65`, `#x41`) -/
def predefValue (n : List Char) : Option Char :=
  match n with
  | ['l', 't'] => some '<'
  | ['g', 't'] => some '>'
  | ['a', 'm', 'p'] => some '&'
  | ['q', 'u', 'o', 't'] => some '"'
  | ['a', 'p', 'o', 's'] => some '\''
  | '#' :: 'x' :: h =>
    (h.foldl (fun acc c => acc.bind fun a =>
      if c.isDigit then some (a * 16 + (c.toNat - 48))
      else if 'a' ≤ c ∧ c ≤ 'f' then some (a * 16 + (c.toNat - 87))
      else if 'A' ≤ c ∧ c ≤ 'F' then some (a * 16 + (c.toNat - 55)) else none) (some 0)).map Char.ofNat
  | '#' :: d => (String.ofList d).toNat?.map Char.ofNat
  | _ => none

/-- after the root element only comments, PIs and white space may follow -/
def trailing : Nat → List Char → Bool
  | 0, _ => false
  | f + 1, s =>
    match skipWs s with
    | [] => true
    | s' =>
      match stripPrefix "<!--".toList s' with
      | some r => match afterComment r with
        | some r' => trailing f r'
        | none => false
      | none =>
        match stripPrefix "<?".toList s' with
        | some r => match after "?>".toList r with
          | some r' => trailing f r'
          | none => false
        | none => false

/-- content of the root element `name` up to and including its end tag, then `trailing`: text and
references (child elements are outside the modelled documents) -/
def content (name : List Char) : Nat → List Char → List Item → Option (List Item)
  | 0, _, _ => none
  | f + 1, s, acc =>
    match s with
    | [] => none
    | '<' :: '/' :: r =>
      match stripPrefix name r with
      | none => none
      | some r1 =>
        match stripPrefix ['>'] (skipWs r1) with
        | some r2 => if trailing (r2.length + 1) r2 then some acc.reverse else none
        | none => none
    | '<' :: _ => none
    | '&' :: r =>
      match splitAt [';'] r with
      | none => none
      | some (n, r') =>
        match predefValue n with
        | some c => content name f r' (.predef (String.ofList [c]) :: acc)
        | none =>
          if n.all isNameChar && !n.isEmpty then content name f r' (.ref (String.ofList n) :: acc) else none
    | _ =>
      let (t, r) := s.span fun c => c != '<' && c != '&'
      content name f r (.text (String.ofList t) :: acc)

/-- the document the text denotes, when the prolog is well formed and the root element has the
modelled shape `<name>content</name>` -/
def parseText (s : List Char) : Option Doc :=
  let p := scanProlog s
  match p.rest with
  | none => none
  | some r =>
    if p.doctype.isSome && !p.complete then none else
    match r with
    | '<' :: r1 =>
      let (name, r2) := takeName r1
      if name.isEmpty then none else
      match stripPrefix ['>'] (skipWs r2) with
      | none => none
      | some r3 => (content name (r3.length + 1) r3 []).map fun items => ⟨p.xmlDecl, p.leading, p.doctype, items⟩
    | _ => none

end XmlText

/-- `fn:parse-xml` on the text: `defuse_xml` raises iff the scan of the prolog met an entity
declaration (or completed a DOCTYPE with an external identifier); otherwise the text must parse -/
def parseXmlText (defuseFlag : Bool) (s : String) : Except XErr String :=
  let cs := s.toList
  if defuseFlag && (XmlText.scanProlog cs).forbidden then .error .forbidden
  else match XmlText.parseText cs with
    | none => .error .FODC0006
    | some d => parseXml false d

/-- `fn:parse-xml-fragment` on the text (lines 1426-1441): an XML declaration is cut off (its
`encoding` pseudo-attribute is mandatory, only `version` and `encoding` are allowed — `declOk`),
then text that after `lstrip()` starts with `<!DOCTYPE` is refused, then as `fn:parse-xml` on the
remaining text -/
def parseXmlFragmentText (defuseFlag : Bool) (declOk : Bool) (s : String) : Except XErr String :=
  let cs := s.toList
  let body : Option (List Char) :=
    match XmlText.stripPrefix "<?xml ".toList cs with
    | some r => if declOk then (XmlText.after "?>".toList r) else none
    | none => some cs
  match body with
  | none => .error .FODC0006
  | some b =>
    if (XmlText.stripPrefix "<!DOCTYPE".toList (b.dropWhile fun c => c.isWhitespace)).isSome then .error .FODC0006
    else parseXmlText defuseFlag (String.ofList b)

/-! ## Threads: small-step interleaving semantics of N bracket programs

A thread's program is a list of brackets (for a thread that evaluates trees: `compileL` of
them).  Nothing is held between brackets, so the theorems about this semantics hold for *any*
control structure around them: nested scopes, scopes kept open by suspended generators,
abandoned generators, exceptions. -/

namespace Thr

/-- program counter of a thread — each constructor is the point *before* one Python-level
operation on shared state -/
inductive Pc where
  | idle                                       -- between brackets
  | acquire (b : Br)                           -- about to enter `with _locale_collate_lock:`
  | query (b : Br)                             -- holds the lock; about to read the current name
  | trySet (b : Br) (saved : Loc)              -- about to `setlocale(requested / effective)`
  | tryFb (saved : Loc)                        -- probe only: about to `setlocale('en_US.UTF-8')`
  | call (eff saved : Loc)                     -- use only: about to call `strcoll`/`strxfrm`
  | restore (saved : Loc) (out : Out)          -- about to `setlocale(saved)`
  | release (out : Out)                        -- about to leave the `with` block
  deriving DecidableEq, Repr, Inhabited

/-- a thread: its program counter, the brackets still to run, and ghost logs: `seen` — for
every `strcoll`/`strxfrm`, the pair (locale its manager wants, `LC_COLLATE` at that moment);
`outs` — the result of every finished bracket; `prog` — the whole program (never written) -/
structure Thread where
  pc : Pc
  todo : List Br
  seen : List (Loc × Loc)
  outs : List Out
  prog : List Br
  deriving DecidableEq, Repr, Inhabited

/-- shared state of the interleaving semantics -/
structure Shared where
  lock : Bool
  lc : Loc
  deriving DecidableEq, Repr, Inhabited

/-- does the thread hold `_locale_collate_lock` at this program point? -/
def Pc.holds : Pc → Bool
  | .idle | .acquire _ => false
  | _ => true

/-- One atomic step of one thread; `none` = the thread is not enabled (finished, or blocked in
`acquire` because the lock is held). -/
def step (w : World) (s : Shared) (t : Thread) : Option (Shared × Thread) :=
  match t.pc with
  | .idle =>
    match t.todo with
    | [] => none
    | b :: bs => some (s, { t with pc := .acquire b, todo := bs })
  | .acquire b =>
    if s.lock then none else some ({ s with lock := true }, { t with pc := .query b })
  | .query b => some (s, { t with pc := .trySet b s.lc })
  | .trySet (.probe req fb) saved =>
    if w.avail (w.norm req) then
      some ({ s with lc := w.norm req }, { t with pc := .restore saved .ok })
    else if fb then some (s, { t with pc := .tryFb saved })
    else some (s, { t with pc := .release (.err .FOCH0002) })
  | .trySet (.use eff) saved =>
    if w.avail eff then some ({ s with lc := eff }, { t with pc := .call eff saved })
    else some (s, { t with pc := .release (.err .localeError) })
  | .tryFb saved =>
    if w.avail enUS then some ({ s with lc := enUS }, { t with pc := .restore saved .ok })
    else some (s, { t with pc := .release (.err .FOCH0002) })
  | .call eff saved =>
    some (s, { t with pc := .restore saved .ok, seen := t.seen ++ [(eff, s.lc)] })
  | .restore saved out =>
    if w.avail saved then some ({ s with lc := saved }, { t with pc := .release out })
    else some (s, { t with pc := .release (.err .localeError) })
  | .release out =>
    some ({ s with lock := false }, { t with pc := .idle, outs := t.outs ++ [out] })

/-- a thread that has not started -/
def Thread.init (prog : List Br) : Thread := ⟨.idle, prog, [], [], prog⟩

/-- finished = idle with nothing left -/
def Thread.done (t : Thread) : Bool := t.pc == .idle && t.todo.isEmpty

/-- configuration of the N-thread system -/
structure Config where
  sh : Shared
  ts : List Thread
  deriving Repr

/-- `Step w c c'`: some thread takes one atomic step (any thread, any time: every interleaving) -/
inductive Step (w : World) : Config → Config → Prop where
  | mk (s s' : Shared) (pre post : List Thread) (t t' : Thread)
      (h : step w s t = some (s', t')) :
      Step w ⟨s, pre ++ t :: post⟩ ⟨s', pre ++ t' :: post⟩

/-- reflexive-transitive closure: all schedules, any length -/
inductive Reach (w : World) : Config → Config → Prop where
  | refl (c : Config) : Reach w c c
  | tail {a b c : Config} : Reach w a b → Step w b c → Reach w a c

/-- run a given schedule (list of thread indices; disabled picks are skipped) — executable, for
the driver -/
def runSched (w : World) : List Nat → Config → Config
  | [], c => c
  | i :: is, c =>
    match c.ts[i]? with
    | none => runSched w is c
    | some t =>
      match step w c.sh t with
      | none => runSched w is c
      | some (s', t') => runSched w is ⟨s', c.ts.set i t'⟩

end Thr

end EPV.Globals

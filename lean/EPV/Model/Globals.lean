/-
C19 — model of the process-global state touched by an XPath evaluation.

Python sources transcribed (elementpath, tree with the two `fix:` commits of branch fix-c19):

* `elementpath/collations.py`
    - `CollationManager.__init__`  (lines 83-130)  → `parseColl`
    - `CollationManager.__enter__` (lines 132-152) → `enter`   (sequential) / `Thr.step` (threads)
    - `CollationManager.__exit__`  (lines 154-160) → `exit`
    - `_locale_collate_lock = threading.Lock()` (line 36) → `State.lock` (non-reentrant)
* the `with CollationManager(collation, self) as manager: <body>` call sites in
  `xpath2/_xpath2_functions.py`, `xpath31/_xpath31_functions.py`, `compare.py` → `evalEv`
  (the body may contain further collation-using evaluations: `contains-token`, `index-of`,
  `distinct-values`, `sort`, `deep-equal` evaluate their operands *inside* the `with` block)
* `xpath30/_xpath30_functions.py` 1343-1374 (`fn:environment-variable`,
  `fn:available-environment-variables`) → `envVar`, `availEnvVars`
* `etree.py` 32-74 (`SafeExpatParser`, `defuse_xml`) and `_xpath30_functions.py` 1377-1456
  (`fn:parse-xml`, `fn:parse-xml-fragment`) → `defuse`, `parseXml`, `parseXmlFragment`

Not modelled (trusted, named in docs/C19.md): `locale.setlocale` itself (a name is accepted or
rejected according to `World.avail`; a rejected call changes nothing), Python's locale alias table
(`World.norm`), `threading.Lock`, expat's tokenisation of the XML prolog.

Core Lean only.
-/
namespace EPV.Globals

/-! ## Locales, managers, errors -/

/-- a locale name as passed to / returned by the C-level `setlocale` -/
abbrev Loc := String

/-- the hard-wired fallback locale of `__enter__` (collations.py line 148) -/
def enUS : Loc := "en_US.UTF-8"

/-- what `CollationManager.lc_collate` holds when it is not `None`: a plain name, or the pair
`(lang, 'UTF-8')` built from a `lang=` parameter without an encoding -/
inductive Req where
  | name (s : String)
  | pair (lang : String)
  deriving DecidableEq, Repr, Inhabited

/-- a `CollationManager` after `__init__`: `lc = none` for the code-point / html-ascii /
caseblind collations (no locale switching, no lock) -/
structure Mgr where
  lc : Option Req
  fallback : Bool
  deriving DecidableEq, Repr, Inhabited

inductive Err where
  | XPTY0004                 -- collation argument is the empty sequence
  | FOCH0002                 -- unsupported collation (`xpath_error('FOCH0002', ...)`)
  | localeError              -- a bare `locale.Error` (only `__exit__`'s restore can raise it)
  | valueError               -- `ValueError` from `locale.getlocale` (pinned tree only)
  | body (code : Nat)        -- whatever the body of the `with` block raised
  deriving DecidableEq, Repr, Inhabited

/-! ## `CollationManager.__init__` on the collation URI (string level) -/

def UCA_BASE : String := "http://www.w3.org/2013/collation/UCA"
def CODEPOINT : String := "http://www.w3.org/2005/xpath-functions/collation/codepoint"
def HTML_ASCII : String :=
  "http://www.w3.org/2005/xpath-functions/collation/html-ascii-case-insensitive"
def CASEBLIND : String := "http://www.w3.org/2010/09/qt-fots-catalog/collation/caseblind"

/-- `urlsplit(collation).query` for a string that starts with `UCA_BASE`: the text between the
first `?` and the first `#` of the remainder (urllib strips the fragment first, then splits the
query off).  Tab / CR / LF inside the URI (which urllib deletes) are outside the modelled domain. -/
def ucaQuery (coll : String) : String :=
  let rest := (coll.drop UCA_BASE.length).toString
  let noFrag := (rest.splitOn "#").headD ""
  match noFrag.splitOn "?" with
  | _ :: q :: more => "?".intercalate (q :: more)
  | _ => ""

/-- one round of the `for param in query.split(';')` loop (lines 115-127) -/
def ucaParam (m : Mgr) (param : String) : Mgr :=
  if param.startsWith "lang=" then
    let lang := (param.drop 5).toString
    { m with lc := some (if lang.contains '.' then .name lang else .pair lang) }
  else if param.startsWith "fallback=" then
    if param.endsWith "yes" then { m with fallback := true }
    else if param.endsWith "no" then { m with fallback := false }
    else m
  else m

/-- `CollationManager.__init__` (lines 83-130) with `token.parser.base_uri` unset.
`none` = the collation argument evaluated to the empty sequence. -/
def parseColl : Option String → Except Err Mgr
  | none => .error .XPTY0004
  | some c =>
    if c == CODEPOINT || c == HTML_ASCII || c == CASEBLIND then .ok ⟨none, false⟩
    else if c.startsWith UCA_BASE then
      .ok ((ucaQuery c).splitOn ";" |>.foldl ucaParam ⟨some (.name enUS), true⟩)
    else .ok ⟨some (.name c), false⟩

/-- `XPath2Parser.__init__` (xpath2_parser.py 120-130) when no `default_collation` argument is
given: a UTF-8 `LC_COLLATE` of the process selects the UCA collation of that language, anything
else the code-point collation.  `none` = the `language_code, encoding = _locale.split('.')`
unpacking fails (`ValueError`: a name with two or more dots). -/
def defaultCollation (lc : Loc) : Option String :=
  if lc.contains '.' then
    match lc.splitOn "." with
    | [code, enc] => if enc.toLower == "utf-8" then some (UCA_BASE ++ "?lang=" ++ code)
                     else some CODEPOINT
    | _ => none
  else some CODEPOINT

/-! ## Process state and the C library -/

/-- The world outside the library: which names `setlocale` accepts (installed locales — any
configuration, including "nothing but C"), and the name Python's `locale.setlocale` wrapper hands
to the C function for a given request (`normalize(_build_localename(..))`, alias table). -/
structure World where
  avail : Loc → Bool
  norm : Req → Loc

/-- Process-global state.  `env` = `os.environ`, `dec` = a rendering of `decimal.getcontext()`:
nothing in the model writes them (frame); `log` is a ghost record of the C-level `setlocale`
*set* requests `(name, accepted)` in call order, compared with the stub's record by the harness. -/
structure State where
  lock : Bool
  lc : Loc
  env : List (String × String)
  dec : String
  log : List (Loc × Bool)
  deriving DecidableEq, Repr, Inhabited

/-- C `setlocale(LC_COLLATE, name)`: `none` = `locale.Error`, nothing changed (ISO C 7.11.1.1) -/
def setloc (w : World) (σ : State) (n : Loc) : Option State :=
  if w.avail n then some { σ with lc := n, log := σ.log ++ [(n, true)] } else none

/-- the state after a *rejected* request: only the ghost log grows -/
def logFail (σ : State) (n : Loc) : State := { σ with log := σ.log ++ [(n, false)] }

/-- outcome of running a piece of code: normal return, exception, or blocked forever
(`Lock.acquire()` on a lock that nobody will release — the harness observes this as `HANG`) -/
inductive Res (α : Type) where
  | ok (a : α) (σ : State)
  | err (e : Err) (σ : State)
  | stuck (σ : State)
  deriving Repr

/-! ## `__enter__` / `__exit__` (sequential reading: one thread) -/

/-- `CollationManager.__enter__` (fixed tree).  Returns `_current_lc_collate` (`none` when no
locale switching takes place).

```
if self.lc_collate is not None:
    _locale_collate_lock.acquire()                                  -- blocks if held
    self._current_lc_collate = locale.setlocale(LC_COLLATE, None)   -- exact current name
    try:
        try:    locale.setlocale(LC_COLLATE, self.lc_collate)       -- failure point 1
        except locale.Error:
            if not self.fallback: raise
            locale.setlocale(LC_COLLATE, 'en_US.UTF-8')             -- failure point 2
    except locale.Error:
        self._current_lc_collate = None
        _locale_collate_lock.release()
        raise xpath_error('FOCH0002', ...)
return self
``` -/
def enter (w : World) (m : Mgr) (σ : State) : Res (Option Loc) :=
  match m.lc with
  | none => .ok none σ
  | some req =>
    if σ.lock then .stuck σ
    else
      let σ1 := { σ with lock := true }
      let saved := σ1.lc
      match setloc w σ1 (w.norm req) with
      | some σ2 => .ok (some saved) σ2
      | none =>
        let σ1' := logFail σ1 (w.norm req)
        if m.fallback then
          match setloc w σ1' enUS with
          | some σ2 => .ok (some saved) σ2
          | none => .err .FOCH0002 { logFail σ1' enUS with lock := false }
        else .err .FOCH0002 { σ1' with lock := false }

/-- `CollationManager.__exit__`:
```
if self._current_lc_collate is not None:
    locale.setlocale(LC_COLLATE, self._current_lc_collate)          -- failure point 3
    self._current_lc_collate = None
    _locale_collate_lock.release()
```
(a failing restore lets `locale.Error` escape *before* the release — kept in the model; the
theorems show it cannot happen when the initial locale is one that `setlocale` accepts) -/
def exit (w : World) (saved : Option Loc) (σ : State) : Res Unit :=
  match saved with
  | none => .ok () σ
  | some s =>
    match setloc w σ s with
    | some σ' => .ok () { σ' with lock := false }
    | none => .err .localeError (logFail σ s)

/-! ## The pinned tree (before the two `fix:` commits) — kept as a checked record of F19 / F19c

`__enter__` saved `locale.getlocale(LC_COLLATE)` — a parsed and normalised `(language, encoding)`
pair — and let a failing fallback `setlocale` escape.  `rt n` is the name that
`setlocale(LC_COLLATE, getlocale())` asks for when the current name is `n` (`none`: `getlocale`
raises `ValueError: unknown locale`). -/
namespace Pinned

def enter (w : World) (rt : Loc → Option Loc) (m : Mgr) (σ : State) : Res (Option Loc) :=
  match m.lc with
  | none => .ok none σ
  | some req =>
    if σ.lock then .stuck σ
    else
      let σ1 := { σ with lock := true }
      match rt σ1.lc with
      | none => .err .valueError σ1                       -- lock stays held
      | some saved =>
        match setloc w σ1 (w.norm req) with
        | some σ2 => .ok (some saved) σ2
        | none =>
          let σ1' := logFail σ1 (w.norm req)
          if !m.fallback then .err .FOCH0002 { σ1' with lock := false }
          else
            match setloc w σ1' enUS with
            | some σ2 => .ok (some saved) σ2
            | none => .err .localeError (logFail σ1' enUS)   -- bare locale.Error, lock stays held

end Pinned

/-! ## Evaluations and histories -/

/-- One collation-using evaluation: `with CollationManager(collation, self) as manager: body`.
`mk` is the result of `__init__` (`parseColl` of the collation argument), `inner` the
collation-using evaluations performed by the body *inside* the `with` block, in order, and
`raises = some c` makes the body raise (after the inner evaluations) an error tagged `c`. -/
inductive Ev where
  | call (mk : Except Err Mgr) (inner : List Ev) (raises : Option Nat)
  deriving Inhabited

/-- outcome of one top-level evaluation as seen by the caller -/
inductive Out where
  | ok
  | err (e : Err)
  deriving DecidableEq, Repr, Inhabited

/-- run `exit` in the `finally` position: its exception (if any) replaces the pending outcome -/
def finish (w : World) (saved : Option Loc) (pending : Out) (σ : State) : Res Out :=
  match exit w saved σ with
  | .ok _ σ' => .ok pending σ'
  | .err e σ' => .ok (.err e) σ'
  | .stuck σ' => .stuck σ'

mutual
/-- `Res Out`: `.ok out σ` — the evaluation returned to its caller with outcome `out` (a value or
an exception) in state `σ`;  `.stuck σ` — it never returns (blocked in `acquire` in state `σ`).  (`.err` is not produced.) -/
def evalEv (w : World) : Ev → State → Res Out
  | .call mk inner raises, σ =>
    match mk with
    | .error e => .ok (.err e) σ
    | .ok m =>
      match enter w m σ with
      | .stuck σ' => .stuck σ'
      | .err e σ' => .ok (.err e) σ'
      | .ok saved σ1 =>
        match evalEvs w inner σ1 with
        | .stuck σ' => .stuck σ'
        | .err e σ2 => finish w saved (.err e) σ2
        | .ok _ σ2 =>
          match raises with
          | some c => finish w saved (.err (.body c)) σ2
          | none => finish w saved .ok σ2
/-- the body's inner evaluations in sequence; the first exception aborts the rest and propagates
(`.err`), `.ok` = all of them returned values -/
def evalEvs (w : World) : List Ev → State → Res Unit
  | [], σ => .ok () σ
  | e :: es, σ =>
    match evalEv w e σ with
    | .stuck σ' => .stuck σ'
    | .err x σ' => .err x σ'
    | .ok (.err x) σ' => .err x σ'
    | .ok .ok σ' => evalEvs w es σ'
end

/-- what the harness observes after each top-level evaluation -/
structure Obs where
  out : Option Out      -- `none` = HANG
  lock : Bool
  lc : Loc
  deriving DecidableEq, Repr

/-- A history = successive top-level evaluations in one process; every exception is caught by
the caller.  A stuck evaluation ends the history (the thread never comes back). -/
def runHist (w : World) : List Ev → State → List Obs × Option State
  | [], σ => ([], some σ)
  | e :: es, σ =>
    match evalEv w e σ with
    | .ok out σ' =>
      let (os, fin) := runHist w es σ'
      (⟨some out, σ'.lock, σ'.lc⟩ :: os, fin)
    | .err x σ' =>                       -- not produced by evalEv; kept total
      let (os, fin) := runHist w es σ'
      (⟨some (.err x), σ'.lock, σ'.lc⟩ :: os, fin)
    | .stuck σ' => ([⟨none, σ'.lock, σ'.lc⟩], none)

/-- does the manager switch the locale (and therefore take the lock)? -/
def usesLocale : Except Err Mgr → Bool
  | .ok m => m.lc.isSome
  | .error _ => false

mutual
/-- `nestFree held ev`: no locale-switching scope is entered while another one is open
(`held` = one is already open around `ev`) -/
def nestFree (held : Bool) : Ev → Bool
  | .call mk inner _ => !(held && usesLocale mk) && nestFreeL (held || usesLocale mk) inner
def nestFreeL (held : Bool) : List Ev → Bool
  | [] => true
  | e :: es => nestFree held e && nestFreeL held es
end

/-- a flat evaluation (DESIGN.md's notion of a history element): nothing nested in the body -/
def Ev.flat : Ev → Bool
  | .call _ inner _ => inner.isEmpty

/-! ## `fn:environment-variable`, `fn:available-environment-variables` (XPath 3.0+) -/

/-- `evaluate__environment_variable` (_xpath30_functions.py 1343-1357): `[]` unless the dynamic
context was created with `allow_environment=True`; then `os.environ.get(name)` -/
def envVar (allow : Bool) (σ : State) (name : String) : Option String :=
  if !allow then none else (σ.env.find? (·.1 == name)).map (·.2)

/-- `evaluate__available_env_vars` (1360-1373) -/
def availEnvVars (allow : Bool) (σ : State) : List String :=
  if !allow then [] else σ.env.map (·.1)

/-! ## `fn:parse-xml`, `fn:parse-xml-fragment`: the entity gate

The XML text is modelled at the level of the events expat reports (tokenisation is trusted):
an optional XML declaration, comments / PIs, an optional DOCTYPE with its internal subset, then
the root element whose content is text, predefined / character references and general entity
references. -/

/-- markup declarations of the internal DTD subset -/
inductive Decl where
  | entity (name value : String)       -- `<!ENTITY name "value">`  (EntityDeclHandler)
  | paramEntity (name : String)        -- `<!ENTITY % name "..">`   (EntityDeclHandler)
  | extEntity (name : String)          -- `<!ENTITY name SYSTEM "..">` (EntityDeclHandler)
  | unparsed (name : String)           -- `<!ENTITY name SYSTEM ".." NDATA n>` (UnparsedEntityDecl)
  | element | attlist | notation | comment | pi
  deriving DecidableEq, Repr, Inhabited

/-- content items of the root element -/
inductive Item where
  | text (s : String)
  | predef (s : String)                -- `&lt;` `&amp;` `&#65;` ... : the character it stands for
  | ref (name : String)                -- `&name;`
  deriving DecidableEq, Repr, Inhabited

structure Doc where
  xmlDecl : Bool                       -- `<?xml version="1.0" encoding="utf-8"?>` first
  leading : Nat                        -- number of comments / PIs before the DOCTYPE
  doctype : Option (Bool × List Decl)  -- (has an external id `SYSTEM ".."`, internal subset)
  content : List Item
  deriving DecidableEq, Repr, Inhabited

inductive XErr where
  | forbidden                          -- `XMLResourceForbidden` raised by `SafeExpatParser`
  | FODC0006
  deriving DecidableEq, Repr, Inhabited

/-- the handlers installed by `SafeExpatParser.reset` (etree.py 32-52): which declarations make
the scan raise `XMLResourceForbidden` -/
def Decl.forbiddenDecl : Decl → Bool
  | .entity .. | .paramEntity .. | .extEntity .. | .unparsed .. => true
  | _ => false

/-- `defuse_xml` (etree.py 55-72): pull events up to the first start tag through
`SafeExpatParser`; any entity declaration, or an external DTD subset
(`forbid_external_entity_reference`), raises -/
def defuse (d : Doc) : Except XErr Unit :=
  match d.doctype with
  | none => .ok ()
  | some (ext, decls) =>
    if decls.any Decl.forbiddenDecl || ext then .error .forbidden else .ok ()

/-- the replacement text of `&n;` if this declaration is the internal general entity `n` -/
def entityValue (n : String) : Decl → Option String
  | .entity m v => if m == n then some v else none
  | _ => none

/-- what `etree.XML` (ElementTree's expat parser, which does not load external entities) makes
of the content: internal general entities are expanded, anything else undeclared is a
well-formedness error (`ParseError` → FODC0006) -/
def expand (decls : List Decl) : List Item → Except XErr String
  | [] => .ok ""
  | .text s :: r => (expand decls r).map (s ++ ·)
  | .predef s :: r => (expand decls r).map (s ++ ·)
  | .ref n :: r =>
    match decls.findSome? (entityValue n) with
    | some v => (expand decls r).map (v ++ ·)
    | none => .error .FODC0006

/-- `evaluate__parse_xml` (1377-1399): `defuse_xml` first when `parser.defuse_xml`; result =
string value of the parsed root -/
def parseXml (defuseFlag : Bool) (d : Doc) : Except XErr String := do
  if defuseFlag then defuse d
  expand (match d.doctype with | some (_, ds) => ds | none => []) d.content

/-- `evaluate__parse_xml_fragment` (1402-1456): after the optional XML declaration, text that
starts with `<!DOCTYPE` is refused outright; otherwise as `parse-xml` (the `<document>` wrapper
retry only matters for ill-formed fragments, which are outside the modelled documents) -/
def parseXmlFragment (defuseFlag : Bool) (d : Doc) : Except XErr String :=
  if d.doctype.isSome && d.leading == 0 then .error .FODC0006 else parseXml defuseFlag d

/-- does the document declare any entity? -/
def Doc.declaresEntity (d : Doc) : Bool :=
  match d.doctype with
  | some (_, decls) => decls.any Decl.forbiddenDecl
  | none => false

/-! ## Threads: small-step interleaving semantics of N flat evaluation programs -/

namespace Thr

/-- one flat evaluation of a thread's program: manager, number of `strcoll`/`strxfrm` calls the
body makes, whether the body then raises -/
structure Job where
  mgr : Mgr
  uses : Nat
  raises : Bool
  deriving DecidableEq, Repr, Inhabited

/-- program counter of a thread inside `with CollationManager(..): body` — each constructor is
the point *before* one Python-level operation on shared state -/
inductive Pc where
  | idle                                   -- between evaluations
  | acquire (req : Req) (fb : Bool)        -- about to call `_locale_collate_lock.acquire()`
  | query (req : Req) (fb : Bool)          -- holds the lock; about to read the current name
  | setReq (req : Req) (fb : Bool) (saved : Loc)   -- about to `setlocale(lc_collate)`
  | setFb (saved : Loc)                    -- about to `setlocale('en_US.UTF-8')`
  | failRelease                            -- about to release on the FOCH0002 path
  | body (saved : Option Loc) (target : Option Loc) (left : Nat)  -- inside the body
  | restore (saved : Loc)                  -- `__exit__`: about to `setlocale(saved)`
  | release                                -- `__exit__`: about to release
  deriving DecidableEq, Repr, Inhabited

/-- a thread: its program counter, the job being run, the jobs still to run, and two ghost
logs: `seen` — for every `strcoll` made inside a locale scope, the pair (locale the scope
installed, `LC_COLLATE` at that moment); `outs` — the outcome of every finished evaluation -/
structure Thread where
  pc : Pc
  cur : Job
  todo : List Job
  seen : List (Loc × Loc)
  outs : List Out
  prog : List Job        -- ghost: the whole program this thread was started with (never written)
  deriving DecidableEq, Repr, Inhabited

/-- what the body of a flat job returns to its caller -/
def Job.bodyOut (j : Job) : Out := if j.raises then .err (.body 0) else .ok

/-- the outcome of a flat job as a function of the job and the installed locales only (what a
sequential run gives; `evalEv_flat_expected` in EPV/Lemmas/GlobalsThreads.lean) -/
def Job.expected (w : World) (j : Job) : Out :=
  match j.mgr.lc with
  | none => j.bodyOut
  | some req =>
    if w.avail (w.norm req) || (j.mgr.fallback && w.avail enUS) then j.bodyOut
    else .err .FOCH0002

/-- shared state of the interleaving semantics -/
structure Shared where
  lock : Bool
  lc : Loc
  deriving DecidableEq, Repr, Inhabited

/-- does the thread hold `_locale_collate_lock` at this program point? -/
def Pc.holds : Pc → Bool
  | .idle | .acquire .. => false
  | .body saved _ _ => saved.isSome
  | _ => true

/-- One atomic step of one thread; `none` = the thread is not enabled (finished, or blocked in
`acquire` because the lock is held). -/
def step (w : World) (s : Shared) (t : Thread) : Option (Shared × Thread) :=
  match t.pc with
  | .idle =>
    match t.todo with
    | [] => none
    | j :: js =>
      match j.mgr.lc with
      | none => some (s, { t with pc := .body none none j.uses, cur := j, todo := js })
      | some req => some (s, { t with pc := .acquire req j.mgr.fallback, cur := j, todo := js })
  | .acquire req fb =>
    if s.lock then none else some ({ s with lock := true }, { t with pc := .query req fb })
  | .query req fb => some (s, { t with pc := .setReq req fb s.lc })
  | .setReq req fb saved =>
    if w.avail (w.norm req) then
      some ({ s with lc := w.norm req },
            { t with pc := .body (some saved) (some (w.norm req)) t.cur.uses })
    else if fb then some (s, { t with pc := .setFb saved })
    else some (s, { t with pc := .failRelease })
  | .setFb saved =>
    if w.avail enUS then
      some ({ s with lc := enUS }, { t with pc := .body (some saved) (some enUS) t.cur.uses })
    else some (s, { t with pc := .failRelease })
  | .failRelease =>
    some ({ s with lock := false }, { t with pc := .idle, outs := t.outs ++ [.err .FOCH0002] })
  | .body saved target (n + 1) =>
    some (s, { t with pc := .body saved target n,
                      seen := match target with
                        | some tg => t.seen ++ [(tg, s.lc)]
                        | none => t.seen })
  | .body saved _ 0 =>
    let out : Out := t.cur.bodyOut
    match saved with
    | none => some (s, { t with pc := .idle, outs := t.outs ++ [out] })
    | some sv => some (s, { t with pc := .restore sv, outs := t.outs ++ [out] })
  | .restore sv =>
    if w.avail sv then some ({ s with lc := sv }, { t with pc := .release })
    else some (s, { t with pc := .idle, outs := t.outs.dropLast ++ [.err .localeError] })
  | .release => some ({ s with lock := false }, { t with pc := .idle })

/-- a thread that has not started: `jobs` to run -/
def Thread.init (jobs : List Job) : Thread := ⟨.idle, default, jobs, [], [], jobs⟩

/-- finished = idle with nothing left -/
def Thread.done (t : Thread) : Bool := t.pc == .idle && t.todo.isEmpty

/-- configuration of the N-thread system -/
structure Config where
  sh : Shared
  ts : List Thread
  deriving Repr

/-- `Step w c c'`: some thread takes one atomic step (any thread, any time: every interleaving) -/
inductive Step (w : World) : Config → Config → Prop where
  | mk (s s' : Shared) (pre post : List Thread) (t t' : Thread)
      (h : step w s t = some (s', t')) :
      Step w ⟨s, pre ++ t :: post⟩ ⟨s', pre ++ t' :: post⟩

/-- reflexive-transitive closure: all schedules, any length -/
inductive Reach (w : World) : Config → Config → Prop where
  | refl (c : Config) : Reach w c c
  | tail {a b c : Config} : Reach w a b → Step w b c → Reach w a c

/-- run a given schedule (list of thread indices; disabled picks are skipped) — executable, for
the driver -/
def runSched (w : World) : List Nat → Config → Config
  | [], c => c
  | i :: is, c =>
    match c.ts[i]? with
    | none => runSched w is c
    | some t =>
      match step w c.sh t with
      | none => runSched w is c
      | some (s', t') => runSched w is ⟨s', c.ts.set i t'⟩

end Thr

end EPV.Globals

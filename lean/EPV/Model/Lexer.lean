/-
Model of `elementpath/tdop.py :: Parser.advance` (lines 504-571, with the `fix:` commit that guards
`int(literal)`) — C03 part (b): every lexical branch yields a registered token class or a coded
syntax error.  Core Lean only.

The tokenizer is the compiled regular expression built by `Parser.create_tokenizer`
(tdop.py:871-876):   `(literal)|(symbol)|(name)|(\S)|\s+`   — four capturing groups and a fifth,
non-capturing whitespace alternative.  One match object is modelled by `Match`: the matched text
and the four groups.  What the `re` engine returns for a given source is NOT modelled (trusted,
exercised by the correspondence); the model starts from the list of match objects.
-/
import EPV.Model.ParserState
namespace EPV.Lexer
open EPV.PState

/-- what escapes from the lexer: a coded `ElementPathError` or any other Python exception -/
inductive Err where
  | coded (code : String)
  | other (pyClass : String)
  deriving DecidableEq, Repr

/-- a token instance: the class is identified by its lookup key (`symbol`); `label` is the class
attribute used by `XPathToken.wrong_syntax` to choose the error code -/
structure Tok where
  symbol : String
  label : String
  value : String
  deriving DecidableEq, Repr

/-- `m.group()` and `m.groups()` of one tokenizer match -/
structure Match where
  text : String
  lit : Option String
  sym : Option String
  name : Option String
  unk : Option String
  /-- `m.end()`: offset in the source just after the match (used by the comment scanner only) -/
  stop : Nat
  deriving DecidableEq, Repr

/-- the symbol table of a parser class: lookup key ↦ label of the registered token class
(generated from the live classes into `EPV/Gen/C03Tables.lean`) -/
abbrev Table := List (String × String)

def Table.label? (t : Table) (k : String) : Option String := (t.find? (·.1 == k)).map (·.2)
def Table.has (t : Table) (k : String) : Bool := (t.label? k).isSome

/-- `self.symbol_table[key](self, value)`: a `KeyError` if the class is not registered -/
def mk (t : Table) (key value : String) : Except Err Tok :=
  match t.label? key with
  | some l => .ok { symbol := key, label := l, value := value }
  | none => .error (.other "KeyError")

/-- the interpreter/regex facts the lexer relies on, kept abstract in the theorems -/
structure Oracles where
  nameLike : String → Bool      -- `self.name_pattern.match(symbol) is not None`
  floatOk : String → Bool       -- `float(literal)` does not raise ValueError
  decimalOk : String → Bool     -- `Decimal(literal)` does not raise DecimalException
  intOk : String → Bool         -- `int(literal)` does not raise ValueError

/-- `XPathToken.wrong_syntax` without explicit code (xpath_tokens/base.py:935-944) -/
def wrongSyntaxCode (t : Tok) : String := if t.label == "function" then "XPST0017" else "XPST0003"

/-- `Py_UNICODE_ISSPACE`: the characters for which `str.isspace()` holds and which `\s` matches in a
`str` pattern (bidirectional class WS, B or S, or general category Zs) -/
def pyIsSpaceChar (c : Char) : Bool :=
  let n := c.toNat
  (0x09 ≤ n && n ≤ 0x0D) || (0x1C ≤ n && n ≤ 0x20) || n == 0x85 || n == 0xA0 || n == 0x1680 ||
  (0x2000 ≤ n && n ≤ 0x200A) || n == 0x2028 || n == 0x2029 || n == 0x202F || n == 0x205F || n == 0x3000

/-- `str.isspace()` on the matched text -/
def isSpace (m : Match) : Bool := !m.text.isEmpty && m.text.toList.all pyIsSpaceChar

def isQuote (c : Char) : Bool := c == '\'' || c == '"'

/-- `Parser.unescape` (tdop.py:661-663) is overridden by the XPath parsers; the value is not part of
the property, the model keeps the raw literal -/
def litValue (l : String) : String := l

/-- result of the classification part of `advance` (tdop.py:530-569): the token assigned to
`self.next_token` (if an assignment happened) and the exception raised (if any) -/
structure Cls where
  tok : Option Tok
  err : Option Err
  deriving DecidableEq, Repr

def Cls.ofMk : Except Err Tok → Cls
  | .ok t => ⟨some t, none⟩
  | .error e => ⟨none, some e⟩

/-- build the `(invalid)` / `(unknown)` token, assign it, raise its `wrong_syntax()` -/
def Cls.raiseOn : Except Err Tok → Cls
  | .ok t => ⟨some t, some (.coded (wrongSyntaxCode t))⟩
  | .error e => ⟨none, some e⟩

/-- tdop.py:530-569 -/
def classify (tb : Table) (o : Oracles) (m : Match) : Cls :=
  match m.lit, m.sym, m.name, m.unk with
  | _, some s, _, _ =>                                           -- `if symbol is not None:`
    if tb.has s then .ofMk (mk tb s s)
    else if o.nameLike s then .ofMk (mk tb "(name)" s)
    else .raiseOn (mk tb "(unknown)" s)
  | some l, none, _, _ =>                                        -- `elif literal is not None:`
    match l.toList with
    | [] => ⟨none, some (.other "IndexError")⟩                   -- `literal[0]`
    | c0 :: _ =>
      if isQuote c0 then .ofMk (mk tb "(string)" (litValue l))
      else if l.toList.contains 'e' || l.toList.contains 'E' then
        if o.floatOk l then .ofMk (mk tb "(float)" l) else .raiseOn (mk tb "(invalid)" l)
      else if l.toList.contains '.' then
        if o.decimalOk l then .ofMk (mk tb "(decimal)" l) else .raiseOn (mk tb "(invalid)" l)
      else
        if o.intOk l then .ofMk (mk tb "(integer)" l) else .raiseOn (mk tb "(invalid)" l)
  | none, none, some n, _ => .ofMk (mk tb "(name)" n)            -- `elif name is not None:`
  | none, none, none, some u => .ofMk (mk tb "(unknown)" u)      -- `elif unknown is not None:`
  | none, none, none, none => ⟨none, some (.other "RuntimeError")⟩   -- "incompatible tokenizer"

/-- the pinned (unfixed) integer branch: `int(literal)` unguarded — a `ValueError` escapes when the
literal has more digits than `sys.get_int_max_str_digits()` -/
def classifyPinned (tb : Table) (o : Oracles) (m : Match) : Cls :=
  match m.lit, m.sym with
  | some l, none =>
    match l.toList with
    | c0 :: _ =>
      if !isQuote c0 && !(l.toList.contains 'e' || l.toList.contains 'E') && !l.toList.contains '.' && !o.intOk l then
        ⟨none, some (.other "ValueError")⟩
      else classify tb o m
    | [] => classify tb o m
  | _, _ => classify tb o m

/-- the `for self.next_match in self.tokens: if not …isspace(): break` loop (tdop.py:522-528):
(first non-space match if any, last value assigned to `next_match`, matches left in the iterator) -/
def nextNonSpace (nm : Option Match) : List Match → Option Match × Option Match × List Match
  | [] => (none, nm, [])
  | m :: rest => if isSpace m then nextNonSpace (some m) rest else (some m, some m, rest)

/-- `Parser.advance(*symbols)` (tdop.py:504-571) on the cursor -/
def advance (tb : Table) (o : Oracles) (symbols : List String) (c : Cursor Tok Match) :
    Except Err Unit × Cursor Tok Match :=
  if c.nextToken.symbol == "(end)" then (.error (.coded (wrongSyntaxCode c.nextToken)), c)
  else if !symbols.isEmpty && !symbols.contains c.nextToken.symbol then
    (.error (.coded (wrongSyntaxCode c.nextToken)), c)
  else
    let c1 := { c with token := c.nextToken }
    match nextNonSpace c1.nextMatch c1.tokens with
    | (none, nm, rest) =>                                         -- for-else: end of source
      match mk tb "(end)" "(end)" with
      | .ok t => (.ok (), { c1 with nextMatch := nm, tokens := rest, nextToken := t })
      | .error e => (.error e, { c1 with nextMatch := nm, tokens := rest })
    | (some m, nm, rest) =>
      let c2 := { c1 with nextMatch := nm, tokens := rest }
      let r := classify tb o m
      let c3 := match r.tok with
        | some t => { c2 with nextToken := t }
        | none => c2
      match r.err with
      | some e => (.error e, c3)
      | none => (.ok (), c3)

/-- lexing a whole source with the base `advance`: the symbols of the successive `next_token`s up to
`(end)` or the first error, the error, and the symbol of `next_token` when lexing stopped
(`fuel` ≥ number of matches + 1 suffices, see `EPV.C03.advance_consumes`) -/
def lexAll (tb : Table) (o : Oracles) : Nat → Cursor Tok Match → List String × Option Err × String
  | 0, c => ([], some (.other "fuel"), c.nextToken.symbol)
  | fuel + 1, c =>
    match advance tb o [] c with
    | (.error e, c') => ([], some e, c'.nextToken.symbol)
    | (.ok (), c') =>
      if c'.nextToken.symbol == "(end)" then (["(end)"], none, "(end)")
      else
        let (l, e, last) := lexAll tb o fuel c'
        (c'.nextToken.symbol :: l, e, last)

/-- the eight special lookup keys `advance` instantiates -/
def specialKeys : List String :=
  ["(string)", "(float)", "(decimal)", "(integer)", "(name)", "(unknown)", "(invalid)", "(end)"]

/-- decidable well-formedness of a symbol table with respect to `advance`: the special classes are
registered and `(unknown)`, `(invalid)`, `(end)` are not labelled `function` (so their
`wrong_syntax()` carries XPST0003) -/
def SpecialsOK (tb : Table) : Bool :=
  specialKeys.all tb.has &&
  ["(unknown)", "(invalid)", "(end)"].all fun k => tb.label? k != some "function"

/-- a match object that the 5-alternative pattern can produce: exactly one capturing group took
part (and it is the whole, non-empty match), or none did and the text is white space -/
def FromPattern (m : Match) : Bool :=
  match m.lit, m.sym, m.name, m.unk with
  | some l, none, none, none => l == m.text && !l.isEmpty
  | none, some s, none, none => s == m.text && !s.isEmpty
  | none, none, some n, none => n == m.text && !n.isEmpty
  | none, none, none, some u => u == m.text && !u.isEmpty
  | none, none, none, none => isSpace m
  | _, _, _, _ => false

/-- CPython 3.12 instance of the oracles used by the driver.  The literal pattern
`(?:\d+|\.\d+)(?:\.\d*)?(?:[Ee][+-]?\d+)?` also matches texts with two dots (`.1.`, `.1.5e3`), which
`float()`/`Decimal()` reject; `int()` rejects more than 4300 digits. -/
def pyOracles (nameLike : String → Bool) : Oracles :=
  let oneDot := fun (l : String) => decide ((l.toList.filter (· == '.')).length ≤ 1)
  { nameLike := nameLike, floatOk := oneDot, decimalOk := oneDot,
    intOk := fun l => l.length ≤ 4300 }


/-! ## `Parser.advance_until`, and the comment skipping of `XPath2Parser.advance` as it was BEFORE commit
1bbf01f (token-based; kept because `advance_until` is still used by the `Q{…}` literal and the theorems
about it remain true).  The live comment handling is `advance3` below. -/

/-- `str.strip()` -/
def pyStrip (s : String) : String :=
  String.ofList (((s.toList.dropWhile pyIsSpaceChar).reverse.dropWhile pyIsSpaceChar).reverse)

/-- the `while True:` loop of `Parser.advance_until` (tdop.py:590-610) over the pending matches;
the returned source chunk is not part of the property and is dropped -/
def untilLoop (tb : Table) (stops : List String) (c : Cursor Tok Match) :
    List Match → Except Err Unit × Cursor Tok Match
  | [] =>                                                          -- StopIteration
    match mk tb "(end)" "(end)" with
    | .ok t => (.ok (), { c with tokens := [], nextToken := t })
    | .error e => (.error e, { c with tokens := [] })
  | m :: rest =>
    let c1 := { c with nextMatch := some m, tokens := rest }
    match m.sym with
    | some s =>
      if stops.contains (pyStrip s) then
        match mk tb (pyStrip s) (pyStrip s) with
        | .ok t => (.ok (), { c1 with nextToken := t })
        | .error _ =>                                              -- except KeyError
          match mk tb "(unknown)" "(unknown)" with
          | .ok t => (.error (.coded (wrongSyntaxCode t)), { c1 with nextToken := t })
          | .error e => (.error e, c1)
      else untilLoop tb stops c1 rest
    | none => untilLoop tb stops c1 rest

/-- `Parser.advance_until(*stop_symbols)` (tdop.py:573-611) -/
def advanceUntil (tb : Table) (stops : List String) (c : Cursor Tok Match) :
    Except Err Unit × Cursor Tok Match :=
  if stops.isEmpty then (.error (.coded "FORG0006"), c)            -- `wrong_type(...)`
  else if c.nextToken.symbol == "(end)" then (.error (.coded (wrongSyntaxCode c.nextToken)), c)
  else untilLoop tb stops { c with token := c.nextToken } c.tokens

/-- the `while comment_level:` loop of `XPath2Parser.advance` (xpath2_parser.py:231-236) -/
def commentLoop (tb : Table) : Nat → Nat → Cursor Tok Match → Except Err Unit × Cursor Tok Match
  | _, 0, c => (.ok (), c)
  | 0, _ + 1, c => (.error (.other "fuel"), c)
  | fuel + 1, level + 1, c =>
    match advanceUntil tb ["(:", ":)"] c with
    | (.error e, c') => (.error e, c')
    | (.ok (), c') =>
      if c'.nextToken.symbol == ":)" then commentLoop tb fuel level c'
      else commentLoop tb fuel (level + 2) c'

/-- `XPath2Parser.advance` (xpath2_parser.py:220-243): the base `advance`, then — if the look-ahead
is `(:` — the (nested) comment is consumed and `advance(':)')` is called recursively.  The fuel of
the comment loop is computed from the cursor; `EPV.C03.advance2_total` shows that neither fuel can
run out, i.e. the Python loops terminate. -/
def advance2 (tb : Table) (o : Oracles) : Nat → List String → Cursor Tok Match →
    Except Err Unit × Cursor Tok Match
  | 0, _, c => (.error (.other "fuel"), c)
  | fuel + 1, symbols, c =>
    match advance tb o symbols c with
    | (.error e, c1) => (.error e, c1)
    | (.ok (), c1) =>
      if c1.nextToken.symbol != "(:" then (.ok (), c1)
      else if c1.token.symbol == ":" then (.error (.coded (wrongSyntaxCode c1.token)), c1)  -- unexpected(':')
      else
        match commentLoop tb (c1.tokens.length + 2) 1 c1 with
        | (.error e, c2) => (.error e, c2)
        | (.ok (), c2) =>
          match advance2 tb o fuel [":)"] c2 with
          | (.error e, c3) => (.error e, c3)
          | (.ok (), c3) =>
            if c3.nextToken.symbol == ":" then (.error (.coded (wrongSyntaxCode c3.nextToken)), c3)
            else (.ok (), { c3 with token := c1.token })

/-- lexing a whole source with `XPath2Parser.advance` -/
def lexAll2 (tb : Table) (o : Oracles) : Nat → Cursor Tok Match → List String × Option Err × String
  | 0, c => ([], some (.other "fuel"), c.nextToken.symbol)
  | fuel + 1, c =>
    match advance2 tb o (c.tokens.length + 1) [] c with
    | (.error e, c') => ([], some e, c'.nextToken.symbol)
    | (.ok (), c') =>
      if c'.nextToken.symbol == "(end)" then (["(end)"], none, "(end)")
      else
        let (l, e, last) := lexAll2 tb o fuel c'
        (c'.nextToken.symbol :: l, e, last)


/-! ## the live `XPath2Parser.advance` (since commit 1bbf01f): the comment body is scanned on the RAW SOURCE -/

/-- `str.find(a + b, pos)` on the suffix `l` of the source that starts at offset `i` -/
def find2 (a b : Char) : List Char → Nat → Option Nat
  | x :: y :: rest, i => if x == a && y == b then some i else find2 a b (y :: rest) (i + 1)
  | _, _ => none

/-- the `while comment_level:` loop (xpath2_parser.py): `none` = out of fuel (never, see
`EPV.C03.comment_scan_terminates`), `some none` = no closing `:)` (XPST0003), `some (some p)` = offset just
after the `:)` that closes the outermost comment -/
def commentScan (src : List Char) : Nat → Nat → Nat → Option (Option Nat)
  | _, 0, pos => some (some pos)
  | 0, _ + 1, _ => none
  | fuel + 1, level + 1, pos =>
    match find2 ':' ')' (src.drop pos) pos with
    | none => some none                                         -- `if end < 0:`
    | some e =>
      match find2 '(' ':' (src.drop pos) pos with
      | some s => if s < e then commentScan src fuel (level + 2) (s + 2)     -- `elif 0 <= start < end:`
                  else commentScan src fuel level (e + 2)
      | none => commentScan src fuel level (e + 2)

/-- the `while self.next_token.symbol == '(:'` loop.  `tokFrom p` = `tokenizer.finditer(source, p)` (the
`re` engine: an oracle, constrained in the theorems only by: matches lie after `p` inside the source and
come from the 5-alternative pattern). -/
def commentSkip (tb : Table) (o : Oracles) (src : List Char) (tokFrom : Nat → List Match) :
    Nat → Cursor Tok Match → Except Err Unit × Cursor Tok Match
  | 0, c => (.error (.other "fuel"), c)
  | fuel + 1, c =>
    if c.nextToken.symbol != "(:" then (.ok (), c)
    else if c.token.symbol == ":" then (.error (.coded (wrongSyntaxCode c.token)), c)      -- `self.token.unexpected(':')`
    else
      match c.nextMatch with
      | none => (.error (.other "AssertionError"), c)                                      -- `assert self.next_match is not None`
      | some m =>
        match commentScan src (src.length + 1) 1 m.stop with
        | none => (.error (.other "fuel"), c)
        | some none =>                                                                      -- unterminated comment
          match mk tb "(end)" "(end)" with
          | .ok t => (.error (.coded (wrongSyntaxCode t)), { c with tokens := [], nextToken := t })
          | .error e => (.error e, { c with tokens := [] })
        | some (some p) =>
          let c2 := { c with tokens := tokFrom p, nextToken := c.token }
          match advance tb o [] c2 with
          | (.error e, c3) => (.error e, c3)
          | (.ok (), c3) =>
            if c3.nextToken.symbol == ":" then (.error (.coded (wrongSyntaxCode c3.nextToken)), c3)
            else commentSkip tb o src tokFrom fuel c3

/-- `XPath2Parser.advance(*symbols)`: the base `advance`, then the comment loop -/
def advance3 (tb : Table) (o : Oracles) (src : List Char) (tokFrom : Nat → List Match)
    (symbols : List String) (c : Cursor Tok Match) : Except Err Unit × Cursor Tok Match :=
  match advance tb o symbols c with
  | (.error e, c1) => (.error e, c1)
  | (.ok (), c1) => commentSkip tb o src tokFrom (src.length + 2) c1

/-- lexing a whole source with the live `XPath2Parser.advance` -/
def lexAll3 (tb : Table) (o : Oracles) (src : List Char) (tokFrom : Nat → List Match) :
    Nat → Cursor Tok Match → List String × Option Err × String
  | 0, c => ([], some (.other "fuel"), c.nextToken.symbol)
  | fuel + 1, c =>
    match advance3 tb o src tokFrom [] c with
    | (.error e, c') => ([], some e, c'.nextToken.symbol)
    | (.ok (), c') =>
      if c'.nextToken.symbol == "(end)" then (["(end)"], none, "(end)")
      else
        let (l, e, last) := lexAll3 tb o src tokFrom fuel c'
        (c'.nextToken.symbol :: l, e, last)

end EPV.Lexer

/-
C01 — the generator discipline of the context iterators (`xpath_context.py:384-593` and the namespace
axis of `_xpath1_axes.py:53-72`): every iterator is a Python generator that *mutates* the dynamic
context (`context.item`, `context.axis`) around its `yield`s and writes a saved `status` back after
the loop.  Here each iterator is transcribed as the sequence of its state-changing statements
(`Instr`), in statement order; `exec` runs it on a context state and returns what the consumer sees
at every `yield` (value and context state) and the state after normal exhaustion; `closeAfter k` is
the state when the consumer abandons the generator after the k-th yield (Python closes a generator at
its `yield`; since fix 8377c57 every iterator restores in a `finally:` clause, which runs then too).
`EPV/Lemmas/AxesState.lean` proves: the yielded values are `iterAxis`; every iterator restores
(item, axis) on exhaustion and on early close; at every yield of an axis method `axis` is the axis
name and `item` is the yielded node (the helper `iter_children_or_self` alone does not move the item
for the dummy document; `select__child_axis` does); the test-on-the-state step semantics is `evalStep`.
-/
import EPV.Model.Paths
namespace EPV.XP

/-- `context.item`, `context.axis` -/
structure Ctx where
  item : Nat
  axis : Option Axis
  deriving DecidableEq, Repr, Inhabited

inductive Instr where
  | setAxis (ax : Option Axis)      -- `self.axis = '…'`
  | setItem (n : Nat)               -- `self.item = …` / `for self.item in …`
  | yield (v : Nat)
  | restore (c : Ctx)               -- `self.item, self.axis = status`
  | restoreAxis (ax : Option Axis)  -- `self.axis = status`
  deriving Repr

/-- run to exhaustion: (value, state seen by the consumer at that yield)*, final state -/
def exec : List Instr → Ctx → List (Nat × Ctx) × Ctx
  | [], c => ([], c)
  | .setAxis ax :: is, c => exec is { c with axis := ax }
  | .setItem n :: is, c => exec is { c with item := n }
  | .yield v :: is, c => let r := exec is c; ((v, c) :: r.1, r.2)
  | .restore s :: is, _ => exec is s
  | .restoreAxis ax :: is, c => exec is { c with axis := ax }

/-- the `finally:` clause of a helper generator: its trailing restore statement (since fix 8377c57 every
context iterator restores in a `finally`, so the restore also runs when the consumer closes the
generator early or an exception passes through) -/
def finalizer (prog : List Instr) : List Instr :=
  match prog.getLast? with
  | some (.restore s) => [.restore s]
  | some (.restoreAxis ax) => [.restoreAxis ax]
  | some (.setItem n) => [.setItem n]        -- namespace axis: `finally: context.item = elem`
  | _ => []

/-- the state left behind when the generator is closed right after its k-th yield (k ≥ 1): the state at
that yield, then the `finally` clause; `none` if it yields fewer than k values -/
def closeAfter (k : Nat) (prog : List Instr) (c : Ctx) : Option Ctx :=
  ((exec prog c).1[k - 1]?).map fun yc => (exec (finalizer prog) yc.2).2

/-- `for self.item in xs: yield self.item` -/
def loopItems (xs : List Nat) : List Instr := xs.flatMap fun x => [.setItem x, .yield x]

/-- the iterator behind each axis, as its statement sequence for the context state `c`
(`c.item` = context item on entry).  `descAxis` is the `axis` argument of `iter_descendants`
(`None` for the `//` operator). -/
def prog (m : Mode) (a : Arr) (ax : Axis) (c : Ctx) : List Instr :=
  let n := c.item
  match ax with
  | .self =>                                   -- iter_self: saves the axis only
    [.setAxis (some .self), .yield n, .restoreAxis c.axis]
  | .attribute =>                              -- iter_attributes
    if kd a n == .attr then [.setAxis (some .attribute), .yield n, .restoreAxis c.axis]
    else if kd a n == .elem then
      [.setAxis (some .attribute)] ++ loopItems (attrsOf a n) ++ [.restore c]
    else []
  | .child =>                                  -- iter_children_or_self
    if c.axis.isSome then [.yield n]           -- "axis already set": the item itself, no state change
    else if isED a n then
      [.setAxis (some .child)] ++
        (if isDummyDoc m n then [.yield (rootIdx m)]   -- yields self.root, self.item is NOT moved
         else loopItems (childrenOf a n)) ++ [.restore c]
    else []
  | .parent =>                                 -- iter_parent
    if hasDoc m || n != rootIdx m then
      match par a n with
      | some p => [.setAxis (some .parent), .setItem p, .yield p, .restore c]
      | none => []
    else []
  | .followingSibling =>                       -- iter_siblings (after the three guards)
    if (hasDoc m || n != rootIdx m) && (par a n).isSome && !isAN a n then
      [.setAxis (some .followingSibling)] ++ loopItems (iterFollowingSiblings m a n) ++ [.restore c]
    else []
  | .precedingSibling =>
    if (hasDoc m || n != rootIdx m) && (par a n).isSome && !isAN a n then
      [.setAxis (some .precedingSibling)] ++ loopItems (iterPrecedingSiblings m a n) ++ [.restore c]
    else []
  | .descendant =>                             -- iter_descendants('descendant')
    if isED a n then
      [.setAxis (some .descendant)] ++ loopItems (iterDescendants m a false n) ++ [.restore c]
    else []
  | .descendantOrSelf =>                       -- iter_descendants('descendant-or-self')
    if isED a n then
      [.setAxis (some .descendantOrSelf)] ++ loopItems (iterDescendants m a true n) ++ [.restore c]
    else [.setAxis (some .descendantOrSelf), .yield n, .restoreAxis c.axis]   -- swap, yield, swap back
  | .ancestor =>                               -- iter_ancestors: status saved before the guard
    [.setAxis (some .ancestor)] ++ loopItems (iterAncestors m a false n) ++ [.restore c]
  | .ancestorOrSelf =>
    [.setAxis (some .ancestorOrSelf)] ++ loopItems (iterAncestors m a true n) ++ [.restore c]
  | .preceding =>                              -- iter_preceding (the loop variable also visits the
    if (hasDoc m || n != rootIdx m) && (par a n).isSome then     --  nodes it does not yield)
      [.setAxis (some .preceding)] ++ loopItems (iterPreceding m a n) ++ [.restore c]
    else []
  | .following =>                              -- iter_followings
    if isAN a n || kd a n == .doc then []
    else [.setAxis (some .following)] ++ loopItems (iterFollowings m a n) ++ [.restore c]
  | .namespace =>                              -- select__namespace_axis: `context.item = item; yield item`,
    loopItems (iterNamespaces a n) ++ [.setItem n]   --   `finally: context.item = elem`; no axis

/-- what the helper generator behind an axis yields: `iterAxis`, except for the two helpers pinned by
the suite, whose axis methods treat attribute / namespace context nodes themselves -/
def helperAxis (m : Mode) (a : Arr) : Axis → Nat → List Nat
  | .following, n => iterFollowings m a n
  | .attribute, n => iterAttributes a n
  | ax, n => iterAxis m a ax n

/-- the axis METHODS `select__*_axis` of `_xpath1_axes.py` as statement sequences: the helper generator,
except
  * `attribute::` / `@` return at once for an attribute context node (fix F01c)
  * `following::` from an attribute / namespace node: `context.axis = 'following'`, loop over the owner's
    descendants, `context.item = owner`, `iter_followings()`, restore (fix F01b)
  * `child::` from the dummy document with `context.axis is None`: item := root element, axis := 'child',
    the test, then item := document, axis := None (fix F01i) -/
def axisProg (m : Mode) (a : Arr) (ax : Axis) (c : Ctx) : List Instr :=
  match ax with
  | .attribute => if kd a c.item == .attr then [] else prog m a .attribute c
  | .following =>
    if isAN a c.item then
      match par a c.item with
      | some p =>
        [.setAxis (some .following)] ++ loopItems (descRange a p) ++
          ([.setItem p] ++ prog m a .following ⟨p, some .following⟩ ++ [.restore c])
      | none => [.restore c]
    else prog m a .following c
  | .child =>
    if c.axis.isNone && isDummyDoc m c.item then
      [.setItem (rootIdx m), .setAxis (some .child), .yield (rootIdx m), .setItem c.item, .setAxis none]
    else prog m a .child c
  | ax => prog m a ax c

/-- `iter_descendants()` as called by `//` (axis argument `None`) -/
def progDslash (m : Mode) (a : Arr) (c : Ctx) : List Instr :=
  if isED a c.item then
    [.setAxis none] ++ loopItems (iterDescendants m a true c.item) ++ [.restore c]
  else [.setAxis none, .yield c.item, .restoreAxis c.axis]

/-- `XPathContext.__copy__` (xpath_context.py:193-204): same item / position / size, `axis = None` -/
def copyCtx (c : Ctx) : Ctx := ⟨c.item, none⟩

/-- Context state in which the k-th operand of `and` / `or` (and a predicate expression, a union
operand) starts: `self[k].select(copy(context))` — a fresh copy of the operator's own context, whatever
state the evaluation of the previous operand left behind (`boolean_value` stops at the first node, i.e.
abandons the operand's generator: `closeAfter`). -/
def operandStart (c : Ctx) (_leftBehindByPreviousOperand : Ctx) : Ctx := copyCtx c

/-- the seeded variant "one shared copy for both operands": the second operand starts where the first
one's generator was abandoned -/
def operandStartShared (_c : Ctx) (leftBehindByPreviousOperand : Ctx) : Ctx := leftBehindByPreviousOperand

/-- what a node test does when the axis method calls `self[0].select(context)` at a yield:
`iter_matching_nodes` / `iter_children_or_self` with `context.axis` set test **`context.item`**
(not the yielded value) against the principal node kind derived from `context.axis`. -/
def testAtYield (m : Mode) (a : Arr) (t : Test) (c : Ctx) : List Nat :=
  match c.axis with
  | some ax => if matchTest m a (principal ax) t c.item then [c.item] else []
  | none => []

/-- an explicit step `axis::test` as the code runs it: the axis generator, and at each yield the
test on the context *state*.  (The namespace axis tests its nodes itself, by prefix.) -/
def evalStepState (m : Mode) (a : Arr) (ax : Axis) (t : Test) (c : Ctx) : List Nat :=
  if ax == .namespace then
    ((exec (axisProg m a ax c) c).1.map (·.1)).filter (matchTest m a .ns t)
  else (exec (axisProg m a ax c) c).1.flatMap fun yc => testAtYield m a t yc.2

/-- an abbreviated step (`x`, `*`, `node()` …, no axis token): the test's own `select` loops over
`iter_children_or_self()` / `iter_matching_nodes` with `context.axis is None` and tests the
*yielded values* -/
def evalAbbrevState (m : Mode) (a : Arr) (t : Test) (c : Ctx) : List Nat :=
  ((exec (prog m a .child c) c).1.map (·.1)).filter (matchTest m a .elem t)

end EPV.XP

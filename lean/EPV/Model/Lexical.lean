/-
C10 — executable model of the lexical layer of elementpath's atomic datatypes.
Core Lean only.  Every definition names the Python it transcribes (paths relative to /repo/elementpath,
tree = pinned snapshot + the `fix:` commits of branch fix-c10, see docs/C10.md).

Strings are `List Char`.  Python `re` semantics that the transcription relies on (trusted, tied by the
correspondence check): the patterns used here are deterministic under left-to-right scanning, `$`
matches at the end *or before one trailing '\n'*, `[0-9]` is ASCII only.
-/
namespace EPV.Lex

abbrev Str := List Char

/-! ## whitespace -/

/-- the code points matched by `Patterns.whitespaces = re.compile(r'[^\S\xa0]+')` (helpers.py:120):
Python's Unicode `\s` minus U+00A0.  The live regex is enumerated by the translator into
`EPV.Gen.C10.whitespaceCPs`; `EPV.C10.whitespace_table` proves the two lists equal. -/
def pyWhiteCPs : List Nat :=
  [9, 10, 11, 12, 13, 28, 29, 30, 31, 32, 133, 5760, 8192, 8193, 8194, 8195, 8196, 8197, 8198, 8199,
   8200, 8201, 8202, 8232, 8233, 8239, 8287, 12288]

def isPyWhite (c : Char) : Bool := pyWhiteCPs.contains c.toNat

/-- `Patterns.whitespaces.sub(' ', s)`: every maximal run of white characters becomes one space
(`prev` = the previous character was white, i.e. we are inside a run already replaced). -/
def subWhite (prev : Bool) : Str → Str
  | [] => []
  | c :: cs =>
    if isPyWhite c then (if prev then subWhite true cs else ' ' :: subWhite true cs)
    else c :: subWhite false cs

/-- `str.strip(' ')` -/
def stripSp (s : Str) : Str :=
  ((s.dropWhile (· == ' ')).reverse.dropWhile (· == ' ')).reverse

/-- helpers.py:153 `collapse_white_spaces(s) = Patterns.whitespaces.sub(' ', s).strip(' ')` -/
def collapse (s : Str) : Str := stripSp (subWhite false s)

/-! ## scanners mirroring the `LazyPattern`s -/

def isDigit (c : Char) : Bool := c.isDigit

/-- `[+-]?` / `[\-+]?` -/
def optSign : Str → Str
  | '+' :: r => r
  | '-' :: r => r
  | s => s

/-- Python `$`: end of string, or just before a final newline -/
def atEnd : Str → Bool
  | [] => true
  | ['\n'] => true
  | _ => false

/-- `[0-9]+$` -/
def digits1End (s : Str) : Bool :=
  let r := s.dropWhile isDigit
  decide (r.length < s.length) && atEnd r

/-- `[0-9]*$` -/
def digits0End (s : Str) : Bool := atEnd (s.dropWhile isDigit)

/-- numeric.py:177 `Integer.pattern = ^[\-+]?[0-9]+$` -/
def matchInteger (s : Str) : Bool := digits1End (optSign s)

/-- `(?:[0-9]+(?:\.[0-9]*)?|\.[0-9]+)` followed by the continuation `k` (the rest of the pattern) -/
def scanDecBody (k : Str → Bool) (s : Str) : Bool :=
  let r := s.dropWhile isDigit
  if r.length < s.length then
    -- `[0-9]+` matched (greedy); optional `\.[0-9]*`
    match r with
    | c :: f => if c == '.' then k (f.dropWhile isDigit) else k r
    | [] => k r
  else
    match s with
    | c :: f =>
      if c == '.' then
        let r2 := f.dropWhile isDigit
        decide (r2.length < f.length) && k r2
      else false
    | [] => false

/-- proxies.py:79 `DecimalProxy.pattern = ^[+-]?(?:[0-9]+(?:\.[0-9]*)?|\.[0-9]+)$` -/
def matchDecimal (s : Str) : Bool := scanDecBody atEnd (optSign s)

/-- `(?:[Ee][+-]?[0-9]+)?$` -/
def scanExpEnd : Str → Bool
  | 'e' :: r => digits1End (optSign r)
  | 'E' :: r => digits1End (optSign r)
  | r => atEnd r

/-- `[+-]?INF|NaN` then `$` -/
def matchInfNaN (s : Str) : Bool :=
  match s with
  | 'N' :: 'a' :: 'N' :: r => atEnd r
  | _ =>
    match optSign s with
    | 'I' :: 'N' :: 'F' :: r => atEnd r
    | _ => false

/-- helpers.py (fix-c10) `Patterns.numeric_literal = ^[+-]?(?:[0-9]+(?:\.[0-9]*)?|\.[0-9]+)(?:[Ee][+-]?[0-9]+)?$` -/
def matchNumericLiteral (s : Str) : Bool := scanDecBody scanExpEnd (optSign s)

/-- proxies.py:124 / numeric.py:27 `DoubleProxy.pattern`, `Float.pattern` (after the F10a fix both are)
`^(?:[+-]?(?:[0-9]+(?:\.[0-9]*)?|\.[0-9]+)(?:[Ee][+-]?[0-9]+)?|[+-]?INF|NaN)$` -/
def matchDouble (s : Str) : Bool := matchNumericLiteral s || matchInfNaN s

/-- proxies.py:36 `BooleanProxy.pattern = ^(?:true|false|1|0)$` -/
def matchBoolean : Str → Bool
  | 't' :: 'r' :: 'u' :: 'e' :: r => atEnd r
  | 'f' :: 'a' :: 'l' :: 's' :: 'e' :: r => atEnd r
  | '1' :: r => atEnd r
  | '0' :: r => atEnd r
  | _ => false

def isHexDigit (c : Char) : Bool :=
  c.isDigit || ('a' ≤ c && c ≤ 'f') || ('A' ≤ c && c ≤ 'F')

/-- binary.py:180 `HexBinary.pattern = ^([0-9a-fA-F]{2})*$` -/
def matchHex : Str → Bool
  | a :: b :: r => if isHexDigit a && isHexDigit b then matchHex r else atEnd (a :: b :: r)
  | r => atEnd r

def isB64 (c : Char) : Bool :=
  c.isDigit || ('a' ≤ c && c ≤ 'z') || ('A' ≤ c && c ≤ 'Z') || c == '+' || c == '/'

def isB16 (c : Char) : Bool := "AEIMQUYcgkosw048".toList.contains c
def isB04 (c : Char) : Bool := "AQgw".toList.contains c

/-- binary.py:131 `Base64Binary.pattern` applied to a string without spaces, *full match required*
(`match.group(0) != value` is an error): `((B{4})*(B{3}B|B{2}[AEIMQUYcgkosw048]=|B[AQgw]==))?` -/
def matchB64 : Str → Bool
  | [] => true
  | [a, b, c, d] =>
    isB64 a && isB64 b &&
      ((isB64 c && isB64 d) || (isB16 c && d == '=') || (isB04 b && c == '=' && d == '='))
  | a :: b :: c :: d :: r => isB64 a && isB64 b && isB64 c && isB64 d && matchB64 r
  | _ => false

/-! ## values -/

/-- Python `int(ds)` for a string of ASCII digits -/
def digitsVal (ds : Str) : Nat := Nat.ofDigitChars 10 ds 0

/-- Python `int(s)` restricted to strings matching `^[\-+]?[0-9]+$` -/
def intOfLex (s : Str) : Int :=
  match s with
  | '-' :: r => - (digitsVal r : Int)
  | '+' :: r => (digitsVal r : Int)
  | r => (digitsVal r : Int)

/-- Python `str(int)` -/
def intCanon (v : Int) : Str :=
  if v < 0 then '-' :: Nat.toDigits 10 v.natAbs else Nat.toDigits 10 v.natAbs

/-- A `decimal.Decimal` built from a lexical form: sign flag, digits before and after the point
exactly as written (CPython keeps `_int = str(int(ip ++ fp))`, `_exp = -len(fp)`). -/
structure PyDec where
  neg : Bool
  ip : Str
  fp : Str
deriving DecidableEq, Repr

/-- digits before / after the point of an unsigned literal matching the decimal pattern -/
def decParts (body : Str) : Str × Str :=
  match body.dropWhile isDigit with
  | '.' :: f => (body.takeWhile isDigit, f.takeWhile isDigit)
  | _ => (body.takeWhile isDigit, [])

/-- sign flag and unsigned part -/
def signSplit : Str → Bool × Str
  | '-' :: r => (true, r)
  | '+' :: r => (false, r)
  | r => (false, r)

/-- `Decimal(s)` for `s` matching `DecimalProxy.pattern` -/
def decOfLex (s : Str) : PyDec :=
  ⟨(signSplit s).1, (decParts (signSplit s).2).1, (decParts (signSplit s).2).2⟩

/-- coefficient and exponent as `Decimal.as_tuple()` shows them: `(int(ip++fp), -len(fp))` -/
def PyDec.coef (d : PyDec) : Nat := digitsVal (d.ip ++ d.fp)
def PyDec.scale (d : PyDec) : Nat := d.fp.length

def stripLead0 (s : Str) : Str := s.dropWhile (· == '0')
def stripTrail0 (s : Str) : Str := (s.reverse.dropWhile (· == '0')).reverse

/-- xpath_tokens/base.py:872-877 (fix-c10) `string_value(Decimal)`:
`format(obj, 'f')`, then `rstrip('0').rstrip('.')` when a point is present, then `'-0' -> '0'`. -/
def decCanon (d : PyDec) : Str :=
  let i := stripLead0 d.ip
  let i := if i.isEmpty then ['0'] else i
  -- format(obj,'f'): coefficient zero keeps its sign and its scale
  let f := stripTrail0 d.fp
  let body := if f.isEmpty then i else i ++ '.' :: f
  if d.neg && !(body == ['0']) then '-' :: body else body

/-! ## constructors from strings (the `T(s)` path) -/

inductive Err | value | type | arith
deriving DecidableEq, Repr

/-- decidable equality of results, so that concrete witnesses can be checked by `decide` -/
instance decEqExcept {ε α} [DecidableEq ε] [DecidableEq α] : DecidableEq (Except ε α)
  | .ok a, .ok b => if h : a = b then isTrue (by rw [h]) else isFalse (fun e => h (by cases e; rfl))
  | .error a, .error b => if h : a = b then isTrue (by rw [h]) else isFalse (fun e => h (by cases e; rfl))
  | .ok _, .error _ => isFalse (fun e => by cases e)
  | .error _, .ok _ => isFalse (fun e => by cases e)

/-- integer family: `(lower, higher)` as stored in `_lower_bound/_higher_bound`
(`higher` is EXCLUSIVE: numeric.py:190 `self >= self._higher_bound` raises) -/
structure Bounds where
  lo : Option Int
  hi : Option Int
deriving DecidableEq, Repr

def Bounds.ok (b : Bounds) (v : Int) : Bool :=
  (match b.lo with | some l => decide (l ≤ v) | none => true) &&
  (match b.hi with | some h => decide (v < h) | none => true)

/-- numeric.py (fix-c10) `Integer.__new__` + `Integer.__init__` on a `str`:
collapse, match the pattern, `int()`, bounds check. -/
def intCtor (b : Bounds) (s : Str) : Except Err Int :=
  let t := collapse s
  if matchInteger t then
    let v := intOfLex t
    if b.ok v then .ok v else .error .value
  else .error .value

/-- numeric.py (fix-c10) `Integer.validate` on a `str`: raw pattern match, then `cls(value)` -/
def intIsValid (b : Bounds) (s : Str) : Bool :=
  matchInteger s && (match intCtor b s with | .ok _ => true | .error _ => false)

/-- proxies.py:81-92 (fix-c10) `DecimalProxy.__new__` on a `str` -/
def decCtor (s : Str) : Except Err PyDec :=
  let t := collapse s
  if matchDecimal t then .ok (decOfLex t) else .error .value

def decIsValid (s : Str) : Bool := matchDecimal s

/-- proxies.py:39-54 (fix-c10) `BooleanProxy.__new__` on a `str`:
`collapse_white_spaces(value) in BOOLEAN_VALUES`, result `'t' in value or '1' in value` -/
def boolCtor (s : Str) : Except Err Bool :=
  let t := collapse s
  if t == "true".toList || t == "false".toList || t == "1".toList || t == "0".toList then
    .ok (s.contains 't' || s.contains '1')
  else .error .value

def boolIsValid (s : Str) : Bool := matchBoolean s

/-- result class of a double/float built from a string; the finite value itself is
`float(<the collapsed literal>)` of CPython — trusted, not modelled -/
inductive DblClass | nan | pinf | ninf | num
deriving DecidableEq, Repr

/-- XSD version seen by the constructor: `none` = called without a parser -/
inductive Ver | v10 | v11 | none
deriving DecidableEq, Repr

/-- helpers.py:283-297 (fix-c10) `get_double(str, xsd_version)` and numeric.py:44-60 `Float.__new__` -/
def dblCtor (v : Ver) (s : Str) : Except Err DblClass :=
  let t := collapse s
  if t == "NaN".toList then .ok .nan
  else if t == "INF".toList then .ok .pinf
  else if t == "-INF".toList then .ok .ninf
  else if t == "+INF".toList then (if v == .v10 then .error .value else .ok .pinf)
  else if matchNumericLiteral t then .ok .num
  else .error .value

def dblIsValid (s : Str) : Bool := matchDouble s

/-- Python `str.strip()` removes Unicode whitespace *including* U+00A0 and the separators 28..31 -/
def isPyStripWhite (c : Char) : Bool := isPyWhite c || c.toNat == 160

def pyStrip (s : Str) : Str :=
  ((s.dropWhile isPyStripWhite).reverse.dropWhile isPyStripWhite).reverse

/-- binary.py:183-194 `HexBinary.validate` on a `str`: `value.strip()` then the pattern -/
def hexIsValid (s : Str) : Bool := matchHex (pyStrip s)

def isAscii (c : Char) : Bool := c.toNat < 128

/-- binary.py:41-66 `AbstractBinary.__init__` on a `str` for HexBinary: collapse, validate,
`value.replace(' ', '').encode('ascii')` (a non-ASCII character raises UnicodeEncodeError ⊂ ValueError) -/
def hexCtor (s : Str) : Except Err Str :=
  let t := collapse s
  if hexIsValid t then
    let u := t.filter (· != ' ')
    if u.all isAscii then .ok u else .error .value
  else .error .value

/-- binary.py:137-150 `Base64Binary.validate` on a `str`: remove spaces, empty is fine, else full match -/
def b64IsValid (s : Str) : Bool := matchB64 (s.filter (· != ' '))

def b64Ctor (s : Str) : Except Err Str :=
  let t := collapse s
  if b64IsValid t then .ok (t.filter (· != ' ')) else .error .value

/-! ## binary codecs (`codecs.encode/decode(…, 'hex' | 'base64')` on byte lists) -/

abbrev Byte := Fin 256

def hexDigitLower (n : Nat) : Char := if n < 10 then Char.ofNat (48 + n) else Char.ofNat (87 + n)
def hexDigitUpper (n : Nat) : Char := if n < 10 then Char.ofNat (48 + n) else Char.ofNat (55 + n)

def hexVal (c : Char) : Option Nat :=
  if c.isDigit then some (c.toNat - 48)
  else if 'a' ≤ c && c ≤ 'f' then some (c.toNat - 87)
  else if 'A' ≤ c && c ≤ 'F' then some (c.toNat - 55)
  else none

/-- `codecs.encode(bytes, 'hex')` (lower case) -/
def hexEncode : List Byte → Str
  | [] => []
  | b :: bs => hexDigitLower (b.val / 16) :: hexDigitLower (b.val % 16) :: hexEncode bs

/-- `HexBinary.__str__`: upper case -/
def hexEncodeUpper : List Byte → Str
  | [] => []
  | b :: bs => hexDigitUpper (b.val / 16) :: hexDigitUpper (b.val % 16) :: hexEncodeUpper bs

/-- `codecs.decode(value, 'hex')` -/
def hexDecode : Str → Option (List Byte)
  | [] => some []
  | [_] => none
  | a :: b :: r =>
    match hexVal a, hexVal b, hexDecode r with
    | some x, some y, some bs => some (Fin.ofNat 256 (16 * x + y) :: bs)
    | _, _, _ => none

def b64Char (n : Nat) : Char :=
  if n < 26 then Char.ofNat (65 + n)
  else if n < 52 then Char.ofNat (71 + n)
  else if n < 62 then Char.ofNat (n - 4)
  else if n = 62 then '+' else '/'

def b64Val (c : Char) : Option Nat :=
  if 'A' ≤ c && c ≤ 'Z' then some (c.toNat - 65)
  else if 'a' ≤ c && c ≤ 'z' then some (c.toNat - 71)
  else if c.isDigit then some (c.toNat + 4)
  else if c == '+' then some 62
  else if c == '/' then some 63
  else none

/-- `codecs.encode(bytes, 'base64')` without the line breaks (`Base64Binary.encoder` strips the final
newline; inputs of the casts are short enough that binascii inserts no inner newline is NOT assumed:
the harness compares with newlines removed) -/
def b64Encode : List Byte → Str
  | [] => []
  | [a] =>
    [b64Char (a.val / 4), b64Char (a.val % 4 * 16), '=', '=']
  | [a, b] =>
    [b64Char (a.val / 4), b64Char (a.val % 4 * 16 + b.val / 16), b64Char (b.val % 16 * 4), '=']
  | a :: b :: c :: r =>
    b64Char (a.val / 4) :: b64Char (a.val % 4 * 16 + b.val / 16) ::
      b64Char (b.val % 16 * 4 + c.val / 64) :: b64Char (c.val % 64) :: b64Encode r

/-- `codecs.decode(value, 'base64')` on a value accepted by `matchB64` -/
def b64Decode : Str → Option (List Byte)
  | [] => some []
  | [a, b, c, d] =>
    match b64Val a, b64Val b with
    | some x, some y =>
      if c == '=' && d == '=' then some [Fin.ofNat 256 (x * 4 + y / 16)]
      else match b64Val c with
        | none => none
        | some z =>
          if d == '=' then some [Fin.ofNat 256 (x * 4 + y / 16), Fin.ofNat 256 (y % 16 * 16 + z / 4)]
          else match b64Val d with
            | none => none
            | some w => some [Fin.ofNat 256 (x * 4 + y / 16), Fin.ofNat 256 (y % 16 * 16 + z / 4),
                              Fin.ofNat 256 (z % 4 * 64 + w)]
    | _, _ => none
  | a :: b :: c :: d :: r =>
    match b64Val a, b64Val b, b64Val c, b64Val d, b64Decode r with
    | some x, some y, some z, some w, some bs =>
      some (Fin.ofNat 256 (x * 4 + y / 16) :: Fin.ofNat 256 (y % 16 * 16 + z / 4) ::
            Fin.ofNat 256 (z % 4 * 64 + w) :: bs)
    | _, _, _, _, _ => none
  | _ => none

/-- binary.py:50-52 `HexBinary(Base64Binary)` : `self.value = encoder(value.decode())` -/
def castB64ToHex (v : Str) : Option Str := (b64Decode v).map hexEncode
/-- binary.py:50-52 `Base64Binary(HexBinary)` -/
def castHexToB64 (v : Str) : Option Str := (hexDecode v).map b64Encode

end EPV.Lex

namespace EPV.Lex

/-- numeric.py:203-267: `_lower_bound, _higher_bound` of every class of the integer family, in the
order of definition.  `higher` is exclusive.  (The live values are emitted by the translator into
`EPV.Gen.C10.intTable`; `EPV.C10.int_table_eq_model` proves the two tables equal.) -/
def intBounds : List (String × Bounds) := [
  ("integer", ⟨none, none⟩),
  ("nonPositiveInteger", ⟨none, some 1⟩),
  ("negativeInteger", ⟨none, some 0⟩),
  ("long", ⟨some (-(2:Int)^63), some ((2:Int)^63)⟩),
  ("int", ⟨some (-(2:Int)^31), some ((2:Int)^31)⟩),
  ("short", ⟨some (-(2:Int)^15), some ((2:Int)^15)⟩),
  ("byte", ⟨some (-(2:Int)^7), some ((2:Int)^7)⟩),
  ("nonNegativeInteger", ⟨some 0, none⟩),
  ("positiveInteger", ⟨some 1, none⟩),
  ("unsignedLong", ⟨some 0, some ((2:Int)^64)⟩),
  ("unsignedInt", ⟨some 0, some ((2:Int)^32)⟩),
  ("unsignedShort", ⟨some 0, some ((2:Int)^16)⟩),
  ("unsignedByte", ⟨some 0, some ((2:Int)^8)⟩)]

def boundsOf (name : String) : Option Bounds := (intBounds.find? (·.1 == name)).map (·.2)

end EPV.Lex

/-! ## the numeric / string / boolean / untypedAtomic corner of the casting table

`cast` transcribes what `E cast as xs:T`, `xs:T(E)` and `E castable as xs:T` run for an atomic operand:
`evaluate__cast_expressions` (xpath2/_xpath2_operators.py:349-414) and `XPathConstructor.evaluate`
(xpath_tokens/contructors.py:48-66) both unwrap xs:untypedAtomic to its string (fix-c10) and call the
`cast__*` method of the constructor token (xpath2/_xpath2_constructors.py), which calls the datatypes
constructor and maps builtin exceptions to error codes.  `castable` is "the cast raised nothing". -/
namespace EPV.Lex

/-- a finite double as the exact fraction `±n / 2^k` (`float.as_integer_ratio()`), or a special value -/
inductive Dbl
  | nan | pinf | ninf
  | fin (neg : Bool) (n k : Nat)
deriving DecidableEq, Repr

/-- operand of a cast.  `dbl x r`: `r` is `repr(x)` of CPython (trusted parameter, used only for the
cast to xs:string).  `dec d`: a Decimal built from a literal. -/
inductive Atom
  | str (s : Str)
  | untyped (s : Str)
  | bool (b : Bool)
  | int (v : Int)
  | dec (d : PyDec)
  | dbl (x : Dbl) (r : Str)
deriving Repr

inductive Target
  | string | untypedAtomic | boolean
  | integer (b : Bounds)
  | decimal | double | float
deriving DecidableEq, Repr

/-- result of a cast; decimals as `(sign, coefficient, scale)` of `Decimal.as_tuple()`; doubles by
class only (the finite value is `float(...)` of CPython) -/
inductive CVal
  | str (s : Str)
  | untyped (s : Str)
  | bool (b : Bool)
  | int (v : Int)
  | dec (neg : Bool) (coef scale : Nat)
  | dbl (c : DblClass)
deriving DecidableEq, Repr

inductive CErr | FORG0001 | FOCA0002 | XPTY0004
deriving DecidableEq, Repr

/-- a Decimal given by `(sign, coefficient, scale)` as digit strings (for printing):
`format(d, 'f')` pads the coefficient with zeros up to `scale + 1` digits -/
def pyDecOfTuple (neg : Bool) (coef scale : Nat) : PyDec :=
  let ds := Nat.toDigits 10 coef
  let padded := List.replicate (scale + 1 - ds.length) '0' ++ ds
  ⟨neg, padded.take (padded.length - scale), padded.drop (padded.length - scale)⟩

/-- `int(Decimal)` / `int(float)`: truncation toward zero -/
def truncQuot (neg : Bool) (num den : Nat) : Int :=
  if neg then -((num / den : Nat) : Int) else ((num / den : Nat) : Int)

/-- xpath_tokens/base.py:879-893 (fix-c10) `string_value(float)` given `r = repr(x)`:
NaN / INF / -INF, else strip a trailing `.0`-style fraction (fixed notation only), drop '+', upper-case
an exponent form -/
def rstrip (c : Char) (s : Str) : Str := (s.reverse.dropWhile (· == c)).reverse

def dblString (x : Dbl) (r : Str) : Str :=
  match x with
  | .nan => "NaN".toList
  | .pinf => "INF".toList
  | .ninf => "-INF".toList
  | .fin _ _ _ =>
    let v := if r.contains '.' && !r.contains 'e' then rstrip '.' (rstrip '0' r) else r
    let v := if v.contains '+' then v.filter (· != '+') else v
    if v.contains 'e' then v.map Char.toUpper else v

/-- `string_value(obj)` for the operand kinds of this corner -/
def stringValue : Atom → Str
  | .str s => s
  | .untyped s => s
  | .bool b => if b then "true".toList else "false".toList
  | .int v => intCanon v
  | .dec d => decCanon d
  | .dbl x r => dblString x r

def dblIsZero : Dbl → Bool
  | .fin _ n _ => n == 0
  | _ => false

/-- the cast itself (one function for `cast as`, the constructor function and `castable`) -/
def cast (ver : Ver) (a : Atom) (t : Target) : Except CErr CVal :=
  match t with
  | .string => .ok (.str (stringValue a))                      -- cast__string_type
  | .untypedAtomic => .ok (.untyped (stringValue a))           -- cast__untyped_atomic (fix-c10)
  | .boolean =>                                                -- cast__boolean_type / BooleanProxy.__new__
    match a with
    | .str s | .untyped s =>
      (match boolCtor s with | .ok b => .ok (.bool b) | .error _ => .error .FORG0001)
    | .bool b => .ok (.bool b)
    | .int v => .ok (.bool (v != 0))
    | .dec d => .ok (.bool (d.coef != 0))
    | .dbl x _ => .ok (.bool (match x with | .nan => false | .fin _ n _ => n != 0 | _ => true))
  | .integer b =>                                              -- cast__integer_types / Integer.__new__/__init__
    match a with
    | .str s | .untyped s =>
      (match intCtor b s with | .ok v => .ok (.int v) | .error _ => .error .FORG0001)
    | .bool x => let v : Int := if x then 1 else 0
                 if b.ok v then .ok (.int v) else .error .FORG0001
    | .int v => if b.ok v then .ok (.int v) else .error .FORG0001
    | .dec d => let v := truncQuot d.neg d.coef (10 ^ d.scale)
                if b.ok v then .ok (.int v) else .error .FOCA0002
    | .dbl x _ =>
      match x with
      | .fin neg n k => let v := truncQuot neg n (2 ^ k)
                        if b.ok v then .ok (.int v) else .error .FOCA0002
      | _ => .error .FOCA0002            -- ValueError (NaN) / OverflowError (INF), operand not a string
  | .decimal =>                                                -- cast__numeric_types / DecimalProxy.__new__
    match a with
    | .str s | .untyped s =>
      (match decCtor s with | .ok d => .ok (.dec d.neg d.coef d.scale) | .error _ => .error .FORG0001)
    | .bool x => .ok (.dec false (if x then 1 else 0) 0)
    | .int v => .ok (.dec (decide (v < 0)) v.natAbs 0)
    | .dec d => .ok (.dec d.neg d.coef d.scale)
    | .dbl x _ =>
      match x with
      | .fin neg n k => .ok (.dec neg (n * 5 ^ k) k)           -- Decimal.from_float: exact
      | _ => .error .FOCA0002
  | .double | .float =>                                        -- cast__numeric_types / get_double / Float.__new__
    match a with
    | .str s | .untyped s =>
      (match dblCtor ver s with | .ok c => .ok (.dbl c) | .error _ => .error .FORG0001)
    | .dbl x _ => .ok (.dbl (match x with | .nan => .nan | .pinf => .pinf | .ninf => .ninf | .fin _ _ _ => .num))
    | .int v =>
      -- CPython `float(int)` raises OverflowError (an ArithmeticError -> FOCA0002) when the integer rounds
      -- to 2^1024 or more
      if v.natAbs ≥ 2 ^ 1024 - 2 ^ 970 then .error .FOCA0002 else .ok (.dbl .num)
    | _ => .ok (.dbl .num)

/-- `E castable as xs:T` -/
def castable (ver : Ver) (a : Atom) (t : Target) : Bool := (cast ver a t).toBool

end EPV.Lex

namespace EPV.Lex

/-- trigger of known finding F10b, on the number of shortest digits of the double and its decimal
exponent `e` (value = d.ddd × 10^e): the regions where `string_value` (Python `repr` post-processed)
differs from the F&O canonical form. -/
def dblStrTrigger (ndigits : Nat) (e : Int) : Bool :=
  (e == -6 || e == -5) || (decide (6 ≤ e) && decide (e < 16)) || (decide (16 ≤ e) && ndigits == 1) ||
  (decide (e < -6) && (ndigits == 1 || decide (-10 < e)))

end EPV.Lex

/-! ## timezones of the date/time/gregorian types

datatypes/datetime.py: every date/time pattern ends with the group
`(?P<tzinfo>Z|[+-](?:(?:0[0-9]|1[0-3]):[0-5][0-9]|14:00))?`; the matched text goes to
`Timezone.fromstring` (lines 57-70) and comes back through `Timezone.tzname` / `__str__` (102-115). -/
namespace EPV.Lex

/-- the `tzinfo` group (full match): `Z|[+-](?:(?:0[0-9]|1[0-3]):[0-5][0-9]|14:00)` -/
def matchTz : Str → Bool
  | ['Z'] => true
  | [sg, a, b, c, d, e] =>
    (sg == '+' || sg == '-') &&
    (((((a == '0' && isDigit b) || (a == '1' && ('0' ≤ b && b ≤ '3'))) && c == ':') &&
        ('0' ≤ d && d ≤ '5') && isDigit e) ||
     (a == '1' && b == '4' && c == ':' && d == '0' && e == '0'))
  | _ => false

/-- `Timezone.fromstring` on a text matched by the group, in minutes:
`hours, minutes = text.split(':')`; when `hours.startswith('-')` the offset is
`timedelta(hours=int(hours), minutes=-int(minutes))` (so `-00:30` is −30), else `+`; `'Z'` is 0. -/
def tzOfLex : Str → Int
  | ['Z'] => 0
  | [sg, a, b, _, d, e] =>
    if sg == '-' then intOfLex [sg, a, b] * 60 - (digitsVal [d, e] : Int)
    else intOfLex [sg, a, b] * 60 + (digitsVal [d, e] : Int)
  | _ => 0

def tzParse (s : Str) : Option Int := if matchTz s then some (tzOfLex s) else none

/-- two decimal digits, zero padded (`'{:02d}'`) -/
def twoDigits (n : Nat) : Str :=
  if n < 10 then '0' :: Nat.toDigits 10 n else Nat.toDigits 10 n

/-- `Timezone.tzname`: `'Z'` for a zero offset, else sign, `hh:mm` of the absolute value -/
def tzCanon (m : Int) : Str :=
  if m == 0 then ['Z']
  else (if m < 0 then '-' else '+') :: (twoDigits (m.natAbs / 60) ++ ':' :: twoDigits (m.natAbs % 60))

end EPV.Lex

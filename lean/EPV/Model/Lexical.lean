/-
C10 — executable model of the lexical layer of elementpath's atomic datatypes.
Core Lean only.  Every definition names the Python it transcribes (paths relative to /repo/elementpath,
tree = pinned snapshot + the `fix:` commits of branch fix-c10, see docs/C10.md).

Strings are `List Char`.  Python `re` semantics that the transcription relies on (trusted, tied by the
correspondence check): the patterns used here are deterministic under left-to-right scanning, `$`
matches at the end *or before one trailing '\n'*, `[0-9]` is ASCII only.
-/
namespace EPV.Lex

abbrev Str := List Char

/-! ## whitespace -/

/-- the code points matched by `Patterns.whitespaces = re.compile(r'[ \t\n\r]+')` (helpers.py:120, fix-c10-2:
XML white space only; before the fix it was Python's Unicode `\s` minus U+00A0).  The live regex is
enumerated by the translator into `EPV.Gen.C10.whitespaceCPs`; `EPV.C10.whitespace_table` proves the two
lists equal. -/
def pyWhiteCPs : List Nat := [9, 10, 13, 32]

def isPyWhite (c : Char) : Bool := pyWhiteCPs.contains c.toNat

/-- `Patterns.whitespaces.sub(' ', s)`: every maximal run of white characters becomes one space
(`prev` = the previous character was white, i.e. we are inside a run already replaced). -/
def subWhite (prev : Bool) : Str → Str
  | [] => []
  | c :: cs =>
    if isPyWhite c then (if prev then subWhite true cs else ' ' :: subWhite true cs)
    else c :: subWhite false cs

/-- `str.strip(' ')` -/
def stripSp (s : Str) : Str :=
  ((s.dropWhile (· == ' ')).reverse.dropWhile (· == ' ')).reverse

/-- helpers.py:153 `collapse_white_spaces(s) = Patterns.whitespaces.sub(' ', s).strip(' ')` -/
def collapse (s : Str) : Str := stripSp (subWhite false s)

/-! ## scanners mirroring the `LazyPattern`s -/

def isDigit (c : Char) : Bool := c.isDigit

/-- `[+-]?` / `[\-+]?` -/
def optSign : Str → Str
  | '+' :: r => r
  | '-' :: r => r
  | s => s

/-- Python `$`: end of string, or just before a final newline -/
def atEnd : Str → Bool
  | [] => true
  | ['\n'] => true
  | _ => false

/-- `[0-9]+$` -/
def digits1End (s : Str) : Bool :=
  let r := s.dropWhile isDigit
  decide (r.length < s.length) && atEnd r

/-- `[0-9]*$` -/
def digits0End (s : Str) : Bool := atEnd (s.dropWhile isDigit)

/-- numeric.py:177 `Integer.pattern = ^[\-+]?[0-9]+$` -/
def matchInteger (s : Str) : Bool := digits1End (optSign s)

/-- `(?:[0-9]+(?:\.[0-9]*)?|\.[0-9]+)` followed by the continuation `k` (the rest of the pattern) -/
def scanDecBody (k : Str → Bool) (s : Str) : Bool :=
  let r := s.dropWhile isDigit
  if r.length < s.length then
    -- `[0-9]+` matched (greedy); optional `\.[0-9]*`
    match r with
    | c :: f => if c == '.' then k (f.dropWhile isDigit) else k r
    | [] => k r
  else
    match s with
    | c :: f =>
      if c == '.' then
        let r2 := f.dropWhile isDigit
        decide (r2.length < f.length) && k r2
      else false
    | [] => false

/-- proxies.py:79 `DecimalProxy.pattern = ^[+-]?(?:[0-9]+(?:\.[0-9]*)?|\.[0-9]+)$` -/
def matchDecimal (s : Str) : Bool := scanDecBody atEnd (optSign s)

/-- `(?:[Ee][+-]?[0-9]+)?$` -/
def scanExpEnd : Str → Bool
  | 'e' :: r => digits1End (optSign r)
  | 'E' :: r => digits1End (optSign r)
  | r => atEnd r

/-- `[+-]?INF|NaN` then `$` -/
def matchInfNaN (s : Str) : Bool :=
  match s with
  | 'N' :: 'a' :: 'N' :: r => atEnd r
  | _ =>
    match optSign s with
    | 'I' :: 'N' :: 'F' :: r => atEnd r
    | _ => false

/-- helpers.py (fix-c10) `Patterns.numeric_literal = ^[+-]?(?:[0-9]+(?:\.[0-9]*)?|\.[0-9]+)(?:[Ee][+-]?[0-9]+)?$` -/
def matchNumericLiteral (s : Str) : Bool := scanDecBody scanExpEnd (optSign s)

/-- proxies.py:124 / numeric.py:27 `DoubleProxy.pattern`, `Float.pattern` (after the F10a fix both are)
`^(?:[+-]?(?:[0-9]+(?:\.[0-9]*)?|\.[0-9]+)(?:[Ee][+-]?[0-9]+)?|[+-]?INF|NaN)$` -/
def matchDouble (s : Str) : Bool := matchNumericLiteral s || matchInfNaN s

/-- proxies.py:36 `BooleanProxy.pattern = ^(?:true|false|1|0)$` -/
def matchBoolean : Str → Bool
  | 't' :: 'r' :: 'u' :: 'e' :: r => atEnd r
  | 'f' :: 'a' :: 'l' :: 's' :: 'e' :: r => atEnd r
  | '1' :: r => atEnd r
  | '0' :: r => atEnd r
  | _ => false

def isHexDigit (c : Char) : Bool :=
  c.isDigit || ('a' ≤ c && c ≤ 'f') || ('A' ≤ c && c ≤ 'F')

/-- binary.py:180 `HexBinary.pattern = ^([0-9a-fA-F]{2})*$` -/
def matchHex : Str → Bool
  | a :: b :: r => if isHexDigit a && isHexDigit b then matchHex r else atEnd (a :: b :: r)
  | r => atEnd r

def isB64 (c : Char) : Bool :=
  c.isDigit || ('a' ≤ c && c ≤ 'z') || ('A' ≤ c && c ≤ 'Z') || c == '+' || c == '/'

def isB16 (c : Char) : Bool := "AEIMQUYcgkosw048".toList.contains c
def isB04 (c : Char) : Bool := "AQgw".toList.contains c

/-- binary.py:131 `Base64Binary.pattern` applied to a string without spaces, *full match required*
(`match.group(0) != value` is an error): `((B{4})*(B{3}B|B{2}[AEIMQUYcgkosw048]=|B[AQgw]==))?` -/
def matchB64 : Str → Bool
  | [] => true
  | [a, b, c, d] =>
    isB64 a && isB64 b &&
      ((isB64 c && isB64 d) || (isB16 c && d == '=') || (isB04 b && c == '=' && d == '='))
  | a :: b :: c :: d :: r => isB64 a && isB64 b && isB64 c && isB64 d && matchB64 r
  | _ => false

/-! ## values -/

/-- Python `int(ds)` for a string of ASCII digits -/
def digitsVal (ds : Str) : Nat := Nat.ofDigitChars 10 ds 0

/-- Python `int(s)` restricted to strings matching `^[\-+]?[0-9]+$` -/
def intOfLex (s : Str) : Int :=
  match s with
  | '-' :: r => - (digitsVal r : Int)
  | '+' :: r => (digitsVal r : Int)
  | r => (digitsVal r : Int)

/-- Python `str(int)` -/
def intCanon (v : Int) : Str :=
  if v < 0 then '-' :: Nat.toDigits 10 v.natAbs else Nat.toDigits 10 v.natAbs

/-- A `decimal.Decimal` built from a lexical form: sign flag, digits before and after the point
exactly as written (CPython keeps `_int = str(int(ip ++ fp))`, `_exp = -len(fp)`). -/
structure PyDec where
  neg : Bool
  ip : Str
  fp : Str
deriving DecidableEq, Repr

/-- digits before / after the point of an unsigned literal matching the decimal pattern -/
def decParts (body : Str) : Str × Str :=
  match body.dropWhile isDigit with
  | '.' :: f => (body.takeWhile isDigit, f.takeWhile isDigit)
  | _ => (body.takeWhile isDigit, [])

/-- sign flag and unsigned part -/
def signSplit : Str → Bool × Str
  | '-' :: r => (true, r)
  | '+' :: r => (false, r)
  | r => (false, r)

/-- `Decimal(s)` for `s` matching `DecimalProxy.pattern` -/
def decOfLex (s : Str) : PyDec :=
  ⟨(signSplit s).1, (decParts (signSplit s).2).1, (decParts (signSplit s).2).2⟩

/-- coefficient and exponent as `Decimal.as_tuple()` shows them: `(int(ip++fp), -len(fp))` -/
def PyDec.coef (d : PyDec) : Nat := digitsVal (d.ip ++ d.fp)
def PyDec.scale (d : PyDec) : Nat := d.fp.length

def stripLead0 (s : Str) : Str := s.dropWhile (· == '0')
def stripTrail0 (s : Str) : Str := (s.reverse.dropWhile (· == '0')).reverse

/-- xpath_tokens/base.py:872-877 (fix-c10) `string_value(Decimal)`:
`format(obj, 'f')`, then `rstrip('0').rstrip('.')` when a point is present, then `'-0' -> '0'`. -/
def decCanon (d : PyDec) : Str :=
  let i := stripLead0 d.ip
  let i := if i.isEmpty then ['0'] else i
  -- format(obj,'f'): coefficient zero keeps its sign and its scale
  let f := stripTrail0 d.fp
  let body := if f.isEmpty then i else i ++ '.' :: f
  if d.neg && !(body == ['0']) then '-' :: body else body

/-! ## constructors from strings (the `T(s)` path) -/

inductive Err | value | type | arith
deriving DecidableEq, Repr

/-- decidable equality of results, so that concrete witnesses can be checked by `decide` -/
instance decEqExcept {ε α} [DecidableEq ε] [DecidableEq α] : DecidableEq (Except ε α)
  | .ok a, .ok b => if h : a = b then isTrue (by rw [h]) else isFalse (fun e => h (by cases e; rfl))
  | .error a, .error b => if h : a = b then isTrue (by rw [h]) else isFalse (fun e => h (by cases e; rfl))
  | .ok _, .error _ => isFalse (fun e => by cases e)
  | .error _, .ok _ => isFalse (fun e => by cases e)

/-- integer family: `(lower, higher)` as stored in `_lower_bound/_higher_bound`
(`higher` is EXCLUSIVE: numeric.py:190 `self >= self._higher_bound` raises) -/
structure Bounds where
  lo : Option Int
  hi : Option Int
deriving DecidableEq, Repr

def Bounds.ok (b : Bounds) (v : Int) : Bool :=
  (match b.lo with | some l => decide (l ≤ v) | none => true) &&
  (match b.hi with | some h => decide (v < h) | none => true)

/-- numeric.py (fix-c10) `Integer.__new__` + `Integer.__init__` on a `str`:
collapse, match the pattern, `int()`, bounds check. -/
def intCtor (b : Bounds) (s : Str) : Except Err Int :=
  let t := collapse s
  if matchInteger t then
    let v := intOfLex t
    if b.ok v then .ok v else .error .value
  else .error .value

/-- numeric.py (fix-c10, fix-c10-2) `Integer.validate` on a `str`: the pattern on the collapsed string,
then `cls(value)` -/
def intIsValid (b : Bounds) (s : Str) : Bool :=
  matchInteger (collapse s) && (match intCtor b s with | .ok _ => true | .error _ => false)

/-- proxies.py:81-92 (fix-c10) `DecimalProxy.__new__` on a `str` -/
def decCtor (s : Str) : Except Err PyDec :=
  let t := collapse s
  if matchDecimal t then .ok (decOfLex t) else .error .value

/-- proxies.py `DecimalProxy.validate` on a `str` (fix-c10-2: collapse first) -/
def decIsValid (s : Str) : Bool := matchDecimal (collapse s)

/-- proxies.py:39-54 (fix-c10) `BooleanProxy.__new__` on a `str`:
`collapse_white_spaces(value) in BOOLEAN_VALUES`, result `'t' in value or '1' in value` -/
def boolCtor (s : Str) : Except Err Bool :=
  let t := collapse s
  if t == "true".toList || t == "false".toList || t == "1".toList || t == "0".toList then
    .ok (s.contains 't' || s.contains '1')
  else .error .value

def boolIsValid (s : Str) : Bool := matchBoolean (collapse s)

/-- result class of a double/float built from a string; the finite value itself is
`float(<the collapsed literal>)` of CPython — trusted, not modelled -/
inductive DblClass | nan | pinf | ninf | num
deriving DecidableEq, Repr

/-- XSD version seen by the constructor: `none` = called without a parser -/
inductive Ver | v10 | v11 | none
deriving DecidableEq, Repr

/-- helpers.py:283-297 (fix-c10) `get_double(str, xsd_version)` and numeric.py:44-60 `Float.__new__` -/
def dblCtor (v : Ver) (s : Str) : Except Err DblClass :=
  let t := collapse s
  if t == "NaN".toList then .ok .nan
  else if t == "INF".toList then .ok .pinf
  else if t == "-INF".toList then .ok .ninf
  else if t == "+INF".toList then (if v == .v10 then .error .value else .ok .pinf)
  else if matchNumericLiteral t then .ok .num
  else .error .value

def dblIsValid (s : Str) : Bool := matchDouble (collapse s)

/-- `value.strip(' \t\n\r')` (fix-c10-2; before the fix `str.strip()` also removed Unicode white space and U+00A0) -/
def isPyStripWhite (c : Char) : Bool := isPyWhite c

def pyStrip (s : Str) : Str :=
  ((s.dropWhile isPyStripWhite).reverse.dropWhile isPyStripWhite).reverse

/-- binary.py:183-194 `HexBinary.validate` on a `str`: `value.strip()` then the pattern -/
def hexIsValid (s : Str) : Bool := matchHex (pyStrip s)

def isAscii (c : Char) : Bool := c.toNat < 128

/-- binary.py:41-66 `AbstractBinary.__init__` on a `str` for HexBinary: collapse, validate,
`value.replace(' ', '').encode('ascii')` (a non-ASCII character raises UnicodeEncodeError ⊂ ValueError) -/
def hexCtor (s : Str) : Except Err Str :=
  let t := collapse s
  if hexIsValid t then
    let u := t.filter (· != ' ')
    if u.all isAscii then .ok u else .error .value
  else .error .value

/-- binary.py:137-150 `Base64Binary.validate` on a `str` (fix-c10-2: collapse first): remove spaces, empty is
fine, else full match -/
def b64IsValid (s : Str) : Bool := matchB64 ((collapse s).filter (· != ' '))

def b64Ctor (s : Str) : Except Err Str :=
  let t := collapse s
  if b64IsValid t then .ok (t.filter (· != ' ')) else .error .value

/-! ## binary codecs (`codecs.encode/decode(…, 'hex' | 'base64')` on byte lists) -/

abbrev Byte := Fin 256

def hexDigitLower (n : Nat) : Char := if n < 10 then Char.ofNat (48 + n) else Char.ofNat (87 + n)
def hexDigitUpper (n : Nat) : Char := if n < 10 then Char.ofNat (48 + n) else Char.ofNat (55 + n)

def hexVal (c : Char) : Option Nat :=
  if c.isDigit then some (c.toNat - 48)
  else if 'a' ≤ c && c ≤ 'f' then some (c.toNat - 87)
  else if 'A' ≤ c && c ≤ 'F' then some (c.toNat - 55)
  else none

/-- `codecs.encode(bytes, 'hex')` (lower case) -/
def hexEncode : List Byte → Str
  | [] => []
  | b :: bs => hexDigitLower (b.val / 16) :: hexDigitLower (b.val % 16) :: hexEncode bs

/-- `HexBinary.__str__`: upper case -/
def hexEncodeUpper : List Byte → Str
  | [] => []
  | b :: bs => hexDigitUpper (b.val / 16) :: hexDigitUpper (b.val % 16) :: hexEncodeUpper bs

/-- `codecs.decode(value, 'hex')` -/
def hexDecode : Str → Option (List Byte)
  | [] => some []
  | [_] => none
  | a :: b :: r =>
    match hexVal a, hexVal b, hexDecode r with
    | some x, some y, some bs => some (Fin.ofNat 256 (16 * x + y) :: bs)
    | _, _, _ => none

def b64Char (n : Nat) : Char :=
  if n < 26 then Char.ofNat (65 + n)
  else if n < 52 then Char.ofNat (71 + n)
  else if n < 62 then Char.ofNat (n - 4)
  else if n = 62 then '+' else '/'

def b64Val (c : Char) : Option Nat :=
  if 'A' ≤ c && c ≤ 'Z' then some (c.toNat - 65)
  else if 'a' ≤ c && c ≤ 'z' then some (c.toNat - 71)
  else if c.isDigit then some (c.toNat + 4)
  else if c == '+' then some 62
  else if c == '/' then some 63
  else none

/-- `codecs.encode(bytes, 'base64')` without the line breaks (`Base64Binary.encoder` strips the final
newline; inputs of the casts are short enough that binascii inserts no inner newline is NOT assumed:
the harness compares with newlines removed) -/
def b64Encode : List Byte → Str
  | [] => []
  | [a] =>
    [b64Char (a.val / 4), b64Char (a.val % 4 * 16), '=', '=']
  | [a, b] =>
    [b64Char (a.val / 4), b64Char (a.val % 4 * 16 + b.val / 16), b64Char (b.val % 16 * 4), '=']
  | a :: b :: c :: r =>
    b64Char (a.val / 4) :: b64Char (a.val % 4 * 16 + b.val / 16) ::
      b64Char (b.val % 16 * 4 + c.val / 64) :: b64Char (c.val % 64) :: b64Encode r

/-- `codecs.decode(value, 'base64')` on a value accepted by `matchB64` -/
def b64Decode : Str → Option (List Byte)
  | [] => some []
  | [a, b, c, d] =>
    match b64Val a, b64Val b with
    | some x, some y =>
      if c == '=' && d == '=' then some [Fin.ofNat 256 (x * 4 + y / 16)]
      else match b64Val c with
        | none => none
        | some z =>
          if d == '=' then some [Fin.ofNat 256 (x * 4 + y / 16), Fin.ofNat 256 (y % 16 * 16 + z / 4)]
          else match b64Val d with
            | none => none
            | some w => some [Fin.ofNat 256 (x * 4 + y / 16), Fin.ofNat 256 (y % 16 * 16 + z / 4),
                              Fin.ofNat 256 (z % 4 * 64 + w)]
    | _, _ => none
  | a :: b :: c :: d :: r =>
    match b64Val a, b64Val b, b64Val c, b64Val d, b64Decode r with
    | some x, some y, some z, some w, some bs =>
      some (Fin.ofNat 256 (x * 4 + y / 16) :: Fin.ofNat 256 (y % 16 * 16 + z / 4) ::
            Fin.ofNat 256 (z % 4 * 64 + w) :: bs)
    | _, _, _, _, _ => none
  | _ => none

/-- binary.py:50-52 `HexBinary(Base64Binary)` : `self.value = encoder(value.decode())` -/
def castB64ToHex (v : Str) : Option Str := (b64Decode v).map hexEncode
/-- binary.py:50-52 `Base64Binary(HexBinary)` -/
def castHexToB64 (v : Str) : Option Str := (hexDecode v).map b64Encode

end EPV.Lex

namespace EPV.Lex

/-- numeric.py:203-267: `_lower_bound, _higher_bound` of every class of the integer family, in the
order of definition.  `higher` is exclusive.  (The live values are emitted by the translator into
`EPV.Gen.C10.intTable`; `EPV.C10.int_table_eq_model` proves the two tables equal.) -/
def intBounds : List (String × Bounds) := [
  ("integer", ⟨none, none⟩),
  ("nonPositiveInteger", ⟨none, some 1⟩),
  ("negativeInteger", ⟨none, some 0⟩),
  ("long", ⟨some (-(2:Int)^63), some ((2:Int)^63)⟩),
  ("int", ⟨some (-(2:Int)^31), some ((2:Int)^31)⟩),
  ("short", ⟨some (-(2:Int)^15), some ((2:Int)^15)⟩),
  ("byte", ⟨some (-(2:Int)^7), some ((2:Int)^7)⟩),
  ("nonNegativeInteger", ⟨some 0, none⟩),
  ("positiveInteger", ⟨some 1, none⟩),
  ("unsignedLong", ⟨some 0, some ((2:Int)^64)⟩),
  ("unsignedInt", ⟨some 0, some ((2:Int)^32)⟩),
  ("unsignedShort", ⟨some 0, some ((2:Int)^16)⟩),
  ("unsignedByte", ⟨some 0, some ((2:Int)^8)⟩)]

def boundsOf (name : String) : Option Bounds := (intBounds.find? (·.1 == name)).map (·.2)

end EPV.Lex

/-! ## the numeric / string / boolean / untypedAtomic corner of the casting table

`cast` transcribes what `E cast as xs:T`, `xs:T(E)` and `E castable as xs:T` run for an atomic operand:
`evaluate__cast_expressions` (xpath2/_xpath2_operators.py:349-414) and `XPathConstructor.evaluate`
(xpath_tokens/contructors.py:48-66) both unwrap xs:untypedAtomic to its string (fix-c10) and call the
`cast__*` method of the constructor token (xpath2/_xpath2_constructors.py), which calls the datatypes
constructor and maps builtin exceptions to error codes.  `castable` is "the cast raised nothing". -/
namespace EPV.Lex

/-- a finite double as the exact fraction `±n / 2^k` (`float.as_integer_ratio()`), or a special value -/
inductive Dbl
  | nan | pinf | ninf
  | fin (neg : Bool) (n k : Nat)
deriving DecidableEq, Repr

/-- operand of a cast.  `dbl x r`: `r` is `repr(x)` of CPython (trusted parameter, used only for the
cast to xs:string).  `dec d`: a Decimal built from a literal. -/
inductive Atom
  | str (s : Str)
  | untyped (s : Str)
  | bool (b : Bool)
  | int (v : Int)
  | dec (d : PyDec)
  | dbl (x : Dbl) (r : Str)
deriving Repr

inductive Target
  | string | untypedAtomic | boolean
  | integer (b : Bounds)
  | decimal | double | float
deriving DecidableEq, Repr

/-- result of a cast; decimals as `(sign, coefficient, scale)` of `Decimal.as_tuple()`; doubles by
class only (the finite value is `float(...)` of CPython) -/
inductive CVal
  | str (s : Str)
  | untyped (s : Str)
  | bool (b : Bool)
  | int (v : Int)
  | dec (neg : Bool) (coef scale : Nat)
  | dbl (c : DblClass)
deriving DecidableEq, Repr

inductive CErr | FORG0001 | FOCA0002 | XPTY0004
deriving DecidableEq, Repr

/-- a Decimal given by `(sign, coefficient, scale)` as digit strings (for printing):
`format(d, 'f')` pads the coefficient with zeros up to `scale + 1` digits -/
def pyDecOfTuple (neg : Bool) (coef scale : Nat) : PyDec :=
  let ds := Nat.toDigits 10 coef
  let padded := List.replicate (scale + 1 - ds.length) '0' ++ ds
  ⟨neg, padded.take (padded.length - scale), padded.drop (padded.length - scale)⟩

/-- `int(Decimal)` / `int(float)`: truncation toward zero -/
def truncQuot (neg : Bool) (num den : Nat) : Int :=
  if neg then -((num / den : Nat) : Int) else ((num / den : Nat) : Int)

/-- xpath_tokens/base.py `string_value(float)` given `r = repr(x)` (the pinned helper, since fix-c10-7 used for zero and for
the XPath 1.0 parser only): strip a trailing `.0`-style fraction (fixed notation only), drop '+', upper-case an exponent form -/
def rstrip (c : Char) (s : Str) : Str := (s.reverse.dropWhile (· == c)).reverse

def pinnedFloatStr (r : Str) : Str :=
  let v := if r.contains '.' && !r.contains 'e' then rstrip '.' (rstrip '0' r) else r
  let v := if v.contains '+' then v.filter (· != '+') else v
  if v.contains 'e' then v.map Char.toUpper else v

/-- `Decimal(repr(x)).as_tuple()` for the repr of a finite double: sign, the digits of the coefficient (an integer: no
leading zeros, `'0'` for zero) and the exponent — `repr` is `[-]d+.d+` or `[-]d[.d+]e±dd` -/
def decTupleOfRepr (r : Str) : Bool × Str × Int :=
  let neg := r.head? == some '-'
  let body := if neg then r.drop 1 else r
  let mant := body.takeWhile (· != 'e')
  let ex := (body.dropWhile (· != 'e')).drop 1
  let ip := mant.takeWhile (· != '.')
  let fp := (mant.dropWhile (· != '.')).drop 1
  let coef := (ip ++ fp).dropWhile (· == '0')
  (neg, if coef.isEmpty then ['0'] else coef, intOfLex ex - (fp.length : Int))

/-- xpath_tokens/base.py `atomic_string_value` (fix-c10-7), the branch of a finite non-zero double, on the tuple
`sign, digits, exponent = Decimal(repr(obj)).as_tuple()`: `text = digits.rstrip('0')`, `exponent += len(digits) - 1`,
decimal notation for `-6 <= exponent < 6`, else `d.dddE<exponent>` -/
def dblOfTuple (neg : Bool) (digits : Str) (exp : Int) : Str :=
  let text := rstrip '0' digits
  let e : Int := exp + (digits.length : Int) - 1
  let body : Str :=
    if -6 ≤ e ∧ e < 6 then
      if e < 0 then '0' :: '.' :: (List.replicate ((-e).toNat - 1) '0' ++ text)
      else if text.length ≤ e.toNat + 1 then text ++ List.replicate (e.toNat + 1 - text.length) '0'
      else text.take (e.toNat + 1) ++ '.' :: text.drop (e.toNat + 1)
    else
      (match text with
        | [] => ['0', '.', '0']
        | d :: r => d :: '.' :: (if r.isEmpty then ['0'] else r)) ++ 'E' :: intCanon e
  (if neg then ['-'] else []) ++ body       -- `prefix + …` in every return

/-- the string of a double for fn:string, xs:string(), `cast as xs:string` and every function that takes the string value of
an atomic argument (`atomic_string_value`, XPath 2.0+) -/
def dblString (x : Dbl) (r : Str) : Str :=
  match x with
  | .nan => "NaN".toList
  | .pinf => "INF".toList
  | .ninf => "-INF".toList
  | .fin _ n _ =>
    if n == 0 then pinnedFloatStr r
    else
      let t := decTupleOfRepr r
      dblOfTuple t.1 t.2.1 t.2.2

/-- `string_value(obj)` for the operand kinds of this corner -/
def stringValue : Atom → Str
  | .str s => s
  | .untyped s => s
  | .bool b => if b then "true".toList else "false".toList
  | .int v => intCanon v
  | .dec d => decCanon d
  | .dbl x r => dblString x r

def dblIsZero : Dbl → Bool
  | .fin _ n _ => n == 0
  | _ => false

/-- `float(str(v))` of an integer: CPython's correctly rounded conversion gives ±inf — with the sign of the integer — from
2^1024 − 2^970 on (the midpoint between the largest finite double and 2^1024 rounds to even, i.e. up), a finite double below -/
def intDblClass (v : Int) : DblClass :=
  if v ≥ 2 ^ 1024 - 2 ^ 970 then .pinf else if v ≤ -(2 ^ 1024 - 2 ^ 970) then .ninf else .num

/-- the cast itself (one function for `cast as`, the constructor function and `castable`) -/
def cast (ver : Ver) (a : Atom) (t : Target) : Except CErr CVal :=
  match t with
  | .string => .ok (.str (stringValue a))                      -- cast__string_type
  | .untypedAtomic => .ok (.untyped (stringValue a))           -- cast__untyped_atomic (fix-c10)
  | .boolean =>                                                -- cast__boolean_type / BooleanProxy.__new__
    match a with
    | .str s | .untyped s =>
      (match boolCtor s with | .ok b => .ok (.bool b) | .error _ => .error .FORG0001)
    | .bool b => .ok (.bool b)
    | .int v => .ok (.bool (v != 0))
    | .dec d => .ok (.bool (d.coef != 0))
    | .dbl x _ => .ok (.bool (match x with | .nan => false | .fin _ n _ => n != 0 | _ => true))
  | .integer b =>                                              -- cast__integer_types / Integer.__new__/__init__
    match a with
    | .str s | .untyped s =>
      (match intCtor b s with | .ok v => .ok (.int v) | .error _ => .error .FORG0001)
    | .bool x => let v : Int := if x then 1 else 0
                 if b.ok v then .ok (.int v) else .error .FORG0001
    | .int v => if b.ok v then .ok (.int v) else .error .FORG0001
    | .dec d => let v := truncQuot d.neg d.coef (10 ^ d.scale)
                if b.ok v then .ok (.int v) else .error .FOCA0002
    | .dbl x _ =>
      match x with
      | .fin neg n k => let v := truncQuot neg n (2 ^ k)
                        if b.ok v then .ok (.int v) else .error .FOCA0002
      | _ => .error .FOCA0002            -- ValueError (NaN) / OverflowError (INF), operand not a string
  | .decimal =>                                                -- cast__numeric_types / DecimalProxy.__new__
    match a with
    | .str s | .untyped s =>
      (match decCtor s with | .ok d => .ok (.dec d.neg d.coef d.scale) | .error _ => .error .FORG0001)
    | .bool x => .ok (.dec false (if x then 1 else 0) 0)
    | .int v => .ok (.dec (decide (v < 0)) v.natAbs 0)
    | .dec d => .ok (.dec d.neg d.coef d.scale)
    | .dbl x _ =>
      match x with
      | .fin neg n k => .ok (.dec neg (n * 5 ^ k) k)           -- Decimal.from_float: exact
      | _ => .error .FOCA0002
  | .double | .float =>                                        -- cast__numeric_types / get_double / Float.__new__
    match a with
    | .str s | .untyped s =>
      (match dblCtor ver s with | .ok c => .ok (.dbl c) | .error _ => .error .FORG0001)
    | .dbl x _ => .ok (.dbl (match x with | .nan => .nan | .pinf => .pinf | .ninf => .ninf | .fin _ _ _ => .num))
    | .int v => .ok (.dbl (intDblClass v))     -- helpers.get_double: `float(str(int(value)))`
    | _ => .ok (.dbl .num)

/-- `E castable as xs:T` -/
def castable (ver : Ver) (a : Atom) (t : Target) : Bool := (cast ver a t).toBool

end EPV.Lex

/-! ## timezones of the date/time/gregorian types

datatypes/datetime.py: every date/time pattern ends with the group
`(?P<tzinfo>Z|[+-](?:(?:0[0-9]|1[0-3]):[0-5][0-9]|14:00))?`; the matched text goes to
`Timezone.fromstring` (lines 57-70) and comes back through `Timezone.tzname` / `__str__` (102-115). -/
namespace EPV.Lex

/-- the `tzinfo` group (full match): `Z|[+-](?:(?:0[0-9]|1[0-3]):[0-5][0-9]|14:00)` -/
def matchTz : Str → Bool
  | ['Z'] => true
  | [sg, a, b, c, d, e] =>
    (sg == '+' || sg == '-') &&
    (((((a == '0' && isDigit b) || (a == '1' && ('0' ≤ b && b ≤ '3'))) && c == ':') &&
        ('0' ≤ d && d ≤ '5') && isDigit e) ||
     (a == '1' && b == '4' && c == ':' && d == '0' && e == '0'))
  | _ => false

/-- `Timezone.fromstring` on a text matched by the group, in minutes:
`hours, minutes = text.split(':')`; when `hours.startswith('-')` the offset is
`timedelta(hours=int(hours), minutes=-int(minutes))` (so `-00:30` is −30), else `+`; `'Z'` is 0. -/
def tzOfLex : Str → Int
  | ['Z'] => 0
  | [sg, a, b, _, d, e] =>
    if sg == '-' then intOfLex [sg, a, b] * 60 - (digitsVal [d, e] : Int)
    else intOfLex [sg, a, b] * 60 + (digitsVal [d, e] : Int)
  | _ => 0

def tzParse (s : Str) : Option Int := if matchTz s then some (tzOfLex s) else none

/-- two decimal digits, zero padded (`'{:02d}'`) -/
def twoDigits (n : Nat) : Str :=
  if n < 10 then '0' :: Nat.toDigits 10 n else Nat.toDigits 10 n

/-- `Timezone.tzname`: `'Z'` for a zero offset, else sign, `hh:mm` of the absolute value -/
def tzCanon (m : Int) : Str :=
  if m == 0 then ['Z']
  else (if m < 0 then '-' else '+') :: (twoDigits (m.natAbs / 60) ++ ':' :: twoDigits (m.natAbs % 60))

end EPV.Lex

/-! ## durations (xs:duration, xs:yearMonthDuration, xs:dayTimeDuration)

datatypes/datetime.py `Duration.pattern`
`^(-)?P(?=[0-9]|T)(?:([0-9]+)Y)?(?:([0-9]+)M)?(?:([0-9]+)D)?(?:T(?=[0-9])(?:([0-9]+)H)?(?:([0-9]+)M)?(?:([0-9]+(?:\.[0-9]+)?)S)?)?$`,
`Duration.fromstring` (strip of XML white space — fix-c10-2 —, the match, months and seconds, the checks of
the derived types — fix-c10-2 —) and `Duration.__init__` (overflow limits, quantisation to microseconds). -/
namespace EPV.Lex

/-- `(?:([0-9]+)<des>)?` at the head of `s`: the digits and the rest, or nothing consumed -/
def readItem (des : Char) (s : Str) : Option Str × Str :=
  let ds := s.takeWhile isDigit
  match s.dropWhile isDigit with
  | c :: r => if !ds.isEmpty && c == des then (some ds, r) else (none, s)
  | [] => (none, s)

/-- a sequence of optional items with the given designators, in order -/
def readItems : List Char → Str → List (Option Str) × Str
  | [], s => ([], s)
  | des :: more, s =>
    let (v, r) := readItem des s
    let (vs, r') := readItems more r
    (v :: vs, r')

/-- `(?:([0-9]+(?:\.[0-9]+)?)S)?` : whole digits and optional fraction digits -/
def readSec (s : Str) : Option (Str × Option Str) × Str :=
  let ds := s.takeWhile isDigit
  if ds.isEmpty then (none, s) else
  match s.dropWhile isDigit with
  | 'S' :: r => (some (ds, none), r)
  | '.' :: f =>
    let fs := f.takeWhile isDigit
    (match f.dropWhile isDigit with
     | 'S' :: r => if fs.isEmpty then (none, s) else (some (ds, some fs), r)
     | _ => (none, s))
  | _ => (none, s)

structure DurParts where
  neg : Bool
  date : List (Option Str)          -- years, months, days
  time : List (Option Str)          -- hours, minutes
  sec : Option (Str × Option Str)   -- whole and fraction digits of the seconds
deriving DecidableEq, Repr

def startsDigit : Str → Bool
  | c :: _ => isDigit c
  | [] => false

/-- the pattern after `^(-)?P`: lookahead, date items, optional time part, end -/
def durBody (neg : Bool) (b : Str) : Option DurParts :=
  if !(startsDigit b || b.head? == some 'T') then none else          -- `(?=[0-9]|T)`
  match readItems ['Y', 'M', 'D'] b with
  | (dv, []) => some ⟨neg, dv, [none, none], none⟩
  | (dv, 'T' :: t) =>
    if !startsDigit t then none else                                  -- `(?=[0-9])`
    match readItems ['H', 'M'] t with
    | (tv, r2) =>
      match readSec r2 with
      | (sv, r3) => if r3.isEmpty then some ⟨neg, dv, tv, sv⟩ else none
  | _ => none

/-- the match of `Duration.pattern` on a stripped string: the captured groups -/
def durParse : Str → Option DurParts
  | '-' :: 'P' :: b => durBody true b
  | 'P' :: b => durBody false b
  | _ => none

def optNat : Option Str → Nat
  | some ds => digitsVal ds
  | none => 0

inductive DurKind | duration | yearMonth | dayTime
deriving DecidableEq, Repr

inductive DErr | value | overflow
deriving DecidableEq, Repr

/-- `Decimal(seconds).quantize(Decimal('1.000000'))` of a non-negative `num / 10^scale`, in microseconds:
ROUND_HALF_EVEN (the default of the `decimal` context) -/
def quantizeMicro (num scale : Nat) : Nat :=
  if scale ≤ 6 then num * 10 ^ (6 - scale)
  else
    let p := 10 ^ (scale - 6)
    let q := num / p
    let r := num % p
    if 2 * r < p then q else if 2 * r > p then q + 1 else (if q % 2 == 0 then q else q + 1)

def secWhole : Option (Str × Option Str) → Str
  | some (a, _) => a
  | none => []

def secFrac : Option (Str × Option Str) → Str
  | some (_, some f) => f
  | _ => []

/-- `months = int(mo or 0) + 12 * int(y or 0)` -/
def durMonths (p : DurParts) : Nat := optNat (p.date.getD 1 none) + 12 * optNat (p.date.getD 0 none)
/-- number of fraction digits of the seconds -/
def durScale (p : DurParts) : Nat := (secFrac p.sec).length
/-- the exact seconds `Decimal(s) + 60 mi + 3600 h + 86400 d` as `durSecNum / 10^durScale` -/
def durSecNum (p : DurParts) : Nat :=
  digitsVal (secWhole p.sec ++ secFrac p.sec) +
    (60 * optNat (p.time.getD 1 none) + 3600 * optNat (p.time.getD 0 none) + 86400 * optNat (p.date.getD 2 none)) *
      10 ^ durScale p

def hasYM (p : DurParts) : Bool := (p.date.getD 0 none).isSome || (p.date.getD 1 none).isSome
def hasDT (p : DurParts) : Bool :=
  (p.date.getD 2 none).isSome || (p.time.getD 0 none).isSome || (p.time.getD 1 none).isSome || p.sec.isSome

/-- the checks after the match: derived types (fix-c10-2), `Duration.__init__` limits, quantisation -/
def durCheck (k : DurKind) (p : DurParts) : Except DErr (Int × Int) :=
  if k == .dayTime && (durMonths p != 0 || hasYM p) then .error .value
  else if k == .yearMonth && (durSecNum p != 0 || hasDT p) then .error .value
  else if durMonths p > 2 ^ 31 then .error .overflow
  else if durSecNum p > 2 ^ 63 * 10 ^ durScale p then .error .overflow
  else if p.neg then .ok (-(durMonths p : Int), -(quantizeMicro (durSecNum p) (durScale p) : Int))
  else .ok ((durMonths p : Int), (quantizeMicro (durSecNum p) (durScale p) : Int))

/-- `Duration.fromstring` + `__init__`: (months, microseconds), both carrying the sign -/
def durCtor (k : DurKind) (s : Str) : Except DErr (Int × Int) :=
  match durParse (pyStrip s) with
  | none => .error .value
  | some p => durCheck k p

end EPV.Lex

/-! ## xs:time and the year-free gregorian types (xs:gDay, xs:gMonth, xs:gMonthDay)

datatypes/datetime.py: the class patterns (`[0-9]{2}` fields, optional fraction, the `tzinfo` group) and
`AbstractDateTime.fromstring` + `__init__`: fields through `int()`, fraction cut/padded to microseconds, the
end-of-day form `24:00:00(.0+)?` (fix-c10-2: only zeros), and the range checks of
`datetime.datetime(2000, month or 1, day or 1, hour, minute, second, microsecond)`. -/
namespace EPV.Lex

inductive GKind | gDay | gMonth | gMonthDay | time
deriving DecidableEq, Repr

/-- fields of the value; absent fields keep the defaults of `__init__` -/
structure DTVal where
  month : Nat := 1
  day : Nat := 1
  hour : Nat := 0
  minute : Nat := 0
  second : Nat := 0
  micro : Nat := 0
  tz : Option Int := none
deriving DecidableEq, Repr

/-- `[0-9]{2}` and its `int()` -/
def twoVal (a b : Char) : Option Nat := if isDigit a && isDigit b then some (digitsVal [a, b]) else none

/-- the optional `tzinfo` group followed by `$` -/
def tzOpt : Str → Option (Option Int)
  | [] => some none
  | r => (tzParse r).map some

/-- days of the month in the default year 2000 (a leap year) -/
def daysIn2000 (m : Nat) : Nat := [31, 29, 31, 30, 31, 30, 31, 31, 30, 31, 30, 31].getD (m - 1) 0

/-- `(?:\.([0-9]+))?` : the fraction digits and the rest -/
def readFraction : Str → Option (Str × Str)
  | '.' :: rest =>
    let fs := rest.takeWhile isDigit
    if fs.isEmpty then none else some (fs, rest.dropWhile isDigit)
  | r => some ([], r)

/-- `int((fs + '000000')[:6])` -/
def microOf (fs : Str) : Nat := digitsVal ((fs ++ List.replicate 6 '0').take 6)

/-- xs:gDay `^---(?P<day>[0-9]{2})(?P<tzinfo>…)?$` + `datetime(2000, 1, day)` -/
def parseGDay : Str → Option DTVal
  | '-' :: '-' :: '-' :: a :: b :: r =>
    match twoVal a b, tzOpt r with
    | some d, some tz => if 1 ≤ d ∧ d ≤ 31 then some { day := d, tz := tz } else none
    | _, _ => none
  | _ => none

/-- xs:gMonth `^--(?P<month>[0-9]{2})(?P<tzinfo>…)?$` + `datetime(2000, month, 1)` -/
def parseGMonth : Str → Option DTVal
  | '-' :: '-' :: a :: b :: r =>
    match twoVal a b, tzOpt r with
    | some m, some tz => if 1 ≤ m ∧ m ≤ 12 then some { month := m, tz := tz } else none
    | _, _ => none
  | _ => none

/-- xs:gMonthDay `^--(?P<month>[0-9]{2})-(?P<day>[0-9]{2})(?P<tzinfo>…)?$` + `datetime(2000, month, day)` -/
def parseGMonthDay : Str → Option DTVal
  | '-' :: '-' :: a :: b :: '-' :: c :: d :: r =>
    match twoVal a b, twoVal c d, tzOpt r with
    | some m, some dd, some tz =>
      if 1 ≤ m ∧ m ≤ 12 ∧ 1 ≤ dd ∧ dd ≤ daysIn2000 m then some { month := m, day := dd, tz := tz } else none
    | _, _, _ => none
  | _ => none

/-- xs:time `^(?P<hour>[0-9]{2}):(?P<minute>[0-9]{2}):(?P<second>[0-9]{2})(?:\.(?P<microsecond>[0-9]+))?(?P<tzinfo>…)?$`
+ the end-of-day rule + `datetime(2000, 1, 1, hour, minute, second, microsecond)` -/
def parseTime : Str → Option DTVal
  | a :: b :: ':' :: c :: d :: ':' :: e :: f :: r =>
    match twoVal a b, twoVal c d, twoVal e f, readFraction r with
    | some h, some mi, some s, some (fs, r') =>
      match tzOpt r' with
      | some tz =>
        if h == 24 then
          (if mi == 0 && s == 0 && fs.all (· == '0') then some { tz := tz } else none)
        else if h ≤ 23 ∧ mi ≤ 59 ∧ s ≤ 59 then
          some { hour := h, minute := mi, second := s, micro := microOf fs, tz := tz }
        else none
      | none => none
    | _, _, _, _ => none
  | _ => none

/-- pattern match, field conversion and the range checks, for a string already trimmed -/
def gParse : GKind → Str → Option DTVal
  | .gDay => parseGDay
  | .gMonth => parseGMonth
  | .gMonthDay => parseGMonthDay
  | .time => parseTime

/-- `T.fromstring(s)` for the four year-free kinds -/
def gCtor (k : GKind) (s : Str) : Option DTVal := gParse k (pyStrip s)

end EPV.Lex

namespace EPV.Lex

/-- `E cast as xs:T` / `E cast as xs:T?` on the atomised operand sequence
(xpath2/_xpath2_operators.py:372-383): more than one item is XPTY0004, the empty sequence is the empty
sequence with `?` and XPTY0004 without -/
def castSeq (ver : Ver) (items : List Atom) (opt : Bool) (t : Target) : Except CErr (Option CVal) :=
  match items with
  | [] => if opt then .ok none else .error .XPTY0004
  | [a] => match cast ver a t with | .ok v => .ok (some v) | .error e => .error e
  | _ => .error .XPTY0004

/-- `E castable as xs:T(?)` never raises: false where the cast would -/
def castableSeq (ver : Ver) (items : List Atom) (opt : Bool) (t : Target) : Bool := (castSeq ver items opt t).toBool

/-- the constructor function `xs:T(E)` (xpath_tokens/contructors.py:48-66): the empty sequence for an empty
argument, i.e. `E cast as xs:T?` -/
def ctorFn (ver : Ver) (items : List Atom) (t : Target) : Except CErr (Option CVal) := castSeq ver items true t

end EPV.Lex

/-! ## xs:language — datatypes/string.py `Language.pattern = ^[a-zA-Z]{1,8}(-[a-zA-Z0-9]{1,8})*$`,
`Language.__new__`: collapse, then the pattern -/
namespace EPV.Lex

def isAlpha (c : Char) : Bool := ('a' ≤ c && c ≤ 'z') || ('A' ≤ c && c ≤ 'Z')
def isAlnum (c : Char) : Bool := isAlpha c || isDigit c

/-- `(-[a-zA-Z0-9]{1,8})*$` -/
def langTail (s : Str) : Bool :=
  match s with
  | [] => true
  | c :: r =>
    if c == '-' then
      let part := r.takeWhile isAlnum
      (decide (1 ≤ part.length) && decide (part.length ≤ 8)) && langTail (r.dropWhile isAlnum)
    else false
termination_by s.length
decreasing_by
  simp only [List.length_cons]
  have := (List.dropWhile_sublist (l := r) isAlnum).length_le
  omega

/-- the whole pattern on a collapsed string -/
def matchLanguage (s : Str) : Bool :=
  let part := s.takeWhile isAlpha
  (decide (1 ≤ part.length) && decide (part.length ≤ 8)) && langTail (s.dropWhile isAlpha)

/-- `Language(s)` succeeds (the value is the collapsed string) -/
def langCtor (s : Str) : Option Str := if matchLanguage (collapse s) then some (collapse s) else none

end EPV.Lex

/-! ## the XML-name family: xs:Name, xs:NCName (xs:ID, xs:IDREF, xs:ENTITY), xs:NMTOKEN

datatypes/string.py: `Name.pattern = ^(?:[^\d\W]|:)[\w.\-:·̀-ͯ‿⁀]*$`,
`NCName.pattern = ^[^\d\W][\w.\-·̀-ͯ‿⁀]*$`, `NMToken.pattern = ^[\w.\-:…]+$`, constructor
`XsdToken.__new__`: collapse, then the pattern.  The character classes depend on CPython's Unicode tables for
`\w` and `\d`; they are *parameters* here — the translator enumerates, from the live patterns, the code points
accepted in first position and in later positions (`EPV.Gen.C10.ncnameStart`, … ), as half-open ranges. -/
namespace EPV.Lex

/-- membership of a code point in a list of half-open ranges -/
def inRanges (t : List (Nat × Nat)) (c : Char) : Bool := t.any fun r => decide (r.1 ≤ c.toNat) && decide (c.toNat < r.2)

/-- `^<first><later>*$` on a collapsed string; the empty string never matches -/
def matchNameLike (first later : List (Nat × Nat)) : Str → Bool
  | [] => false
  | c :: r => inRanges first c && r.all (inRanges later)

/-- `AbstractQName.pattern` `^(?:(?P<prefix>F L*):)?(?P<local>F L*)$` (neither class contains the colon): with a colon the
text before the first colon is the prefix and the rest the local name, without colon the whole string is the local name -/
def matchQName (pfirst plater first later : List (Nat × Nat)) (t : Str) : Bool :=
  if t.contains ':' then
    matchNameLike pfirst plater (t.takeWhile (· != ':')) && matchNameLike first later ((t.dropWhile (· != ':')).drop 1)
  else matchNameLike first later t

/-- `T(s)`: the collapsed string when it matches -/
def nameCtor (first later : List (Nat × Nat)) (s : Str) : Option Str :=
  if matchNameLike first later (collapse s) then some (collapse s) else none

end EPV.Lex

/-! ## the string types: xs:string, xs:untypedAtomic, xs:normalizedString, xs:token -/
namespace EPV.Lex

/-- string.py `NormalizedString.__new__`: `Patterns.normalize.sub(' ', obj)` with `normalize = [\t\n\r]`; `validate` accepts
every `str` (whiteSpace = replace) -/
def normStrCtor (s : Str) : Str := s.map fun c => if c == '\t' || c == '\n' || c == '\r' then ' ' else c

/-- `[^ \t\n\r]` -/
def isTokCh (c : Char) : Bool := !(c == ' ' || c == '\t' || c == '\n' || c == '\r')

/-- `XsdToken.pattern = ^[^ \t\n\r]*(?: [^ \t\n\r]+)*$` (`match`, Python's `$`): a space must be followed by a
non-white character -/
def tokScan : Str → Bool
  | [] => true
  | c :: rest =>
    if isTokCh c then tokScan rest
    else if c == ' ' then (match rest with | d :: _ => isTokCh d | [] => false) && tokScan rest
    else c == '\n' && rest.isEmpty

/-- string.py `XsdToken.__new__` on a `str`: collapse, then the pattern -/
def tokenCtor (s : Str) : Option Str := if tokScan (collapse s) then some (collapse s) else none

end EPV.Lex

/-! ## xs:anyURI (datatypes/uri.py) relative to `urllib.parse.urlparse`

`AnyURI.__init__`: `collapse_white_spaces`, then `validate`: `urlparse(value)` and `.port` (standard library — here an
*oracle*: whether it raised `ValueError`, and the `path` component it returned), then three checks of the library itself. -/
namespace EPV.Lex

/-- `Patterns.wrong_escape = %(?![a-fA-F\d]{2})` searched in the string; `\d` is ASCII-or-Unicode decimal digit in a `str`
pattern — the model takes the hexadecimal digits of ASCII, the harness compares on every case -/
def twoHex : Str → Bool
  | a :: b :: _ => isHexDigit a && isHexDigit b
  | _ => false

def wrongEscape : Str → Bool
  | [] => false
  | c :: r => (c == '%' && !twoHex r) || wrongEscape r

/-- the result: the collapsed string, or `ValueError` -/
def anyUriCtor (urlparseFails : Bool) (path : Str) (s : Str) : Option Str :=
  let v := collapse s
  if urlparseFails then none
  else if path.head? == some ':' then none
  else if v.count '#' > 1 then none
  else if wrongEscape v then none
  else some v

end EPV.Lex

/-! ## xs:QName from a string: the namespace of the value (qname.py `AbstractQName.make`, `__init__`) -/
namespace EPV.Lex

inductive QErr | value | nokey
deriving DecidableEq, Repr

/-- `namespaces.get(p)` on the parser's prefix map (the key `''` holds the `default_namespace`) -/
def lookupNs (ns : List (Str × Str)) (p : Str) : Option Str := (ns.find? (·.1 == p)).map (·.2)

/-- `AbstractQName.make(value, parser=…)` on a `str` (after fix-c10-6: the argument is stripped first), then
`AbstractQName.__init__(uri, qname)`: an unprefixed name gets `namespaces.get('')`, a prefixed one `namespaces[prefix]`
(`KeyError` → FONS0004); the pattern (`lexOk`, = `matchQName` on the generated tables) and "a prefix needs a non-empty
namespace" are `ValueError`s.  Result: (namespace URI or `''`, prefix or `''`, local name). -/
def qnameMake (lexOk : Str → Bool) (ns : List (Str × Str)) (s : Str) : Except QErr (Str × Str × Str) :=
  let v := pyStrip s
  let hasColon := v.contains ':'
  let pre := if hasColon then v.takeWhile (· != ':') else []
  match (if hasColon then lookupNs ns pre else some ((lookupNs ns []).getD [])) with
  | none => .error .nokey
  | some uri =>
    if !lexOk v then .error .value
    else if uri.isEmpty && hasColon then .error .value
    else .ok (uri, pre, if hasColon then (v.dropWhile (· != ':')).drop 1 else v)

end EPV.Lex

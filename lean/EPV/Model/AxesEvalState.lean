/-
C01 — a state-threading reading of `token.select(context)` for the whole fragment: the CONSUMERS
of the context iterators.  `evalS e c` = (value, state in which the caller's `XPathContext` is left
after the generator `e.select(context)` has been exhausted), where the state is
(`context.item`, `context.axis`, `context.position`, `context.size`).

Where the state goes, construct by construct (line numbers: /repo HEAD):
  * step (`_xpath1_axes.py`): the axis generator mutates and restores (EPV/Model/AxesState.lean);
    the namespace axis assigns `context.item` for every matching namespace node and gives it back in a `finally`
  * `[`  (`select__predicate`): `self[0].select_with_focus(context)` saves `status`, (non-axis tokens:
    sets `axis = None` first), runs the base expression on the SAME context, then loops assigning
    item / position / size, each predicate on `copy(context)`; `status` written back at the end
  * `/`, `//` two operands: the same `select_with_focus` loop, the right operand runs on the SAME context
    inside the loop (state threaded from one iteration to the next), `status` written back at the end
  * leading `/`, `//`: saves `item`, moves it to the document / root, runs the operand on the same
    context, writes `item` back
  * `(`…`)`: passes the context through;  `count`: runs its argument on the same context
  * `|`, comparisons (`atomization`), `and`, `or`, `not`: every operand on its own `copy(context)`
  * `not(…)`: its argument on `copy(context)` (`boolean_value` abandons that generator at the first
    node; since fix 1b26724 nothing of it reaches the caller)
`EPV/Lemmas/AxesEvalState.lean` proves that the values are those of the pure evaluator `eval` and that
every typed expression gives the caller's context back unchanged.
-/
import EPV.Model.AxesState
namespace EPV.XP

/-- `context.item`, `context.axis`, `context.position`, `context.size` -/
structure SCtx where
  item : Nat
  axis : Option Axis
  pos : Nat
  size : Nat
  deriving DecidableEq, Repr, Inhabited

def SCtx.focus (c : SCtx) : Focus := ⟨c.item, c.pos, c.size⟩
def SCtx.ia (c : SCtx) : Ctx := ⟨c.item, c.axis⟩
def SCtx.setIA (c : SCtx) (k : Ctx) : SCtx := { c with item := k.item, axis := k.axis }
/-- `copy(context)`: `XPathContext.__copy__` resets the axis -/
def SCtx.copy (c : SCtx) : SCtx := { c with axis := none }
def SCtx.ofFocus (f : Focus) : SCtx := ⟨f.item, none, f.pos, f.size⟩

/-- one step, with the state it leaves -/
def stepS (m : Mode) (a : Arr) (ax : Axis) (t : Test) (abbr : Bool) (c : SCtx) : List Nat × SCtx :=
  if ax == .namespace then
    -- `for item in elem.namespace_nodes: if name matches: context.item = item; yield item`
    -- …; `finally: context.item = elem` gives the focus back (fix ca057dd)
    let l := (iterNamespaces a c.item).filter (matchTest m a .ns t)
    (l, c)
  else if abbr && ax == .child then
    -- the test token itself: `iter_matching_nodes` / `iter_children_or_self`
    let tr := exec (prog m a .child c.ia) c.ia
    (if c.axis.isSome then testAtYield m a t c.ia else (tr.1.map (·.1)).filter (matchTest m a .elem t),
     c.setIA tr.2)
  else
    let tr := exec (axisProg m a ax c.ia) c.ia
    (tr.1.flatMap fun yc => testAtYield m a t yc.2, c.setIA tr.2)

/-- the loop of `select_with_focus`: item / position / size assigned per iteration, the body `g` runs
on the same context and its state is carried into the next iteration -/
def loopS (g : SCtx → Val × SCtx) : List Focus → SCtx → List Val × SCtx
  | [], c => ([], c)
  | f :: fs, c =>
    let r := g { c with item := f.item, pos := f.pos, size := f.size }
    let rest := loopS g fs r.2
    (r.1 :: rest.1, rest.2)

/-- is the token an `XPathAxis` (its `select_with_focus` does not reset the axis before selecting)? -/
def isAxisTok : Expr → Bool
  | .step _ _ abbr => !abbr        -- `@` and abbreviated steps are plain tokens (base `select_with_focus`)
  | _ => false

/-- state in which `select_with_focus` runs `self.select(context)` -/
def swfEntry (e : Expr) (c : SCtx) : SCtx := if isAxisTok e then c else { c with axis := none }

def valNodes : Option (List Nat) → Val
  | some rs => .nodes (docOrder rs)
  | none => .err

def evalS (m : Mode) (a : Arr) : Expr → SCtx → Val × SCtx
  | .step ax t ab, c => let r := stepS m a ax t ab c; (.nodes r.1, r.2)
  | .ctxItem, c => (.nodes (iterSelf c.item), c.setIA (exec (prog m a .self c.ia) c.ia).2)
  | .parentAbbr, c => (.nodes (iterParent m a c.item), c.setIA (exec (prog m a .parent c.ia) c.ia).2)
  | .pred e p, c =>
    match (evalS m a e (swfEntry e c)).1 with
    | .nodes l =>
      let foc := predFocus e l
      (ofOpt (filterFlags foc (foc.map fun f' => keep (evalS m a p (SCtx.ofFocus f')).1 f')), c)
    | _ => (.err, c)
  | .slash l r, c =>
    match (evalS m a l (swfEntry l c)).1 with
    | .nodes ls =>
      let res := loopS (evalS m a r) (selectWithFocus l ls) { c with axis := none }
      (valNodes (collect res.1), c)
    | _ => (.err, c)
  | .dslash l r, c =>
    match (evalS m a l (swfEntry l c)).1 with
    | .nodes ls =>
      let foc2 := (selectWithFocus l ls).flatMap fun f' =>
        (iterDescendants m a true f'.item).map fun d => { f' with item := d }
      let res := loopS (evalS m a r) foc2 { c with axis := none }
      (valNodes (collect res.1), c)
    | _ => (.err, c)
  | .rootOnly, c => (.nodes (if m == .doc then [0] else []), c)
  | .root e, c =>
    let r := evalS m a e { c with item := 0 }
    (r.1, { r.2 with item := c.item })
  | .droot e, c =>
    let foc := (iterDescendants m a true 0).map fun d => (⟨d, c.pos, c.size⟩ : Focus)
    let res := loopS (evalS m a e) foc { c with item := 0, axis := none }
    -- `iter_descendants` writes (item, axis) back, then `context.item = item`
    (valNodes (collect res.1), { res.2 with item := c.item, axis := c.axis })
  | .paren e, c => evalS m a e c
  | .union l r, c =>
    (match (evalS m a l c.copy).1, (evalS m a r c.copy).1 with
     | .nodes x, .nodes y => .nodes (docOrder (x ++ y))
     | _, _ => .err, c)
  | .count e, c =>
    let r := evalS m a e c
    (match r.1 with | .nodes l => .num l.length | _ => .err, r.2)
  | .num k, c => (.num k, c)
  | .lit neg t, c => (.dec neg t, c)
  | .position, c => (.num c.pos, c)
  | .last, c => (.num c.size, c)
  | .cmp op l r, c =>
    (match (evalS m a l c.copy).1, (evalS m a r c.copy).1 with
     | .num x, .num y => .bool (cmpNat op x y)
     | _, _ => .err, c)
  | .and l r, c => (andVal' (evalS m a l c.copy).1 (evalS m a r c.copy).1, c)
  | .or l r, c => (orVal' (evalS m a l c.copy).1 (evalS m a r c.copy).1, c)
  | .not e, c =>
    -- `evaluate__not`: `not self.boolean_value(self[0].select(copy(context)))`
    (match ebv (evalS m a e c.copy).1 with | some b => .bool (!b) | none => .err, c)
where
  andVal' (x y : Val) : Val :=
    match ebv x with
    | some true => (match ebv y with | some b => .bool b | none => .err)
    | some false => .bool false
    | none => .err
  orVal' (x y : Val) : Val :=
    match ebv x with
    | some false => (match ebv y with | some b => .bool b | none => .err)
    | some true => .bool true
    | none => .err

end EPV.XP

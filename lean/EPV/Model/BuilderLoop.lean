/-
C02 — the *iterative* form of the tree builders: a literal transcription of the `while True: for elem
in children: … else: … pop …` loop of `build_node_tree` (tree_builders.py:141-188) and
`build_lxml_node_tree` (l. 272-328) with its explicit `iterators` / `ancestors` stacks, the current
`parent`, the running `position`, and `parent.children[-1].elem.tail` looked up among the nodes
created so far.  `EPV/Lemmas/BuilderLoop.lean` proves that it creates exactly the nodes, positions
and parent links of the recursive `buildKids` of EPV/Model/Builder.lean.  Core Lean only.
-/
import EPV.Model.Builder
namespace EPV.Builder

/-- a node at the moment it is constructed: what `iter` will report for it (its parent is given by
position) and the `tail` of the etree object it wraps (`node.elem.tail`; `none` for text nodes) -/
structure Ev where
  node : Rec
  srcTail : Option String
  deriving Repr, DecidableEq, Inhabited

/-- `EtreeElementNode(elem, parent, position)` / `CommentNode(...)` / `ProcessingInstructionNode(...)` -/
def evOf (a p : Nat) : XTree → Ev
  | .elem name nsmap attrib text kids tail =>
      ⟨{ kind := .element, name := some name, pos := p, parent := some a,
         sv := elemStringValue (.elem name nsmap attrib text kids tail) }, tail⟩
  | .comment s tail => ⟨{ kind := .comment, name := none, pos := p, parent := some a, sv := s }, tail⟩
  | .pi t s tail => ⟨{ kind := .pi, name := some t, pos := p, parent := some a, sv := s }, tail⟩

/-- `TextNode(text, parent, position)` -/
def textEv (a p : Nat) (s : String) : Ev :=
  ⟨{ kind := .text, name := none, pos := p, parent := some a, sv := s }, none⟩

/-- the loop variables -/
structure Loop where
  position : Nat
  /-- the rest of the `children` iterator -/
  children : List XTree
  /-- the current `parent` node (by position) -/
  parent : Nat
  iterators : List (List XTree)
  ancestors : List Nat
  /-- every node constructed so far, in construction order -/
  out : List Ev
  deriving Repr

inductive StepResult where
  | next (s : Loop)
  | done (out : List Ev)      -- `return` after `IndexError` on the empty stacks
  | crash                     -- an exception the Python would not catch
  deriving Repr

/-- `parent.children[-1]`: the most recently constructed node whose parent is `a` -/
def lastChildOf (a : Nat) (out : List Ev) : Option Ev :=
  out.reverse.find? (fun ev => ev.node.parent == some a)

/-- position after the gap and the optional text child of a freshly created node -/
def afterCreate (c : Cfg) (p : Nat) : XTree → List Ev × Nat
  | .elem _ nsmap attrib text _ _ =>
      let p1 := p + nsOffset (c.nsmapOf nsmap) + attrib.length       -- l. 150 / 281-284
      match text with
      | some s => ([textEv p p1 s], p1 + 1)                           -- l. 152-154
      | none => ([], p1)
  | _ => ([], p + 1)                                                  -- l. 156-161

/-- one pass through the body of `for elem in children` or, when the iterator is exhausted, through
the `else` branch -/
def step (c : Cfg) (s : Loop) : StepResult :=
  match s.children with
  | e :: rest =>
      let child := evOf s.parent s.position e
      let ac := afterCreate c s.position e
      let out1 := s.out ++ child :: ac.1
      if !e.kids.isEmpty then                                          -- `if len(elem):` l. 163-168
        .next { position := ac.2, children := e.kids, parent := s.position,
                iterators := rest :: s.iterators, ancestors := s.parent :: s.ancestors, out := out1 }
      else
        match e.tail with                                              -- l. 170-172
        | some tl => .next { s with position := ac.2 + 1, children := rest,
                                    out := out1 ++ [textEv s.parent ac.2 tl] }
        | none => .next { s with position := ac.2, children := rest, out := out1 }
  | [] =>
      match s.iterators, s.ancestors with                              -- l. 174-175
      | it :: its, a :: as =>
          match lastChildOf a s.out with                               -- l. 186 `parent.children[-1]`
          | none => .crash
          | some ev =>
            match ev.srcTail with
            | some tl => .next { position := s.position + 1, children := it, parent := a, iterators := its,
                                 ancestors := as, out := s.out ++ [textEv a s.position tl] }
            | none => .next { position := s.position, children := it, parent := a, iterators := its,
                              ancestors := as, out := s.out }
      | _, _ => .done s.out                                            -- l. 176-184

/-- `while True:` with a step budget (`none` = budget exhausted or crash) -/
def run (c : Cfg) : Nat → Loop → Option (List Ev)
  | 0, _ => none
  | f + 1, s =>
    match step c s with
    | .next s' => run c f s'
    | .done out => some out
    | .crash => none

/-- the root element node: `EtreeElementNode(root_elem, document_node | None, position)` -/
def rootEv (par : Option Nat) (p : Nat) (e : XTree) : Ev :=
  ⟨{ (evOf 0 p e).node with parent := par }, (evOf 0 p e).srcTail⟩

/-- the state in which the loop is entered for the root element `e` created at `p` under `par`
(tree_builders.py:125-144 / 243-275) -/
def enterLoop (c : Cfg) (par : Option Nat) (p : Nat) (e : XTree) : Loop :=
  let ac := afterCreate c p e
  { position := ac.2, children := e.kids, parent := p, iterators := [], ancestors := [],
    out := rootEv par p e :: ac.1 }

/-- number of nodes of a subtree (its tails excluded); `2 * size + 1` steps always suffice -/
def XTree.size : XTree → Nat
  | .elem _ _ _ _ kids _ => 1 + sizeKids kids
  | _ => 1
where sizeKids : List XTree → Nat
  | [] => 0
  | t :: ts => t.size + sizeKids ts

end EPV.Builder

/-
C05 extension (phase 5): focus-dependent sub-expressions evaluated repeatedly by ONE token.

Model of the evaluation of map / array constructors, `||`, `+`, `>` over `.`, `position()`, `last()`
inside `!`, `for` and predicates, WITH the state a syntax token keeps between evaluations made explicit:
the `_map` / `_array` slot of a constructor token.

Python (elementpath/xpath_tokens/maps.py, arrays.py; /repo c343e48):
  XPathMap.evaluate 202-211    : `if self._map is not None: return self` else a NEW XPathMap built from
                                 `(get_key(k, context), v.evaluate(context))`  — the slot of a SYNTAX token is
                                 never written, so every evaluation rebuilds the map at the current focus
  XPathMap._evaluate 227-240   : duplicate key → XQDY0137
  XPathArray.evaluate 90-93, _evaluate 95-103 : `[E]` one member per item expression, `array{E}` one member
                                 per item of the sequence
  XPathMap.__call__/values, XPathArray.items (the lookup operator `?k`, `?*`)
  `!` evaluate__simple_map_operator, predicates `[`: the right operand is evaluated once per item of the left
                                 operand with focus (item, position, size)
  `for`: the body is evaluated once per item with the variable bound, focus unchanged.

`FQuirks.constCache = true` is the seeded regression: a constructor whose entries contain no `$` stores the
built value in its slot at the first evaluation and answers from the slot afterwards.
-/
namespace EPV.FocusCtor

inductive Atom where
  | int (i : Int)
  | str (s : String)
  | bool (b : Bool)
  deriving DecidableEq, Repr

inductive Item where
  | atom (a : Atom)
  | map (es : List (String × List Atom))
  | arr (ms : List (List Atom))
  deriving DecidableEq, Repr

abbrev Val := List Item

inductive Err where
  | type      -- XPTY0004 / FORG0006 / FOTY0013
  | nofocus   -- XPDY0002
  | unbound   -- XPST0008
  | dup       -- XQDY0137
  deriving DecidableEq, Repr

inductive FExpr where
  | int (n : Int)
  | str (s : String)
  | dot
  | pos
  | last
  | var (x : Nat)
  | add (a b : FExpr)
  | cat (a b : FExpr)
  | gt (a b : FExpr)
  | seq (a b : FExpr)
  | mapC (k : String) (e : FExpr)
  | mapC2 (k1 : String) (e1 : FExpr) (k2 : String) (e2 : FExpr)
  | arrSq (e : FExpr)
  | arrCurly (e : FExpr)
  | lookK (e : FExpr) (k : String)
  | lookStar (e : FExpr)
  | bang (a b : FExpr)
  | forE (x : Nat) (a b : FExpr)
  | pred (a b : FExpr)
  deriving DecidableEq, Repr

structure Focus where
  item : Item
  pos : Nat
  size : Nat
  deriving DecidableEq, Repr

abbrev Env := List (Nat × Val)

/-- the slots of the constructor tokens (token = its syntax; `none` = Python's `_map is None`) -/
abbrev Store := List (FExpr × Val)

structure FQuirks where
  constCache : Bool
  deriving DecidableEq, Repr

def FQuirks.reference : FQuirks := ⟨false⟩
def FQuirks.seeded : FQuirks := ⟨true⟩

/-- "contains no `$`" — what the seeded change took for "constant" -/
def FExpr.noVar : FExpr → Bool
  | .var _ => false
  | .add a b | .cat a b | .gt a b | .seq a b | .bang a b | .pred a b => a.noVar && b.noVar
  | .forE _ a b => a.noVar && b.noVar
  | .mapC _ e | .arrSq e | .arrCurly e | .lookK e _ | .lookStar e => e.noVar
  | .mapC2 _ a _ b => a.noVar && b.noVar
  | _ => true

/-- `r` is the error `e` (decidable form for kernel-checked witnesses) -/
def isErr (r : Except Err Val) (e : Err) : Bool :=
  match r with
  | .error x => decide (x = e)
  | .ok _ => false

/-! ### primitives (shared by model and specification: they are functions of VALUES only) -/

/-- the atoms of a sequence of atomic items; maps / arrays are not allowed as entries of the modelled
constructors (the generator never nests them) -/
def atomsOf : Val → Except Err (List Atom)
  | [] => .ok []
  | .atom a :: r => (atomsOf r).map (a :: ·)
  | _ :: _ => .error .type

def atomStr : Atom → String
  | .int i => toString i
  | .str s => s
  | .bool b => if b then "true" else "false"

/-- `||` (fn:concat of two zero-or-one atomic operands) -/
def catVals (a b : Val) : Except Err Val :=
  match atomsOf a, atomsOf b with
  | .ok [], .ok [] => .ok [.atom (.str "")]
  | .ok [x], .ok [] => .ok [.atom (.str (atomStr x))]
  | .ok [], .ok [y] => .ok [.atom (.str (atomStr y))]
  | .ok [x], .ok [y] => .ok [.atom (.str (atomStr x ++ atomStr y))]
  | _, _ => .error .type

/-- `+` on integers: an empty operand gives the empty sequence -/
def addVals (a b : Val) : Except Err Val :=
  match a, b with
  | [], _ => .ok []
  | [.atom (.int _)], [] => .ok []
  | [.atom (.int x)], [.atom (.int y)] => .ok [.atom (.int (x + y))]
  | _, _ => .error .type

def intsOf : Val → Except Err (List Int)
  | [] => .ok []
  | .atom (.int i) :: r => (intsOf r).map (i :: ·)
  | _ :: _ => .error .type

/-- general comparison `>` on integer sequences -/
def gtVals (a b : Val) : Except Err Val :=
  match intsOf a, intsOf b with
  | .ok xs, .ok ys => .ok [.atom (.bool (xs.any fun x => ys.any fun y => decide (x > y)))]
  | _, _ => .error .type

def mkMap1 (k : String) (v : Val) : Except Err Val :=
  (atomsOf v).map fun as => [.map [(k, as)]]

def mkMap2 (k1 : String) (v1 : Val) (k2 : String) (v2 : Val) : Except Err Val :=
  if k1 = k2 then .error .dup else
  match atomsOf v1, atomsOf v2 with
  | .ok a, .ok b => .ok [.map [(k1, a), (k2, b)]]
  | _, _ => .error .type

def mkArrSq (v : Val) : Except Err Val := (atomsOf v).map fun as => [.arr [as]]
def mkArrCurly (v : Val) : Except Err Val := (atomsOf v).map fun as => [.arr (as.map fun a => [a])]

def lookKItem (k : String) : Item → Except Err Val
  | .map es => .ok (((es.lookup k).getD []).map .atom)
  | _ => .error .type

def lookStarItem : Item → Except Err Val
  | .map es => .ok ((es.map (·.2)).flatten.map .atom)
  | .arr ms => .ok (ms.flatten.map .atom)
  | .atom _ => .error .type

def mapVal (f : Item → Except Err Val) : Val → Except Err Val
  | [] => .ok []
  | it :: r => match f it, mapVal f r with
    | .ok a, .ok b => .ok (a ++ b)
    | .error e, _ => .error e
    | _, .error e => .error e

/-- does a predicate value keep the item at position `i`?  one integer = positional, else boolean value -/
def predKeep (r : Val) (i : Nat) : Except Err Bool :=
  match r with
  | [] => .ok false
  | [.atom (.int k)] => .ok (decide (k = (i : Int)))
  | [.atom (.bool b)] => .ok b
  | [.atom (.str s)] => .ok (decide (s ≠ ""))
  | _ => .error .type

def keepVal (it : Item) (r : Val) (i : Nat) : Except Err Val :=
  (predKeep r i).map fun k => if k then [it] else []

/-! ### the model: evaluation threading the token slots -/

abbrev Res := Except Err Val × Store

def bindS (r : Res) (k : Val → Store → Res) : Res :=
  match r with
  | (.error e, st) => (.error e, st)
  | (.ok v, st) => k v st

/-- one evaluation of the right operand per item, positions counted from `i` -/
def floop (ev : Item → Nat → Store → Res) : List Item → Nat → Store → Res
  | [], _, st => (.ok [], st)
  | it :: rest, i, st =>
    bindS (ev it i st) fun v st1 =>
    bindS (floop ev rest (i + 1) st1) fun vs st2 => (.ok (v ++ vs), st2)

/-- a constructor token: `tok` is the token, `build` rebuilds the value at the current focus.
Reference tree: always rebuilds.  Seeded change: a `$`-free constructor fills its slot once. -/
def ctor (q : FQuirks) (tok : FExpr) (body : FExpr) (build : Store → Res) (st : Store) : Res :=
  if q.constCache && body.noVar then
    match st.lookup tok with
    | some v => (.ok v, st)
    | none => bindS (build st) fun v st1 => (.ok v, (tok, v) :: st1)
  else build st

def feval (q : FQuirks) : FExpr → Env → Option Focus → Store → Res
  | .int n, _, _, st => (.ok [.atom (.int n)], st)
  | .str s, _, _, st => (.ok [.atom (.str s)], st)
  | .dot, _, f, st => (match f with | some f => .ok [f.item] | none => .error .nofocus, st)
  | .pos, _, f, st => (match f with | some f => .ok [.atom (.int f.pos)] | none => .error .nofocus, st)
  | .last, _, f, st => (match f with | some f => .ok [.atom (.int f.size)] | none => .error .nofocus, st)
  | .var x, ρ, _, st => (match ρ.lookup x with | some v => .ok v | none => .error .unbound, st)
  | .add a b, ρ, f, st =>
    bindS (feval q a ρ f st) fun va st1 => bindS (feval q b ρ f st1) fun vb st2 => (addVals va vb, st2)
  | .cat a b, ρ, f, st =>
    bindS (feval q a ρ f st) fun va st1 => bindS (feval q b ρ f st1) fun vb st2 => (catVals va vb, st2)
  | .gt a b, ρ, f, st =>
    bindS (feval q a ρ f st) fun va st1 => bindS (feval q b ρ f st1) fun vb st2 => (gtVals va vb, st2)
  | .seq a b, ρ, f, st =>
    bindS (feval q a ρ f st) fun va st1 => bindS (feval q b ρ f st1) fun vb st2 => (.ok (va ++ vb), st2)
  | .mapC k e, ρ, f, st =>
    ctor q (.mapC k e) e (fun s => bindS (feval q e ρ f s) fun v s1 => (mkMap1 k v, s1)) st
  | .mapC2 k1 e1 k2 e2, ρ, f, st =>
    ctor q (.mapC2 k1 e1 k2 e2) (.seq e1 e2)
      (fun s => bindS (feval q e1 ρ f s) fun v1 s1 => bindS (feval q e2 ρ f s1) fun v2 s2 =>
        (mkMap2 k1 v1 k2 v2, s2)) st
  | .arrSq e, ρ, f, st =>
    ctor q (.arrSq e) e (fun s => bindS (feval q e ρ f s) fun v s1 => (mkArrSq v, s1)) st
  | .arrCurly e, ρ, f, st =>
    ctor q (.arrCurly e) e (fun s => bindS (feval q e ρ f s) fun v s1 => (mkArrCurly v, s1)) st
  | .lookK e k, ρ, f, st => bindS (feval q e ρ f st) fun v st1 => (mapVal (lookKItem k) v, st1)
  | .lookStar e, ρ, f, st => bindS (feval q e ρ f st) fun v st1 => (mapVal lookStarItem v, st1)
  | .bang a b, ρ, f, st =>
    bindS (feval q a ρ f st) fun xs st1 =>
      floop (fun it i s => feval q b ρ (some ⟨it, i, xs.length⟩) s) xs 1 st1
  | .forE x a b, ρ, f, st =>
    bindS (feval q a ρ f st) fun xs st1 =>
      floop (fun it _ s => feval q b ((x, [it]) :: ρ) f s) xs 1 st1
  | .pred a b, ρ, f, st =>
    bindS (feval q a ρ f st) fun xs st1 =>
      floop (fun it i s => bindS (feval q b ρ (some ⟨it, i, xs.length⟩) s) fun r s1 => (keepVal it r i, s1))
        xs 1 st1

/-- ONE parsed token evaluated again and again: the slots persist from step to step -/
def fhistory (q : FQuirks) (e : FExpr) : List Env → Store → List (Except Err Val) × Store
  | [], st => ([], st)
  | ρ :: rest, st =>
    let r := feval q e ρ none st
    let (outs, st') := fhistory q e rest r.2
    (r.1 :: outs, st')

end EPV.FocusCtor

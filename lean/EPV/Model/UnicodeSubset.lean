/-
Model of `elementpath/regex/unicode_subsets.py :: UnicodeSubset` (C13).
Core Lean only.  Every function is a transcription of the named Python method; the
correspondence check (harness/c13.py) runs both on the same operation sequences.

Representation: the Python `_codepoints` list, entries `int` (`one n`) or half-open pair
`(lo, hi)` (`rng lo hi`).
-/
namespace EPV.USet

inductive CP where
  | one (n : Nat)
  | rng (lo hi : Nat)
  deriving Repr, DecidableEq, Inhabited

def CP.lo : CP → Nat | .one n => n | .rng a _ => a
def CP.hi : CP → Nat | .one n => n + 1 | .rng _ b => b
@[simp] theorem CP.lo_one (n : Nat) : (CP.one n).lo = n := rfl
@[simp] theorem CP.hi_one (n : Nat) : (CP.one n).hi = n + 1 := rfl
@[simp] theorem CP.lo_rng (a b : Nat) : (CP.rng a b).lo = a := rfl
@[simp] theorem CP.hi_rng (a b : Nat) : (CP.rng a b).hi = b := rfl

/-- `maxunicode + 1` -/
def maxCP1 : Nat := 0x110000

/-- argument check of `add` / `discard` (else branch: `ValueError`) -/
def CP.validArg : CP → Bool
  | .one n => n < maxCP1
  | .rng a b => a < b && b ≤ maxCP1

/-- `UnicodeSubset.add` (unicode_subsets.py:168-210): the `for k, cp in enumerate(...)` loop.
`v` is the argument as given (it is what `insert`/`append` store), `s`/`e` are the
mutable `start_cp`/`end_cp`. -/
def addAux (v : CP) (s e : Nat) : List CP → List CP
  | [] => [v]                                            -- for-else: append(value)
  | c :: rest =>
    if e < c.lo then v :: c :: rest                      -- insert(k, value); break
    else if s > c.hi then c :: addAux v s e rest         -- continue
    else if e > c.hi then
      match rest with
      | [] => [.rng (min c.lo s) e]                      -- k == last_index
      | n :: _ =>
        if e ≤ n.lo then .rng (min c.lo s) e :: rest
        else .rng (min c.lo s) n.lo :: addAux v n.lo e rest   -- start_cp = higher_bound; continue
    else if s < c.lo then .rng s c.hi :: rest
    else c :: rest

def add (v : CP) (l : List CP) : List CP := addAux v v.lo v.hi l

/-- the replacement entries written by `discard` -/
def mkLow (lo s : Nat) : CP := if s - lo > 1 then .rng lo s else .one lo        -- cp0 .. start_cp
def mkHigh (e hi : Nat) : CP := if hi - e > 1 then .rng e hi else .one (hi - 1)  -- end_cp .. cp1

/-- `UnicodeSubset.discard` (unicode_subsets.py:226-271): `for k in reversed(range(len))`.
The recursion visits the tail first (= higher indices first); the Boolean is "the loop
has executed `break`". -/
def discardAux (s e : Nat) : List CP → Bool × List CP
  | [] => (false, [])
  | c :: rest =>
    let (brk, rest') := discardAux s e rest
    if brk then (true, c :: rest')
    else if s ≥ c.hi then (true, c :: rest')
    else if e ≥ c.hi then
      if s ≤ c.lo then (false, rest')
      else (false, mkLow c.lo s :: rest')
    else if e > c.lo then
      if s ≤ c.lo then (false, mkHigh e c.hi :: rest')
      else (false, mkLow c.lo s :: mkHigh e c.hi :: rest')
    else (false, c :: rest')

def discard (v : CP) (l : List CP) : List CP := (discardAux v.lo v.hi l).2

/-- `UnicodeSubset.__contains__` with its early exits -/
def contains (x : Nat) : List CP → Bool
  | [] => false
  | .rng a b :: rest => if a > x then false else if b ≤ x then contains x rest else true
  | .one n :: rest => if n > x then false else if n == x then true else contains x rest

/-- `UnicodeSubset.complement` generator; `last` is `last_cp`.  `none` = the `ValueError`
("unordered code points") branch. -/
def complementAux (last : Nat) : List CP → Option (List CP)
  | [] =>
    if last < maxCP1 - 1 then some [.rng last maxCP1]
    else if last = maxCP1 - 1 then some [.one (maxCP1 - 1)]
    else some []
  | c :: rest =>
    if c.lo < last then none
    else
      let diff := c.lo - last
      let pre : List CP :=
        if diff > 2 then [.rng last c.lo]
        else if diff = 2 then [.one last, .one (last + 1)]
        else if diff = 1 then [.one last]
        else []
      (complementAux c.hi rest).map (pre ++ ·)

def complement (l : List CP) : Option (List CP) := complementAux 0 l

/-- `__iter__` -/
def iter : List CP → List Nat
  | [] => []
  | c :: rest => (List.range' c.lo (c.hi - c.lo)) ++ iter rest

def len (l : List CP) : Nat := (iter l).length

/-- `__ior__` with a `UnicodeSubset` operand: `for cp in reversed(other._codepoints): self.add(cp)` -/
def ior (l o : List CP) : List CP := o.reverse.foldl (fun acc v => add v acc) l
/-- `__isub__` with a `UnicodeSubset` operand -/
def isub (l o : List CP) : List CP := o.reverse.foldl (fun acc v => discard v acc) l
/-- `__iand__`: `for value in (self - other): self.discard(value)` -/
def iand (l o : List CP) : List CP := (iter (isub l o)).foldl (fun acc n => discard (.one n) acc) l
/-- `__ixor__` with a `UnicodeSubset` operand (not `self`) -/
def ixor (l o : List CP) : List CP :=
  (iter o).foldl (fun acc n => if contains n acc then discard (.one n) acc else add (.one n) acc) l

/-- operations of the line protocol -/
inductive Op where
  | add (v : CP) | discard (v : CP)
  | ior (o : List CP) | isub (o : List CP) | iand (o : List CP) | ixor (o : List CP)
  deriving Repr, Inhabited

def step (l : List CP) : Op → List CP
  | .add v => add v l
  | .discard v => discard v l
  | .ior o => ior l o
  | .isub o => isub l o
  | .iand o => iand l o
  | .ixor o => ixor l o

def run (ops : List Op) (l : List CP) : List CP := ops.foldl step l

end EPV.USet

namespace EPV.USet

/-- the merging loop of `codepoints.iter_code_points` over the already sorted list;
`cur = none` is the Python state `end_cp == 0` ("nothing pending") -/
def icpLoop (reverse : Bool) : Option (Nat × Nat) → List CP → List CP
  | none, [] => []
  | some (s, e), [] => [if e > s + 1 then .rng s e else .one s]
  | none, c :: rest => icpLoop reverse (some (c.lo, c.hi)) rest
  | some (s, e), c :: rest =>
    if reverse then
      if s ≤ c.hi then icpLoop reverse (some (if s > c.lo then c.lo else s, e)) rest
      else (if e > s + 1 then .rng s e else .one s) :: icpLoop reverse (some (c.lo, c.hi)) rest
    else
      if e ≥ c.lo then icpLoop reverse (some (s, if e < c.hi then c.hi else e)) rest
      else (if e > s + 1 then .rng s e else .one s) :: icpLoop reverse (some (c.lo, c.hi)) rest

/-- `iter_code_points(codepoints, reverse)`: stable sort by `code_point_order` (ascending) or by
`code_point_reverse_order` descending, then merge.  NB: the Python uses `end_cp == 0` as the
"nothing pending" flag; an entry with `hi = 0` cannot occur (entries are non-empty). -/
def iterCodePoints (reverse : Bool) (l : List CP) : List CP :=
  let sorted := if reverse then l.mergeSort (fun a b => decide (a.hi ≥ b.hi))
                else l.mergeSort (fun a b => decide (a.lo ≤ b.lo))
  icpLoop reverse none sorted

/-- `update(iterable)`: `for cp in iter_code_points(value, reverse=True): self.add(cp)` -/
def update (l o : List CP) : List CP := (iterCodePoints true o).foldl (fun acc v => add v acc) l
/-- `difference_update(iterable)` -/
def differenceUpdate (l o : List CP) : List CP :=
  (iterCodePoints true o).foldl (fun acc v => discard v acc) l

end EPV.USet

namespace EPV.USet

/-- `UnicodeSubset(list)` constructor (after the F13d repair): `list(iter_code_points(codepoints))` —
the entries sorted by first code point and merged -/
def ofList (o : List CP) : List CP := iterCodePoints false o

/-- binary in-place operators with a plain iterable (list) right operand:
`|=`/`-=` go through `iter_code_points(other, reverse=True)`, `&=` through `self - other`,
`^=` through `UnicodeSubset(other)` -/
def iorList (l o : List CP) : List CP := update l o
def isubList (l o : List CP) : List CP := differenceUpdate l o
def iandList (l o : List CP) : List CP :=
  (iter (differenceUpdate l o)).foldl (fun acc n => discard (.one n) acc) l
def ixorList (l o : List CP) : List CP := ixor l (ofList o)

end EPV.USet

namespace EPV.USet

/-- reflected difference `iterable - self` (`__rsub__`, after the F13h repair): a new subset is
filled from the iterable with `update`, then `-= self` -/
def rsubList (l o : List CP) : List CP := isub (update [] o) l

/-- in-place operators whose operand is the subset itself (`s |= s`, `s -= s`, `s &= s`, `s ^= s`).
The Python loops run over `reversed(self._codepoints)` while `add`/`discard` edit that same list;
with disjoint entries each `discard(entry)` deletes exactly the entry the reversed iterator has
just produced (positions below it are untouched) and each `add(entry)` of an entry already present
changes nothing, so the aliasing run visits the same entries as a run over a snapshot.  `^=` tests
`other is self` first and clears. -/
def iorSelf (l : List CP) : List CP := ior l l
def isubSelf (l : List CP) : List CP := isub l l
def iandSelf (l : List CP) : List CP := iand l l
def ixorSelf (_ : List CP) : List CP := []

end EPV.USet


/-
Model of `elementpath/exceptions.py :: xpath_error` (lines 242-320) and of the class graph of the
exception classes — C03 part (taxonomy): whatever `xpath_error` returns or raises is an
`ElementPathError` subclass with a non-empty code.  Core Lean only.

The class graph (`class X(A, B)` statements of exceptions.py, read from the live classes) and the
`XPATH_ERROR_CODES` map are *generated* (`EPV/Gen/C03Tables.lean`); here they are parameters.
-/
namespace EPV.XErr

/-- class name ↦ names of its direct base classes -/
abbrev Graph := List (String × List String)
/-- error code ↦ class name (first component of `XPATH_ERROR_CODES[code]`) -/
abbrev CodeMap := List (String × String)

def Graph.bases (g : Graph) (c : String) : List String := ((g.find? (·.1 == c)).map (·.2)).getD []

/-- `issubclass(c, target)` by bounded search along the `__bases__` edges -/
def isSubclass (g : Graph) (target : String) : Nat → String → Bool
  | 0, c => c == target
  | fuel + 1, c => c == target || (g.bases c).any (isSubclass g target fuel)

def root : String := "ElementPathError"

/-- `issubclass(c, ElementPathError)`; the fuel `g.length` bounds the length of any simple path -/
def isEPE (g : Graph) (c : String) : Bool := isSubclass g root g.length c

def CodeMap.cls? (m : CodeMap) (code : String) : Option String := (m.find? (·.1 == code)).map (·.2)

def xqtNs : String := "http://www.w3.org/2005/xqt-errors"

/-- the `code` argument of `xpath_error`: a string, or an `xs:QName` value -/
inductive CodeArg where
  | str (code : String)
  | qname (uri pfx localName : String)
  deriving DecidableEq, Repr

/-- `QName.qname` -/
def qnameText (pfx localName : String) : String := if pfx.isEmpty then localName else pfx ++ ":" ++ localName
/-- `QName.braced_uri_name` -/
def bracedText (uri localName : String) : String := "Q{" ++ uri ++ "}" ++ localName

/-- what the call produces: the exception class, its `code` attribute, and whether `xpath_error`
raised it itself (`raise ElementPathValueError(message, 'err:XPTY0004', token)`) or returned it -/
structure ErrObj where
  cls : String
  code : String
  raisedInside : Bool
  deriving DecidableEq, Repr

def bad : ErrObj := ⟨"ElementPathValueError", "err:XPTY0004", true⟩

/-- the table lookup at the end of `xpath_error` (exceptions.py:297-306) -/
def finish (m : CodeMap) (ns code pcode : String) : ErrObj :=
  match m.cls? code with
  | some c => ⟨c, pcode, false⟩
  | none => if ns == xqtNs then bad else ⟨root, pcode, false⟩

/-- `str.split(sep)` for a one-character separator, on character lists (kernel-evaluable) -/
def splitChar (sep : Char) : List Char → List (List Char)
  | [] => [[]]
  | c :: rest =>
    if c == sep then [] :: splitChar sep rest
    else match splitChar sep rest with
      | [] => [[c]]
      | h :: t => (c :: h) :: t

def splitStr (sep : Char) (s : String) : List String := (splitChar sep s.toList).map String.ofList

def withPrefix (pfx code : String) : String := if pfx.isEmpty then code else pfx ++ ":" ++ code

/-- the prefix used for the code (exceptions.py:266-274): `'err'` if `namespaces` is empty or binds
`err` to the xqt-errors namespace, else the first prefix bound to that namespace, else `'err'` -/
def computePrefix (ns : List (String × String)) : String :=
  if ns.isEmpty || ((ns.find? (·.1 == "err")).map (·.2)) == some xqtNs then "err"
  else match ns.find? (·.2 == xqtNs) with
    | some p => p.1
    | none => "err"

/-- `xpath_error(code, …, namespaces)`; `pfx` is the prefix computed from `namespaces`
(exceptions.py:266-274: `'err'` unless another prefix is bound to the xqt-errors namespace) -/
def xpathError (m : CodeMap) (pfx : String) : CodeArg → ErrObj
  | .qname uri p l =>
    finish m uri l (if uri.isEmpty then bracedText uri l else qnameText p l)
  | .str code =>
    if code.startsWith "{" then
      match splitStr '}' (code.drop 1).toString with
      | [ns, c] => if ns != xqtNs then bad else finish m ns c (withPrefix pfx c)
      | _ => bad
    else if !code.toList.contains ':' then finish m xqtNs code (withPrefix pfx code)
    else if code.startsWith (pfx ++ ":") && (code.toList.filter (· == ':')).length == 1 then
      finish m xqtNs ((splitStr ':' code).getD 1 "") code
    else bad

/-- the four shortcut helpers of `XPathToken` (xpath_tokens/base.py:935-953) and the code each uses -/
def helperCodes : List (String × String) :=
  [("wrong_syntax", "XPST0003"), ("wrong_syntax(function)", "XPST0017"), ("wrong_value", "FOCA0002"),
   ("wrong_type", "FORG0006"), ("missing_context", "XPDY0002")]

/-- shape of an XPath/XQuery error code: four upper-case letters and four digits -/
def wellFormedCode (c : String) : Bool :=
  match c.toList with
  | [a, b, c', d, e, f, g, h] => [a, b, c', d].all Char.isUpper && [e, f, g, h].all Char.isDigit
  | _ => false

end EPV.XErr

/-
Model of the variable-environment handling of the elementpath evaluator (property C05).
Core Lean only.

What is transcribed (Python, tree with the three `fix:` commits of branch fix-c05):

* `XPathContext.__copy__`            xpath_context.py:193-204   a copied context SHARES `variables`
  -> the dict is *threaded*: `eval` takes the dict and returns the (possibly written) dict.
* `,`  evaluate__comma_operator       xpath2/_xpath2_operators.py:427-437
* `(`  evaluate__parenthesized_expression, dynamic function call
                                      xpath30/_xpath30_operators.py:94-127
* `get_operands` / `get_argument`     xpath_tokens/base.py:286-351, 586-634  (`+`, `-`)
* `let`                               xpath30/_xpath30_operators.py:186-202
* `for`, `some`, `every`              xpath2/_xpath2_operators.py:154-220  (+ `iter_product`,
                                      xpath_context.py:346-378)
* `$x`  VariableToken.evaluate        xpath_tokens/tokens.py:303-321
* inline function: `evaluate` (closure = `context.variables.copy()`) and `__call__`
                                      xpath30/_xpath30_functions.py:109-184, 286-297
* `boolean_value`                     xpath_tokens/base.py:804-846

`Quirks` switches the two places where the pinned tree (05acc20) differs from the repaired
one, so that the defects F05 / F05b stay kernel-checked facts about `Quirks.pinned`
(EPV/Props/C05.lean) while every theorem is stated for `Quirks.fixed`.

Abstractions (stated again in docs/C05.md):
* a dict is an association list, `d[k] = v` is `(k, v) :: d` (first match wins), `d.copy()` is
  the list itself, `d.update(o)` is `o ++ d`;
* `for/let/some/every` with several clauses are nested one-clause binders (XPath 3.1 §3.9, §3.12,
  §3.13 define them so; the Python code uses one dict copy and `iter_product`);
* generators are evaluated eagerly (the correspondence generator keeps error-raising
  sub-expressions out of positions where laziness could skip them);
* values: xs:integer, xs:boolean, xs:dateTime (seconds of local time + optional timezone in
  minutes), xs:dayTimeDuration (seconds), function items.  A caller-owned xs:dateTime object is
  a reference `dtref r` into the `Heap`; values built by the expression itself are `dtv`.
-/
namespace EPV.Scope

abbrev Name := Nat

inductive Expr where
  | int (n : Int)
  | var (x : Name)
  | empty                                   -- `()`
  | seq (a b : Expr)                        -- `a, b`   (binary `,` token)
  | paren (e : Expr)                        -- `( e )`
  | add (a b : Expr)                        -- `a + b`
  | sub (a b : Expr)                        -- `a - b`  (integers, dateTimes)
  | eq (a b : Expr)                         -- `a = b`  (general comparison, integers)
  | dt (loc : Int) (tz : Option Int)        -- `xs:dateTime('...')`
  | tzOf (e : Expr)                         -- `timezone-from-dateTime(e)`
  | letE (x : Name) (e body : Expr)         -- `let $x := e return body`
  | forE (x : Name) (r body : Expr)         -- `for $x in r return body`
  | someE (x : Name) (r body : Expr)        -- `some $x in r satisfies body`
  | everyE (x : Name) (r body : Expr)       -- `every $x in r satisfies body`
  | fn (ps : List Name) (body : Expr)       -- `function($p1, ...) { body }`
  | call0 (f : Expr)                        -- `f()`
  | call (f args : Expr)                    -- `f(args)`  (arguments = the `,` spine of `args`)
  | durLit (s : Int)                        -- `xs:dayTimeDuration('...')`
  | adjust1 (e : Expr)                      -- `adjust-dateTime-to-timezone(e)`       (implicit timezone)
  | adjust2 (e z : Expr)                    -- `adjust-dateTime-to-timezone(e, z)`    (`z` a duration or `()`)
  deriving Repr, DecidableEq, Inhabited

inductive Item where
  | int (n : Int)
  | bool (b : Bool)
  | dtv (loc : Int) (tz : Option Int)
  | dtref (r : Nat)
  | dur (s : Int)
  | fn (ps : List Name) (body : Expr) (cap : List (Name × List Item))

abbrev Val := List Item
abbrev Env := List (Name × Val)
/-- the caller's xs:dateTime objects: (local seconds, timezone minutes) -/
abbrev Heap := List (Int × Option Int)

inductive Err where
  | unbound      -- XPST0008
  | type         -- XPTY0004 / FORG0006 / FOTY0013
  | fuel         -- evaluation deeper than the given bound (Python: RecursionError)
  deriving Repr, DecidableEq

structure Quirks where
  /-- F05 repaired: `_InlineFunction.__call__` binds in `context.variables.copy()` -/
  callCopies : Bool
  /-- F05b repaired: `get_operands` sets the implicit timezone on `copy(op)` -/
  operandCopied : Bool
  /-- `adjust_datetime` (xpath_tokens/base.py:708-762) works on `copy(item)` — true on every real
  tree; `false` is the seeded change "`_item = item`", kept so that the heap theorem has content -/
  adjustCopied : Bool
  /-- F05c repaired (branch fix-c05c): the callee's dict is a copy of the closure variables, the
  caller's variables are not visible in the body -/
  calleeLexical : Bool
  deriving Repr, DecidableEq

/-- branch fix-c05 (F05, F16, F05b repaired; dynamic scope of function bodies = finding F05c) -/
def Quirks.fixed : Quirks := ⟨true, true, true, false⟩
/-- branch fix-c05c (F05c repaired as well) -/
def Quirks.lexical : Quirks := ⟨true, true, true, true⟩
def Quirks.pinned : Quirks := ⟨false, false, true, false⟩

/-- no evaluation writes into a caller's object -/
def Quirks.heapSafe (q : Quirks) : Bool := q.operandCopied && q.adjustCopied

structure Cfg where
  q : Quirks
  /-- `context.timezone` (minutes) -/
  tz : Option Int

/-- a raised exception together with the caller-visible state at the moment it leaves the
expression: the caller's dict and the caller's objects as they are THEN (Python: the exception
propagates, the objects stay as the partial evaluation left them) -/
abbrev Fail := Err × Env × Heap

abbrev Res := Except Fail (Val × Env × Heap)

/-! ### value-level primitives (shared with the specification) -/

def deref (h : Heap) : Item → Option (Int × Option Int)
  | .dtv l z => some (l, z)
  | .dtref r => h[r]?
  | _ => none

/-- seconds on the UTC timeline; a value without timezone takes the implicit one, and UTC when
the context has none (`AbstractDateTime._get_operands`, datatypes/datetime.py:136-141) -/
def instant (implicit : Option Int) (d : Int × Option Int) : Int :=
  d.1 - 60 * ((d.2.orElse fun _ => implicit).getD 0)

def addItems : Item → Item → Option Item
  | .int a, .int b => some (.int (a + b))
  | _, _ => none

/-- `op1 - op2` on values already dereferenced -/
def subPure (implicit : Option Int) (h : Heap) (x y : Item) : Option Item :=
  match x, y with
  | .int a, .int b => some (.int (a - b))
  | _, _ =>
    match deref h x, deref h y with
    | some d1, some d2 => some (.dur (instant implicit d1 - instant implicit d2))
    | _, _ => none

/-- the in-place assignment `op.tzinfo = context.timezone` of the pinned `get_operands` -/
def stampTz (z : Int) (h : Heap) : Item → Heap
  | .dtref r =>
    match h[r]? with
    | some (l, none) => h.set r (l, some z)
    | _ => h
  | _ => h

/-- `get_operands` + `-`: result and the heap afterwards -/
def subItems (c : Cfg) (h : Heap) (x y : Item) : Option (Item × Heap) :=
  match subPure c.tz h x y with
  | none => none
  | some r =>
    match c.q.operandCopied, c.tz, deref h x, deref h y with
    | false, some z, some _, some _ => some (r, stampTz z (stampTz z h x) y)
    | _, _, _, _ => some (r, h)

/-- `Timezone.fromduration`: whole minutes within ±14:00 (else FODT0003) -/
def tzOfDur (s : Int) : Option Int :=
  if s % 60 == 0 && -50400 ≤ s && s ≤ 50400 then some (s / 60) else none

/-- the adjusted value (F&O 3.1 §9.6): both timezones present → same instant, new local time;
otherwise the local time is kept and the timezone replaced (or removed) -/
def adjustPure (d : Int × Option Int) (target : Option Int) : Int × Option Int :=
  match d.2, target with
  | some zo, some zn => (d.1 - 60 * zo + 60 * zn, some zn)
  | _, _ => (d.1, target)

/-- `adjust_datetime` on one item: result and the heap afterwards.  With `adjustCopied = false`
(`_item = item`) and no offset arithmetic (`_item += …` builds a new object) the timezone is written
into the caller's object, which is also what is returned. -/
def adjustItem (c : Cfg) (h : Heap) (x : Item) (target : Option Int) : Option (Item × Heap) :=
  match deref h x with
  | none => none
  | some d =>
    let r := adjustPure d target
    match c.q.adjustCopied, x, d.2, target with
    | false, .dtref _, some _, some _ => some (.dtv r.1 r.2, h)
    | false, .dtref k, _, _ => some (.dtref k, h.set k r)
    | _, _, _, _ => some (.dtv r.1 r.2, h)

/-- the `$timezone` argument: `()` → no timezone, one duration → `Timezone.fromduration` -/
def targetOf : Val → Except Err (Option Int)
  | [] => .ok none
  | [.dur s] => match tzOfDur s with | some z => .ok (some z) | none => .error .type
  | _ => .error .type

/-- `boolean_value` on a materialised sequence without nodes -/
def ebv : Val → Except Err Bool
  | [] => .ok false
  | [.bool b] => .ok b
  | [.int n] => .ok (n != 0)
  | _ => .error .type

def allInts : Val → Option (List Int)
  | [] => some []
  | .int n :: r => (allInts r).map (n :: ·)
  | _ => none

/-- general comparison `=` restricted to integer sequences -/
def genEq (a b : Val) : Except Err Bool :=
  match allInts a, allInts b with
  | some xs, some ys => .ok (xs.any fun x => ys.contains x)
  | _, _ => .error .type

def tzItem (h : Heap) : Val → Except Err Val
  | [] => .ok []
  | [x] =>
    match deref h x with
    | some (_, some z) => .ok [.dur (60 * z)]
    | some (_, none) => .ok []
    | none => .error .type
  | _ => .error .type

/-- `get_argument_tokens`: the left spine of `,` tokens -/
def argToks : Expr → List Expr
  | .seq a b => argToks a ++ [b]
  | e => [e]

/-! ### the evaluator, parametrised by the evaluator one level down (`ev = eval c n`) -/

section
variable (ev : Expr → Env → Heap → Res)

/-- `get_operands`: `None` (→ empty result) when an operand is the empty sequence; the second
operand is not evaluated when the first one is empty or too long -/
def operands (a b : Expr) (ρ : Env) (h : Heap) : Except Fail (Option (Item × Item) × Env × Heap) :=
  match ev a ρ h with
  | .error e => .error e
  | .ok (va, ρ1, h1) =>
    match va with
    | [] => .ok (none, ρ1, h1)
    | [x] =>
      match ev b ρ1 h1 with
      | .error e => .error e
      | .ok (vb, ρ2, h2) =>
        match vb with
        | [] => .ok (none, ρ2, h2)
        | [y] => .ok (some (x, y), ρ2, h2)
        | _ => .error (.type, ρ2, h2)
    | _ => .error (.type, ρ1, h1)

/-- body of the `for` loop: `context.variables.update(...)`, `yield from self[-1].select(copy(context))` -/
def forLoop (x : Name) (body : Expr) : List Item → Env → Heap → Res
  | [], ρc, h => .ok ([], ρc, h)
  | it :: rest, ρc, h =>
    match ev body ((x, [it]) :: ρc) h with
    | .error e => .error e
    | .ok (v, ρc1, h1) =>
      match forLoop x body rest ρc1 h1 with
      | .error e => .error e
      | .ok (vs, ρc2, h2) => .ok (v ++ vs, ρc2, h2)

/-- body of `some` / `every`: first decisive tuple wins -/
def quantLoop (isSome : Bool) (x : Name) (body : Expr) : List Item → Env → Heap →
    Except Fail (Bool × Env × Heap)
  | [], ρc, h => .ok (!isSome, ρc, h)
  | it :: rest, ρc, h =>
    match ev body ((x, [it]) :: ρc) h with
    | .error e => .error e
    | .ok (v, ρc1, h1) =>
      match ebv v with
      | .error e => .error (e, ρc1, h1)
      | .ok b => if b == isSome then .ok (isSome, ρc1, h1) else quantLoop isSome x body rest ρc1 h1

/-- `arguments = [tk.evaluate(context) for tk in tokens]` -/
def evalArgs : List Expr → Env → Heap → Except Fail (List Val × Env × Heap)
  | [], ρ, h => .ok ([], ρ, h)
  | a :: as, ρ, h =>
    match ev a ρ h with
    | .error e => .error e
    | .ok (v, ρ1, h1) =>
      match evalArgs as ρ1 h1 with
      | .error e => .error e
      | .ok (vs, ρ2, h2) => .ok (v :: vs, ρ2, h2)

/-- a dict has one entry per key: keep the first (= current) entry of every key.  Only used for
the dict that the PINNED call hands back to its caller, so that repeated calls do not pile up
shadowed entries in the association list. -/
def dedupEnv : Env → Env
  | [] => []
  | (k, v) :: r => (k, v) :: (dedupEnv r).filter (·.1 != k)

/-- the dict in which the body of a called inline function runs: the parameters on top of the
closure variables, on top of the caller's variables (`dict(caller); update(closure)`) — or, with
F05c repaired, on top of nothing else (`self.variables.copy()`) -/
def calleeEnv (c : Cfg) (ps : List Name) (args : List Val) (cap ρ : Env) : Env :=
  ps.zip args ++ (if c.q.calleeLexical then cap else cap ++ ρ)

/-- `_InlineFunction.__call__`: `context = copy(context)`; the dict is the caller's dict
(pinned) or a copy of it (F05 repaired); `update(self.variables)`; parameters bound; body
evaluated.  Returns the caller's dict as the caller sees it afterwards — also when the body raises. -/
def applyFn (c : Cfg) (ps : List Name) (body : Expr) (cap : Env) (args : List Val)
    (ρ : Env) (h : Heap) : Res :=
  if ps.length ≠ args.length then .error (.type, ρ, h) else
  match ev body (calleeEnv c ps args cap ρ) h with
  | .error (e, ρ', h') => .error (e, if c.q.callCopies then ρ else dedupEnv ρ', h')
  | .ok (v, ρ', h') => .ok (v, if c.q.callCopies then ρ else dedupEnv ρ', h')

end

def eval (c : Cfg) : Nat → Expr → Env → Heap → Res
  | 0, _, ρ, h => .error (.fuel, ρ, h)
  | n + 1, e, ρ, h =>
    match e with
    | .int k => .ok ([.int k], ρ, h)
    | .var x =>
      match ρ.lookup x with
      | some v => .ok (v, ρ, h)
      | none => .error (.unbound, ρ, h)
    | .empty => .ok ([], ρ, h)
    | .paren e => eval c n e ρ h
    | .seq a b =>
      match eval c n a ρ h with
      | .error e => .error e
      | .ok (va, ρ1, h1) =>
        match eval c n b ρ1 h1 with
        | .error e => .error e
        | .ok (vb, ρ2, h2) => .ok (va ++ vb, ρ2, h2)
    | .add a b =>
      match operands (eval c n) a b ρ h with
      | .error e => .error e
      | .ok (none, ρ2, h2) => .ok ([], ρ2, h2)
      | .ok (some (x, y), ρ2, h2) =>
        match addItems x y with
        | some r => .ok ([r], ρ2, h2)
        | none => .error (.type, ρ2, h2)
    | .sub a b =>
      match operands (eval c n) a b ρ h with
      | .error e => .error e
      | .ok (none, ρ2, h2) => .ok ([], ρ2, h2)
      | .ok (some (x, y), ρ2, h2) =>
        match subItems c h2 x y with
        | some (r, h3) => .ok ([r], ρ2, h3)
        | none => .error (.type, ρ2, h2)
    | .eq a b =>
      match eval c n a ρ h with
      | .error e => .error e
      | .ok (va, ρ1, h1) =>
        match eval c n b ρ1 h1 with
        | .error e => .error e
        | .ok (vb, ρ2, h2) =>
          match genEq va vb with
          | .error e => .error (e, ρ2, h2)
          | .ok r => .ok ([.bool r], ρ2, h2)
    | .dt l z => .ok ([.dtv l z], ρ, h)
    | .tzOf e =>
      match eval c n e ρ h with
      | .error e => .error e
      | .ok (v, ρ1, h1) =>
        match tzItem h1 v with
        | .error e => .error (e, ρ1, h1)
        | .ok r => .ok (r, ρ1, h1)
    | .letE x e body =>
      -- context = copy(context); context.variables = context.variables.copy()
      -- (an exception leaves the let with the caller's own dict untouched: `ρ`)
      match eval c n e ρ h with
      | .error (er, _, h1) => .error (er, ρ, h1)
      | .ok (v, ρc1, h1) =>
        match eval c n body ((x, v) :: ρc1) h1 with
        | .error (er, _, h2) => .error (er, ρ, h2)
        | .ok (r, _, h2) => .ok (r, ρ, h2)
    | .forE x r body =>
      match eval c n r ρ h with
      | .error (er, _, h1) => .error (er, ρ, h1)
      | .ok (vs, ρc1, h1) =>
        match forLoop (eval c n) x body vs ρc1 h1 with
        | .error (er, _, h2) => .error (er, ρ, h2)
        | .ok (res, _, h2) => .ok (res, ρ, h2)
    | .someE x r body =>
      match eval c n r ρ h with
      | .error (er, _, h1) => .error (er, ρ, h1)
      | .ok (vs, ρc1, h1) =>
        match quantLoop (eval c n) true x body vs ρc1 h1 with
        | .error (er, _, h2) => .error (er, ρ, h2)
        | .ok (b, _, h2) => .ok ([.bool b], ρ, h2)
    | .everyE x r body =>
      match eval c n r ρ h with
      | .error (er, _, h1) => .error (er, ρ, h1)
      | .ok (vs, ρc1, h1) =>
        match quantLoop (eval c n) false x body vs ρc1 h1 with
        | .error (er, _, h2) => .error (er, ρ, h2)
        | .ok (b, _, h2) => .ok ([.bool b], ρ, h2)
    | .fn ps body => .ok ([.fn ps body ρ], ρ, h)      -- a new item, variables = dict copy
    | .call0 f =>
      match eval c n f ρ h with
      | .error e => .error e
      | .ok ([.fn ps body cap], ρ1, h1) => applyFn (eval c n) c ps body cap [] ρ1 h1
      | .ok (_, ρ1, h1) => .error (.type, ρ1, h1)
    | .call f a =>
      match eval c n f ρ h with
      | .error e => .error e
      | .ok ([.fn ps body cap], ρ1, h1) =>
        match evalArgs (eval c n) (argToks a) ρ1 h1 with
        | .error e => .error e
        | .ok (vs, ρ2, h2) => applyFn (eval c n) c ps body cap vs ρ2 h2
      | .ok (_, ρ1, h1) => .error (.type, ρ1, h1)
    | .durLit s => .ok ([.dur s], ρ, h)
    | .adjust1 e =>
      match eval c n e ρ h with
      | .error e => .error e
      | .ok ([], ρ1, h1) => .ok ([], ρ1, h1)
      | .ok ([x], ρ1, h1) =>
        match adjustItem c h1 x c.tz with
        | some (r, h2) => .ok ([r], ρ1, h2)
        | none => .error (.type, ρ1, h1)
      | .ok (_, ρ1, h1) => .error (.type, ρ1, h1)
    | .adjust2 e z =>
      match eval c n e ρ h with
      | .error e => .error e
      | .ok (v, ρ1, h1) =>
        if v.length > 1 then .error (.type, ρ1, h1) else
        match eval c n z ρ1 h1 with
        | .error e => .error e
        | .ok (vz, ρ2, h2) =>
          match targetOf vz with
          | .error e => .error (e, ρ2, h2)
          | .ok target =>
            match v with
            | [x] =>
              match adjustItem c h2 x target with
              | some (r, h3) => .ok ([r], ρ2, h3)
              | none => .error (.type, ρ2, h2)
            | _ => .ok ([], ρ2, h2)

/-! ### observations (what the caller can print) -/

inductive Obs where
  | int (n : Int)
  | bool (b : Bool)
  | dt (loc : Int) (tz : Option Int)
  | dur (s : Int)
  | fn (arity : Nat)
  | dangling
  deriving Repr, DecidableEq

def obsItem (h : Heap) : Item → Obs
  | .int n => .int n
  | .bool b => .bool b
  | .dtv l z => .dt l z
  | .dtref r => match h[r]? with | some (l, z) => .dt l z | none => .dangling
  | .dur s => .dur s
  | .fn ps _ _ => .fn ps.length

def obs (h : Heap) (v : Val) : List Obs := v.map (obsItem h)

/-- a whole evaluation as the caller observes it: result, own dict afterwards (keys and
observable values), own objects afterwards -/
def obsEnv (h : Heap) (ρ : Env) : List (Name × List Obs) := ρ.map fun kv => (kv.1, obs h kv.2)

/-- what one evaluation shows to the caller -/
inductive Out where
  | ok (v : List Obs)
  | err (e : Err)
  deriving Repr, DecidableEq

def outOf : Res → Out
  | .ok (v, _, h) => .ok (obs h v)
  | .error e => .err e.1

/-! ### histories: one parsed expression evaluated again and again; the caller's objects persist -/

structure Step where
  tz : Option Int
  ρ : Env

/-- results of the successive evaluations and the caller's objects at the end; a failing
evaluation hands on the objects as its partial evaluation left them -/
def runHistory (q : Quirks) (n : Nat) (e : Expr) : List Step → Heap → List Out × Heap
  | [], h => ([], h)
  | s :: ss, h =>
    match eval ⟨q, s.tz⟩ n e s.ρ h with
    | .ok (v, _, h') =>
      let r := runHistory q n e ss h'
      (.ok (obs h' v) :: r.1, r.2)
    | .error (er, _, h') =>
      let r := runHistory q n e ss h'
      (.err er :: r.1, r.2)

end EPV.Scope

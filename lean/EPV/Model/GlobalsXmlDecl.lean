/-
C19 (phase 5) — the XML declaration at the head of the argument of `fn:parse-xml`, read character by
character the way expat reads it (`xmltok.c` `doParseXmlDecl` / `parsePseudoAttribute`, reached from
`etree.XML(arg.encode('utf-8'), ..)` and `defuse_xml(arg.encode('utf-8'))`,
`_xpath30_functions.py` `evaluate__parse_xml`): pseudo-attributes `version`, `encoding`,
`standalone` in that order, each `S name S? '=' S? quote value quote`, values over `[A-Za-z0-9._-]`,
then `S?` up to `?>`.  `parse` returns the *concrete syntax tree* (all white space kept), so that the
text can be re-rendered from it (EPV/Spec/GlobalsXmlDeclSpec.lean).

Because `parse-xml` hands **bytes** to the parser, the declared encoding is honoured: a name neither
expat nor Python's codec registry knows raises `LookupError` in the byte parser, a multi-byte codec
`ValueError`; since fix-c19-5 (F19e) both are reported as FODC0006 — `encClass`: a closed table, and an oracle
argument for names outside it.

Core Lean only.
-/
import EPV.Model.Globals
namespace EPV.Globals.XmlDecl
open EPV.Globals.XmlText

/-- characters expat allows inside a pseudo-attribute value (`parsePseudoAttribute`) -/
def valChar (c : Char) : Bool := c.isAlphanum || c == '.' || c == '_' || c == '-'

/-- `Eq ::= S? '=' S?` [25]: the white space on either side -/
structure EqT where
  l : List Char
  r : List Char
  deriving DecidableEq, Repr

/-- one pseudo-attribute: the white space before its name, `Eq`, the quote used, the value -/
structure Attr where
  s : List Char
  eq : EqT
  dq : Bool
  val : List Char
  deriving DecidableEq, Repr

/-- concrete syntax of the text between `<?xml` and `?>` -/
structure Tree where
  ver : Attr
  enc : Option Attr
  sd : Option Attr
  trail : List Char
  deriving DecidableEq, Repr

def eqP (s : List Char) : Option (EqT × List Char) :=
  match s.dropWhile isWs with
  | '=' :: r => some (⟨s.takeWhile isWs, r.takeWhile isWs⟩, r.dropWhile isWs)
  | _ => none

/-- a quoted value: (double quote?, value, rest) -/
def qval (s : List Char) : Option (Bool × List Char × List Char) :=
  match s with
  | '"' :: r =>
    match r.dropWhile valChar with
    | '"' :: r' => some (true, r.takeWhile valChar, r')
    | _ => none
  | '\'' :: r =>
    match r.dropWhile valChar with
    | '\'' :: r' => some (false, r.takeWhile valChar, r')
    | _ => none
  | _ => none

/-- `S kw Eq quote value quote` with `ok value` -/
def attr (kw : List Char) (ok : List Char → Bool) (s : List Char) : Option (Attr × List Char) :=
  if (s.takeWhile isWs).isEmpty then none else
  match stripPrefix kw (s.dropWhile isWs) with
  | none => none
  | some r =>
    match eqP r with
    | none => none
    | some (e, r1) =>
      match qval r1 with
      | none => none
      | some (dq, v, r2) => if ok v then some (⟨s.takeWhile isWs, e, dq, v⟩, r2) else none

/-- expat does not look at the version number beyond its characters -/
def verOk (_ : List Char) : Bool := true

/-- `EncName ::= [A-Za-z] ([A-Za-z0-9._] | '-')*` [81] — the tail is `valChar` already -/
def encOk : List Char → Bool
  | c :: _ => c.isAlpha
  | [] => false

def sdOk (v : List Char) : Bool := v == ['y', 'e', 's'] || v == ['n', 'o']

def kwVersion : List Char := ['v', 'e', 'r', 's', 'i', 'o', 'n']
def kwEncoding : List Char := ['e', 'n', 'c', 'o', 'd', 'i', 'n', 'g']
def kwStandalone : List Char := ['s', 't', 'a', 'n', 'd', 'a', 'l', 'o', 'n', 'e']

/-- an optional pseudo-attribute: absent = nothing consumed -/
def optAttr (kw : List Char) (ok : List Char → Bool) (s : List Char) : Option Attr × List Char :=
  match attr kw ok s with
  | some (a, r) => (some a, r)
  | none => (none, s)

/-- the declaration body (text between `<?xml` and `?>`): `version` is mandatory and first,
then optional `encoding`, then optional `standalone`, then only white space -/
def parse (body : List Char) : Option Tree :=
  match attr kwVersion verOk body with
  | none => none
  | some (v, r1) =>
    let e := optAttr kwEncoding encOk r1
    let sd := optAttr kwStandalone sdOk e.2
    if sd.2.all isWs then some ⟨v, e.1, sd.1, sd.2⟩ else none

def Tree.version (t : Tree) : List Char := t.ver.val
def Tree.encoding (t : Tree) : Option (List Char) := t.enc.map (·.val)
def Tree.standalone (t : Tree) : Option Bool := t.sd.map fun a => a.val == ['y', 'e', 's']

/-- the body of an XML declaration at the very start of the text and the text after its `?>`:
`<?xml` must be followed by white space or by `?>` at once (an empty, hence ill-formed, declaration);
otherwise it is the head of a PI target such as `xmlfoo` -/
def declOf (s : List Char) : Option (List Char × List Char) :=
  match stripPrefix ['<', '?', 'x', 'm', 'l'] s with
  | some ('?' :: '>' :: r) => some ([], r)
  | some (c :: r) => if isWs c then splitAt ['?', '>'] (c :: r) else none
  | _ => none

def nameStart (c : Char) : Bool := c.isAlpha || c == '_' || c == ':' || c.toNat ≥ 128

/-- the text starts with `<?` but not with a PI head `<?` Name (S | `?>`): expat stops there
(`misc` does not look at what follows a PI target) -/
def badPiHead (s : List Char) : Bool :=
  match stripPrefix ['<', '?'] s with
  | none => false
  | some r =>
    let nr := takeName r
    match nr.1 with
    | [] => true
    | c :: _ =>
      !nameStart c ||
      (match nr.2 with
       | '?' :: '>' :: _ => false
       | d :: _ => !isWs d
       | [] => true)

/-- what the byte parser does with a declared encoding when the bytes are UTF-8 of ASCII text -/
inductive EncClass where
  | ok          -- ASCII-compatible single-byte codec or UTF-8
  | wrong       -- UTF-16: expat reports "encoding specified in XML declaration is incorrect"
  | multibyte   -- Python codec that pyexpat refuses: `ValueError`
  | unknown     -- not a codec: `LookupError`
  deriving DecidableEq, Repr

/-- closed, kernel-checked table of encoding names (compared case-insensitively); `none` = the name
is not in the table -/
def tableClass (v : List Char) : Option EncClass :=
  let l := String.ofList (v.map Char.toLower)
  if ["utf-8", "utf8", "us-ascii", "ascii", "iso-8859-1", "latin-1", "latin1", "cp1252"].contains l then some .ok
  else if l == "utf-16" then some .wrong
  else if ["utf-32", "big5", "shift_jis", "euc-jp"].contains l then some .multibyte
  else if ["x-foo", "standalone-yes", "ebcdic-c19", "a", "u.t_f", "version"].contains l then some .unknown
  else none

/-- the class of a declared encoding name: the table, and for a name outside it the **oracle** `o` —
what the running interpreter's byte parser does with that name (Python's codec registry and its
alias normalisation are not modelled; the harness computes `o` from the live interpreter and passes
it on the protocol line, e.g. `Utf-` is an alias of UTF-8 there) -/
def encClass (o : EncClass) (v : List Char) : EncClass := (tableClass v).getD o

/-- the prolog scan with the XML declaration parsed exactly: the scan result and the declaration's
tree.  Without a declaration head it is `scanProlog`, after a look at the head of a leading PI. -/
def scanPrologX (s : List Char) : Prolog × Option Tree :=
  match declOf s with
  | some (decl, r') =>
    match parse decl with
    | none => (⟨false, true, 0, none, false, none⟩, none)
    | some t =>
      ({ misc (r'.length + 1) r' 0 none false true with standalone := t.standalone == some true }, some t)
  | none =>
    if badPiHead s then (⟨false, false, 0, none, false, none⟩, none) else (scanProlog s, none)

/-- `parseText` on a given prolog scan -/
def parseTextWith (p : Prolog) : Option Doc :=
  match p.rest with
  | none => none
  | some r =>
    if p.doctype.isSome && !p.complete then none else
    match r with
    | '<' :: r1 =>
      let (name, r2) := takeName r1
      if name.isEmpty then none else
      match stripPrefix ['>'] (skipWs r2) with
      | none => none
      | some r3 => (content name (r3.length + 1) r3 []).map fun items => ⟨p.xmlDecl, p.leading, p.doctype, items⟩
    | _ => none

/-- the text starts with a well-formed XML declaration whose encoding the byte parser cannot use
(was the trigger of F19e; since fix-c19-5 such a text is an ordinary FODC0006) -/
def rawEncoding (o : EncClass) (s : List Char) : Bool :=
  match (scanPrologX s).2 with
  | some t =>
    match t.encoding with
    | some n => encClass o n == .unknown || encClass o n == .multibyte
    | none => false
  | none => false

/-- `fn:parse-xml` on the text with the declaration parsed exactly (ASCII texts): the encoding is
resolved when the declaration is read, i.e. before any DOCTYPE is seen; an encoding that is wrong
for the UTF-8 bytes (`ParseError`), unknown (`LookupError`) or multi-byte (`ValueError`) makes the
call fail with FODC0006 (`except (etree.ParseError, LookupError, ValueError)`, fix-c19-5) -/
def parseXmlTextX (o : EncClass) (defuseFlag : Bool) (s : String) : Except XErr String :=
  let cs := s.toList
  let pt := scanPrologX cs
  let cls := match pt.2 with
    | some t => (match t.encoding with | some n => encClass o n | none => .ok)
    | none => EncClass.ok
  match cls with
  | .unknown => .error .FODC0006
  | .multibyte => .error .FODC0006
  | .wrong => .error .FODC0006
  | .ok =>
    if defuseFlag && pt.1.forbidden then .error .forbidden
    else match parseTextWith pt.1 with
      | none => .error .FODC0006
      | some d => parseXml false d

end EPV.Globals.XmlDecl

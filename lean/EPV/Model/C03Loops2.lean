/-
C03, phase 5 (second batch) — parent walks: five `while` loops that follow `node.parent` upwards

1. `xpath_context.py:579-585`  `iter_ancestors`   `while parent is not None`
2. `xpath_context.py:609-613`  `iter_preceding`   `while root.parent is not None`
3. `xpath_context.py:638-640`  `iter_followings`  `while root.parent is not None and root is not self.root`
4. `xpath1/_xpath1_functions.py:410-416` `evaluate__lang` `while node is not None`
5. `xpath2/_xpath2_functions.py` `evaluate__lang`  `while node is not None` (the same loop)

Nodes are natural numbers; the tree is a `Store` giving the `parent` attribute of every node.  These
loops DO hang on a cyclic parent chain, so termination needs a hypothesis: `Store.WF` — every parent
has a smaller identity than its child (document-order numbering of a tree built by the tree builders;
the harness numbers the live nodes that way and checks the inequality on every run).
-/
import EPV.Model.C03Loops
namespace EPV.C03Loops

structure Store where
  parent : Nat → Option Nat
  /-- `isinstance(node, EtreeElementNode)` -/
  elem : Nat → Bool
  /-- `XML_LANG in node.value.attrib` -/
  lang : Nat → Bool

/-- parents come before their children in the numbering -/
def Store.WF (st : Store) : Prop := ∀ n p, st.parent n = some p → p < n

/-! ## 1. `XPathContext.iter_ancestors` -/

structure AncSt where
  parent : Option Nat
  ancestors : List Nat
  deriving Repr, DecidableEq

/-- `while parent is not None: ancestors.append(parent); if parent is self.root and self.document is
None: break; parent = parent.parent` -/
def ancLoop (st : Store) (root : Nat) (doc : Bool) : Nat → AncSt → Out (List Nat)
  | 0, _ => .outOfFuel
  | f + 1, s =>
    match s.parent with
    | none => .val s.ancestors
    | some p =>
      if p == root && !doc then .val (s.ancestors ++ [p])
      else ancLoop st root doc f ⟨st.parent p, s.ancestors ++ [p]⟩

def optMeasure : Option Nat → Nat
  | none => 0
  | some p => p + 1

/-- lines 575-588 (the yielded items, in order) -/
def iterAncestors (st : Store) (root : Nat) (doc : Bool) (item : Nat) (orSelf : Bool) : Out (List Nat) :=
  let anc0 := if orSelf then [item] else []
  if doc || item != root then
    match ancLoop st root doc (item + 2) ⟨st.parent item, anc0⟩ with
    | .val a => .val a.reverse
    | o => o
  else .val anc0.reverse

/-- checker used as specification by the driver: `l` (nearest first) is the parent chain of `item`
up to a node without parent, or up to `root` when there is no document -/
def chainOK (st : Store) (root : Nat) (doc : Bool) (item : Nat) : List Nat → Bool
  | [] => st.parent item == none
  | p :: rest =>
    st.parent item == some p &&
      (if p == root && !doc then rest.isEmpty else chainOK st root doc p rest)

/-! ## 2. `XPathContext.iter_preceding` (the walk to the top) -/

structure PrecSt where
  root : Nat
  ancestors : List Nat
  deriving Repr, DecidableEq

/-- `while root.parent is not None: if root is self.root and self.document is None: break;
root = root.parent; ancestors.add(root)` — result: the top node and the collected ancestors -/
def precLoop (st : Store) (ctxRoot : Nat) (doc : Bool) : Nat → PrecSt → Out (Nat × List Nat)
  | 0, _ => .outOfFuel
  | f + 1, s =>
    match st.parent s.root with
    | none => .val (s.root, s.ancestors)
    | some p =>
      if s.root == ctxRoot && !doc then .val (s.root, s.ancestors)
      else precLoop st ctxRoot doc f ⟨p, s.ancestors ++ [p]⟩

/-! ## 3. `XPathContext.iter_followings` (the walk to the top) -/

/-- `while root.parent is not None and root is not self.root: root = root.parent` -/
def follLoop (st : Store) (ctxRoot : Nat) : Nat → Nat → Out Nat
  | 0, _ => .outOfFuel
  | f + 1, r =>
    match st.parent r with
    | none => .val r
    | some p => if r == ctxRoot then .val r else follLoop st ctxRoot f p

/-! ## 4./5. `evaluate__lang` of XPath 1.0 and 2.0 -/

/-- `while node is not None: if isinstance(node, EtreeElementNode) and XML_LANG in node.value.attrib:
break; node = node.parent  else: return False` — `some n`: the node whose `xml:lang` is read,
`none`: the `else` branch -/
def langLoop (st : Store) : Nat → Option Nat → Out (Option Nat)
  | 0, _ => .outOfFuel
  | f + 1, node =>
    match node with
    | none => .val none
    | some n => if st.elem n && st.lang n then .val (some n) else langLoop st f (st.parent n)

end EPV.C03Loops

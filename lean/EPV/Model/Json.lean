/-
Model of the JSON side of elementpath (C17).  Core Lean only.

Strings are lists of code points (`Str := List Nat`), texts likewise.  Every definition names the
Python it transcribes (tree = pinned tree + the `fix:` commits of branch `fix-c17`, see docs/C17.md):

* `replaceAll`               Python `str.replace(old, new)` (non-empty `old`)
* `escapeJsonString`         `elementpath/helpers.py :: escape_json_string`  (sequential replace chain)
* `unescapeJsonString`       `elementpath/helpers.py :: unescape_json_string` (fixed: single regex pass)
* `unescapeSeqOld`           the same function on the pinned tree (sequential chain, F17a) -- kept only
                             for the kernel-checked witness of the defect
* `pyDumpsChar`, `serializeJson`   `serialization.py :: serialize_to_json` = `json.dumps(cls=XPathEncoder,
                             ensure_ascii=True, separators=(',',':'))` followed by `.replace('/', '\\/')`
* `renderInt`, `reprDouble`  number rendering (`int.__repr__`, `float.__repr__` formatting of the
                             shortest digit string -- the digit generation itself is a trusted parameter)
* `decimalOld`               `Decimal.quantize(Decimal('0.01'), ROUND_UP)` of the pinned tree (F17b witness)
* `jsonToXml`, `xmlToJson`   `_xpath31_functions.py :: json-to-xml / xml-to-json` element mapping
* `parseJsonPost`            `_xpath31_functions.py :: parse-json` post-processing (`decode_value`,
                             `json_object_pairs_to_map` with the duplicates policies)
-/
import EPV.Spec.RFC8259
namespace EPV.Json
-- the data types `Str`, `Dec`, `JValue`, `DupPolicy` come from the spec file; nothing else is used from it
-- except where a model function says so explicitly (`numberOfText`).

/-! ## Python `str.replace` -/

/-- `s.replace(old, new)` for non-empty `old`: leftmost, non-overlapping.  `k` = number of characters
still to be dropped because they belong to the occurrence just replaced. -/
def replaceAux (old new : Str) : Nat → Str → Str
  | _, [] => []
  | k + 1, _ :: t => replaceAux old new k t
  | 0, c :: t =>
    if old.isPrefixOf (c :: t) then new ++ replaceAux old new (old.length - 1) t
    else c :: replaceAux old new 0 t

def replaceAll (old new s : Str) : Str := replaceAux old new 0 s

/-! ## `"%04X"` / `"{:04x}"` -/

def hexDigitU (d : Nat) : Nat := if d < 10 then 48 + d else 55 + d      -- '0'..'9','A'..'F'
def hexDigitL (d : Nat) : Nat := if d < 10 then 48 + d else 87 + d      -- '0'..'9','a'..'f'

/-- `'%04X' % n` for `n < 0x10000` (the only range on which the code calls it) -/
def hex4U (n : Nat) : Str :=
  [hexDigitU (n / 4096 % 16), hexDigitU (n / 256 % 16), hexDigitU (n / 16 % 16), hexDigitU (n % 16)]
def hex4L (n : Nat) : Str :=
  [hexDigitL (n / 4096 % 16), hexDigitL (n / 256 % 16), hexDigitL (n / 16 % 16), hexDigitL (n % 16)]

/-! ## helpers.py :: escape_json_string -/

/-- the final generator expression: `rf'\u{ord(x):04X}' if 1 <= ord(x) <= 31 or 127 <= ord(x) <= 159 else x` -/
def ctrlEscape (x : Nat) : Str :=
  if (1 ≤ x ∧ x ≤ 31) ∨ (127 ≤ x ∧ x ≤ 159) then [92, 117] ++ hex4U x else [x]

/-- the replace chain of `escape_json_string` after the backslash step (shared by both modes) -/
def escapeChain (s : Str) : Str :=
  let s := replaceAll [34] [92, 34] s      -- "  -> \"
  let s := replaceAll [8] [92, 98] s       -- BS -> \b
  let s := replaceAll [13] [92, 114] s     -- CR -> \r
  let s := replaceAll [10] [92, 110] s     -- LF -> \n
  let s := replaceAll [9] [92, 116] s      -- TAB -> \t
  let s := replaceAll [12] [92, 102] s     -- FF -> \f
  let s := replaceAll [47] [92, 47] s      -- /  -> \/
  s.flatMap ctrlEscape

/-- `escape_json_string(s, escaped=True)` (fixed tree):
`re.sub(r'\\.|[^\\]+', keep-or-escape, s, flags=DOTALL)` -- a backslash and the character after it are
kept, the runs between escape sequences go through the unescaped mode (which, on a backslash-free run,
is the replace chain); a trailing lone backslash is copied.  `run` = the current backslash-free run,
reversed. -/
def escapedPass : Str → Str → Str
  | run, [] => escapeChain run.reverse
  | run, [92] => escapeChain run.reverse ++ [92]
  | run, 92 :: c :: t => escapeChain run.reverse ++ 92 :: c :: escapedPass [] t
  | run, x :: t => escapedPass (x :: run) t

/-- helpers.py :: escape_json_string, statement by statement -/
def escapeJsonString (s : Str) (escaped : Bool := false) : Str :=
  if escaped then escapedPass [] s
  else escapeChain (replaceAll [92] [92, 92] s)

/-! ## helpers.py :: unescape_json_string -/

def hexVal? (c : Nat) : Option Nat :=
  if 48 ≤ c ∧ c ≤ 57 then some (c - 48)
  else if 65 ≤ c ∧ c ≤ 70 then some (c - 55)
  else if 97 ≤ c ∧ c ≤ 102 then some (c - 87)
  else none

/-- value of a run of hex digits (all must be hex digits) -/
def hexRun? (l : Str) : Option Nat :=
  l.foldl (fun acc c => match acc, hexVal? c with
      | some a, some d => some (16 * a + d)
      | _, _ => none) (some 0)

/-- the `simple` table of the fixed `unescape_json_string` -/
def simpleUnescape? (c : Nat) : Option Nat :=
  if c = 34 then some 34 else if c = 92 then some 92 else if c = 47 then some 47
  else if c = 98 then some 8 else if c = 102 then some 12 else if c = 110 then some 10
  else if c = 114 then some 13 else if c = 116 then some 9 else none

/-- one match attempt of the regex `\\(?:(["\\/bfnrt])|u([0-9A-Fa-f]{4})|U([0-9A-Fa-f]{8}))` at a
backslash; argument = the text after the backslash; result = replacement character (`none` inside:
`chr()` out of range, a `ValueError`) and the text after the match. -/
def escapeAt (t : Str) : Option (Option Nat × Str) :=
  match t with
  | [] => none
  | c :: r =>
    match simpleUnescape? c with
    | some d => some (some d, r)
    | none =>
      if c = 117 then
        if r.length < 4 then none else
        match hexRun? (r.take 4) with
        | some v => some (some v, r.drop 4)
        | none => none
      else if c = 85 then
        if r.length < 8 then none else
        match hexRun? (r.take 8) with
        | some v => some (if v < 0x110000 then some v else none, r.drop 8)
        | none => none
      else none

/-- `re.sub(pattern, callback, s)`, fuel = number of characters still to scan.
`none` = the callback raised (`chr` argument ≥ 0x110000, only reachable through `\UXXXXXXXX`). -/
def unescapeF : Nat → Str → Option Str
  | 0, _ => some []
  | _ + 1, [] => some []
  | f + 1, c :: t =>
    if c = 92 then
      match escapeAt t with
      | some (some d, r) => (unescapeF f r).map (d :: ·)
      | some (none, _) => none
      | none => (unescapeF f t).map (c :: ·)
    else (unescapeF f t).map (c :: ·)

def unescapeJsonString (s : Str) : Option Str := unescapeF s.length s

/-- `Patterns.unicode_escape.sub(...)` of the pinned tree: `\uXXXX` / `\UXXXXXXXX` only -/
def unicodeSubF : Nat → Str → Option Str
  | 0, _ => some []
  | _ + 1, [] => some []
  | f + 1, c :: t =>
    if c = 92 then
      match t with
      | 117 :: r =>
        if r.length < 4 then (unicodeSubF f t).map (c :: ·) else
        match hexRun? (r.take 4) with
        | some v => (unicodeSubF f (r.drop 4)).map (v :: ·)
        | none => (unicodeSubF f t).map (c :: ·)
      | 85 :: r =>
        if r.length < 8 then (unicodeSubF f t).map (c :: ·) else
        match hexRun? (r.take 8) with
        | some v => if v < 0x110000 then (unicodeSubF f (r.drop 8)).map (v :: ·) else none
        | none => (unicodeSubF f t).map (c :: ·)
      | _ => (unicodeSubF f t).map (c :: ·)
    else (unicodeSubF f t).map (c :: ·)

/-- PINNED TREE (before `fix: unescape_json_string …`): helpers.py:359-373, the sequential chain. -/
def unescapeSeqOld (s : Str) : Option Str :=
  let s := replaceAll [92, 34] [34] s
  let s := replaceAll [92, 98] [8] s
  let s := replaceAll [92, 114] [13] s
  let s := replaceAll [92, 110] [10] s
  let s := replaceAll [92, 116] [9] s
  let s := replaceAll [92, 102] [12] s
  let s := replaceAll [92, 47] [47] s
  let s := replaceAll [92, 92] [92] s
  unicodeSubF s.length s

/-- trigger predicate of F17a on the pinned tree: the string contains a backslash immediately
followed by one of `b f n r t`, or by `u` and four hex digits (after `escape` the second half of
the doubled backslash combines with that letter).  A backslash followed by `"`, `/` or `\` is
harmless: those characters are escaped themselves. -/
def f17aTrigger : Str → Bool
  | [] => false
  | c :: t =>
    (c == 92 && (match t with
      | d :: r => d == 98 || d == 102 || d == 110 || d == 114 || d == 116 ||
          (d == 117 && 4 ≤ r.length && (hexRun? (r.take 4)).isSome)
      | [] => false)) || f17aTrigger t

/-! ## json.dumps(ensure_ascii=True) string encoding + serialize_to_json -/

/-- `json.encoder.py_encode_basestring_ascii` / `c_encode_basestring_ascii`:
`ESCAPE_ASCII = ([\\"]|[^\ -~])`, `ESCAPE_DCT` for `\\ " \b \f \n \r \t`, otherwise `\uxxxx`
(lower-case hex), code points ≥ 0x10000 as a UTF-16 surrogate pair. -/
def pyDumpsChar (c : Nat) : Str :=
  if c = 92 then [92, 92] else if c = 34 then [92, 34]
  else if c = 8 then [92, 98] else if c = 12 then [92, 102] else if c = 10 then [92, 110]
  else if c = 13 then [92, 114] else if c = 9 then [92, 116]
  else if 32 ≤ c ∧ c ≤ 126 then [c]
  else if c < 0x10000 then [92, 117] ++ hex4L c
  else
    let v := c - 0x10000
    [92, 117] ++ hex4L (0xD800 + v / 1024 % 1024) ++ [92, 117] ++ hex4L (0xDC00 + v % 1024)

/-- decimal digits of a natural number, most significant first (`int.__repr__`); fuel ≥ number of digits -/
def natDigitsF : Nat → Nat → List Nat
  | 0, _ => []
  | f + 1, n => if n < 10 then [n] else natDigitsF f (n / 10) ++ [n % 10]

def natDigits (n : Nat) : List Nat := natDigitsF (n + 1) n

def digitChars (ds : List Nat) : Str := ds.map (48 + ·)

/-- `int.__repr__` -/
def renderInt (n : Int) : Str :=
  if n < 0 then 45 :: digitChars (natDigits n.natAbs) else digitChars (natDigits n.natAbs)

/-- exponent digits: `%+.02d` -/
def expDigits (e : Int) : List Nat :=
  let ed := natDigits e.natAbs
  if ed.length < 2 then 0 :: ed else ed

/-- `d₁[.d₂…dₖ]` -/
def reprMantissa : List Nat → Str
  | [] => []
  | [a] => [48 + a]
  | a :: rest => (48 + a) :: 46 :: digitChars rest

/-- exponent notation `d₁[.d₂…dₖ]e±XX` with exponent `decpt - 1` -/
def reprExpForm (digits : List Nat) (decpt : Int) : Str :=
  reprMantissa digits ++ [101, if decpt - 1 < 0 then 45 else 43] ++ digitChars (expDigits (decpt - 1))

/-- fixed notation, always with a decimal point (`Py_DTSF_ADD_DOT_0`) -/
def reprFixedForm (digits : List Nat) (decpt : Int) : Str :=
  if decpt ≤ 0 then [48, 46] ++ List.replicate (-decpt).toNat 48 ++ digitChars digits
  else if decpt < (digits.length : Int) then
    digitChars (digits.take decpt.toNat) ++ [46] ++ digitChars (digits.drop decpt.toNat)
  else digitChars digits ++ List.replicate (decpt - (digits.length : Int)).toNat 48 ++ [46, 48]

def reprBody (d : Dec) : Str :=
  if d.decpt ≤ -4 ∨ d.decpt > 16 then reprExpForm d.digits d.decpt else reprFixedForm d.digits d.decpt

/-- `float.__repr__` (`format_float_short(x, 'r', 0, Py_DTSF_ADD_DOT_0, …)` in CPython's
`pystrtod.c`) applied to the shortest digit string `d.digits` with decimal point position `d.decpt`
(value `0.d₁…dₖ × 10^decpt`; digit generation `_Py_dg_dtoa` mode 0 is a TRUSTED parameter):
exponent notation iff `decpt ≤ -4` or `decpt > 16`; exponent with sign and at least two digits. -/
def reprDouble (d : Dec) : Str := (if d.neg then [45] else []) ++ reprBody d

mutual
/-- `json.dumps(v, separators=(',', ':'))` with the string encoder `esc` -/
def render (esc : Nat → Str) : JValue → Str
  | .null => [110, 117, 108, 108]
  | .bool true => [116, 114, 117, 101]
  | .bool false => [102, 97, 108, 115, 101]
  | .int n => renderInt n
  | .dbl d => reprDouble d
  | .str s => 34 :: (s.flatMap esc ++ [34])
  | .arr l => 91 :: renderL esc l
  | .obj m => 123 :: renderM esc m
/-- the members of an array followed by `]` -/
def renderL (esc : Nat → Str) : List JValue → Str
  | [] => [93]
  | v :: t => render esc v ++ (match t with | [] => [93] | _ :: _ => 44 :: renderL esc t)
/-- the members of an object followed by `}` -/
def renderM (esc : Nat → Str) : List (Str × JValue) → Str
  | [] => [125]
  | (k, v) :: t =>
    34 :: (k.flatMap esc ++ [34, 58]) ++ render esc v ++
      (match t with | [] => [125] | _ :: _ => 44 :: renderM esc t)
end

def pyDumps (v : JValue) : Str := render pyDumpsChar v

/-- serialization.py :: serialize_to_json for one JSON-representable item:
`json.dumps(x, cls=XPathEncoder, ensure_ascii=True, separators=(',', ':'))` then
`result = parts[0].replace('/', '\\/')`.  (XDM side, fixed tree: `()` as array member or map entry
is `null`; an `xs:decimal` goes through `float()`, i.e. arrives here as the `dbl` of its nearest
double -- trusted.) -/
def serializeJson (v : JValue) : Str := replaceAll [47] [92, 47] (pyDumps v)

/-- PINNED TREE (F17b): `Decimal(obj).quantize(Decimal("0.01"), ROUND_UP)` on the decimal
`(-1)^neg × unscaled × 10^-scale`: the result as unscaled hundredths (rounded away from zero). -/
def quantize2UpOld (unscaled scale : Nat) : Nat :=
  if scale ≤ 2 then unscaled * 10 ^ (2 - scale)
  else (unscaled + 10 ^ (scale - 2) - 1) / 10 ^ (scale - 2)

/-- trigger predicate of F17b on the pinned tree: more than two significant fraction digits -/
def f17bTrigger (unscaled scale : Nat) : Bool :=
  scale > 2 && unscaled % 10 ^ (scale - 2) != 0

/-! ## json-to-xml / xml-to-json (default options) -/

inductive Tag where
  | null | boolean | number | string | array | map
  deriving Repr, DecidableEq, Inhabited

/-- an element of the F&O §17.4.2 vocabulary: tag, `key` attribute, text, element children -/
inductive Elem where
  | mk (tag : Tag) (key : Option Str) (text : Option Str) (children : List Elem)
  deriving Repr, Inhabited

inductive Err where
  | FOJS0003 | FOJS0006 | FOJS0007 | other
  deriving Repr, DecidableEq, Inhabited

/-- `is_xml_codepoint` (helpers.py:263-267) -/
def isXmlCodepoint (cp : Nat) : Bool :=
  cp == 9 || cp == 10 || cp == 13 || (0x20 ≤ cp && cp ≤ 0xD7FF) || (0xE000 ≤ cp && cp ≤ 0xFFFD) ||
    (0x10000 ≤ cp && cp ≤ 0x10FFFF)

/-- `''.join(x if is_xml_codepoint(ord(x)) else fallback(...) for x in v)` with the (fixed) default
fallback U+FFFD -/
def xmlFallback (s : Str) : Str := s.map fun c => if isXmlCodepoint c then c else 0xFFFD

/-- `json_object_to_etree`: the `keys` set and the `duplicates` option (`retain` is the default,
`None`, of a call without options) applied to the *raw* keys -/
def j2xPairs {α} (p : DupPolicy) : List Str → List (Str × α) → Except Err (List (Str × α))
  | _, [] => .ok []
  | seen, (k, v) :: t =>
    if k ∈ seen then
      match p with
      | .useFirst => j2xPairs p seen t
      | .reject => .error .FOJS0003
      | _ => (j2xPairs p seen t).map ((k, v) :: ·)
    else (j2xPairs p (k :: seen) t).map ((k, v) :: ·)

mutual
/-- `value_to_etree(v, **attrib)` with `attrib = {'key': …}` or none -/
def toElem (p : DupPolicy) (key : Option Str) : JValue → Except Err Elem
  | .null => .ok (.mk .null key none [])
  | .bool b => .ok (.mk .boolean key (some (if b then [116, 114, 117, 101] else [102, 97, 108, 115, 101])) [])
  | .int n => .ok (.mk .number key (some (renderInt n)) [])          -- str(int)
  | .dbl d => .ok (.mk .number key (some (reprDouble d)) [])         -- str(float)
  | .str s => .ok (.mk .string key (some (xmlFallback s)) [])
  | .arr l => (toElemL p l).map (Elem.mk .array key none)
  | .obj m => (toElemM p [] m).map (Elem.mk .map key none)
def toElemL (p : DupPolicy) : List JValue → Except Err (List Elem)
  | [] => .ok []
  | v :: t => do
    let e ← toElem p none v
    let es ← toElemL p t
    pure (e :: es)
/-- `json_object_to_etree` fused with the conversion of the member values; `seen` = the `keys` set -/
def toElemM (p : DupPolicy) (seen : List Str) : List (Str × JValue) → Except Err (List Elem)
  | [] => .ok []
  | (k, v) :: t =>
    if k ∈ seen then
      match p with
      | .useFirst => toElemM p seen t
      | .reject => .error .FOJS0003
      | _ => do
        let e ← toElem p (some (xmlFallback k)) v
        let es ← toElemM p seen t
        pure (e :: es)
    else do
      let e ← toElem p (some (xmlFallback k)) v
      let es ← toElemM p (k :: seen) t
      pure (e :: es)
end

/-- fn:json-to-xml on a parsed JSON text (default options: `duplicates` = retain) -/
def jsonToXml (v : JValue) (p : DupPolicy := .retain) : Except Err Elem := toElem p none v

/-- `text.rstrip('0').rstrip('.')` -/
def rstripZerosDot (t : Str) : Str :=
  let a := (t.reverse.dropWhile (· == 48))
  (a.dropWhile (· == 46)).reverse

/-- `str(x)` of a double followed by `text if 'e' in text else text.rstrip('0').rstrip('.')` -/
def reprStripped (d : Dec) : Str :=
  let t := reprDouble d
  if 101 ∈ t then t else rstripZerosDot t

/-- the decimal normal form of an integer (the exact value `float()` is applied to) -/
def denInt (n : Int) : Dec :=
  normDec (decide (n < 0)) (natDigits n.natAbs) (natDigits n.natAbs).length

/-- the number branch of `elem_to_json` (fixed tree): `number = DoubleProxy(value)`,
`text = str(number)`, `text if 'e' in text else text.rstrip('0').rstrip('.')`.
The text is read as an RFC 8259 number (the only texts json-to-xml produces) and brought to decimal
normal form; `rnd` is `float()`: rounding to the nearest double, given by the shortest digits of the
result.  `rnd` is a TRUSTED PARAMETER (CPython's `float(str)` and `float.__repr__` digit generation);
the check passes the table of the roundings the real run performed, and `float(repr(x)) == x` says
`rnd d = d` whenever `d` is the repr of a double. -/
def numberOfText (rnd : Dec → Dec) (value : Str) : Except Err Str :=
  match parseNum value with
  | some (.int n, []) => .ok (reprStripped (rnd (denInt n)))
  | some (.dbl d, []) => .ok (reprStripped (rnd d))
  | _ => .error .other

def joinComma : List Str → Str
  | [] => []
  | [a] => a
  | a :: b :: t => a ++ 44 :: joinComma (b :: t)

mutual
/-- `elem_to_json((e,))` for one element (_xpath31_functions.py:1134-1245, fixed tree, elements
without `escaped` / `escaped-key` attributes) -/
def elemToJson (rnd : Dec → Dec) : Elem → Except Err Str
  | .mk .null _ text _ =>
    if text.isSome then .error .FOJS0006 else .ok [110, 117, 108, 108]
  | .mk .boolean _ text _ =>
    let t := text.getD []
    if t = [116, 114, 117, 101] ∨ t = [49] then .ok [116, 114, 117, 101]
    else if t = [102, 97, 108, 115, 101] ∨ t = [48] then .ok [102, 97, 108, 115, 101]
    else .error .other
  | .mk .number _ text _ => numberOfText rnd (text.getD [])
  | .mk .string _ text children =>
    if !children.isEmpty then .error .FOJS0006
    else .ok (34 :: (escapeJsonString (text.getD []) ++ [34]))
  | .mk .array _ _ children => do
    let cs ← elemsToJson rnd children
    pure (91 :: (joinComma cs ++ [93]))
  | .mk .map _ _ children => do
    let cs ← membersToJson rnd [] children
    pure (123 :: (joinComma cs ++ [125]))
def elemsToJson (rnd : Dec → Dec) : List Elem → Except Err (List Str)
  | [] => .ok []
  | e :: t => do
    let c ← elemToJson rnd e
    let cs ← elemsToJson rnd t
    pure (c :: cs)
/-- the `for e in child:` loop of the map branch; `seen` = `map_keys` -/
def membersToJson (rnd : Dec → Dec) (seen : List Str) : List Elem → Except Err (List Str)
  | [] => .ok []
  | e :: t =>
    match e with
    | .mk _ none _ _ => .error .FOJS0006
    | .mk _ (some key) _ _ => do
      let k := escapeJsonString key
      let c ← elemToJson rnd e
      match unescapeJsonString k with
      | none => .error .other
      | some uk =>
        if uk ∈ seen then .error .FOJS0006 else do
          let cs ← membersToJson rnd (uk :: seen) t
          pure ((34 :: (k ++ [34, 58]) ++ c) :: cs)
end

/-- fn:xml-to-json on the root element -/
def xmlToJson (rnd : Dec → Dec) (e : Elem) : Except Err Str := elemToJson rnd e

/-! ## fn:parse-json post-processing -/

/-- `decode_value` on a string (default `fallback`: U+FFFD) -/
def pjString (s : Str) : Str := s.map fun c => if isXmlCodepoint c then c else 0xFFFD

/-- `items[key] = value` on an insertion-ordered dict -/
def dictSet {α} (k : Str) (v : α) : List (Str × α) → List (Str × α)
  | [] => [(k, v)]
  | (k', v') :: t => if k' = k then (k, v) :: t else (k', v') :: dictSet k v t

/-- `json_object_pairs_to_map` after the member values have been converted; keys are decoded
*before* the duplicate test -/
def pjPairs {α} (p : DupPolicy) : List (Str × α) → List (Str × α) → Except Err (List (Str × α))
  | items, [] => .ok items
  | items, (k, v) :: t =>
    let key := pjString k
    if items.any (·.1 == key) then
      match p with
      | .useFirst => pjPairs p items t
      | .reject => .error .FOJS0003
      | _ => pjPairs p (dictSet key v items) t
    else pjPairs p (dictSet key v items) t

mutual
/-- fn:parse-json after Python's `json` has read the text: `decode_value` + `json_object_pairs_to_map` -/
def pjPost (p : DupPolicy) : JValue → Except Err JValue
  | .str s => .ok (.str (pjString s))
  | .arr l => (pjPostL p l).map JValue.arr
  | .obj m => do
    let m' ← pjPostM p m
    let items ← pjPairs p [] m'
    pure (.obj items)
  | v => .ok v
def pjPostL (p : DupPolicy) : List JValue → Except Err (List JValue)
  | [] => .ok []
  | v :: t => do
    let v' ← pjPost p v
    let t' ← pjPostL p t
    pure (v' :: t')
def pjPostM (p : DupPolicy) : List (Str × JValue) → Except Err (List (Str × JValue))
  | [] => .ok []
  | (k, v) :: t => do
    let v' ← pjPost p v
    let t' ← pjPostM p t
    pure ((k, v') :: t')
end

/-! ## the serializers' escaping of character data and attribute values (fn:serialize, method xml)

fn:serialize delegates to `etree_module.tostringlist`; these are the escaping functions it ends up
in.  They are library code (CPython 3.12 `xml/etree/ElementTree.py`, libxml2 for lxml), modelled here
because the round trip `parse-xml(serialize(node))` depends on them; tied on every run against the
live functions. -/

/-- `xml.etree.ElementTree._escape_cdata` -/
def etEscapeText (s : Str) : Str :=
  let s := replaceAll [38] [38, 97, 109, 112, 59] s          -- & -> &amp;
  let s := replaceAll [60] [38, 108, 116, 59] s              -- < -> &lt;
  replaceAll [62] [38, 103, 116, 59] s                       -- > -> &gt;

/-- `xml.etree.ElementTree._escape_attrib` -/
def etEscapeAttr (s : Str) : Str :=
  let s := replaceAll [38] [38, 97, 109, 112, 59] s
  let s := replaceAll [60] [38, 108, 116, 59] s
  let s := replaceAll [62] [38, 103, 116, 59] s
  let s := replaceAll [34] [38, 113, 117, 111, 116, 59] s    -- " -> &quot;
  let s := replaceAll [13] [38, 35, 49, 51, 59] s            -- CR -> &#13;
  let s := replaceAll [10] [38, 35, 49, 48, 59] s            -- LF -> &#10;
  replaceAll [9] [38, 35, 48, 57, 59] s                      -- TAB -> &#09;

/-- lxml / libxml2 `xmlEscapeContent`-style text escaping: as above plus CR -> `&#13;` -/
def lxEscapeText (s : Str) : Str := replaceAll [13] [38, 35, 49, 51, 59] (etEscapeText s)

/-- serialization.py :: serialize_to_xml with `xml.etree.ElementTree` (fixed tree, `fix: fn:serialize writes
U+000D … as &#13;`): in a copy of the element every U+000D of text and tails is replaced by a mark `k` (a
private-use character that occurs nowhere in the subtree), the copy goes through ElementTree's serializer, and the
mark is replaced by the character reference in the output. -/
def repoEscapeText (k : Nat) (s : Str) : Str :=
  replaceAll [k] [38, 35, 49, 51, 59] (etEscapeText (replaceAll [13] [k] s))

/-- PINNED-TREE trigger predicate of F17n (fixed): the character data contains U+000D -/
def hasCR (s : Str) : Bool := s.any (· == 13)

/-! ## json-to-xml / xml-to-json with `escape: true` (string level) -/

/-- `re.sub(r'\\(?!/)', r'\\\\', s)`: double every backslash that is not followed by `/` -/
def doubleBackslash : Str → Str
  | [] => []
  | 92 :: t => (match t with | 47 :: _ => [92] | _ => [92, 92]) ++ doubleBackslash t
  | c :: t => c :: doubleBackslash t

/-- `escape_string` of fn:json-to-xml (option `escape: true`), _xpath31_functions.py -/
def j2xEscapeString (s : Str) : Str :=
  let s := doubleBackslash s
  let s := replaceAll [8] [92, 98] s
  let s := replaceAll [13] [92, 114] s
  let s := replaceAll [10] [92, 110] s
  let s := replaceAll [9] [92, 116] s
  let s := replaceAll [12] [92, 102] s
  let s := replaceAll [47] [92, 47] s
  s.flatMap fun x => if isXmlCodepoint x then [x] else [92, 117] ++ hex4U x

/-- `check_escapes` of fn:xml-to-json (fixed tree): left to right, `\\` followed by one of `urtnfb/"\\`
(`u` with four hex digits); `false` = FOJS0007 -/
def checkEscapesF : Nat → Str → Bool
  | 0, _ => true
  | _ + 1, [] => true
  | f + 1, c :: t =>
    if c = 92 then
      match t with
      | [] => false
      | e :: r =>
        if e = 117 then
          if r.length < 4 then false
          else if (hexRun? (r.take 4)).isSome then checkEscapesF f (r.drop 4) else false
        else if e = 114 ∨ e = 116 ∨ e = 110 ∨ e = 102 ∨ e = 98 ∨ e = 47 ∨ e = 34 ∨ e = 92 then checkEscapesF f r
        else false
    else checkEscapesF f t

def checkEscapes (s : Str) : Bool := checkEscapesF s.length s

/-- the `string` branch of xml-to-json for an element written by json-to-xml with `escape: true`:
text `value`, attribute `escaped` present iff the text contains a backslash -/
def x2jStringEscaped (value : Str) : Except Err Str :=
  let escaped := value.contains 92
  if escaped && !checkEscapes value then .error .FOJS0007
  else .ok (34 :: (escapeJsonString value escaped ++ [34]))

end EPV.Json

/-
Model of the JSON side of elementpath (C17).  Core Lean only.

Strings are lists of code points (`Str := List Nat`), texts likewise.  Every definition names the
Python it transcribes (tree = pinned tree + the `fix:` commits of branch `fix-c17`, see docs/C17.md):

* `replaceAll`               Python `str.replace(old, new)` (non-empty `old`)
* `escapeJsonString`         `elementpath/helpers.py :: escape_json_string`  (sequential replace chain)
* `unescapeJsonString`       `elementpath/helpers.py :: unescape_json_string` (fixed: single regex pass)
* `unescapeSeqOld`           the same function on the pinned tree (sequential chain, F17a) -- kept only
                             for the kernel-checked witness of the defect
* `pyDumpsChar`, `serializeJson`   `serialization.py :: serialize_to_json` = `json.dumps(cls=XPathEncoder,
                             ensure_ascii=True, separators=(',',':'))` followed by `.replace('/', '\\/')`
* `renderInt`, `reprDouble`  number rendering (`int.__repr__`, `float.__repr__` formatting of the
                             shortest digit string -- the digit generation itself is a trusted parameter)
* `decimalOld`               `Decimal.quantize(Decimal('0.01'), ROUND_UP)` of the pinned tree (F17b witness)
* `jsonToXml`, `xmlToJson`   `_xpath31_functions.py :: json-to-xml / xml-to-json` element mapping
* `parseJsonPost`            `_xpath31_functions.py :: parse-json` post-processing (`decode_value`,
                             `json_object_pairs_to_map` with the duplicates policies)
-/
namespace EPV.Json

abbrev Str := List Nat

/-! ## Python `str.replace` -/

/-- `s.replace(old, new)` for non-empty `old`: leftmost, non-overlapping.  `k` = number of characters
still to be dropped because they belong to the occurrence just replaced. -/
def replaceAux (old new : Str) : Nat → Str → Str
  | _, [] => []
  | k + 1, _ :: t => replaceAux old new k t
  | 0, c :: t =>
    if old.isPrefixOf (c :: t) then new ++ replaceAux old new (old.length - 1) t
    else c :: replaceAux old new 0 t

def replaceAll (old new s : Str) : Str := replaceAux old new 0 s

/-! ## `"%04X"` / `"{:04x}"` -/

def hexDigitU (d : Nat) : Nat := if d < 10 then 48 + d else 55 + d      -- '0'..'9','A'..'F'
def hexDigitL (d : Nat) : Nat := if d < 10 then 48 + d else 87 + d      -- '0'..'9','a'..'f'

/-- `'%04X' % n` for `n < 0x10000` (the only range on which the code calls it) -/
def hex4U (n : Nat) : Str :=
  [hexDigitU (n / 4096 % 16), hexDigitU (n / 256 % 16), hexDigitU (n / 16 % 16), hexDigitU (n % 16)]
def hex4L (n : Nat) : Str :=
  [hexDigitL (n / 4096 % 16), hexDigitL (n / 256 % 16), hexDigitL (n / 16 % 16), hexDigitL (n % 16)]

/-! ## helpers.py :: escape_json_string -/

/-- the final generator expression: `rf'\u{ord(x):04X}' if 1 <= ord(x) <= 31 or 127 <= ord(x) <= 159 else x` -/
def ctrlEscape (x : Nat) : Str :=
  if (1 ≤ x ∧ x ≤ 31) ∨ (127 ≤ x ∧ x ≤ 159) then [92, 117] ++ hex4U x else [x]

/-- helpers.py:339-356, statement by statement -/
def escapeJsonString (s : Str) (escaped : Bool := false) : Str :=
  let s := if escaped then replaceAll [92, 34] [34] s else replaceAll [92] [92, 92] s
  let s := replaceAll [34] [92, 34] s      -- "  -> \"
  let s := replaceAll [8] [92, 98] s       -- BS -> \b
  let s := replaceAll [13] [92, 114] s     -- CR -> \r
  let s := replaceAll [10] [92, 110] s     -- LF -> \n
  let s := replaceAll [9] [92, 116] s      -- TAB -> \t
  let s := replaceAll [12] [92, 102] s     -- FF -> \f
  let s := replaceAll [47] [92, 47] s      -- /  -> \/
  s.flatMap ctrlEscape

/-! ## helpers.py :: unescape_json_string -/

def hexVal? (c : Nat) : Option Nat :=
  if 48 ≤ c ∧ c ≤ 57 then some (c - 48)
  else if 65 ≤ c ∧ c ≤ 70 then some (c - 55)
  else if 97 ≤ c ∧ c ≤ 102 then some (c - 87)
  else none

/-- value of a run of hex digits (all must be hex digits) -/
def hexRun? (l : Str) : Option Nat :=
  l.foldl (fun acc c => match acc, hexVal? c with
      | some a, some d => some (16 * a + d)
      | _, _ => none) (some 0)

/-- the `simple` table of the fixed `unescape_json_string` -/
def simpleUnescape? (c : Nat) : Option Nat :=
  if c = 34 then some 34 else if c = 92 then some 92 else if c = 47 then some 47
  else if c = 98 then some 8 else if c = 102 then some 12 else if c = 110 then some 10
  else if c = 114 then some 13 else if c = 116 then some 9 else none

/-- one match attempt of the regex `\\(?:(["\\/bfnrt])|u([0-9A-Fa-f]{4})|U([0-9A-Fa-f]{8}))` at a
backslash; argument = the text after the backslash; result = replacement character (`none` inside:
`chr()` out of range, a `ValueError`) and the text after the match. -/
def escapeAt (t : Str) : Option (Option Nat × Str) :=
  match t with
  | [] => none
  | c :: r =>
    match simpleUnescape? c with
    | some d => some (some d, r)
    | none =>
      if c = 117 then
        if r.length < 4 then none else
        match hexRun? (r.take 4) with
        | some v => some (some v, r.drop 4)
        | none => none
      else if c = 85 then
        if r.length < 8 then none else
        match hexRun? (r.take 8) with
        | some v => some (if v < 0x110000 then some v else none, r.drop 8)
        | none => none
      else none

/-- `re.sub(pattern, callback, s)`, fuel = number of characters still to scan.
`none` = the callback raised (`chr` argument ≥ 0x110000, only reachable through `\UXXXXXXXX`). -/
def unescapeF : Nat → Str → Option Str
  | 0, _ => some []
  | _ + 1, [] => some []
  | f + 1, c :: t =>
    if c = 92 then
      match escapeAt t with
      | some (some d, r) => (unescapeF f r).map (d :: ·)
      | some (none, _) => none
      | none => (unescapeF f t).map (c :: ·)
    else (unescapeF f t).map (c :: ·)

def unescapeJsonString (s : Str) : Option Str := unescapeF s.length s

/-- `Patterns.unicode_escape.sub(...)` of the pinned tree: `\uXXXX` / `\UXXXXXXXX` only -/
def unicodeSubF : Nat → Str → Option Str
  | 0, _ => some []
  | _ + 1, [] => some []
  | f + 1, c :: t =>
    if c = 92 then
      match t with
      | 117 :: r =>
        if r.length < 4 then (unicodeSubF f t).map (c :: ·) else
        match hexRun? (r.take 4) with
        | some v => (unicodeSubF f (r.drop 4)).map (v :: ·)
        | none => (unicodeSubF f t).map (c :: ·)
      | 85 :: r =>
        if r.length < 8 then (unicodeSubF f t).map (c :: ·) else
        match hexRun? (r.take 8) with
        | some v => if v < 0x110000 then (unicodeSubF f (r.drop 8)).map (v :: ·) else none
        | none => (unicodeSubF f t).map (c :: ·)
      | _ => (unicodeSubF f t).map (c :: ·)
    else (unicodeSubF f t).map (c :: ·)

/-- PINNED TREE (before `fix: unescape_json_string …`): helpers.py:359-373, the sequential chain. -/
def unescapeSeqOld (s : Str) : Option Str :=
  let s := replaceAll [92, 34] [34] s
  let s := replaceAll [92, 98] [8] s
  let s := replaceAll [92, 114] [13] s
  let s := replaceAll [92, 110] [10] s
  let s := replaceAll [92, 116] [9] s
  let s := replaceAll [92, 102] [12] s
  let s := replaceAll [92, 47] [47] s
  let s := replaceAll [92, 92] [92] s
  unicodeSubF s.length s

/-- trigger predicate of F17a on the pinned tree: the string contains a backslash immediately
followed by one of `b f n r t`, or by `u` and four hex digits (after `escape` the second half of
the doubled backslash combines with that letter).  A backslash followed by `"`, `/` or `\` is
harmless: those characters are escaped themselves. -/
def f17aTrigger : Str → Bool
  | [] => false
  | c :: t =>
    (c == 92 && (match t with
      | d :: r => d == 98 || d == 102 || d == 110 || d == 114 || d == 116 ||
          (d == 117 && 4 ≤ r.length && (hexRun? (r.take 4)).isSome)
      | [] => false)) || f17aTrigger t

end EPV.Json

/-
C14 extension (phase 5): lazily built node trees (`LazyElementNode`) for paths.  Core Lean only.

Python transcribed (`/repo` c343e48, `elementpath/xpath_nodes.py`):
* `LazyElementNode.__iter__` (1397-1413): `if not self.children:` build the whole `children` list from
  `self.value` (`.text`, then per ElementTree child: a `LazyElementNode` with empty `children` /
  `CommentNode` / `ProcessingInstructionNode`, then its `.tail`), `yield from self.children`
      -> `lazyLoop`, `lazyChildrenOf`, `LNode.built`
* reaching a node "through the lazy iterator": `for c in node:` at every level, child `i` taken
      -> `reach` (the state of the partially built tree afterwards; `children` is mutated in place)
* `ElementNode.iter_lazy` (1005-1035): the nodes built so far, namespace / attribute nodes only if
  their slots exist   -> `iterLazy` (index paths of the built nodes, document order; a fresh lazy tree
  has no `_namespace_nodes` / `_attributes` slot before somebody reads the properties)
* `path` on such a node (`ElementNode.path` 934-941 …) reads only `parent.children` and the kind / name of
  the siblings -> `pathTo (view t)` with `view` = the node tree as it stands (unbuilt `children` = `[]`)
* the eagerly built tree of the same ElementTree object (`build_node_tree` / `build_lxml_node_tree`:
  same text / child / tail interleaving, all levels at once) -> `eager`
-/
import EPV.Model.NodePath
namespace EPV.NodePath

/-- an ElementTree / lxml object: `.text` and `.tail` are attributes of the element itself
(`text`, `tail` = "is not None"); comments and PIs are children with a callable `.tag` -/
inductive ETree where
  | elem (name : Name) (nss : List (String × String)) (attrs : List (Name × String))
      (text : Bool) (tail : Bool) (kids : List ETree)
  | comment (tail : Bool)
  | pi (target : String) (tail : Bool)
  deriving Repr, Inhabited

def ETree.tail : ETree → Bool
  | .elem _ _ _ _ t _ => t
  | .comment t => t
  | .pi _ t => t

mutual
/-- the eagerly built node tree of an ElementTree object -/
def eager : ETree → Node
  | .elem nm nss attrs text _ kids => .elem nm nss attrs ((if text then [.text] else []) ++ eagerKids kids)
  | .comment _ => .comment
  | .pi t _ => .pi t
def eagerKids : List ETree → List Node
  | [] => []
  | c :: cs => eager c :: ((if c.tail then [.text] else []) ++ eagerKids cs)
end

/-- a node of a lazily built tree: `lazy src children` is a `LazyElementNode` with `value = src`;
`children = []` until `__iter__` has run (or for ever, if there is nothing to build) -/
inductive LNode where
  | lazy (src : ETree) (children : List LNode)
  | text
  | comment
  | pi (target : String)
  deriving Repr, Inhabited

/-- one round of the `for elem in self.value:` loop of `LazyElementNode.__iter__` -/
def lazyChild : ETree → LNode
  | .elem nm nss attrs text tail kids => .lazy (.elem nm nss attrs text tail kids) []   -- `LazyElementNode(elem, self)`
  | .comment _ => .comment                                                                -- `CommentNode(elem, self)`
  | .pi t _ => .pi t                                                                      -- `ProcessingInstructionNode(elem, parent=self)`

def lazyLoop : List ETree → List LNode
  | [] => []
  | c :: cs => lazyChild c :: ((if c.tail then [.text] else []) ++ lazyLoop cs)          -- `if elem.tail is not None: TextNode(…)`

/-- body of `if not self.children:` -/
def lazyChildrenOf : ETree → List LNode
  | .elem _ _ _ text _ kids => (if text then [.text] else []) ++ lazyLoop kids
  | _ => []

/-- `self.children` after `__iter__` has run once on the node -/
def LNode.built : LNode → List LNode
  | .lazy src [] => lazyChildrenOf src
  | .lazy _ ch => ch
  | _ => []

/-- the tree after iterating down from `n` along the child indices `is` (`for c in node:` at each
level; the `i`-th yielded child is entered; an index out of range stops the walk) -/
def reach : LNode → List Nat → LNode
  | n, [] => n
  | .lazy src ch, i :: is =>
    let ch' := (LNode.lazy src ch).built
    .lazy src (match ch'[i]? with
      | some c => ch'.set i (reach c is)
      | none => ch')
  | n, _ :: _ => n

mutual
/-- the node tree as it stands: what `children` / `parent` show without building anything -/
def view : LNode → Node
  | .lazy (.elem nm nss attrs _ _ _) ch => .elem nm nss attrs (viewKids ch)
  | .lazy (.comment _) _ => .comment
  | .lazy (.pi t _) _ => .pi t
  | .text => .text
  | .comment => .comment
  | .pi t => .pi t
def viewKids : List LNode → List Node
  | [] => []
  | c :: cs => view c :: viewKids cs
end

/-- the node with everything below it built (what the eager builder makes of the same source) -/
def fin : LNode → Node
  | .lazy src _ => eager src
  | .text => .text
  | .comment => .comment
  | .pi t => .pi t

mutual
/-- `iter_lazy()` on a tree whose namespace / attribute slots have not been created: index paths of
the nodes built so far, in document order -/
def iterLazy : LNode → List Nat → List (List Nat)
  | .lazy _ ch, pre => pre :: iterLazyKids ch pre 0
  | _, pre => [pre]
def iterLazyKids : List LNode → List Nat → Nat → List (List Nat)
  | [], _, _ => []
  | c :: cs, pre, i => iterLazy c (pre ++ [i]) ++ iterLazyKids cs pre (i + 1)
end

/-- the lazy root for an ElementTree object: `LazyElementNode(root)` -/
def lazyRoot (src : ETree) : LNode := .lazy src []

/-- `node.path` of the node reached through the lazy iterator along `is` -/
def lazyPathTo (src : ETree) (is : List Nat) : Option (List Step) :=
  pathTo (view (reach (lazyRoot src) is)) is

def lazyPathOf (src : ETree) (r : Ref) : Option (List Step) :=
  pathOf (view (reach (lazyRoot src) r.path)) r

end EPV.NodePath

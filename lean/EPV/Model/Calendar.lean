/-
Model of the date/time arithmetic of `elementpath/datatypes/datetime.py` and
`elementpath/helpers.py` (C11).  Core Lean only.

A value of `AbstractDateTime` is stored by the Python class as `_year` (an `int`, never 0:
`-1` is 1 BCE, `-2` is 2 BCE ... in *both* XSD versions; only the lexical mapping differs)
plus a `datetime.datetime` `_dt` whose year is `_year` itself inside 1..9999 and otherwise the
"proxy" year 4 (leap) or 6 (not leap).  The proxy year is a function of `_year`, so the model
keeps `(year, month, day, µs of the day, timezone offset in minutes or none)`.

All times are `Int` microseconds.  A `datetime.timedelta` is the `Int` number of µs it denotes;
its only observable limit (|days| ≤ 999 999 999, else `OverflowError`) is `tdNorm`.

Every definition names the Python it transcribes.  The code mirrored is the pinned tree *plus*
the `fix:` commits of branch `fix-c11` (see docs/C11.md); the one remaining known finding
(F11d, `timedelta` overflow beyond ≈ ±2.7 million years) is modelled as the `overflow` error.

Python's own `datetime` (years 1..9999) is a trusted component: `pyYmd2ord`/`pyOrd2ymd`
transcribe CPython's `_pydatetime._ymd2ord/_ord2ymd`; the harness cross-checks them against the
running interpreter on every run.
-/
namespace EPV.Cal

/-- µs per day -/
abbrev US : Int := 86400000000
/-- µs per minute -/
abbrev UM : Int := 60000000

inductive Err where
  | value      -- ValueError
  | overflow   -- OverflowError
  | type       -- TypeError
  | zerodiv    -- ZeroDivisionError / decimal.DivisionByZero (XPath: the `div` operator's own zero test)
  deriving DecidableEq, Repr, Inhabited

/-- `(_year, _dt.month, _dt.day, time of day of _dt in µs, utcoffset of _dt.tzinfo in minutes)` -/
structure DT where
  year : Int
  month : Int
  day : Int
  us : Int
  tz : Option Int
  deriving DecidableEq, Repr, Inhabited

/-- decidable equality of results, so that concrete instances can be checked by `decide` -/
instance instDecEqExcept {ε α : Type} [DecidableEq ε] [DecidableEq α] : DecidableEq (Except ε α)
  | .ok a, .ok b => if h : a = b then isTrue (by rw [h]) else isFalse (by intro e; cases e; exact h rfl)
  | .error a, .error b => if h : a = b then isTrue (by rw [h]) else isFalse (by intro e; cases e; exact h rfl)
  | .ok _, .error _ => isFalse (by intro e; cases e)
  | .error _, .ok _ => isFalse (by intro e; cases e)

/-! ### helpers.py -/

/-- `calendar.isleap` -/
def isleap (y : Int) : Bool := y % 4 == 0 && (y % 100 != 0 || y % 400 == 0)

/-- `MONTH_DAYS[m]` / `MONTH_DAYS_LEAP[m]` (helpers.py:181-182); 0 outside 1..12 -/
def monthDays (leap : Bool) (m : Int) : Int :=
  if m = 1 then 31 else if m = 2 then (if leap then 29 else 28) else if m = 3 then 31
  else if m = 4 then 30 else if m = 5 then 31 else if m = 6 then 30 else if m = 7 then 31
  else if m = 8 then 31 else if m = 9 then 30 else if m = 10 then 31 else if m = 11 then 30
  else if m = 12 then 31 else 0

/-- `sum(m_days[k] for k in range(1, m))` (datetime.py todelta) -/
def daysBeforeMonth (leap : Bool) (m : Int) : Int :=
  let l : Int := if leap then 1 else 0
  if m ≤ 1 then 0 else if m = 2 then 31 else if m = 3 then 59 + l else if m = 4 then 90 + l
  else if m = 5 then 120 + l else if m = 6 then 151 + l else if m = 7 then 181 + l
  else if m = 8 then 212 + l else if m = 9 then 243 + l else if m = 10 then 273 + l
  else if m = 11 then 304 + l else 334 + l

/-- `adjust_day(year, month, day)` (helpers.py:185-192) -/
def adjustDay (year month day : Int) : Int :=
  if month = 1 ∨ month = 3 ∨ month = 5 ∨ month = 7 ∨ month = 8 ∨ month = 10 ∨ month = 12 then day
  else if month = 4 ∨ month = 6 ∨ month = 9 ∨ month = 11 then min day 30
  else if isleap year then min day 29 else min day 28

/-- `days_from_common_era(year)` (helpers.py:195-208), the three `match` arms -/
def dfce (year : Int) : Int :=
  if year > 0 then year * 365 + year / 4 - year / 100 + year / 400
  else if year ≥ -1 then year * 366
  else
    let y := -year - 1;
    -(366 + y * 365 + y / 4 - y / 100 + y / 400)

/-- `DAYS_IN_4Y`, `DAYS_IN_100Y`, `DAYS_IN_400Y` (helpers.py:211-213) -/
def DAYS_IN_4Y : Int := dfce 4
def DAYS_IN_100Y : Int := dfce 100
def DAYS_IN_400Y : Int := dfce 400

/-- `calendar.leapdays(y1, y2)`: leap years in `range(y1, y2)` -/
def leapdays (y1 y2 : Int) : Int :=
  let a := y1 - 1
  let b := y2 - 1
  (b / 4 - a / 4) - (b / 100 - a / 100) + (b / 400 - a / 400)

/-- `months2days(year, month, months_delta)` (helpers.py:216-244) -/
def months2days (year month delta : Int) : Int :=
  if delta = 0 then 0 else
  let total := month - 1 + delta
  let ty := year + total / 12
  let tm := total % 12 + 1
  let yDays := if month ≤ 2 then 365 * (ty - year) + leapdays year ty
               else 365 * (ty - year) + leapdays (year + 1) (ty + 1)
  let lp := isleap ty
  if tm ≥ month then yDays + (daysBeforeMonth lp tm - daysBeforeMonth lp month)
  else yDays - (daysBeforeMonth lp month - daysBeforeMonth lp tm)

/-! ### CPython `datetime` for years 1..9999 (trusted component, cross-checked by the harness) -/

/-- `_pydatetime._days_before_year` -/
def pyDaysBeforeYear (year : Int) : Int :=
  let y := year - 1
  y * 365 + y / 4 - y / 100 + y / 400

/-- `_pydatetime._ymd2ord`: proleptic Gregorian ordinal, 0001-01-01 is day 1 -/
def pyYmd2ord (y m d : Int) : Int := pyDaysBeforeYear y + daysBeforeMonth (isleap y) m + d

/-- the four `divmod`s shared by CPython's `_ord2ymd` and the repository's `fromdelta`:
`(n400, n100, n4, n1, rest)` -/
def cascade (n : Int) : Int × Int × Int × Int × Int :=
  let n400 := n / 146097
  let r := n % 146097
  let n100 := r / 36524
  let r := r % 36524
  let n4 := r / 1461
  let r := r % 1461
  let n1 := r / 365
  let r := r % 365
  (n400, n100, n4, n1, r)

/-- month and day of the 0-based day-of-year `n` (the tail of `_ord2ymd`, with its
`(n + 50) >> 5` month estimate) -/
def monthDayOfDoy (leap : Bool) (n : Int) : Int × Int :=
  let month := (n + 50) / 32
  let preceding := daysBeforeMonth leap month
  if preceding > n then
    (month - 1, n - (preceding - monthDays leap (month - 1)) + 1)
  else (month, n - preceding + 1)

/-- `_pydatetime._ord2ymd` -/
def pyOrd2ymd (ord : Int) : Int × Int × Int :=
  let (n400, n100, n4, n1, n) := cascade (ord - 1)
  let year := n400 * 400 + 1 + n100 * 100 + n4 * 4 + n1
  if n1 = 4 ∨ n100 = 4 then (year - 1, 12, 31)
  else
    let leapyear := n1 == 3 && (n4 != 24 || n100 == 3)
    let (m, d) := monthDayOfDoy leapyear n
    (year, m, d)

def MAXORD : Int := 3652059   -- date(9999, 12, 31).toordinal()

/-- µs since the (virtual) ordinal 0 of the naive datetime `(y, m, d, us)` -/
def pyOrdUs (y m d us : Int) : Int := pyYmd2ord y m d * US + us

/-- naive `datetime` from µs since ordinal 0; `OverflowError: date value out of range` outside
years 1..9999 (this is what `datetime + timedelta` does) -/
def pyOfOrdUs (t : Int) : Except Err (Int × Int × Int × Int) :=
  let n := t / US
  if n < 1 ∨ n > MAXORD then .error .overflow
  else
    let (y, m, d) := pyOrd2ymd n
    .ok (y, m, d, t % US)

/-- the `datetime.datetime(...)` constructor's own field checks (`ValueError`) for month, day and time -/
def pyFieldsOk (leap : Bool) (month day hour minute second micro : Int) : Bool :=
  decide (1 ≤ month ∧ month ≤ 12 ∧ 1 ≤ day ∧ day ≤ monthDays leap month ∧
          0 ≤ hour ∧ hour ≤ 23 ∧ 0 ≤ minute ∧ minute ≤ 59 ∧ 0 ≤ second ∧ second ≤ 59 ∧
          0 ≤ micro ∧ micro ≤ 999999)

/-- `MAX_DELTA_DAYS` check of every `datetime.timedelta` that is built: `OverflowError` -/
def tdNorm (t : Int) : Except Err Int :=
  if t / US < -999999999 ∨ t / US > 999999999 then .error .overflow else .ok t

/-! ### datetime.py -/

/-- leap flag of the proxy year: the year itself in 1..9999, else `isleap(year + bool(year < 0))`
(datetime.py `__init__`, after fix-c11 commits 2 and 3) -/
def proxyLeap (year : Int) : Bool := isleap (if year < 0 then year + 1 else year)

/-- the proxy `_dt.year` -/
def proxyYear (year : Int) : Int :=
  if 1 ≤ year ∧ year ≤ 9999 then year else if proxyLeap year then 4 else 6

def timeUs (hour minute second micro : Int) : Int := ((hour * 60 + minute) * 60 + second) * 1000000 + micro

/-- the second half of `__init__` (datetime.py:186-206): the proxy `datetime.datetime` is built from the
(possibly rolled-over) fields, `addDay` = `delta` is one day (the `24:00:00` form) -/
def mkCore (year month day hour minute second micro : Int) (addDay : Bool) (tz : Option Int) : Except Err DT :=
  if 1 ≤ year ∧ year ≤ 9999 then
    if !pyFieldsOk (isleap year) month day hour minute second micro then .error .value
    else if addDay then
      -- `self._dt += delta` (one day); cannot leave 1..9999: 9999-12-31 was rolled over by the caller
      match pyOfOrdUs (pyOrdUs year month day (timeUs hour minute second micro) + US) with
      | .ok (y, m, d, us) => .ok ⟨y, m, d, us, tz⟩
      | .error e => .error e
    else .ok ⟨year, month, day, timeUs hour minute second micro, tz⟩
  else if year = 0 then .error .value
  else if year.natAbs > 2 ^ 31 then .error .overflow
  else
    let lp := proxyLeap year
    if !pyFieldsOk lp month day hour minute second micro then .error .value
    else if addDay then
      -- the proxy datetime (year 4 or 6) plus one day; never the 31st of December here
      match pyOfOrdUs (pyOrdUs (if lp then 4 else 6) month day (timeUs hour minute second micro) + US) with
      | .ok (_, m, d, us) => .ok ⟨year, m, d, us, tz⟩
      | .error e => .error e
    else .ok ⟨year, month, day, timeUs hour minute second micro, tz⟩

/-- `AbstractDateTime.__init__(year, month, day, hour, minute, second, microsecond, tzinfo)`
(datetime.py:168-206 with the 24:00:00 fix): the `24:00:00` form is the first instant of the next day;
on a 31st of December outside years 0..9998 the year is advanced here (no year 0: -1 is followed by 1) -/
def mk (year month day hour minute second micro : Int) (tz : Option Int) : Except Err DT :=
  let is24 := hour == 24 && minute == 0 && second == 0 && micro == 0
  let hour := if is24 then 0 else hour
  let roll := is24 && month == 12 && day == 31 && !(decide (0 ≤ year) && decide (year < 9999))
  if roll then mkCore (if year == -1 then 1 else year + 1) 1 1 hour minute second micro false tz
  else mkCore year month day hour minute second micro is24 tz

/-- `mk` from a µs-of-day (what `fromdelta` and `_operation` pass on: the fields of a proxy datetime) -/
def mkUs (year month day us : Int) (tz : Option Int) : Except Err DT :=
  mk year month day (us / 3600000000) (us / 60000000 % 60) (us / 1000000 % 60) (us % 1000000) tz

/-- `todelta()` (datetime.py:536-555): µs from 0001-01-01T00:00:00 (UTC when a timezone is present) -/
def todelta (v : DT) : Except Err Int :=
  let off := match v.tz with | none => 0 | some z => z * UM
  if 1 ≤ v.year ∧ v.year ≤ 9999 then
    -- `self._dt - _REF_DATETIME` (naive) / `- _REF_DATETIME.replace(tzinfo=UTC)` (aware)
    .ok (pyOrdUs v.year v.month v.day v.us - off - US)
  else
    let days :=
      if v.year > 0 then dfce (v.year - 1) + daysBeforeMonth (isleap v.year) v.month
      else dfce v.year + daysBeforeMonth (isleap (v.year + 1)) v.month
    -- `dt - datetime(dt.year, dt.month, day=1, tzinfo=tzinfo)`
    let delta := (v.day - 1) * US + v.us - off
    tdNorm (days * US + delta)

/-- year number assembled from the four quotients of `cascade`:
`y400 * 400 + y100 * 100 + y4 * 4 + y1 + 1` (datetime.py `fromdelta`, also CPython `_ord2ymd`) -/
def cascYear (c : Int × Int × Int × Int × Int) : Int :=
  c.1 * 400 + c.2.1 * 100 + c.2.2.1 * 4 + c.2.2.2.1 + 1

/-- `if y1 == 4 or y100 == 4` -/
def cascLast (c : Int × Int × Int × Int × Int) : Bool := c.2.2.2.1 == 4 || c.2.1 == 4

/-- `datetime.datetime(p, 1, 1) + datetime.timedelta(µs = off)`: (month, day, µs of the day) of the sum -/
def proxyPlus (p off : Int) : Except Err (Int × Int × Int) :=
  match pyOfOrdUs (pyOrdUs p 1 1 0 + off) with
  | .ok (_, m, d, us) => .ok (m, d, us)
  | .error e => .error e

/-- the tail of `fromdelta`: `cls(year, dt.month, dt.day)` for `Date` classes, else
`cls(year, dt.month, dt.day, dt.hour, dt.minute, dt.second, dt.microsecond, dt.tzinfo)` -/
def fromdeltaBuild (isDate : Bool) (year : Int) : Except Err (Int × Int × Int) → Except Err DT
  | .ok (m, d, us) => if isDate then mk year m d 0 0 0 0 none else mkUs year m d us none
  | .error e => .error e

/-- the `except OverflowError:` part of `fromdelta` (datetime.py:476-516 with the BCE-1st-of-January
fix): `days = delta.days`, `rem` = `delta.seconds`/`delta.microseconds` in µs -/
def fromdeltaOut (isDate : Bool) (days rem : Int) : Except Err DT :=
  if days > 0 then
    let c := cascade days
    let year := if cascLast c then cascYear c - 1 else cascYear c
    let r := if cascLast c then 365 else c.2.2.2.2
    fromdeltaBuild isDate year (proxyPlus (if isleap year then 4 else 6) (r * US + rem))
  else if days ≥ -366 then
    fromdeltaBuild isDate (-1) (proxyPlus 5 (days * US + rem))
  else
    let c := cascade (-days - 366)
    -- `year = -y400 * 400 - y100 * 100 - y4 * 4 - y1 - 2`
    let year0 := -c.1 * 400 - c.2.1 * 100 - c.2.2.1 * 4 - c.2.2.2.1 - 2
    let year := if cascLast c then year0 + 1 else year0
    let r := if cascLast c then 365 else c.2.2.2.2
    if r = 0 then
      fromdeltaBuild isDate (year + 1) (proxyPlus (if isleap (year + 1 + 1) then 4 else 6) rem)
    else
      fromdeltaBuild isDate year (proxyPlus (if isleap (year + 1) then 5 else 7) (-r * US + rem))

/-- `fromdelta(delta)` (datetime.py:463-534), `isDate` selects the `issubclass(cls, Date)` tail
(without `adjust_timezone`).  The result has no timezone. -/
def fromdelta (isDate : Bool) (delta : Int) : Except Err DT :=
  match pyOfOrdUs (US + delta) with            -- `_REF_DATETIME + delta`
  | .ok (y, m, d, us) => fromdeltaBuild isDate y (.ok (m, d, us))
  | .error _ => fromdeltaOut isDate (delta / US) (delta % US)   -- `except OverflowError:`

/-- key of the proxy datetime used by Python's `datetime` comparison and subtraction
(naive operands are given UTC by `_compare` / `get_comparable_datetimes`) -/
def proxyKey (v : DT) : Int :=
  pyOrdUs (proxyYear v.year) v.month v.day v.us - (match v.tz with | none => 0 | some z => z * UM)

inductive Cmp where | lt | le | eq | gt | ge
  deriving DecidableEq, Repr

def Cmp.op : Cmp → Int → Int → Bool
  | .lt, a, b => decide (a < b)
  | .le, a, b => decide (a ≤ b)
  | .eq, a, b => decide (a = b)
  | .gt, a, b => decide (a > b)
  | .ge, a, b => decide (a ≥ b)

/-- `_compare(other, op)` between two values of the same class (datetime.py:257-290 with the
contiguous-years fix) -/
def compare (op : Cmp) (a b : DT) : Bool :=
  if a.year ≠ b.year then
    if (a.year - b.year).natAbs ≤ 2 then
      match todelta a, todelta b with
      | .ok x, .ok y => op.op x y
      | _, _ => op.op a.year b.year            -- `except OverflowError: pass`
    else op.op a.year b.year
  else op.op (proxyKey a) (proxyKey b)

/-- `self - other` for two date/time values (datetime.py `_operation`, `case AbstractDateTime()`),
result in µs (the `DayTimeDuration`) -/
def diff (a b : DT) : Except Err Int :=
  if (1 ≤ a.year ∧ a.year ≤ 9999) ∧ (1 ≤ b.year ∧ b.year ≤ 9999) then
    .ok (proxyKey a - proxyKey b)
  else do
    let x ← todelta a
    let y ← todelta b
    tdNorm (x - y)

/-- `self ± DayTimeDuration` (`case DayTimeDuration()`); `dur` in µs is the duration's own value,
`neg` = the operator is `-` -/
def addDur (isDate : Bool) (a : DT) (dur : Int) (neg : Bool) : Except Err DT := do
  let x ← todelta a
  let d ← tdNorm dur                       -- other.get_timedelta()
  let delta ← tdNorm (if neg then x - d else x + d)
  match a.tz with
  | none => fromdelta isDate delta
  | some z =>
    let loc ← tdNorm (delta + z * UM)      -- delta + tzinfo.utcoffset(None)
    let v ← fromdelta isDate loc
    pure { v with tz := some z }           -- value.tzinfo = tzinfo

/-- `self ± YearMonthDuration` (`case YearMonthDuration()` after the astronomical-numbering fix);
`months` already signed by the operator -/
def addYM (isDate : Bool) (a : DT) (months : Int) : Except Err DT :=
  let ms := (a.year + (if a.year < 0 then 1 else 0)) * 12 + a.month - 1 + months
  let year := ms / 12
  let month := ms % 12
  let day := adjustDay year (month + 1) a.day
  -- `self._dt.replace(year=4 if isleap(year) else 6, month=month + 1, day=day)`
  if !pyFieldsOk (isleap year) (month + 1) day 0 0 0 0 then .error .value
  else
    let y := if year > 0 then year else year - 1
    if isDate then mk y (month + 1) day 0 0 0 0 a.tz else mkUs y (month + 1) day a.us a.tz

/-- `adjust_datetime` for `xs:dateTime` (xpath_tokens/base.py:700-752): `tz` is the new timezone
(none = the empty sequence) -/
def adjustDateTime (a : DT) (tz : Option Int) : Except Err DT :=
  match a.tz, tz with
  | some _, some z => do
    -- `_item += timezone.offset` → `_operation(timedelta)` → `fromdelta(todelta() + offset)`
    let x ← todelta a
    let delta ← tdNorm (x + z * UM)
    let v ← fromdelta false delta
    pure { v with tz := some z }
  | _, _ => .ok { a with tz := tz }

/-- `adjust_datetime` for `xs:date` (xpath_tokens/base.py:700-752 with the adjust-date fix): the date is
moved by the difference of the two offsets with the `Date + DayTimeDuration` arithmetic -/
def adjustDate (a : DT) (tz : Option Int) : Except Err DT :=
  match a.tz, tz with
  | some z0, some z => do
    -- `_item += DayTimeDuration(seconds=int((timezone.offset - _tzinfo.offset).total_seconds()))`
    let v ← addDur true a ((z - z0) * UM) false
    pure { v with tz := some z }
  | _, _ => .ok { a with tz := tz }

/-! ### the implicit timezone of the dynamic context (XPath operators) -/

/-- `XPathToken.implicit_timezone_operands` (xpath_tokens/base.py, after fix-c11-2): an operand without
timezone gets `context.timezone` (on a copy) when one is set -/
def fillTz (itz : Option Int) (v : DT) : DT :=
  match v.tz, itz with
  | none, some z => { v with tz := some z }
  | _, _ => v

/-- the XPath value/general comparison operators on two date/time values under a dynamic context with
implicit timezone `itz`: `_compare` on the filled operands -/
def compareCtx (itz : Option Int) (op : Cmp) (a b : DT) : Bool := compare op (fillTz itz a) (fillTz itz b)

/-! ### xs:time (datetime.py class `Time`): the proxy date is 2000-01-01 -/

/-- `Time.__init__` (datetime.py:897-913): `24:00:00` is `00:00:00`; then `AbstractDateTime.__init__`
with the default year 2000, month 1, day 1 -/
def timeMk (h mi s us : Int) (tz : Option Int) : Except Err DT :=
  let h' := if h == 24 && mi == 0 && s == 0 && us == 0 then 0 else h
  mk 2000 1 1 h' mi s us tz

/-- `dt = self._dt + timedelta; return Time(dt.hour, dt.minute, dt.second, dt.microsecond, dt.tzinfo)`
(`Time.__add__`/`__sub__`, datetime.py:928-952): the date of the sum is dropped — the time wraps modulo
24 h — but the sum itself must stay inside CPython's years 1..9999 (`OverflowError`) -/
def timeAddUs (t : DT) (d : Int) : Except Err DT :=
  match pyOfOrdUs (pyOrdUs 2000 1 1 t.us + d) with
  | .ok (_, _, _, us) => mkUs 2000 1 1 us t.tz
  | .error e => .error e

/-- `Decimal.__mod__` on the µs grid: the remainder has the sign of the dividend (`other.seconds % 86400`) -/
def decRem (x m : Int) : Int := if x ≥ 0 then x % m else -((-x) % m)

/-- `time ± DayTimeDuration` (after fix-c11-3): `self._dt ± DayTimeDuration(other.seconds % 86400).get_timedelta()`:
only the duration modulo 24 hours is added, so the proxy date never leaves CPython's range -/
def timeAddDur (t : DT) (dur : Int) (neg : Bool) : Except Err DT :=
  let d := decRem dur US
  timeAddUs t (if neg then -d else d)

/-- `time − time` (`Time.__sub__`): `DayTimeDuration.fromtimedelta(dt1 - dt2)` of the two proxy datetimes -/
def timeDiff (a b : DT) : Int := proxyKey a - proxyKey b

/-- `adjust_datetime` for `xs:time`: `_item += timezone.offset - _tzinfo.offset`, then the timezone is set -/
def timeAdjust (t : DT) (tz : Option Int) : Except Err DT :=
  match t.tz, tz with
  | some z0, some z => do
    let v ← timeAddUs t ((z - z0) * UM)
    pure { v with tz := some z }
  | _, _ => .ok { t with tz := tz }

/-! ### gYear, gYearMonth, gMonth, gMonthDay, gDay: `AbstractDateTime.__init__` with default fields -/

inductive GKind where | gYear | gYearMonth | gMonth | gMonthDay | gDay
  deriving DecidableEq, Repr

/-- `GregorianYear(year, tz)`, `GregorianYearMonth(year, month, tz)`, `GregorianMonth(month, tz)`,
`GregorianMonthDay(month, day, tz)`, `GregorianDay(day, tz)` (datetime.py:700-880): the missing fields
are the defaults of `AbstractDateTime.__init__` (year 2000, month 1, day 1), time 00:00:00 -/
def gMk (k : GKind) (year month day : Int) (tz : Option Int) : Except Err DT :=
  match k with
  | .gYear => mk year 1 1 0 0 0 0 tz
  | .gYearMonth => mk year month 1 0 0 0 0 tz
  | .gMonth => mk 2000 month 1 0 0 0 0 tz
  | .gMonthDay => mk 2000 month day 0 0 0 0 tz
  | .gDay => mk 2000 1 day 0 0 0 0 tz

/-! ### object identity: `adjust_datetime` works on a copy of its argument -/

/-- `adjust_datetime` on a Python heap of date/time objects (`h[i]` is the argument object).
`_item = copy(item)` allocates a new object (cell `h.length`); when both timezones are present
`_item += …` rebinds `_item` to a further new object (the result of `__add__`); the final
`_item.tzinfo = timezone` writes the object `_item` refers to.  Returns the new heap and the index of the
result object.  The argument's cell is never written. -/
def adjustObj (isDate : Bool) (h : List DT) (i : Nat) (tz : Option Int) : Except Err (List DT × Nat) :=
  match h[i]? with
  | none => .error .type
  | some item =>
    let h1 := h ++ [item]                       -- `_item = copy(item)`
    match item.tz, tz with
    | some _, some _ =>
      -- `_item += …` (a new object), then its `tzinfo` is assigned: together `adjustDate(Time)`
      match (if isDate then adjustDate item tz else adjustDateTime item tz) with
      | .ok r => .ok (h1 ++ [r], h1.length)
      | .error e => .error e
    | _, _ => .ok (h1.set h.length { item with tz := tz }, h.length)   -- `_item.tzinfo = timezone` on the copy

/-! ### lexical year numbering -/

/-- `fromstring`: the year field (datetime.py:418-431).  XSD 1.0: `0000` is illegal, `-0001` is 1 BCE and
is stored as `-1`; XSD 1.1: `0000` is 1 BCE, so years ≤ 0 are shifted down by one -/
def lexYear (v11 : Bool) (n : Int) : Except Err Int :=
  if v11 then .ok (if n ≤ 0 then n - 1 else n) else if n = 0 then .error .value else .ok n

/-- the number printed by `iso_year` (datetime.py:336-347 with the long-BCE-year fix) -/
def isoYear (v11 : Bool) (y : Int) : Int :=
  if -9999 ≤ y ∧ y < -1 then (if v11 then y + 1 else y)
  else if y = -1 then (if v11 then 0 else -1)
  else if 0 ≤ y ∧ y ≤ 9999 then y
  else if y > 0 ∨ v11 = false then y else y + 1

/-- `fn:year-from-dateTime` / `fn:year-from-date` (_xpath2_functions.py:1264, 1309 with the XSD 1.1 fix) -/
def yearFrom (v11 : Bool) (y : Int) : Int := if y < 0 ∧ v11 = true then y + 1 else y

/-- the component-extraction functions `year/month/day/hours/minutes/seconds-from-dateTime`
(_xpath2_functions.py:1252-1280): year (in the parser's XSD numbering), month, day, hours, minutes,
seconds with fraction in µs -/
def components (v11 : Bool) (v : DT) : List Int :=
  [yearFrom v11 v.year, v.month, v.day, v.us / 3600000000, v.us / 60000000 % 60, v.us % 60000000]

/-- the `[Z]` component of `fn:format-dateTime/date/time` (xpath30_helpers.parse_datetime_marker, after fix-c11-4): the
offset of the value in minutes; a value without timezone produces no output -/
def pictureTz (tz : Option Int) : Option Int :=
  match tz with
  | none => none
  | some z => some z

/-! ### durations: a duration is (months, µs) -/

structure Dur where
  months : Int
  us : Int
  deriving DecidableEq, Repr, Inhabited

/-- `Duration.__init__` (datetime.py:1029-1043): sign agreement, |months| ≤ 2^31, |seconds| ≤ 2^63; the
seconds are already on the µs grid here (`quantize` is part of the operators below) -/
def durMk (months us : Int) : Except Err Dur :=
  if (us < 0 ∧ 0 < months) ∨ (months < 0 ∧ 0 < us) then .error .value
  else if months.natAbs > 2 ^ 31 then .error .overflow
  else if us.natAbs > 2 ^ 63 * 1000000 then .error .overflow
  else .ok ⟨months, us⟩

/-- `round_number(x)` for the rational `x = num / den`, `den > 0` (helpers.py:248-256): `ROUND_HALF_UP` for
positive numbers, `ROUND_HALF_DOWN` otherwise — both are `⌊x + 1/2⌋`:
positive: `(2·num + den) div (2·den)`; otherwise `−⌈(2·|num| − den) / (2·den)⌉` -/
def roundNumber (num den : Int) : Int :=
  if num > 0 then (2 * num + den) / (2 * den)
  else -(-((-(2 * (-num) - den)) / (2 * den)))

/-- `Decimal.quantize(Decimal('1.000000'))` under the default context (`ROUND_HALF_EVEN`) of the rational
`num / den` µs, `den > 0` -/
def roundHalfEven (num den : Int) : Int :=
  let q := num / den
  let r := num % den
  if 2 * r < den then q else if 2 * r > den then q + 1 else if q % 2 = 0 then q else q + 1

/-- `YearMonthDuration.__add__/__sub__` -/
def ymAdd (a b : Int) (neg : Bool) : Except Err Dur := durMk (if neg then a - b else a + b) 0

/-- `YearMonthDuration.__mul__`: `int(round_number(self.months * other))`, `other = n / d` exactly
(an `int`, a `Decimal` or a `float`), `d > 0` -/
def ymMul (m n d : Int) : Except Err Dur := durMk (roundNumber (m * n) d) 0

/-- `YearMonthDuration.__truediv__` by the number `n / d` (`d > 0`); the XPath `div` operator tests the
divisor for zero first -/
def ymDiv (m n d : Int) : Except Err Dur :=
  if n = 0 then .error .zerodiv
  else if n > 0 then durMk (roundNumber (m * d) n) 0
  else durMk (roundNumber (-(m * d)) (-n)) 0

/-- `DayTimeDuration.__add__/__sub__` -/
def dtAdd (a b : Int) (neg : Bool) : Except Err Dur := durMk 0 (if neg then a - b else a + b)

/-- `DayTimeDuration.__mul__`: `self.seconds * other` then `quantize` to µs (half-even); exact as long as the
product has at most 28 significant digits (the decimal context) -/
def dtMul (s n d : Int) : Except Err Dur := durMk 0 (roundHalfEven (s * n) d)

/-- `DayTimeDuration.__truediv__` by the number `n / d` -/
def dtDiv (s n d : Int) : Except Err Dur :=
  if n = 0 then .error .zerodiv
  else if n > 0 then durMk 0 (roundHalfEven (s * d) n)
  else durMk 0 (roundHalfEven (-(s * d)) (-n))

/-! ### duration comparison -/

/-- `Duration._compare_durations` (datetime.py:1107-1130): all four reference dates must agree -/
def durationCmp (op : Cmp) (m1 s1 m2 s2 : Int) : Bool :=
  let refs : List (Int × Int) := [(1696, 9), (1697, 2), (1903, 3), (1903, 7)]
  refs.all fun (y, m) => op.op (months2days y m m1 * US + s1) (months2days y m m2 * US + s2)

end EPV.Cal

/-
C15 (phase 5) — array:sort with a key function and with the special values of the order of
F&O 3.1 §16.2.6 (fn:sort / deep-less-than): NaN, ±INF, −0, booleans.

Python transcribed (`/repo` c343e48):
* `elementpath/xpath31/_xpath31_functions.py:642-677` `evaluate__array_sort`:
  `sorted(array_.items(context), key=get_key_function(collation, key_func=…))`
* `elementpath/compare.py:378-389` `get_key_function` / `compare_func` (after fix F15z, branch `fix-c15-6`):
  the key function is applied to the whole member, whatever its length
* `elementpath/compare.py:262-375` `deep_compare`, atomic branch: booleans (false < true), doubles with
  NaN below everything and NaN = NaN, numbers by exact value (−0.0 = 0), strings by code points,
  `zip_longest`: the exhausted sequence is the smaller one.
Core Lean only.
-/
import EPV.Model.MapArray
namespace EPV.MapArray

/-- an atomic item of a sort key: NaN, −INF, a finite number by its exact value (−0.0 is 0), +INF,
a string by its code points, a boolean -/
inductive XKey where
  | nan | ninf | num (v : Rat) | pinf | str (s : List Nat) | bool (b : Bool)
  deriving DecidableEq, Inhabited

def Key.xkey? : Key → Option XKey
  | .int v => some (.num v)
  | .dec v => some (.num v)
  | .dbl v _ => some (.num v)
  | .dnan => some .nan
  | .dinf neg => some (if neg then .ninf else .pinf)
  | .str s => some (.str s)
  | .bool b => some (.bool b)
  | _ => none

/-- position of the kind of value in `deep_compare`'s order (values of different classes never meet
in one successful sort: `XKey.cls`) -/
def XKey.rank : XKey → Nat
  | .nan => 0 | .ninf => 1 | .num _ => 2 | .pinf => 3 | .str _ => 4 | .bool _ => 5

/-- 0 = numeric (NaN and ±INF included), 1 = string, 2 = boolean: comparing across classes is XPTY0004 -/
def XKey.cls : XKey → Nat
  | .str _ => 1 | .bool _ => 2 | _ => 0

/-- `deep_compare(a, b) < 0` on two atomic items: `nan1 and not nan2 → -1`, floats by `<` (−INF lowest,
+INF highest), numbers by exact value, `cm.strcoll` with the code point collation, `false < true` -/
def XKey.lt (a b : XKey) : Bool :=
  if a.rank < b.rank then true else if b.rank < a.rank then false else
  match a, b with
  | .num x, .num y => decide (x < y)
  | .str x, .str y => lexLtNat x y
  | .bool x, .bool y => !x && y
  | _, _ => false

/-- `deep_compare(ka, kb) <= 0` on two key sequences: item by item, a proper prefix first -/
def xLe : List XKey → List XKey → Bool
  | [], _ => true
  | _ :: _, [] => false
  | a :: as, b :: bs => if a.lt b then true else if b.lt a then false else xLe as bs

/-- the key functions the correspondence check uses (`none` = the one- or two-argument form) -/
inductive KFn where
  | none      -- array:sort($a) / array:sort($a, ())
  | ident     -- function($m){$m}
  | count     -- function($m){count($m)}
  | rev       -- function($m){reverse($m)}
  | head      -- function($m){$m[1]}
  | const     -- function($m){0}
  | intFirst  -- function($m){(not($m instance of xs:integer), $m)}
  | parity    -- function($m){(count($m) mod 2, count($m))}
  deriving DecidableEq, Inhabited

def KFn.apply : KFn → List Key → List Key
  | .none, m => m
  | .ident, m => m
  | .count, m => [.int m.length]
  | .rev, m => m.reverse
  | .head, m => m.take 1
  | .const, _ => [.int 0]
  | .intFirst, m => .bool (match m with | [.int _] => false | _ => true) :: m
  | .parity, m => [.int (m.length % 2 : Nat), .int m.length]

/-- Python's stable `sorted`: the stable sorted permutation, here by straight insertion (structural
recursion, so the kernel can evaluate it) -/
def insertBy (le : α → α → Bool) (x : α) : List α → List α
  | [] => [x]
  | y :: ys => if le x y then x :: y :: ys else y :: insertBy le x ys

def isortBy (le : α → α → Bool) : List α → List α
  | [] => []
  | x :: xs => insertBy le x (isortBy le xs)

/-- the situation of the former finding F15z (fixed in `fix-c15-6`): a key function is given, at least
one comparison happens, and some member is a Python list (a sequence of zero or several items).  The
code used to turn such a member into `map(key_func, member)`; now `compare_func` applies the key
function to the whole member in every case.  Only a histogram flag of the driver today. -/
def keyOnSeqMember (kf : KFn) (ms : List (List Key)) : Bool :=
  kf != .none && decide (2 ≤ ms.length) && ms.any (fun m => m.length != 1)

/-- every member with its sort key; `none` when a key item is outside the modelled kinds -/
def sortKeysOf (kf : KFn) (ms : List (List Key)) : Option (List (List Key × List XKey)) :=
  ms.mapM fun m => ((kf.apply m).mapM Key.xkey?).map fun k => (m, k)

/-- no comparison of two of the keys can meet items of different classes: at every position the keys
that have an item there have one of the same class -/
def clsCompat : List XKey → List XKey → Bool
  | x :: xs, y :: ys => x.cls == y.cls && clsCompat xs ys
  | _, _ => true

def sameClass (ks : List (List XKey)) : Bool :=
  ks.all fun a => ks.all fun b => clsCompat a b

/-- `sorted(items, key=cmp_to_key(compare_func))`: no comparison for fewer than two members; XPTY0004
when key items of different classes meet -/
def sortKeyed (keyed : List (α × List XKey)) : Except Err (List α) :=
  if keyed.length ≤ 1 then .ok (keyed.map (·.1))
  else if sameClass (keyed.map (·.2)) then .ok ((isortBy (fun a b => xLe a.2 b.2) keyed).map (·.1))
  else .error .XPTY0004

/-- `array:sort($a, (), $key)` as the code evaluates it (`compare_func`: `obj = key_func(obj)` for both
operands, then `deep_compare`) -/
def arrSortPy (kf : KFn) (ms : List (List Key)) : Except Err (List (List Key)) :=
  match sortKeysOf kf ms with
  | some keyed => sortKeyed keyed
  | none => .error .XPTY0004

end EPV.MapArray

/-
C01 (phase 5) — model of the sequence operator `,` (XPath 2.0+) and the simple map operator `!` (3.0+):
  * `select__comma_operator` (xpath2/_xpath2_operators.py:505-509):
      `for op in self: yield from op.select(copy(context))` — concatenation, no sort, no seen-set
  * `select__simple_map_operator` (xpath30/_xpath30_operators.py:171-179):
      `for context.item in self[0].select_with_focus(context, forward=True): for result in self[1].select(context): yield result`
  * a path step applied to such a sequence: `(E)/r` = `select__child_path` (_xpath1_operators.py:322-343) with
    the parenthesised sequence as left operand (XPTY0019 for an atomic item, seen-set, sort).
  * a predicate applied to such a sequence: `(E)[p]` = `select__predicate` (_xpath1_operators.py:442-465) with the
    `(` token as `self[0]` (plain forward `select_with_focus`, `reverse = False`): position = index in the sequence.
Results are *sequences* of items (nodes and numbers), duplicates and any order allowed.  Core Lean only.
-/
import EPV.Model.Paths
namespace EPV.XP

/-- an item of a result sequence: a node (pre-order index) or a number (`position()`, `last()`,
`count(…)`, integer literal) -/
inductive Item where
  | node (n : Nat)
  | num (k : Nat)
  deriving DecidableEq, Repr, Inhabited

/-- sequence expressions over the path fragment `Expr` -/
inductive SExpr where
  | base (e : Expr)              -- a path- or number-valued expression of the 1.0 fragment
  | comma (l r : SExpr)          -- `(l, r)`
  | bang (l r : SExpr)           -- `l ! r`
  | slash (l : SExpr) (r : Expr) -- `(l)/r`: a path step applied to a sequence
  | filter (l : SExpr) (p : Expr) -- `(l)[p]`: a predicate applied to a sequence
  | slashNum (l : SExpr) (r : Expr) -- `l/r` with a number-valued right operand (`ancestor::*/position()`)
  deriving Repr, Inhabited

/-- the items `token.select(context)` yields for a value of the 1.0 fragment -/
def itemsOf : Val → Option (List Item)
  | .nodes l => some (l.map .node)
  | .num k => some [.num k]
  | _ => none

/-- all items are nodes (`isinstance(context.item, XPathNode)`), else `none` -/
def nodesOnly : List Item → Option (List Nat)
  | [] => some []
  | .node n :: is => (nodesOnly is).map (n :: ·)
  | .num _ :: _ => none

/-- `yield from` over the operand results; an error in one of them is an error of the whole -/
def catOpt : List (Option (List Item)) → Option (List Item)
  | [] => some []
  | some l :: os => (catOpt os).map (l ++ ·)
  | none :: _ => none

/-- `if len(items) == len(results): results.sort(key=node_position)` after the seen-set (all results
are nodes); an atomic result of the step: outside the fragment -/
def sortVal : Option (List Nat) → Val
  | some rs => .nodes (docOrder rs)
  | none => .err

/-- `token.select(context)` for the sequence operators -/
def seval (m : Mode) (a : Arr) : SExpr → Focus → Option (List Item)
  | .base e, f => itemsOf (eval m a e f)
  | .comma l r, f =>
    -- both operands on `copy(context)`: the focus of the whole expression
    match seval m a l f, seval m a r f with
    | some x, some y => some (x ++ y)
    | _, _ => none
  | .bang l r, f =>
    match seval m a l f with
    | some ls =>
      match nodesOnly ls with          -- (atomic context items: outside the fragment)
      | some ns =>
        -- `select_with_focus(context, forward=True)` (fix F01r): position = index in the sequence,
        -- also when the left operand is a bare reverse-axis step
        catOpt ((focusFwd ns).map fun f' => seval m a r f')
      | none => none
    | none => none
  | .slash l r, f =>
    match seval m a l f with
    | some ls =>
      match nodesOnly ls with          -- XPTY0019 otherwise
      | some ns =>
        itemsOf (sortVal (collect ((focusFwd ns).map fun f' => eval m a r f')))
      | none => none
    | none => none
  | .filter l p, f =>
    match seval m a l f with
    | some ls =>
      match nodesOnly ls with          -- (atomic items under a predicate: outside the fragment)
      | some ns =>
        let foc := focusFwd ns
        (filterFlags foc (foc.map fun f' => keep (eval m a p f') f')).map (·.map .node)
      | none => none
    | none => none
  | .slashNum l r, f =>
    -- `select__child_path`: atomic results are appended as they come (`len(items) != len(results)`: no sort)
    match seval m a l f with
    | some ls =>
      match nodesOnly ls with          -- XPTY0019 otherwise
      | some ns => catOpt ((focusFwd ns).map fun f' => itemsOf (eval m a r f'))
      | none => none
    | none => none

/-- typing: `some true` = node sequence, `some false` = may contain numbers -/
def sty : SExpr → Option Bool
  | .base e => match ty e with | some .path => some true | some .num => some false | _ => none
  | .comma l r => match sty l, sty r with | some x, some y => some (x && y) | _, _ => none
  | .bang l r => match sty l, sty r with | some true, some y => some y | _, _ => none
  | .slash l r => match sty l, ty r with | some true, some .path => some true | _, _ => none
  | .filter l p => match sty l, ty p with | some true, some _ => some true | _, _ => none
  | .slashNum l r => match sty l, ty r with | some true, some .num => some false | _, _ => none

end EPV.XP

/-
Model for C20 — schema-aware evaluation (elementpath with a schema proxy).  Core Lean only.

THIS IS A REDUCTION.  The XSD component model of the schema processor (`xmlschema`) is reduced to
what `elementpath` reads through the proxy protocol (`elementpath/protocols.py`):

* simple types  : a finite set of builtin names `B`, and the constructors restriction / list /
                  union (`SType`), each optionally named; facets are reduced to enumeration and
                  integer bounds (they matter only for union member selection in the *spec*);
* complex types : a table `Schema.ctypes` (index = identity, which is what the match cache of
                  `apply_schema` keys on), content = simple content | element-only | mixed |
                  empty, a *flattened* content model (`XsdGroup.iter_elements()`), attribute uses;
* element declarations with name, type, nillable, value constraint (default / fixed);
* instances     : forests of element / text / comment nodes; the `xsi:type` QName is resolved to an
                  expanded name by the harness (`Xsi`), prefix resolution is outside the model.
Occurrence constraints, model-group order, identity constraints, assertions, wildcards'
processContents and attribute wildcards are NOT modelled.

Python transcribed (reference tree = pinned tree + fix-c20 + fix-c20-2):
  `EtreeElementNode.apply_schema`      xpath_nodes.py:1198-1290   → `applyF`, `applyFC` (with cache)
  `EtreeElementNode.clear_types`       xpath_nodes.py:1292-1299   → `clearF`
  `EtreeElementNode.attributes`        xpath_nodes.py:1098-1144   → `attrNodes`
  `EtreeElementNode.iter_typed_values` xpath_nodes.py:1176-1192   → `elemTypedValue`
  `TextAttributeNode.iter_typed_values` xpath_nodes.py:469-473    → `attrTypedValue`
  `decoder.iter_atomic_values`         decoder.py:95-117          → `protos`
  `decoder.get_atomic_sequence`        decoder.py:120-170         → `atomicSequence`
  `XPathNode.type_name`                xpath_nodes.py:421,889     → `Ann.typeName`
  `AsteriskToken.select`, `iter_children_or_self`, name tests, `//`, predicates → `EPV.Xsd.Sel.*`
-/
namespace EPV.Xsd

/-! ## builtin simple types -/

inductive B where
  | anyType | anySimpleType | anyAtomicType | untypedAtomic
  | string | normalizedString | token
  | boolean
  | decimal | integer | nonPositiveInteger | negativeInteger | long | int | short | byte
  | nonNegativeInteger | unsignedLong | unsignedInt | unsignedShort | unsignedByte | positiveInteger
  | double | date | anyURI
  | dateTime | gYear | gYearMonth
  deriving DecidableEq, Repr, Inhabited

namespace B

def all : List B := [anyType, anySimpleType, anyAtomicType, untypedAtomic, string, normalizedString,
  token, boolean, decimal, integer, nonPositiveInteger, negativeInteger, long, int, short, byte,
  nonNegativeInteger, unsignedLong, unsignedInt, unsignedShort, unsignedByte, positiveInteger,
  double, date, anyURI, dateTime, gYear, gYearMonth]

def lname : B → String
  | anyType => "anyType" | anySimpleType => "anySimpleType" | anyAtomicType => "anyAtomicType"
  | untypedAtomic => "untypedAtomic" | string => "string" | normalizedString => "normalizedString"
  | token => "token" | boolean => "boolean" | decimal => "decimal" | integer => "integer"
  | nonPositiveInteger => "nonPositiveInteger" | negativeInteger => "negativeInteger"
  | long => "long" | int => "int" | short => "short" | byte => "byte"
  | nonNegativeInteger => "nonNegativeInteger" | unsignedLong => "unsignedLong"
  | unsignedInt => "unsignedInt" | unsignedShort => "unsignedShort" | unsignedByte => "unsignedByte"
  | positiveInteger => "positiveInteger" | double => "double" | date => "date" | anyURI => "anyURI"
  | dateTime => "dateTime" | gYear => "gYear" | gYearMonth => "gYearMonth"

def xsdNs : String := "http://www.w3.org/2001/XMLSchema"
/-- expanded (Clark) name, as `xsd_type.name` -/
def name (b : B) : String := "{" ++ xsdNs ++ "}" ++ b.lname

def ofName? (s : String) : Option B := all.find? (fun b => b.name == s)

/-- XSD 1.1 part 2 §3: the base type definition of each builtin -/
def base : B → Option B
  | anyType => none
  | anySimpleType => some anyType
  | anyAtomicType => some anySimpleType
  | untypedAtomic | string | boolean | decimal | double | date | anyURI
  | dateTime | gYear | gYearMonth => some anyAtomicType
  | normalizedString => some string
  | token => some normalizedString
  | integer => some decimal
  | nonPositiveInteger | long | nonNegativeInteger => some integer
  | negativeInteger => some nonPositiveInteger
  | int => some long
  | short => some int
  | byte => some short
  | unsignedLong | positiveInteger => some nonNegativeInteger
  | unsignedInt => some unsignedLong
  | unsignedShort => some unsignedInt
  | unsignedByte => some unsignedShort

def up : Nat → B → List B
  | 0, b => [b]
  | n + 1, b => b :: (match b.base with | none => [] | some p => up n p)

/-- the type itself and all its base types, nearest first -/
def ancestors (b : B) : List B := up 10 b

/-- `a` is `b` or derived from `b` -/
def derives (a b : B) : Bool := (ancestors a).contains b

/-- class name of the prototype value in `decoder._ATOMIC_VALUES[version]` (decoder.py:30-92):
the date-like types have XSD 1.0 classes (`…10`, no year 0000, proleptic years shifted) and XSD 1.1
classes; `v11` = the schema is an XSD 1.1 schema -/
def protoClass (v11 : Bool) : B → String
  | anyType | anySimpleType | anyAtomicType | untypedAtomic => "UntypedAtomic"
  | string => "str" | normalizedString => "NormalizedString" | token => "XsdToken"
  | boolean => "bool" | decimal => "Decimal" | integer => "Integer"
  | nonPositiveInteger => "NonPositiveInteger" | negativeInteger => "NegativeInteger"
  | long => "Long" | int => "Int" | short => "Short" | byte => "Byte"
  | nonNegativeInteger => "NonNegativeInteger" | unsignedLong => "UnsignedLong"
  | unsignedInt => "UnsignedInt" | unsignedShort => "UnsignedShort" | unsignedByte => "UnsignedByte"
  | positiveInteger => "PositiveInteger" | double => "float" | anyURI => "AnyURI"
  | date => if v11 then "Date" else "Date10"
  | dateTime => if v11 then "DateTime" else "DateTime10"
  | gYear => if v11 then "GregorianYear" else "GregorianYear10"
  | gYearMonth => if v11 then "GregorianYearMonth" else "GregorianYearMonth10"

def isDateLike : B → Bool
  | date | dateTime | gYear | gYearMonth => true
  | _ => false

def isSpecial : B → Bool
  | anyType | anySimpleType | anyAtomicType => true
  | _ => false

/-- the primitive type (`xsd_type.root_type` of an atomic builtin): the ancestor whose base is
`xs:anyAtomicType`; special types are their own root -/
def primitive (b : B) : B :=
  match (ancestors b).find? (fun a => a.base == some anyAtomicType) with
  | some p => p
  | none => b

/-- `_lower_bound`, `_higher_bound - 1` of the `datatypes.numeric` integer classes = XSD value bounds -/
def intBounds : B → Option (Option Int × Option Int)
  | integer => some (none, none)
  | nonPositiveInteger => some (none, some 0)
  | negativeInteger => some (none, some (-1))
  | long => some (some (-9223372036854775808), some 9223372036854775807)
  | int => some (some (-2147483648), some 2147483647)
  | short => some (some (-32768), some 32767)
  | byte => some (some (-128), some 127)
  | nonNegativeInteger => some (some 0, none)
  | unsignedLong => some (some 0, some 18446744073709551615)
  | unsignedInt => some (some 0, some 4294967295)
  | unsignedShort => some (some 0, some 65535)
  | unsignedByte => some (some 0, some 255)
  | positiveInteger => some (some 1, none)
  | _ => none

def inBounds (b : B) (v : Int) : Bool :=
  match b.intBounds with
  | none => false
  | some (lo, hi) => (match lo with | none => true | some l => l ≤ v) &&
                     (match hi with | none => true | some h => v ≤ h)

end B

/-! ## lexical helpers (ASCII; Python `str.strip/split` on XML whitespace only) -/

def isWs (c : Char) : Bool := c == ' ' || c == '\t' || c == '\n' || c == '\r'

def splitWsAux : List Char → List Char → List (List Char)
  | [], cur => if cur.isEmpty then [] else [cur.reverse]
  | c :: cs, cur =>
    if isWs c then (if cur.isEmpty then splitWsAux cs [] else cur.reverse :: splitWsAux cs [])
    else splitWsAux cs (c :: cur)

/-- Python `text.split()` -/
def splitWs (s : String) : List String := (splitWsAux s.toList []).map String.ofList

/-- Python `s.strip()` -/
def strip (s : String) : String :=
  String.ofList ((s.toList.dropWhile isWs).reverse.dropWhile isWs).reverse

/-- whiteSpace = collapse -/
def collapse (s : String) : String := " ".intercalate (splitWs s)

/-- whiteSpace = replace -/
def replaceWs (s : String) : String := String.ofList (s.toList.map fun c => if isWs c then ' ' else c)

def digitVal? (c : Char) : Option Nat := if '0' ≤ c ∧ c ≤ '9' then some (c.toNat - '0'.toNat) else none

/-- value of a non-empty string of ASCII digits -/
def natOfDigits? (cs : List Char) : Option Nat :=
  if cs.isEmpty then none else cs.foldl (fun acc c => do let a ← acc; let d ← digitVal? c; pure (a * 10 + d)) (some 0)

def splitSign : List Char → Bool × List Char
  | '-' :: r => (true, r)
  | '+' :: r => (false, r)
  | r => (false, r)

/-- `[+-]?[0-9]+` -/
def intOfLex? (s : String) : Option Int :=
  let (neg, r) := splitSign s.toList
  (natOfDigits? r).map fun n => if neg then - (n : Int) else (n : Int)

def allDigits (cs : List Char) : Bool := cs.all fun c => (digitVal? c).isSome

def dropLeadingZeros (cs : List Char) : List Char :=
  let r := cs.dropWhile (· == '0'); if r.isEmpty then ['0'] else r

/-- canonical text of a decimal given sign, integer digits, fraction digits -/
def canonDec (neg : Bool) (ip fp : List Char) : String :=
  let ip := dropLeadingZeros ip
  let fp := (fp.reverse.dropWhile (· == '0')).reverse
  let zero := ip == ['0'] && fp.isEmpty
  String.ofList ((if neg && !zero then ['-'] else []) ++ ip ++ (if fp.isEmpty then [] else '.' :: fp))

/-- XSD decimal lexical `[+-]?([0-9]+(\.[0-9]*)?|\.[0-9]+)` → canonical text -/
def decOfLex? (s : String) : Option String :=
  let (neg, r) := splitSign s.toList
  let ip := r.takeWhile (· != '.')
  let rest := r.dropWhile (· != '.')
  match rest with
  | [] => if !ip.isEmpty && allDigits ip then some (canonDec neg ip []) else none
  | _ :: fp =>
    if allDigits ip && allDigits fp && !(ip.isEmpty && fp.isEmpty) then some (canonDec neg ip fp) else none

def lower (s : String) : String := String.ofList (s.toList.map Char.toLower)

/-- mantissa `digits[.digits*] | .digits`, optional exponent: what Python `float()`/`Decimal()`
accept besides the specials (underscores and non-ASCII digits are not modelled) -/
def isPyFinite (s : String) : Bool :=
  let (_, r) := splitSign s.toList
  let mant := r.takeWhile (fun c => c != 'e' && c != 'E')
  let ex := r.dropWhile (fun c => c != 'e' && c != 'E')
  let ip := mant.takeWhile (· != '.')
  let fp := (mant.dropWhile (· != '.')).drop 1
  let mantOk := allDigits ip && allDigits fp && !(ip.isEmpty && fp.isEmpty) &&
                (mant.filter (· == '.')).length ≤ 1
  let exOk := match ex with
    | [] => true
    | _ :: e => let (_, d) := splitSign e; !d.isEmpty && allDigits d
  mantOk && exOk

def isPySpecial (s : String) : Bool :=
  let (_, r) := splitSign s.toList
  let t := lower (String.ofList r)
  t == "inf" || t == "infinity" || t == "nan"

/-- XSD double lexical: finite forms, `INF`, `+INF` (1.1), `-INF`, `NaN` -/
def isXsdDouble (s : String) : Bool :=
  isPyFinite s || s == "INF" || s == "-INF" || s == "+INF" || s == "NaN"

def isTzLex (tz : List Char) : Bool :=
  tz.isEmpty || tz == ['Z'] ||
  (match tz with
   | [sg, h1, h2, ':', n1, n2] => (sg == '+' || sg == '-') && allDigits [h1, h2, n1, n2]
   | _ => false)

/-- `-?YYYY…` year part (at least four digits); returns the rest -/
def yearRest (cs : List Char) : Option (List Char) :=
  let cs := match cs with | '-' :: r => r | r => r
  let y := cs.takeWhile (fun c => (digitVal? c).isSome)
  -- four digits, or more without a leading zero; `abs(year) > 2 ** 31` raises OverflowError
  let shapeOk := y.length == 4 || (y.length > 4 && y.head? != some '0')
  match natOfDigits? y with
  | some v => if shapeOk && v ≤ 2147483647 then some (cs.drop y.length) else none
  | none => none

def twoDigitsIn (a b : Char) (lo hi : Nat) : Bool :=
  match natOfDigits? [a, b] with
  | some v => lo ≤ v && v ≤ hi
  | none => false

/-- `-?YYYY-MM-DD` with optional timezone, shape only -/
def isDateLex (s : String) : Bool :=
  match yearRest s.toList with
  | some ('-' :: m1 :: m2 :: '-' :: d1 :: d2 :: tz) => twoDigitsIn m1 m2 1 12 && twoDigitsIn d1 d2 1 31 && isTzLex tz
  | _ => false

/-- `-?YYYY-MM-DDThh:mm:ss(.s+)?` with optional timezone, shape only -/
def isDateTimeLex (s : String) : Bool :=
  match yearRest s.toList with
  | some ('-' :: m1 :: m2 :: '-' :: d1 :: d2 :: 'T' :: h1 :: h2 :: ':' :: n1 :: n2 :: ':' :: s1 :: s2 :: r) =>
    twoDigitsIn m1 m2 1 12 && twoDigitsIn d1 d2 1 31 && twoDigitsIn h1 h2 0 24 && twoDigitsIn n1 n2 0 59 &&
    twoDigitsIn s1 s2 0 59 &&
    (match r with
     | '.' :: f => let fr := f.takeWhile (fun c => (digitVal? c).isSome); !fr.isEmpty && isTzLex (f.drop fr.length)
     | tz => isTzLex tz)
  | _ => false

def isGYearLex (s : String) : Bool :=
  match yearRest s.toList with
  | some tz => isTzLex tz
  | none => false

def isGYearMonthLex (s : String) : Bool :=
  match yearRest s.toList with
  | some ('-' :: m1 :: m2 :: tz) => twoDigitsIn m1 m2 1 12 && isTzLex tz
  | _ => false

/-! ## atomic values -/

/-- an atomic value: `cls` is the builtin whose Python datatype class the value is a direct
instance of (`untypedAtomic` for `UntypedAtomic`), `val` a canonical text of the value
(integers in decimal, decimals canonical, booleans `true`/`false`, strings as they are, doubles and
dates as their stripped lexical form — their numeric value is compared on the Python side). -/
structure Atom where
  cls : B
  val : String
  deriving DecidableEq, Repr, Inhabited

/-- `decode(s)` of `get_atomic_sequence` for the prototype value of builtin `b`:
`value.__class__(s)` (`BooleanProxy(s)` for the `True` prototype — fix F20a;
`fromstring` for dates).  `none` = `ValueError`/`ArithmeticError`. -/
def pyDecode (b : B) (s : String) : Option Atom :=
  match b with
  | .anyType | .anySimpleType | .anyAtomicType | .untypedAtomic => some ⟨.untypedAtomic, s⟩
  | .string => some ⟨.string, s⟩                                   -- str(s)
  | .normalizedString => some ⟨.normalizedString, replaceWs s⟩     -- NormalizedString.__new__
  | .token => some ⟨.token, collapse s⟩                            -- XsdToken.__new__
  | .anyURI => some ⟨.anyURI, collapse s⟩                          -- AnyURI(s): collapsed
  | .boolean =>                                                    -- BooleanProxy(s)
    let t := strip s
    if t == "true" || t == "1" then some ⟨.boolean, "true"⟩
    else if t == "false" || t == "0" then some ⟨.boolean, "false"⟩ else none
  | .decimal =>                                                    -- DecimalProxy(s) (fix F20i)
    (decOfLex? (strip s)).map fun c => ⟨.decimal, c⟩
  | .double =>                                                     -- DoubleProxy(s) (fix F20i)
    let t := strip s
    if isXsdDouble t then some ⟨.double, t⟩ else none
  | .date =>                                                       -- Date10/Date.fromstring(s)
    let t := strip s
    if isDateLex t then some ⟨.date, t⟩ else none
  | .dateTime =>
    let t := strip s
    if isDateTimeLex t then some ⟨.dateTime, t⟩ else none
  | .gYear =>
    let t := strip s
    if isGYearLex t then some ⟨.gYear, t⟩ else none
  | .gYearMonth =>
    let t := strip s
    if isGYearMonthLex t then some ⟨.gYearMonth, t⟩ else none
  | b =>                                                           -- Integer subclasses: int(s) + bounds
    match intOfLex? (strip s) with
    | some v => if b.inBounds v then some ⟨b, toString v⟩ else none
    | none => none

/-! ## simple types -/

structure Facets where
  enum : Option (List String) := none      -- enumeration, values as normalised lexicals
  minInc : Option Int := none
  maxInc : Option Int := none
  deriving DecidableEq, Repr, Inhabited

inductive SType where
  | builtin (b : B)
  | restr (name : Option String) (base : SType) (f : Facets)
  | list (name : Option String) (item : SType)
  | union (name : Option String) (members : List SType)
  deriving Repr, Inhabited

namespace SType

/-- `xsd_type.name` -/
def name : SType → Option String
  | builtin b => some b.name
  | restr n _ _ | list n _ | union n _ => n

/-- `xsd_type.is_list()` -/
def isList : SType → Bool
  | builtin _ => false
  | restr _ b _ => b.isList
  | list _ _ => true
  | union _ _ => false

/-- `xsd_type.root_type` (protocols.py:248: primitive type of an atomic type, primitive type of
the item of a list, the base union of a union) — no longer used by the decoder after fix F20c -/
def rootType : SType → SType
  | builtin b => builtin b.primitive
  | restr _ b _ => b.rootType
  | list _ i => i.rootType
  | union n ms => union n ms

mutual
/-- `_iter_values(type_, depth)` of `iter_member_values` (decoder.py, fixes F20c, F20h/j): walk the
derivation chain (`base_type`, `item_type`) to the nearest type that has a prototype; a union
contributes the prototypes of its members in order (depth + 1), each paired with the member type it
stands for (`member or member_type`: the innermost union member).  `none` = not under a union. -/
def iterMembers (depth : Nat) : SType → List (Option SType × B)
  | builtin b => if depth > 15 then [] else [(none, b)]
  | union _ ms => if depth > 15 then [] else iterMembersL (depth + 1) ms
  | restr _ base _ => iterMembers depth base
  | list _ item => iterMembers depth item
def iterMembersL (depth : Nat) : List SType → List (Option SType × B)
  | [] => []
  | m :: ms => ((iterMembers depth m).map fun ob => (some (ob.1.getD m), ob.2)) ++ iterMembersL depth ms
end

/-- `iter_member_values(xsd_type)` for a simple type -/
def memberProtos (t : SType) : List (Option SType × B) :=
  match t with
  | builtin b => [(none, b)]                            -- xsd_type.name in atomic_values
  | _ => iterMembers 1 t

/-- `iter_atomic_values(xsd_type)`: the prototypes alone -/
def protos (t : SType) : List B := t.memberProtos.map (·.2)

end SType

/-! ## complex types, declarations, schema -/

structure AttrDecl where
  name : String
  type : SType
  /-- `value_constraint` (default or fixed) -/
  default : Option String := none
  deriving Repr, Inhabited

inductive Ty where
  | simple (t : SType)
  | complex (id : Nat)
  deriving Repr, Inhabited

structure ElemDecl where
  name : String
  type : Ty
  nillable : Bool := false
  default : Option String := none
  deriving Repr, Inhabited

inductive Particle where
  /-- an element particle; `subst` = names of the members of its substitution group
  (`XsdElement.is_matching` accepts them) -/
  | elem (d : ElemDecl) (subst : List String)
  /-- an element wildcard; `ns = none` is `##any`, `some l` the allowed namespace names;
  `skip` = `processContents="skip"` -/
  | any (ns : Option (List String)) (skip : Bool)
  deriving Repr, Inhabited

inductive Content where
  | simple (t : SType)
  | elementOnly
  | mixed
  | empty
  deriving Repr, Inhabited

structure CType where
  name : Option String
  content : Content
  /-- `model_group.iter_elements()`; unused for simple content (`model_group is None`) -/
  particles : List Particle := []
  attrs : List AttrDecl := []
  deriving Repr, Inhabited

structure Schema where
  ctypes : List CType
  /-- global element declarations (`maps.elements`) -/
  elements : List ElemDecl
  /-- named global types of the schema (`maps.types` minus the builtins) -/
  types : List (String × Ty)
  deriving Repr, Inhabited

namespace Schema

def ctype? (s : Schema) (id : Nat) : Option CType := s.ctypes[id]?

/-- `schema.get_element(name)` -/
def getElement (s : Schema) (name : String) : Option ElemDecl := s.elements.find? (·.name == name)

/-- `schema.get_type(name)` -/
def getType (s : Schema) (name : String) : Option Ty :=
  match B.ofName? name with
  | some b => some (.simple (.builtin b))
  | none => (s.types.find? (·.1 == name)).map (·.2)

end Schema

/-- namespace part of a Clark name -/
def nsOf (name : String) : String :=
  match name.toList with
  | '{' :: r => String.ofList (r.takeWhile (· != '}'))
  | _ => ""

/-- `xsd_element.is_matching(name)` -/
def Particle.matches (p : Particle) (name : String) : Bool :=
  match p with
  | .elem d subst => d.name == name || subst.contains name
  | .any none _ => true
  | .any (some l) _ => l.contains (nsOf name)

/-- the declaration selected once a particle matched (xpath_nodes.py:1253-1257): the particle's own
declaration when the names are equal, else ("a wildcard or a substitute") the global one -/
def Particle.resolve (s : Schema) (p : Particle) (name : String) : Option ElemDecl :=
  match p with
  | .elem d _ => if d.name == name then some d else s.getElement name
  | .any _ skip => if skip then none else s.getElement name      -- fix F20m: not assessed

/-- the particle is an element declaration with exactly this name (`particle.name == node.name`) -/
def Particle.declares (p : Particle) (name : String) : Bool :=
  match p with
  | .elem d _ => d.name == name
  | .any _ _ => false

def Particle.isWild : Particle → Bool
  | .any _ _ => true
  | .elem _ _ => false

/-- may `p` replace the fallback `fb`?  (`xsd_element is None or xsd_element.name is None and
particle.name is not None`: nothing found yet, or a wildcard found and `p` is an element particle) -/
def betterThan (p : Particle) (fb : Option Particle) : Bool :=
  match fb with
  | none => true
  | some q => q.isWild && !p.isWild

/-- the `for particle in content.iter_elements()` loop (with fix F20k): a declaration with the
element's own name wins and ends the loop; otherwise the first ELEMENT particle that matches (the
head of a substitution group) is the answer, and only if there is none the first matching
wildcard.  `fb` is the fallback found so far. -/
def scanParticles (name : String) : List Particle → Option Particle → Option Particle
  | [], fb => fb
  | p :: ps, fb =>
    if p.declares name then some p
    else scanParticles name ps (if p.matches name && betterThan p fb then some p else fb)

/-- `none` = no particle matches (nothing is cached), `some r` = the selected particle resolved -/
def findParticle (s : Schema) (name : String) (ps : List Particle) : Option (Option ElemDecl) :=
  (scanParticles name ps none).map fun p => p.resolve s name

/-- `xsd_types[-1].model_group`: the particles of a complex type with element-only, mixed or empty
content (an empty group); `None` for simple types and simple content -/
def modelGroup (s : Schema) : Ty → Option (Nat × List Particle)
  | .simple _ => none
  | .complex id =>
    match s.ctype? id with
    | none => none
    | some ct => match ct.content with
      | .simple _ => none
      | _ => some (id, ct.particles)

/-! ## instances -/

/-- the `xsi:type` attribute of an element after prefix resolution (`get_expanded_name`) -/
inductive Xsi where
  | absent
  | unresolvable            -- KeyError/TypeError → clear_types(); continue
  | name (n : String)
  deriving Repr, DecidableEq, Inhabited

inductive LeafKind where | text | comment | pi
  deriving Repr, DecidableEq, Inhabited

/-- a forest of sibling nodes; `elem … kids rest`: an element with annotation `ann`, its children
and its following siblings.  `α = Unit` for a plain tree, `α = Ann` after schema typing. -/
inductive Forest (α : Type) where
  | nil
  | elem (ann : α) (name : String) (attrs : List (String × String)) (xsi : Xsi)
         (kids : Forest α) (rest : Forest α)
  | leaf (kind : LeafKind) (text : String) (rest : Forest α)
  deriving Repr, Inhabited

/-- `node.xsd_type`, `node.xsd_element` -/
structure Ann where
  xsdType : Option Ty
  xsdElem : Option ElemDecl
  deriving Repr, Inhabited

def Ann.untyped : Ann := ⟨.none, .none⟩

namespace Forest

def map {α β : Type} (f : α → β) : Forest α → Forest β
  | nil => nil
  | elem a n ats x k r => elem (f a) n ats x (map f k) (map f r)
  | leaf k t r => leaf k t (map f r)

/-- forget the annotations -/
def erase {α : Type} (t : Forest α) : Forest Unit := t.map (fun _ => ())

end Forest

/-- `clear_types()` on every element of a forest (xpath_nodes.py:1292) -/
def clearF : Forest Unit → Forest Ann := Forest.map (fun _ => Ann.untyped)

/-! ## apply_schema -/

/-- the declaration found for a child named `name` under a parent of type `ctx`
(xpath_nodes.py:1244-1261) — without the cache -/
def declFor (s : Schema) (ctx : Option Ty) (name : String) : Option ElemDecl :=
  match ctx with
  | none => s.getElement name                              -- xsd_types[-1] is None
  | some ty =>
    match modelGroup s ty with
    | none => none                                         -- model_group is None
    | some (_, ps) => (findParticle s name ps).join

/-- type and declaration assigned to one element (xpath_nodes.py:1232-1267) -/
def assign (s : Schema) (ctx : Option Ty) (name : String) (xsi : Xsi) : Option Ty × Option ElemDecl :=
  match xsi with
  | .unresolvable => (none, none)
  | .name t => (s.getType t, none)          -- node.xsd_element keeps its cleared value
  | .absent => let d := declFor s ctx name; (d.map (·.type), d)

/-- `apply_schema` without the match cache: the lock-step walk.  `ctx` is `xsd_types[-1]`;
descending into `kids` is the push on `xsd_types`/`iterators`, returning is the pop. -/
def applyF (s : Schema) (ctx : Option Ty) : Forest Unit → Forest Ann
  | .nil => .nil
  | .leaf k t r => .leaf k t (applyF s ctx r)
  | .elem _ n ats x kids rest =>
    match assign s ctx n x with
    | (none, _) => .elem Ann.untyped n ats x (clearF kids) (applyF s ctx rest)     -- clear_types(); continue
    | (some ty, d) => .elem ⟨some ty, d⟩ n ats x (applyF s (some ty) kids) (applyF s ctx rest)

/-- `element_match_cache[id(content)][name]` -/
abbrev Cache := List ((Nat × String) × Option ElemDecl)

def Cache.get? (c : Cache) (id : Nat) (name : String) : Option (Option ElemDecl) :=
  (c.find? (fun e => e.1.1 == id && e.1.2 == name)).map (·.2)

/-- `declFor` as written, with the cache: a hit returns the cached declaration, a miss runs the
loop and caches the result only when a particle matched -/
def declForC (s : Schema) (ctx : Option Ty) (name : String) (c : Cache) : Option ElemDecl × Cache :=
  match ctx with
  | none => (s.getElement name, c)
  | some ty =>
    match modelGroup s ty with
    | none => (none, c)
    | some (id, ps) =>
      match c.get? id name with
      | some d => (d, c)
      | none =>
        match findParticle s name ps with
        | some d => (d, ((id, name), d) :: c)
        | none => (none, c)

def assignC (s : Schema) (ctx : Option Ty) (name : String) (xsi : Xsi) (c : Cache) :
    (Option Ty × Option ElemDecl) × Cache :=
  match xsi with
  | .unresolvable => ((none, none), c)
  | .name t => ((s.getType t, none), c)
  | .absent => let (d, c') := declForC s ctx name c; ((d.map (·.type), d), c')

/-- `apply_schema` with the match cache threaded through the whole walk (document order) -/
def applyFC (s : Schema) (ctx : Option Ty) (c : Cache) : Forest Unit → Forest Ann × Cache
  | .nil => (.nil, c)
  | .leaf k t r => let (r', c') := applyFC s ctx c r; (.leaf k t r', c')
  | .elem _ n ats x kids rest =>
    match assignC s ctx n x c with
    | ((none, _), c1) =>
      let (r', c2) := applyFC s ctx c1 rest
      (.elem Ann.untyped n ats x (clearF kids) r', c2)
    | ((some ty, d), c1) =>
      let (k', c2) := applyFC s (some ty) c1 kids
      let (r', c3) := applyFC s ctx c2 rest
      (.elem ⟨some ty, d⟩ n ats x k' r', c3)

/-- `root.apply_schema(schema)` for a fully valid schema without base element: the walk starts
with `xsd_types = [None]`, `children = iter((root_node,))` and an empty cache -/
def applySchema (s : Schema) (t : Forest Unit) : Forest Ann := (applyFC s none [] t).1

/-! ## proxies constructed with a base element -/

/-- `schema.base_element` of a proxy built as `XMLSchemaProxy(schema, base_element=…)`: a global or
local element declaration, or an `xs:assert` component (XSD 1.1; xmlschema evaluates assertions
with such a proxy) seen through the same protocol: its `.type` is the complex type that holds the
assertion.  `assertion` = `schema.is_assertion_based()` (`base_element.parent is base_element.type`). -/
structure BaseElem where
  decl : ElemDecl
  assertion : Bool
  deriving Repr, Inhabited

/-- `node.apply_schema(proxy)` (xpath_nodes.py:1216-1227 for the `base_element` branch): the node the
schema is applied to takes the base element as its declaration; its type is the base element's type
— `xs:anyType` for an assertion proxy — and its children are resolved in the content model of THE
BASE ELEMENT'S TYPE (`xsd_types = [schema.base_element.type]`).  Siblings are not visited. -/
def applySchemaB (s : Schema) (base : Option BaseElem) (t : Forest Unit) : Forest Ann :=
  match base with
  | none => applySchema s t
  | some b =>
    match t with
    | .elem _ n ats x kids rest =>
      .elem ⟨some (if b.assertion then .simple (.builtin .anyType) else b.decl.type), some b.decl⟩ n ats x
        (applyFC s (some b.decl.type) [] kids).1 (clearF rest)
    | other => clearF other

/-! ## type names, typed values -/

def Ty.name (s : Schema) : Ty → Option String
  | .simple t => t.name
  | .complex id => (s.ctype? id).bind (·.name)

def xsdUntyped : String := "{" ++ B.xsdNs ++ "}untyped"
def xsdUntypedAtomic : String := B.untypedAtomic.name

/-- `ElementNode.type_name` (`None` for an anonymous type) -/
def Ann.typeName (s : Schema) (a : Ann) : Option String :=
  match a.xsdType with
  | none => some xsdUntyped
  | some ty => ty.name s

/-- outcome of a typed-value computation -/
inductive TV where
  | ok (vs : List Atom)
  /-- `xpath_error(code, …)` raised by `get_atomic_sequence` (values yielded before are lost
  with the exception) -/
  | err
  /-- no prototype applies: the answer is `xsd_type.decode(text)` of the schema processor -/
  | viaSchema
  deriving Repr, DecidableEq, Inhabited

/-- one attempt of the prototype loop (decoder.py get_atomic_sequence, fixes F20g/h/j): outside a
union the prototype's constructor decides; under a union the literal must first be valid for the
member (`member.is_valid(item)` — the schema processor's answer, parameter `valid`), a list member
then decodes its items -/
def tryMember (valid : SType → String → Bool) (o : Option SType) (b : B) (item : String) : Option (List Atom) :=
  match o with
  | none => (pyDecode b item).map ([·])
  | some m =>
    if !valid m item then none
    else if m.isList then (splitWs item).mapM (pyDecode b)
    else (pyDecode b item).map ([·])

/-- the first (member, prototype) pair that accepts the literal -/
def firstMember (valid : SType → String → Bool) : List (Option SType × B) → String → Option (List Atom)
  | [], _ => none
  | (o, b) :: ps, s => match tryMember valid o b s with
    | some v => some v
    | none => firstMember valid ps s

/-- every item decoded by `firstMember`; `none` = some item is accepted by no prototype -/
def decodeAll (valid : SType → String → Bool) (ps : List (Option SType × B)) : List String → Option (List Atom)
  | [] => some []
  | w :: ws => match firstMember valid ps w, decodeAll valid ps ws with
    | some a, some r => some (a ++ r)
    | _, _ => none

/-- the item loop of `get_atomic_sequence`: every literal — every item of a list — is decoded by the
first prototype that accepts it; an item that no prototype accepts raises (`err`); without
prototypes the answer is the schema processor's own `xsd_type.decode` -/
def atomicLoop (valid : SType → String → Bool) (isList : Bool) (text : String)
    (ps : List (Option SType × B)) : TV :=
  let items := if isList then splitWs text else [text]
  match ps with
  | [] => if items.isEmpty then .ok [] else .viaSchema
  | _ => match decodeAll valid ps items with
    | some vs => .ok vs
    | none => .err

/-- the simple type that decodes the content of an element/attribute of type `ty`
(`xsd_type` itself, or `xsd_type.simple_type` of a complex type with simple content) -/
def contentType (s : Schema) : Ty → Option SType
  | .simple t => some t
  | .complex id => match (s.ctype? id).map CType.content with
    | some (.simple t) => some t
    | _ => none

/-- `get_atomic_sequence(xsd_type, text)` for `text is not None` and a type with simple content -/
def atomicSequence (valid : SType → String → Bool) (t : SType) (text : String) : TV :=
  atomicLoop valid t.isList text t.memberProtos

def allText {α : Type} : Forest α → String
  | .nil => ""
  | .leaf .text s r => s ++ allText r
  | .leaf _ _ r => allText r
  | .elem _ _ _ _ k r => allText k ++ allText r

/-- `elem.text` of ElementTree: the text before the first child -/
def firstText {α : Type} : Forest α → Option String
  | .leaf .text s _ => some s
  | _ => none

def xsiNs : String := "http://www.w3.org/2001/XMLSchema-instance"
def xsiNil : String := "{" ++ xsiNs ++ "}nil"
def xsiType : String := "{" ++ xsiNs ++ "}type"

def attrGet (attrs : List (String × String)) (n : String) : Option String :=
  (attrs.find? (·.1 == n)).map (·.2)

/-- `ElementNode.nilled` -/
def nilled (attrs : List (String × String)) : Bool :=
  attrGet attrs xsiNil == some "true" || attrGet attrs xsiNil == some "1"

inductive ContentKind where | special | mixed | elementOnly | emptyC | simpleC (t : SType)
  deriving Repr, Inhabited

def contentKind (s : Schema) : Ty → ContentKind
  | .simple (.builtin b) => if b.isSpecial then .special else .simpleC (.builtin b)
  | .simple t => .simpleC t
  | .complex id =>
    match (s.ctype? id).map CType.content with
    | some (.simple t) => .simpleC t
    | some .mixed => .mixed
    | some .elementOnly => .elementOnly
    | _ => .emptyC

/-- `EtreeElementNode.iter_typed_values` (xpath_nodes.py:1176-1192, with fix F20e) -/
def elemTypedValue (valid : SType → String → Bool) (s : Schema) (a : Ann) (attrs : List (String × String)) (kids : Forest Ann) : TV :=
  match a.xsdType with
  | none => .ok [⟨.untypedAtomic, allText kids⟩]
  | some ty =>
    match contentKind s ty with
    | .special | .mixed => .ok [⟨.untypedAtomic, allText kids⟩]
    | .elementOnly => .ok []
    | .emptyC =>                                   -- falls through to the prototype of xs:anyType
      if nilled attrs && (a.xsdElem.map (·.nillable)).getD false then .ok []
      else match firstText kids with
        | some t => .ok [⟨.untypedAtomic, t⟩]
        | none => if nilled attrs then .ok [⟨.string, ""⟩] else
                  .ok [⟨.untypedAtomic, ((a.xsdElem.bind (·.default)).getD "")⟩]
    | .simpleC t =>
      if nilled attrs && (a.xsdElem.map (·.nillable)).getD false then .ok []
      else match firstText kids with
        | some txt => atomicSequence valid t txt
        | none =>
          if nilled attrs then .ok [⟨.string, ""⟩]            -- `yield ''`
          else atomicSequence valid t ((a.xsdElem.bind (·.default)).getD "")

/-- an attribute node of the lazily built `attributes` list: name, value, `xsd_type`
(`none` = untyped), and whether it was added from a value constraint -/
structure AttrNode where
  name : String
  value : String
  type : Option SType
  defaulted : Bool
  deriving Repr, Inhabited

def startsWithXsi (n : String) : Bool := n.startsWith ("{" ++ xsiNs ++ "}")

/-- the `xsd_type` whose attribute uses are consulted (xpath_nodes.py:1114-1117):
`self.xsd_type` when there is no declaration or an `xsi:type` attribute, else `xsd_element.type` -/
def attrOwnerType (a : Ann) (attrs : List (String × String)) (xt : Ty) : Ty :=
  match a.xsdElem with
  | none => xt
  | some d => if (attrGet attrs xsiType).isSome then xt else d.type

/-- the attribute nodes for an element whose attribute uses come from type `ty` (xpath_nodes.py:1119-1142) -/
def attrNodesFor (s : Schema) (ty : Ty) (attrs : List (String × String)) : List AttrNode :=
  let plain := attrs.map fun (n, v) => (⟨n, v, none, false⟩ : AttrNode)
  match ty with
  | .simple _ => plain                            -- no `attributes` attribute
  | .complex id =>
    match s.ctype? id with
    | none => plain
    | some ct =>
      let typed := attrs.map fun (n, v) =>
        let t0 : Option SType := if startsWithXsi n then some (.builtin .anyAtomicType) else none
        let t1 := match ct.attrs.find? (·.name == n) with
          | some d => some d.type
          | none => t0
        (⟨n, v, t1, false⟩ : AttrNode)
      -- "Add missing attributes with a default value, at the same position of the last attribute"
      let dflt := ct.attrs.filterMap fun d =>
        match d.default with
        | some v => if (attrGet attrs d.name).isNone then some (⟨d.name, v, some d.type, true⟩ : AttrNode) else none
        | none => none
      typed ++ dflt

/-- `EtreeElementNode.attributes` (xpath_nodes.py:1098-1144) for a fully valid schema; attribute
wildcards are not modelled -/
def attrNodes (s : Schema) (a : Ann) (attrs : List (String × String)) : List AttrNode :=
  match a.xsdType with
  | none => attrs.map fun (n, v) => (⟨n, v, none, false⟩ : AttrNode)
  | some xt => attrNodesFor s (attrOwnerType a attrs xt) attrs

/-- `AttributeNode.type_name` -/
def AttrNode.typeName (a : AttrNode) : Option String :=
  match a.type with
  | none => some xsdUntypedAtomic
  | some t => t.name

/-- `TextAttributeNode.iter_typed_values` = `get_atomic_sequence(self.xsd_type, self.value)` -/
def attrTypedValue (valid : SType → String → Bool) (a : AttrNode) : TV :=
  match a.type with
  | none => .ok [⟨.untypedAtomic, a.value⟩]
  | some t => atomicSequence valid t a.value

/-! ## the proxy's own state (`AbstractSchemaProxy`, schema_proxy.py:27-74)

The proxy object is long-lived: one proxy may serve many contexts, instances and expressions, while
the schema it wraps goes from *not built* (`validity = notKnown`) to *built and valid*.  Its only
state is `_is_fully_valid`, which caches a POSITIVE answer only (`is_fully_valid()` recomputes as
long as the flag is false; `validity`/`validation_attempted` reset it). -/

structure Proxy where
  /-- `_is_fully_valid` -/
  flag : Bool
  deriving Repr, DecidableEq, Inhabited

/-- a freshly constructed proxy (`self._is_fully_valid = False`) -/
def Proxy.fresh : Proxy := ⟨false⟩

/-- `is_fully_valid()`; `valid` = the wrapped schema is currently built, valid and fully validated -/
def Proxy.isFullyValid (p : Proxy) (valid : Bool) : Bool × Proxy :=
  if p.flag then (true, p) else (valid, ⟨valid⟩)

/-- `apply_schema` when `not schema.is_fully_valid()` (xpath_nodes.py:1203-1210): every element gets
`xs:anyType`, `xsd_element` stays cleared -/
def anyTypeAll : Forest Unit → Forest Ann :=
  Forest.map (fun _ => ⟨some (.simple (.builtin .anyType)), none⟩)

def applySchemaV (fv : Bool) (s : Schema) (t : Forest Unit) : Forest Ann :=
  if fv then applySchema s t else anyTypeAll t

/-- `attributes` when the schema is not fully valid (xpath_nodes.py:1109-1113): `xs:anySimpleType` -/
def attrNodesV (fv : Bool) (s : Schema) (a : Ann) (attrs : List (String × String)) : List AttrNode :=
  if fv then attrNodes s a attrs else
  match a.xsdType with
  | none => attrs.map fun (n, v) => (⟨n, v, none, false⟩ : AttrNode)
  | some _ => attrs.map fun (n, v) => (⟨n, v, some (.builtin .anySimpleType), false⟩ : AttrNode)

/-- one evaluation through a long-lived proxy -/
def evalStep (s : Schema) (p : Proxy) (valid : Bool) (t : Forest Unit) : Forest Ann × Proxy :=
  let (fv, p') := p.isFullyValid valid
  (applySchemaV fv s t, p')

/-- a history of evaluations through ONE proxy: each step gives the schema's state and an instance -/
def runHistory (s : Schema) : Proxy → List (Bool × Forest Unit) → List (Forest Ann)
  | _, [] => []
  | p, (valid, t) :: rest =>
    let (a, p') := evalStep s p valid t
    a :: runHistory s p' rest

/-! ## the node tree's own state: `tree.schema` and repeated application

A node tree remembers the proxy that typed it (`XPathNodeTree.schema`).  `apply_schema` returns early
when the same proxy is applied again to a root that is still typed (xpath_nodes.py:1201-1204, with
fix F20l: `and self.xsd_type is not None`); the `XPathContext.schema` setter first clears the
types and then applies the schema (xpath_context.py:221-242). -/

structure TreeState where
  /-- identity of the proxy in `tree.schema` -/
  schema : Option Nat
  ann : Forest Ann
  deriving Repr, Inhabited

/-- a freshly built node tree -/
def TreeState.init (t : Forest Unit) : TreeState := ⟨none, clearF t⟩

/-- `self.xsd_type is not None` of the root element -/
def rootTyped : Forest Ann → Bool
  | .elem a _ _ _ _ _ => a.xsdType.isSome
  | _ => false

/-- `root.clear_types()`: the annotations go, `tree.schema` stays -/
def clearTypes (st : TreeState) : TreeState := ⟨st.schema, clearF st.ann.erase⟩

/-- `root.apply_schema(proxy)`; `pid` = identity of the proxy, `fv` = `proxy.is_fully_valid()` now -/
def applySchemaOp (pid : Nat) (fv : Bool) (s : Schema) (st : TreeState) : TreeState :=
  if st.schema == some pid && rootTyped st.ann then st
  else ⟨some pid, applySchemaV fv s st.ann.erase⟩

/-- the `XPathContext.schema` setter (a new context over an existing node tree) -/
def setSchema (pid : Nat) (fv : Bool) (s : Schema) (st : TreeState) : TreeState :=
  applySchemaOp pid fv s (clearTypes st)

/-- the pinned tree's early return, without the `xsd_type is not None` test (kept to state what the
fix repairs) -/
def applySchemaOpPinned (pid : Nat) (fv : Bool) (s : Schema) (st : TreeState) : TreeState :=
  if st.schema == some pid then st else ⟨some pid, applySchemaV fv s st.ann.erase⟩

/-! ## node selection (a path evaluator over the same trees)

Nodes are identified by their pre-order index (element, then its attributes, then its children).
The evaluator is generic in the annotation type `α`; the only places where the real engine's
selection depends on the schema are made explicit in `Cfg`:
* `dropRoot`  : `AsteriskToken.select` (xpath_tokens/tokens.py:438-452) takes its "XSD typed
                selection" branch when the parser is schema-bound and tests
                `context.is_principal_node_kind()`, which looks at `context.item`; under a dummy
                document (`root` is an element) `iter_children_or_self` yields the root element
                while `context.item` is still the document — the root is dropped (F20b);
* `attrsOf`   : the `attributes` property adds defaulted attributes under a schema (F20d). -/
namespace Sel

inductive Item (α : Type) where
  | doc (kids : Forest α)
  | elem (idx : Nat) (ann : α) (name : String) (attrs : List (String × String)) (kids : Forest α)
  | attr (idx : Nat) (name value : String)
  | leaf (idx : Nat) (kind : LeafKind) (text : String)
  deriving Repr, Inhabited

/-- number of nodes (elements, their attributes, leaves) -/
def fsize {α : Type} : Forest α → Nat
  | .nil => 0
  | .leaf _ _ r => 1 + fsize r
  | .elem _ _ ats _ k r => 1 + ats.length + fsize k + fsize r

structure Cfg (α : Type) where
  /-- schema-bound parser AND the tree root is an element (dummy document) -/
  dropRoot : Bool
  /-- the tree root is an element: the document item is a dummy that is nobody's parent
  (`iter_parent`: `if self.document is not None or self.item is not self.root`) -/
  dummy : Bool
  /-- the attribute nodes of an element: (name, value, offset of the node's position after the element) -/
  attrsOf : α → List (String × String) → List (String × String × Nat)

def plainAttrs (attrs : List (String × String)) : List (String × String × Nat) :=
  attrs.zipIdx.map fun ((n, v), k) => (n, v, k)

/-- schema-less evaluation -/
def Cfg.plain (dummy : Bool) : Cfg Unit := ⟨false, dummy, fun _ ats => plainAttrs ats⟩

/-- the sibling list of a forest whose first node has index `start` -/
def sibs {α : Type} (start : Nat) : Forest α → List (Item α)
  | .nil => []
  | .leaf k t r => .leaf start k t :: sibs (start + 1) r
  | .elem a n ats _ kids r => .elem start a n ats kids :: sibs (start + 1 + ats.length + fsize kids) r

/-- all element and leaf nodes of a forest in document order -/
def descF {α : Type} (start : Nat) : Forest α → List (Item α)
  | .nil => []
  | .leaf k t r => .leaf start k t :: descF (start + 1) r
  | .elem a n ats _ kids r =>
    .elem start a n ats kids :: (descF (start + 1 + ats.length) kids ++
      descF (start + 1 + ats.length + fsize kids) r)

def Item.idx? {α : Type} : Item α → Option Nat
  | .doc _ => none
  | .elem i _ _ _ _ | .attr i _ _ | .leaf i _ _ => some i

def children {α : Type} : Item α → List (Item α)
  | .doc kids => sibs 0 kids
  | .elem i _ _ ats kids => sibs (i + 1 + ats.length) kids
  | _ => []

def descendants {α : Type} : Item α → List (Item α)
  | .doc kids => descF 0 kids
  | .elem i _ _ ats kids => descF (i + 1 + ats.length) kids
  | _ => []

def attributes {α : Type} (cfg : Cfg α) : Item α → List (Item α)
  | .elem i a _ ats _ => (cfg.attrsOf a ats).map fun (n, v, k) => .attr (i + 1 + k) n v
  | _ => []

inductive Axis where
  | child | descendant | descOrSelf | self | attrib
  | parent | ancestor | follSibling | precSibling
  deriving DecidableEq, Repr, Inhabited

/-- `schemaElem ns`: the kind test `schema-element(N)`; `ns` = `N` and the names of the members of
its substitution group (`_xpath2_operators.py select__schema_element_kind_test`, fix-c20-4) -/
inductive NTest where | name (n : String) | star | node | schemaElem (ns : List String)
  deriving DecidableEq, Repr, Inhabited

/-- does `p` have a child or attribute node with index `i`? -/
def hasChildIdx {α : Type} (cfg : Cfg α) (i : Nat) (p : Item α) : Bool :=
  (children p ++ attributes cfg p).any fun x => x.idx? == some i

/-- `node.parent`: found from the document item `rt` (nodes are values, not pointers); the dummy
document of an element root is nobody's parent -/
def parentOf {α : Type} (cfg : Cfg α) (rt : Item α) (c : Item α) : Option (Item α) :=
  match c.idx? with
  | none => none
  | some i =>
    match (rt :: descendants rt).find? (hasChildIdx cfg i) with
    | some p => if cfg.dummy && isDocB p then none else some p
    | none => none
where isDocB : Item α → Bool
  | .doc _ => true
  | _ => false

/-- ancestors, nearest first (reverse axis order); `fuel` bounds the depth -/
def ancestorsOf {α : Type} (cfg : Cfg α) (rt : Item α) : Nat → Item α → List (Item α)
  | 0, _ => []
  | n + 1, c => match parentOf cfg rt c with
    | some p => p :: ancestorsOf cfg rt n p
    | none => []

def isAttrItem {α : Type} : Item α → Bool
  | .attr _ _ _ => true
  | _ => false

def idxLt {α : Type} (a b : Item α) : Bool :=
  match a.idx?, b.idx? with
  | some i, some j => i < j
  | _, _ => false

/-- siblings: the other children of the parent (attributes have none) -/
def siblings {α : Type} (cfg : Cfg α) (rt c : Item α) : List (Item α) :=
  if isAttrItem c then [] else
  match parentOf cfg rt c with
  | some p => children p
  | none => []

def axisNodes {α : Type} (cfg : Cfg α) (rt : Item α) : Axis → Item α → List (Item α)
  | .child, c => children c
  | .descendant, c => descendants c
  | .descOrSelf, c => c :: descendants c
  | .self, c => [c]
  | .attrib, c => attributes cfg c
  | .parent, c => (parentOf cfg rt c).toList
  | .ancestor, c => ancestorsOf cfg rt (1 + (descendants rt).length) c
  | .follSibling, c => (siblings cfg rt c).filter fun x => idxLt c x
  | .precSibling, c => ((siblings cfg rt c).filter fun x => idxLt x c).reverse

/-- name test / `*` / `node()`: reads kind and name of the node, never its annotation -/
def testOk {α : Type} : Axis → NTest → Item α → Bool
  | _, .node, _ => true
  | .attrib, .star, .attr _ _ _ => true
  | .attrib, .name n, .attr _ m _ => m == n
  | .attrib, _, _ => false
  | _, .star, .elem _ _ _ _ _ => true
  | _, .name n, .elem _ _ m _ _ => m == n
  | _, .schemaElem ns, .elem _ _ m _ _ => ns.contains m
  | _, _, _ => false

def isDoc {α : Type} : Item α → Bool
  | .doc _ => true
  | _ => false

/-- one step from one context node -/
def stepNodes {α : Type} (cfg : Cfg α) (rt : Item α) (ax : Axis) (t : NTest) (c : Item α) : List (Item α) :=
  if cfg.dropRoot && ax == .child && t == .star && isDoc c then []       -- F20b
  else (axisNodes cfg rt ax c).filter (testOk ax t)

/-- keep the first occurrence of every node (by index) -/
def dedup {α : Type} : List (Item α) → List (Option Nat) → List (Item α)
  | [], _ => []
  | x :: xs, seen => if seen.contains x.idx? then dedup xs seen else x :: dedup xs (x.idx? :: seen)

/-- path and predicate expressions (one type, two readings: node sequence and boolean) -/
inductive E where
  | here                                                   -- `.`
  | root                                                   -- `/`
  | step (p : E) (ax : Axis) (t : NTest) (q1 q2 : E)       -- `p/ax::t[q1][q2]`
  | ptrue
  | pos (n : Nat)                                          -- `[n]`
  | last                                                   -- `[last()]`
  | posLe (n : Nat)                                        -- `[position() <= n]`
  | exist (p : E)                                          -- `[p]`
  | countGt (p : E) (n : Nat)                              -- `[count(p) > n]`
  | not (q : E)
  | and (q r : E)
  | or (q r : E)
  deriving Repr, Inhabited

def filterPosAux {α : Type} (f : Item α → Nat → Nat → Bool) (n : Nat) : List (Item α) → Nat → List (Item α)
  | [], _ => []
  | x :: xs, i => if f x i n then x :: filterPosAux f n xs (i + 1) else filterPosAux f n xs (i + 1)

/-- keep the items satisfying `f item position size` (positions 1-based, size = length of the list) -/
def filterPos {α : Type} (f : Item α → Nat → Nat → Bool) (l : List (Item α)) : List (Item α) :=
  filterPosAux f l.length l 1

/-- evaluation with context item `c`, position `pos`, size `size`; `rt` is the document item.
Returns (node sequence, boolean). -/
def eval {α : Type} (cfg : Cfg α) (rt : Item α) : E → Item α → Nat → Nat → List (Item α) × Bool
  | .here, c, _, _ => ([c], true)
  | .root, _, _, _ => ([rt], true)
  | .step p ax t q1 q2, c, pos, size =>
    let ctxs := (eval cfg rt p c pos size).1
    let out := ctxs.flatMap fun c' =>
      let cand := stepNodes cfg rt ax t c'
      let cand1 := filterPos (fun it i n => (eval cfg rt q1 it i n).2) cand
      filterPos (fun it i n => (eval cfg rt q2 it i n).2) cand1
    let out := dedup out []
    (out, !out.isEmpty)
  | .ptrue, _, _, _ => ([], true)
  | .pos n, _, pos, _ => ([], pos == n)
  | .last, _, pos, size => ([], pos == size)
  | .posLe n, _, pos, _ => ([], pos ≤ n)
  | .exist p, c, _, _ => ([], !(eval cfg rt p c 1 1).1.isEmpty)
  | .countGt p n, c, _, _ => ([], (eval cfg rt p c 1 1).1.length > n)
  | .not q, c, pos, size => ([], !(eval cfg rt q c pos size).2)
  | .and q r, c, pos, size => ([], (eval cfg rt q c pos size).2 && (eval cfg rt r c pos size).2)
  | .or q r, c, pos, size => ([], (eval cfg rt q c pos size).2 || (eval cfg rt r c pos size).2)

def insertSorted (x : Nat) : List Nat → List Nat
  | [] => [x]
  | y :: ys => if x < y then x :: y :: ys else if x == y then y :: ys else y :: insertSorted x ys

def sortIdx (l : List Nat) : List Nat := l.foldr insertSorted []

/-- the selected nodes as a sorted list of pre-order indices (the document item has no index;
`fromDoc = false` starts at the root element as context item, as `select(root_element, path)` does,
`fromDoc = true` at the document node, as `select(ElementTree(root), path)` does) -/
def startItem {α : Type} (fromDoc : Bool) (t : Forest α) : Item α :=
  if fromDoc then .doc t else match sibs 0 t with
    | x :: _ => x
    | [] => .doc t

def select {α : Type} (cfg : Cfg α) (fromDoc : Bool) (t : Forest α) (e : E) : List Nat :=
  sortIdx ((eval cfg (.doc t) e (startItem fromDoc t) 1 1).1.filterMap Item.idx?)

/-- may the node sequence of `e` contain the document node?  (`cd` = the context item may be the
document; syntactic over-approximation) -/
def canDoc (cd : Bool) : E → Bool
  | .here => cd
  | .root => true
  | .step p ax t _ _ => canDoc cd p && (ax == .descOrSelf || ax == .self) && t == .node
  | _ => false

/-- does the expression apply an abbreviated `*` child step to the document node?  The trigger of
F20b (syntactic; exact up to emptiness of intermediate results). -/
def starAtDoc (cd : Bool) : E → Bool
  | .step p ax t q1 q2 =>
    starAtDoc cd p || (ax == .child && t == .star && canDoc cd p) ||
      starAtDoc (canDoc cd p && (ax == .descOrSelf || ax == .self) && t == .node) q1 ||
      starAtDoc (canDoc cd p && (ax == .descOrSelf || ax == .self) && t == .node) q2
  | .exist p | .countGt p _ | .not p => starAtDoc cd p
  | .and q r | .or q r => starAtDoc cd q || starAtDoc cd r
  | _ => false

/-- does the expression use the attribute axis or an axis that looks upwards / sideways (these are
the only places where the evaluator consults the attribute lists or the parent search)? -/
def usesAttrOrUp : E → Bool
  | .step p ax _ q1 q2 =>
    usesAttrOrUp p || usesAttrOrUp q1 || usesAttrOrUp q2 ||
      !(ax == .child || ax == .descendant || ax == .descOrSelf || ax == .self)
  | .exist p | .countGt p _ | .not p => usesAttrOrUp p
  | .and q r | .or q r => usesAttrOrUp q || usesAttrOrUp r
  | _ => false

end Sel

/-- the attribute nodes seen by the evaluator under a schema: those of `attrNodes`, a defaulted
attribute takes "the same position of the last attribute" (xpath_nodes.py:1134) -/
def typedAttrs (s : Schema) (a : Ann) (attrs : List (String × String)) : List (String × String × Nat) :=
  (attrNodes s a attrs).zipIdx.map fun (n, k) => (n.name, n.value, if n.defaulted then attrs.length else k)

/-- schema-aware evaluation: parser bound to the schema proxy; `dummyDoc` = the tree was passed as
an element (not as a document) -/
def Sel.Cfg.typed (s : Schema) (dummyDoc : Bool) : Sel.Cfg Ann := ⟨dummyDoc, dummyDoc, typedAttrs s⟩

/-! ## a predicate form that READS the typed value: `//*[. = 'lit']`

Not part of the path language `E` (it does not erase): the general comparison atomizes the node.
`cmpKey` = the strings the comparison sees for a string-family typed value (every item of a list) or
an untyped node; for other typed values the comparison with a string literal raises XPTY0004 (`none`). -/

def cmpKey (valid : SType → String → Bool) (s : Schema) (a : Ann) (attrs : List (String × String))
    (kids : Forest Ann) : Option (List String) :=
  match elemTypedValue valid s a attrs kids with
  | .ok [] => none                    -- atomization of an empty typed value raises FOTY0012
  | .ok vs =>
    if vs.all fun v => v.cls == .untypedAtomic || v.cls == .string || v.cls == .normalizedString ||
        v.cls == .token || v.cls == .anyURI          -- xs:anyURI is promoted to xs:string in comparisons
    then some (vs.map (·.val)) else none
  | _ => none

def hasElemChild {α : Type} : Forest α → Bool
  | .nil => false
  | .leaf _ _ r => hasElemChild r
  | .elem _ _ _ _ _ _ => true

/-- the elements selected by `//*[not(*)][. = 'lit']` (indices of the LEAF elements whose value equals
the literal), `none` = the comparison raises on some leaf element -/
def selectValEq (valid : SType → String → Bool) (s : Schema) (lit : String) : Nat → Forest Ann → Option (List Nat)
  | _, .nil => some []
  | start, .leaf _ _ r => selectValEq valid s lit (start + 1) r
  | start, .elem a _ ats _ kids rest =>
    match (if hasElemChild kids then some [] else (cmpKey valid s a ats kids).map fun ks => if ks.contains lit then [start] else []),
          selectValEq valid s lit (start + 1 + ats.length) kids,
          selectValEq valid s lit (start + 1 + ats.length + Sel.fsize kids) rest with
    | some l0, some l1, some l2 => some (l0 ++ l1 ++ l2)
    | _, _, _ => none

end EPV.Xsd

/-
C17 phase 5 (second item): fn:json-to-xml with option `escape: true()` on WHOLE values and fn:xml-to-json
reading the `escaped` / `escaped-key` attributes (_xpath31_functions.py, `value_to_etree`, `json_object_to_etree`,
`elem_to_json`).  String-level pieces (`j2xEscapeString`, `checkEscapes`, `escapeJsonString · escaped`) are in
`Model/Json.lean`.  Core Lean only.
-/
import EPV.Model.Json
namespace EPV.Json

/-- an element of the F&O §17.4.2 vocabulary WITH the two flag attributes: tag, `key`, `escaped-key="true"` present,
`escaped="true"` present, text, element children -/
inductive ElemE where
  | mk (tag : Tag) (key : Option Str) (escapedKey : Bool) (escaped : Bool) (text : Option Str) (children : List ElemE)
  deriving Repr, Inhabited

mutual
/-- `value_to_etree(v, **attrib)` with `escape = True`: a string is written as `escape_string(v)`, with
`escaped="true"` iff that text contains a backslash; `attrib` = none, `{'key': k}` or `{'escaped-key': 'true', 'key': k}` -/
def toElemE (p : DupPolicy) (key : Option Str) (ek : Bool) : JValue → Except Err ElemE
  | .null => .ok (.mk .null key ek false none [])
  | .bool b => .ok (.mk .boolean key ek false (some (if b then [116, 114, 117, 101] else [102, 97, 108, 115, 101])) [])
  | .int n => .ok (.mk .number key ek false (some (renderInt n)) [])
  | .dbl d => .ok (.mk .number key ek false (some (reprDouble d)) [])
  | .str s => .ok (.mk .string key ek ((j2xEscapeString s).contains 92) (some (j2xEscapeString s)) [])
  | .arr l => (toElemEL p l).map (ElemE.mk .array key ek false none)
  | .obj m => (toElemEM p [] m).map (ElemE.mk .map key ek false none)
def toElemEL (p : DupPolicy) : List JValue → Except Err (List ElemE)
  | [] => .ok []
  | v :: t => do
    let e ← toElemE p none false v
    let es ← toElemEL p t
    pure (e :: es)
/-- `json_object_to_etree` with `escape = True` (duplicates are tested on the raw keys): `k = escape_string(k)`,
`escaped-key="true"` iff it contains a backslash -/
def toElemEM (p : DupPolicy) (seen : List Str) : List (Str × JValue) → Except Err (List ElemE)
  | [] => .ok []
  | (k, v) :: t =>
    if k ∈ seen then
      match p with
      | .useFirst => toElemEM p seen t
      | .reject => .error .FOJS0003
      | _ => do
        let e ← toElemE p (some (j2xEscapeString k)) ((j2xEscapeString k).contains 92) v
        let es ← toElemEM p seen t
        pure (e :: es)
    else do
      let e ← toElemE p (some (j2xEscapeString k)) ((j2xEscapeString k).contains 92) v
      let es ← toElemEM p (k :: seen) t
      pure (e :: es)
end

/-- fn:json-to-xml($t, map{'escape': true()}) on the parsed JSON text -/
def jsonToXmlEsc (v : JValue) (p : DupPolicy := .retain) : Except Err ElemE := toElemE p none false v

mutual
/-- `elem_to_json((e,))` reading the flags: `escaped` ∈ {true,1} → `check_escapes(value)` (FOJS0007) and
`escape_json_string(value, True)` -/
def elemToJsonE (rnd : Dec → Dec) : ElemE → Except Err Str
  | .mk .null _ _ _ text _ =>
    if text.isSome then .error .FOJS0006 else .ok [110, 117, 108, 108]
  | .mk .boolean _ _ _ text _ =>
    let t := text.getD []
    if t = [116, 114, 117, 101] ∨ t = [49] then .ok [116, 114, 117, 101]
    else if t = [102, 97, 108, 115, 101] ∨ t = [48] then .ok [102, 97, 108, 115, 101]
    else .error .other
  | .mk .number _ _ _ text _ => numberOfText rnd (text.getD [])
  | .mk .string _ _ escaped text children =>
    if !children.isEmpty then .error .FOJS0006
    else if escaped && !checkEscapes (text.getD []) then .error .FOJS0007
    else .ok (34 :: (escapeJsonString (text.getD []) escaped ++ [34]))
  | .mk .array _ _ _ _ children => do
    let cs ← elemsToJsonE rnd children
    pure (91 :: (joinComma cs ++ [93]))
  | .mk .map _ _ _ _ children => do
    let cs ← membersToJsonE rnd [] children
    pure (123 :: (joinComma cs ++ [125]))
def elemsToJsonE (rnd : Dec → Dec) : List ElemE → Except Err (List Str)
  | [] => .ok []
  | e :: t => do
    let c ← elemToJsonE rnd e
    let cs ← elemsToJsonE rnd t
    pure (c :: cs)
/-- the `for e in child:` loop of the map branch: `escaped-key` ∈ {true,1} → `check_escapes(key)`,
`key = escape_json_string(key, escaped_key)`, member text, then the duplicate test on `unescape_json_string(key)` -/
def membersToJsonE (rnd : Dec → Dec) (seen : List Str) : List ElemE → Except Err (List Str)
  | [] => .ok []
  | e :: t =>
    match e with
    | .mk _ none _ _ _ _ => .error .FOJS0006
    | .mk _ (some key) ek _ _ _ =>
      if ek && !checkEscapes key then .error .FOJS0007 else do
        let k := escapeJsonString key ek
        let c ← elemToJsonE rnd e
        match unescapeJsonString k with
        | none => .error .other
        | some uk =>
          if uk ∈ seen then .error .FOJS0006 else do
            let cs ← membersToJsonE rnd (uk :: seen) t
            pure ((34 :: (k ++ [34, 58]) ++ c) :: cs)
end

/-- fn:xml-to-json on the root element (flags read) -/
def xmlToJsonE (rnd : Dec → Dec) (e : ElemE) : Except Err Str := elemToJsonE rnd e

end EPV.Json

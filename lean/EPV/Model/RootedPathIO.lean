/-
Driver side of the rooted sub-trees of C14: request `root=doc|elem tree=<tokens> rooted=<i.j.k>` (position of the
context root in the parsed tree).  Answer:
  trigger=<0|1>                       `rootedCtx`
  rooted=<rec>|…                      one per node of the sub-tree in document order (node, namespace nodes, attributes, children):
     <node.path>;<fn:path>;<selected by node.path in the rooted context>;<selected by fn:path there>
     (selected = indices in that order, `,` separated; `-` nothing, `D` the dummy document, `?` outside)
-/
import EPV.Model.RootedPath
import EPV.Model.LazyPathIO
namespace EPV.NodePath

private def idxOfRef (refs : List Ref) (r : Ref) : String :=
  let i := refs.idxOf r
  if i < refs.length then toString i else "?"

private def showSel (l : List String) : String := if l.isEmpty then "-" else ",".intercalate l

def answerRooted (isDoc : Bool) (top : Node) (preS : String) : String :=
  match parseIp preS with
  | none => "bad-rooted"
  | some pre =>
    match descend top pre with
    | none => "bad-rooted"
    | some sub =>
      let refs := allRefs sub
      let atop := if isDoc then top else docNode [top]
      let apre := if isDoc then pre else 0 :: pre
      let recs := refs.map fun r =>
        let absSt := pathOf atop ⟨apre ++ r.path, r.sel⟩
        let selAbs := match absSt with
          | none => "NONE"
          | some st => showSel ((evalAbsRooted sub st).map fun x =>
              match underDummy x with
              | some y => idxOfRef refs y
              | none => if x.path.isEmpty then "D" else "?")
        let fnSt := fnPathRooted top pre r
        let selFn := match fnSt with
          | none => "NONE"
          | some st => showSel ((evalRootFnRooted sub st).map (idxOfRef refs))
        let absT := (absSt.map renderAbs).getD "NONE"
        let fnT := (fnSt.map renderFnPath).getD "NONE"
        s!"{absT};{fnT};{selAbs};{selFn}"
      s!"trigger={if rootedCtx isDoc top pre then 1 else 0} rooted={"|".intercalate recs}"

end EPV.NodePath

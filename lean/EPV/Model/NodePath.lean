/-
Model of the node-path generators of elementpath (C14).  Core Lean only.

Python sources transcribed (pinned tree + the `fix:` commits of branch fix-c14):
* `elementpath/xpath_nodes.py`
    - `XPathNode.get_child_position`                      (lines 263-274)  -> `gcpLoop`, `getChildPosition`
    - `ElementNode.path`, `TextNode.path`, `CommentNode.path`,
      `ProcessingInstructionNode.path`                    (934-941, 566-573, 647-654, 736-743) -> `childStep`, `pathTo`
    - `AttributeNode.path`, `NamespaceNode.path`          (379-384, 319-324) -> `pathOf` (`.attr`, `.ns` selectors)
    - `uri_qualified_name`, `name_path`, `_EMPTY_NAME_PATH` (38, 316, 365-376, 827-834, 931) -> `renderStep`
    - parent-less nodes (`self.parent is None` branches)  -> `orphanSteps`
* `elementpath/xpath30/_xpath30_functions.py :: evaluate__path` (1057-1081)  -> `fnPath`, `renderFnPath`
* `elementpath/etree.py :: etree_iter_paths` (149-189)     -> `iterPaths`, `iterKids`

Tree model: an inductive tree; text / comment nodes carry no content (irrelevant for paths).
A document node is represented as the pseudo element `docNode kids` (empty name, no attributes,
no namespaces); the theorems quantify over *every* `Node` as the evaluation root, so this is
only a convention of the driver.  A node is identified by `Ref` = list of child indices from the
root + selector (the node itself / its j-th attribute / its j-th namespace node).
-/
namespace EPV.NodePath

/-- expanded name; `ns = ""` is "no namespace" (Python: Clark notation `{ns}local` / `local`) -/
structure Name where
  ns : String
  loc : String
  deriving DecidableEq, Repr, Inhabited

inductive Node where
  /-- `nss`: in-scope namespace nodes (prefix, uri) in the order of `ElementNode.namespace_nodes`;
      `attrs`: attributes in `elem.attrib` order -/
  | elem (name : Name) (nss : List (String × String)) (attrs : List (Name × String)) (kids : List Node)
  | text
  | comment
  | pi (target : String)
  deriving Repr, Inhabited

def Node.kids : Node → List Node
  | .elem _ _ _ ks => ks
  | _ => []

def Node.attrs : Node → List (Name × String)
  | .elem _ _ as _ => as
  | _ => []

def Node.nss : Node → List (String × String)
  | .elem _ ns _ _ => ns
  | _ => []

/-- document node as a pseudo element (never produced as a child by the harness) -/
def docNode (kids : List Node) : Node := .elem ⟨"", ""⟩ [] [] kids

inductive Sel where
  | self
  | attr (j : Nat)
  | ns (j : Nat)
  deriving DecidableEq, Repr, Inhabited

structure Ref where
  path : List Nat
  sel : Sel
  deriving DecidableEq, Repr, Inhabited

/-- the node reached from `n` by a list of child indices -/
def descend : Node → List Nat → Option Node
  | n, [] => some n
  | n, i :: is =>
    match n.kids[i]? with
    | some c => descend c is
    | none => none

/-- a reference denotes a node of the tree -/
def Valid (top : Node) (r : Ref) : Prop :=
  match descend top r.path with
  | none => False
  | some n =>
    match r.sel with
    | .self => True
    | .attr j => j < n.attrs.length
    | .ns j => j < n.nss.length

/-! ### path steps -/

inductive Step where
  /-- `Q{ns}local[pos]` -/
  | child (name : Name) (pos : Nat)
  /-- `text()[pos]` -/
  | text (pos : Nat)
  /-- `comment()[pos]` -/
  | comment (pos : Nat)
  /-- `processing-instruction(target)[pos]` -/
  | pi (target : String) (pos : Nat)
  /-- `@name` -/
  | attr (name : Name)
  /-- `namespace::prefix` -/
  | ns (pfx : String)
  deriving DecidableEq, Repr, Inhabited

/-! ### `get_child_position` -/

/-- which siblings `c` are counted for `child` by `get_child_position` (after the fixes F14a, F14e):
elements with the same name for an element, processing instructions with the same target for a
PI, nodes of the same class for text and comment nodes. -/
def sameKind (child c : Node) : Bool :=
  match child, c with
  | .elem n _ _ _, .elem m _ _ _ => decide (n = m)
  | .pi t, .pi u => decide (t = u)
  | .text, .text => true
  | .comment, .comment => true
  | _, _ => false

/-- the counting of the *pinned* tree (05acc20), kept for the machine-checked counter-examples:
an element counts every sibling whose `.name` string equals its own (a PI's `.name` is its
target, so a PI named like a no-namespace element is counted: F14e); a PI counts every PI
sibling whatever its target (F14a). -/
def pinnedKind (child c : Node) : Bool :=
  match child, c with
  | .elem n _ _ _, .elem m _ _ _ => decide (n = m)
  | .elem n _ _ _, .pi u => decide (n.ns = "" ∧ n.loc = u)
  | .pi _, .pi _ => true
  | .text, .text => true
  | .comment, .comment => true
  | _, _ => false

/-- the loop of `get_child_position`: `for c in self.children: <count>; if c is child: break`.
`k` = number of siblings still to visit before `child` (identity is modelled by the index). -/
def gcpLoop (cnt : Node → Node → Bool) (child : Node) : List Node → Nat → Nat → Nat
  | [], _, pos => pos
  | c :: cs, k, pos =>
    let pos := if cnt child c then pos + 1 else pos
    match k with
    | 0 => pos
    | k + 1 => gcpLoop cnt child cs k pos

def getChildPositionWith (cnt : Node → Node → Bool) (kids : List Node) (i : Nat) (child : Node) : Nat :=
  gcpLoop cnt child kids i 0

def getChildPosition (kids : List Node) (i : Nat) (child : Node) : Nat :=
  getChildPositionWith sameKind kids i child

/-! ### the `path` properties -/

/-- last step of `ElementNode.path` / `TextNode.path` / `CommentNode.path` /
`ProcessingInstructionNode.path` for a child with position `pos` -/
def childStep (child : Node) (pos : Nat) : Step :=
  match child with
  | .elem nm _ _ _ => .child nm pos
  | .text => .text pos
  | .comment => .comment pos
  | .pi t => .pi t pos

/-- steps from `top` down to the node at child-index path `is` (`f"{self.parent.path}/{step}"`,
unfolded from the root; `pathTo_snoc` in Lemmas gives back the Python shape). -/
def pathToWith (cnt : Node → Node → Bool) (top : Node) : List Nat → Option (List Step)
  | [] => some []
  | i :: is =>
    match top.kids[i]? with
    | none => none
    | some c =>
      match pathToWith cnt c is with
      | none => none
      | some rest => some (childStep c (getChildPositionWith cnt top.kids i c) :: rest)

def pathOfWith (cnt : Node → Node → Bool) (top : Node) (r : Ref) : Option (List Step) :=
  match pathToWith cnt top r.path, descend top r.path with
  | some steps, some n =>
    match r.sel with
    | .self => some steps
    | .attr j => (n.attrs[j]?).map fun a => steps ++ [.attr a.1]
    | .ns j => (n.nss[j]?).map fun a => steps ++ [.ns a.1]
  | _, _ => none

/-- `node.path` as a step list relative to `top` (`none` iff the reference is not valid) -/
def pathTo (top : Node) (is : List Nat) : Option (List Step) := pathToWith sameKind top is
def pathOf (top : Node) (r : Ref) : Option (List Step) := pathOfWith sameKind top r
/-- the pinned tree's `node.path` -/
def pathOfPinned (top : Node) (r : Ref) : Option (List Step) := pathOfWith pinnedKind top r

/-! ### `EtreeElementNode.get_document_node(replace=True)` (xpath_nodes.py 1327-1385)

`fn:parse-xml-fragment` parses a string that is not a well-formed document inside a dummy
`<document>` element and then *replaces* that element by a document node: the new node takes
over the `children` list (`document_node.children = root_node.children`), every child's `parent`
and the tree's `root_node` are switched to it, the dummy element is dropped. -/
def replaceDummy (w : Node) : Node := docNode w.kids

/-! ### `evaluate__path` with several trees in the dynamic context

`_xpath30_functions.py :: evaluate__path` after b4af310: `root_node := item.root_node` (the root
of the item's own tree) decides the form, `item.path` gives the steps; the context root `ctx` is
not consulted.  Before that commit a node whose tree is not rooted at `context.root` got the
empty sequence (`fnPathForestOld`). -/
def fnPathForest (F : List Node) (_ctx : Nat) (t : Nat) (r : Ref) : Option (List Step) :=
  match F[t]? with
  | some top => pathOf top r
  | none => none

def fnPathForestOld (F : List Node) (ctx : Nat) (t : Nat) (r : Ref) : Option (List Step) :=
  if t = ctx then fnPathForest F ctx t r else none

/-! ### `etree_iter_paths` -/

/-- the three counters of `etree_iter_paths` (`Counter` = function with default 0) -/
structure Counters where
  comments : Nat
  pis : String → Nat
  positions : Name → Nat

def Counters.zero : Counters := ⟨0, fun _ => 0, fun _ => 0⟩

def bump {α : Type} [DecidableEq α] (f : α → Nat) (k : α) : α → Nat :=
  fun x => if x = k then f x + 1 else f x

mutual
/-- `etree_iter_paths(elem, path)`: yields `(node, path)` for the element and, recursively, for
every element / comment / PI below it (text is not an ElementTree node).  Nodes are reported
by their child-index path `ip` in the model tree. -/
def iterPaths : Node → List Nat → List Step → List (List Nat × List Step)
  | .elem _ _ _ kids, ip, path => (ip, path) :: iterKids kids 0 ip path Counters.zero
  | _, ip, path => [(ip, path)]
/-- the `for child in elem` loop -/
def iterKids : List Node → Nat → List Nat → List Step → Counters → List (List Nat × List Step)
  | [], _, _, _, _ => []
  | k :: ks, i, ip, path, cs =>
    match k with
    | .comment =>
      let cs' := { cs with comments := cs.comments + 1 }
      (ip ++ [i], path ++ [.comment cs'.comments]) :: iterKids ks (i + 1) ip path cs'
    | .pi t =>
      let cs' := { cs with pis := bump cs.pis t }
      (ip ++ [i], path ++ [.pi t (cs'.pis t)]) :: iterKids ks (i + 1) ip path cs'
    | .text => iterKids ks (i + 1) ip path cs
    | .elem nm nss attrs kids =>
      let cs' := { cs with positions := bump cs.positions nm }
      iterPaths (.elem nm nss attrs kids) (ip ++ [i]) (path ++ [.child nm (cs'.positions nm)])
        ++ iterKids ks (i + 1) ip path cs'
end

def etreeIterPaths (e : Node) : List (List Nat × List Step) := iterPaths e [] []

/-! ### rendering: the text of the path, character by character (f-strings of the `path`
properties).  `EPV.C14.parse_render_*` prove that this text reads back to the steps, so it is
injective; the equality with the real strings is the correspondence check. -/

/-- decimal digits of a natural number (`str(int)`), most significant first -/
def digitChar (d : Nat) : Char := Char.ofNat (48 + d)

def natDecAux : Nat → Nat → List Char → List Char
  | 0, _, acc => acc
  | f + 1, n, acc =>
    if n < 10 then digitChar n :: acc else natDecAux f (n / 10) (digitChar (n % 10) :: acc)

def natDec (n : Nat) : List Char := natDecAux (n + 1) n []

/-- `http://www.w3.org/2005/xpath-functions` -/
def fnNamespaceC : List Char := ['h', 't', 't', 'p', ':', '/', '/', 'w', 'w', 'w', '.', 'w', '3', '.', 'o', 'r', 'g', '/', '2', '0', '0', '5', '/', 'x', 'p', 'a', 't', 'h', '-', 'f', 'u', 'n', 'c', 't', 'i', 'o', 'n', 's']
def litText : List Char := ['t', 'e', 'x', 't', '(', ')', '[']
def litComment : List Char := ['c', 'o', 'm', 'm', 'e', 'n', 't', '(', ')', '[']
def litPI : List Char := ['p', 'r', 'o', 'c', 'e', 's', 's', 'i', 'n', 'g', '-', 'i', 'n', 's', 't', 'r', 'u', 'c', 't', 'i', 'o', 'n', '(']
def litNs : List Char := ['n', 'a', 'm', 'e', 's', 'p', 'a', 'c', 'e', ':', ':']
/-- `_EMPTY_NAME_PATH` = `*[Q{http://www.w3.org/2005/xpath-functions}local-name()=""]` -/
def emptyNamePathC : List Char := ['*', '[', 'Q', '{'] ++ fnNamespaceC ++ ['}', 'l', 'o', 'c', 'a', 'l', '-', 'n', 'a', 'm', 'e', '(', ')', '=', '"', '"', ']']
/-- `Q{http://www.w3.org/2005/xpath-functions}root()` -/
def litRoot : List Char := ['Q', '{'] ++ fnNamespaceC ++ ['}', 'r', 'o', 'o', 't', '(', ')']

/-- one step: `Q{ns}local[n]` (`ElementNode.uri_qualified_name` always braced), `text()[n]`,
`comment()[n]`, `processing-instruction(t)[n]`, `@local` / `@Q{ns}local`
(`AttributeNode.uri_qualified_name` braced only when namespaced), `namespace::prefix` /
`namespace::*[Q{fn}local-name()=""]` (`name_path` of a prefix-less namespace node) -/
def renderStepC : Step → List Char
  | .child nm p => 'Q' :: '{' :: (nm.ns.toList ++ '}' :: (nm.loc.toList ++ '[' :: (natDec p ++ [']'])))
  | .text p => litText ++ (natDec p ++ [']'])
  | .comment p => litComment ++ (natDec p ++ [']'])
  | .pi t p => litPI ++ (t.toList ++ ')' :: '[' :: (natDec p ++ [']']))
  | .attr nm =>
    if nm.ns = "" then '@' :: nm.loc.toList
    else '@' :: 'Q' :: '{' :: (nm.ns.toList ++ '}' :: nm.loc.toList)
  | .ns p => litNs ++ (if p = "" then emptyNamePathC else p.toList)

/-- `/step/step…` -/
def renderSteps : List Step → List Char
  | [] => []
  | s :: ss => '/' :: (renderStepC s ++ renderSteps ss)

/-- `node.path`: `/` for the document node, else `/step/step…` -/
def renderAbsC (steps : List Step) : List Char :=
  match steps with
  | [] => ['/']
  | _ => renderSteps steps

/-- `fn:path` on a tree whose root is not a document node:
`Q{http://www.w3.org/2005/xpath-functions}root()` + `item.path[len(root_node.path):]` -/
def renderFnPathC (steps : List Step) : List Char := litRoot ++ renderSteps steps

def renderAbs (steps : List Step) : String := String.ofList (renderAbsC steps)
def renderFnPath (steps : List Step) : String := String.ofList (renderFnPathC steps)
/-- `etree_iter_paths(elem, path=arg)`: the element itself gets `arg`; below it the steps are
joined with `/`, the first one directly to `arg` when `arg` is `''` or `'/'` (etree.py: the
three-way branch for element children, `sep` for comments and PIs after fix-c14-2) -/
def etreeSep (arg : List Char) : List Char :=
  if arg = [] ∨ arg = ['/'] then arg else arg ++ ['/']

def renderEtreeC (arg : List Char) : List Step → List Char
  | [] => arg
  | s :: ss => etreeSep arg ++ (renderStepC s ++ renderSteps ss)

def renderEtree (arg : String) (steps : List Step) : String := String.ofList (renderEtreeC arg.toList steps)
/-- what `etree_iter_paths(root)` prints (default `path='.'`) -/
def renderRel (steps : List Step) : String := renderEtree "." steps

/-- `path` of a parent-less node (`self.parent is None` branches) -/
def orphanSteps : Node → List Step
  | n => [childStep n 1]
/-- `AttributeNode.path` / `NamespaceNode.path` with `self.parent is None` -/
def orphanAttrSteps (nm : Name) : List Step := [.attr nm]
def orphanNsSteps (pfx : String) : List Step := [.ns pfx]

end EPV.NodePath

/-
C02 — the other ways the Python walks / re-enters a built node tree (all on `PNode` of
EPV/Model/Builder.lean; a node's identity is its position):

* `ElementNode.iter_lazy` (xpath_nodes.py:1005-1035) and `ElementNode.iter_descendants` (l. 1037-1056):
  the explicit-stack loops, transcribed as the machine `walkStep/walkRun` (the two loops have the same
  shape; they differ in what is yielded besides the node itself: the *already built* namespace /
  attribute lists for `iter_lazy`, nothing for `iter_descendants`);
  `DocumentNode.iter_lazy` / `iter_descendants` (l. 1662-1680); `iter_document = iter` (l. 1003, 1660).
* `lazyNode/lazyKids`: the recursive description the machine is proved equal to.
* `get_node_tree` applied to an already built node (tree_builders.py:49-61) with
  `DocumentNode.getroot` (l. 1642-1646) and `EtreeElementNode.get_document_node` (l. 1332-1372, `replace=False`).
* `XPathContext.get_root` (no `documents`) and the node comparison for any context root (several trees:
  EPV/Model/BuilderForest.lean).
Core Lean only.
-/
import EPV.Model.Builder
namespace EPV.Builder

/-- which elements (by position) already have `_namespace_nodes` / `_attributes` -/
structure LazyState where
  nsBuilt : List Nat
  attrBuilt : List Nat
  deriving Repr, Inhabited

def LazyState.ns (L : LazyState) (p : Nat) : Bool := L.nsBuilt.contains p
def LazyState.attrs (L : LazyState) (p : Nat) : Bool := L.attrBuilt.contains p

namespace PNode
def kids : PNode → List PNode
  | .doc _ k => k
  | .elem _ _ _ _ _ k => k
  | _ => []
def isElem : PNode → Bool
  | .elem .. => true
  | _ => false
def isDoc : PNode → Bool
  | .doc .. => true
  | _ => false
end PNode

/-! ### recursive description -/

/-- `if hasattr(e, '_namespace_nodes'): yield from …; if hasattr(e, '_attributes'): yield from …` -/
def lazyOwn (L : LazyState) : PNode → List Rec
  | .elem p _ m a _ _ =>
      (if L.ns p then namespaceNodes p m else []) ++ (if L.attrs p then attributeNodes p m a else [])
  | _ => []

mutual
/-- the nodes reached without building anything new: like `iterNode`, but an element contributes its
namespace / attribute nodes only if they have been built -/
def lazyNode (L : LazyState) (par : Option Nat) : PNode → List Rec
  | .doc p kids =>
      { kind := .document, name := none, pos := p, parent := par, sv := docStringValue kids } ::
        lazyKids L (some p) kids
  | .elem p name m a sv kids =>
      { kind := .element, name := some name, pos := p, parent := par, sv := sv } ::
        ((if L.ns p then namespaceNodes p m else []) ++ (if L.attrs p then attributeNodes p m a else []) ++
          lazyKids L (some p) kids)
  | .text p s => [{ kind := .text, name := none, pos := p, parent := par, sv := s }]
  | .comment p s => [{ kind := .comment, name := none, pos := p, parent := par, sv := s }]
  | .pi p t s => [{ kind := .pi, name := some t, pos := p, parent := par, sv := s }]
def lazyKids (L : LazyState) (par : Option Nat) : List PNode → List Rec
  | [] => []
  | n :: ns => lazyNode L par n ++ lazyKids L par ns
end

/-! ### the explicit-stack walk -/

structure Walk where
  children : List PNode
  iterators : List (List PNode)
  /-- positions of the nodes yielded so far -/
  out : List Nat
  deriving Repr

inductive WalkResult where
  | next (s : Walk)
  | done (out : List Nat)

/-- one pass of `for child in children: … else: … pop`; `own` = what is yielded for an element child
besides the child itself -/
def walkStep (own : PNode → List Nat) (s : Walk) : WalkResult :=
  match s.children with
  | child :: rest =>
      let out1 := s.out ++ child.pos :: (if child.isElem then own child else [])   -- `yield child` …
      if child.isElem && !child.kids.isEmpty then                                   -- `if child.children:`
        .next { children := child.kids, iterators := rest :: s.iterators, out := out1 }
      else .next { s with children := rest, out := out1 }
  | [] =>
      match s.iterators with
      | it :: its => .next { s with children := it, iterators := its }              -- `iterators.pop()`
      | [] => .done s.out                                                           -- `IndexError: return`

def walkRun (own : PNode → List Nat) : Nat → Walk → Option (List Nat)
  | 0, _ => none
  | f + 1, s =>
    match walkStep own s with
    | .next s' => walkRun own f s'
    | .done out => some out

mutual
/-- passes needed for a list of siblings -/
def walkSteps : List PNode → Nat
  | [] => 0
  | n :: ns => walkStepsOne n + walkSteps ns
def walkStepsOne : PNode → Nat
  | .elem _ _ _ _ _ kids => if kids.isEmpty then 1 else 1 + walkSteps kids + 1
  | .doc _ _ => 1
  | _ => 1
end

/-- `ElementNode.iter_lazy()` of the element `e` -/
def iterLazyElem (L : LazyState) (e : PNode) : Option (List Nat) :=
  walkRun (fun n => (lazyOwn L n).map (·.pos)) (walkSteps e.kids + 1)
    { children := e.kids, iterators := [], out := e.pos :: (lazyOwn L e).map (·.pos) }

/-- `ElementNode.iter_descendants(with_self=True)` -/
def iterDescElem (e : PNode) : Option (List Nat) :=
  walkRun (fun _ => []) (walkSteps e.kids + 1) { children := e.kids, iterators := [], out := [e.pos] }

/-- `DocumentNode.iter_lazy` / `iter_descendants`: `yield self`, then per child the element's own iterator
or the child itself -/
def iterDocWith (f : PNode → Option (List Nat)) : PNode → Option (List Nat)
  | .doc p kids =>
      (kids.mapM fun (k : PNode) => if k.isElem then f k else some [k.pos]).map fun (ls : List (List Nat)) => p :: ls.flatten
  | n => f n

def iterLazy (L : LazyState) (root : PNode) : Option (List Nat) := iterDocWith (iterLazyElem L) root
def iterDescendants (root : PNode) : Option (List Nat) := iterDocWith iterDescElem root

/-! ### `get_node_tree` on a node tree -/

/-- first subtree (document order) whose node sits at position `p` -/
def nodeAt : PNode → Nat → Option PNode
  | n, p => if n.pos == p then some n else
    match n with
    | .doc _ kids => nodeAtKids kids p
    | .elem _ _ _ _ _ kids => nodeAtKids kids p
    | _ => none
where nodeAtKids : List PNode → Nat → Option PNode
  | [], _ => none
  | k :: ks, p => match nodeAt k p with
    | some r => some r
    | none => nodeAtKids ks p

inductive RegetErr where
  | missingRoot        -- ElementPathRuntimeError("Missing document root") from getroot()
  | noSuchNode
  deriving Repr, DecidableEq

/-- result: the (possibly changed) tree and the position of the node that is returned -/
structure Reget where
  tree : PNode
  ret : Nat
  deriving Repr

/-- `DocumentNode.getroot()` -/
def getroot (kids : List PNode) : Option PNode := kids.find? (·.isElem)

/-- `get_node_tree(node, fragment=…)` for `node` = the node at position `sel` of the tree `tree`
(tree_builders.py:49-61) -/
def reget (fragment : Option Bool) (tree : PNode) (sel : Nat) : Except RegetErr Reget :=
  match nodeAt tree sel with
  | none => .error .noSuchNode
  | some node =>
    if fragment == some true then
      match node with
      | .doc _ kids => match getroot kids with                          -- l. 53-55
        | some r => .ok { tree := tree, ret := r.pos }
        | none => .error .missingRoot
      | _ => .ok { tree := tree, ret := sel }
    else if fragment == some false && node.isElem then                  -- l. 56-59
      match tree with
      | .doc p _ => .ok { tree := tree, ret := p }                      -- xpath_nodes.py:1332-1333
      | r => .ok { tree := .doc (r.pos - 1) [r], ret := r.pos - 1 }     -- l. 1343-1370: dummy document, as parent
    else .ok { tree := tree, ret := sel }                               -- l. 61

/-- `node.iter()` of the node at `ret` inside `tree` (its parent link is the one it has in the tree) -/
def iterAt : Option Nat → PNode → Nat → Option (List Rec)
  | par, n, p => if n.pos == p then some (iterNode par n) else
    match n with
    | .doc q kids => iterAtKids (some q) kids p
    | .elem q _ _ _ _ kids => iterAtKids (some q) kids p
    | _ => none
where iterAtKids : Option Nat → List PNode → Nat → Option (List Rec)
  | _, [], _ => none
  | par, k :: ks, p => match iterAt par k p with
    | some r => some r
    | none => iterAtKids par ks p

/-! ### context root ≠ tree root -/

/-- `XPathContext.get_root(node)` without `documents`, for a node of the tree (after fix-c02-5): the
context root if the node is met by `context.root.iter_lazy()`; otherwise — the node lies in the
context tree outside the context root's subtree, or the context has no root (`ctxRoot = none`) —
the root of the node's own tree (`node.root_node`). -/
def ctxGetRoot (tree : PNode) (ctxRoot : Option Nat) (L : LazyState) (node : Nat) : Option Nat :=
  match ctxRoot with
  | none => some tree.pos
  | some cr => match nodeAt tree cr with
    | some sub => if ((lazyNode L none sub).map (·.pos)).contains node then some cr else some tree.pos
    | none => none

/-- `$a << $b` (`follows = true`: `>>`) for two nodes of ONE tree, whatever the context root is (after
fix-c02-5): by position.  Identities are positions. -/
def ctxPrecedes (_tree : PNode) (_ctxRoot : Option Nat) (follows : Bool) (a b : Nat) : Option Bool :=
  if a == b then some false else some (if follows then decide (b < a) else decide (a < b))

/-! ### operands of an operator expression

`self[0].select(copy(context))`, `self[1].select(copy(context))` (`|` `_xpath1_operators.py:263`,
`intersect`/`except` `_xpath2_operators.py:71`), `self[k].select(context)` with selectors that restore
the focus (`is`, `<<`, `>>`): each operand is evaluated from the operator's own focus, never from
where the other operand left the context. -/
def opAtFocus {α : Type} (op : List Nat → List Nat → α) (e1 e2 : Nat → List Nat) (focus : Nat) : α :=
  op (e1 focus) (e2 focus)

end EPV.Builder

/-
C17 phase 5: the token sequence of `serialize_to_json`'s output and whitespace padding.

`serialization.py :: serialize_to_json` = `json.dumps(..., separators=(',', ':'))`: the output is the
concatenation of JSON tokens (structural characters, string literals, number literals, `true` /
`false` / `null`) with nothing between them (`tokensG_flatten`: `(jsonTokens v).flatten = serializeJson v`).
`json.dumps(indent=…)` / any pretty printer / any hand-written JSON input differs from it by a
whitespace string before each token and at the end: `padWith ws toks` (the i-th whitespace string
before the i-th token, the remaining ones — concatenated — at the end).  Core Lean only.
-/
import EPV.Model.Json
import EPV.Spec.RFC8259Ws
namespace EPV.Json

mutual
/-- the tokens of `render`/`renderG` (string encoder `esc`, number tokens `numI` / `numD`) -/
def tokensG (esc : Nat → Str) (numI : Int → Str) (numD : Dec → Str) : JValue → List Str
  | .null => [[110, 117, 108, 108]]
  | .bool true => [[116, 114, 117, 101]]
  | .bool false => [[102, 97, 108, 115, 101]]
  | .int n => [numI n]
  | .dbl d => [numD d]
  | .str s => [34 :: (s.flatMap esc ++ [34])]
  | .arr l => [91] :: tokensGL esc numI numD l
  | .obj m => [123] :: tokensGM esc numI numD m
def tokensGL (esc : Nat → Str) (numI : Int → Str) (numD : Dec → Str) : List JValue → List Str
  | [] => [[93]]
  | v :: t => tokensG esc numI numD v ++ (match t with | [] => [[93]] | _ :: _ => [44] :: tokensGL esc numI numD t)
def tokensGM (esc : Nat → Str) (numI : Int → Str) (numD : Dec → Str) : List (Str × JValue) → List Str
  | [] => [[125]]
  | (k, v) :: t =>
    (34 :: (k.flatMap esc ++ [34])) :: [58] :: tokensG esc numI numD v ++
      (match t with | [] => [[125]] | _ :: _ => [44] :: tokensGM esc numI numD t)
end

/-- per-character reading of the string encoder of `serializeJson` (`ensure_ascii` + `/` ↦ `\/`) -/
def serCharT (c : Nat) : Str := if c = 47 then [92, 47] else pyDumpsChar c

/-- the tokens of `serialize_to_json(v)` -/
def jsonTokens (v : JValue) : List Str := tokensG serCharT renderInt reprDouble v

/-- the i-th whitespace string before the i-th token; what is left of `ws` at the end -/
def padWith : List Str → List Str → Str
  | ws, [] => ws.flatten
  | [], tok :: toks => tok ++ padWith [] toks
  | w :: ws, tok :: toks => w ++ tok ++ padWith ws toks

end EPV.Json

/-
C01 — model of the XPath axis iterators of `elementpath/xpath_context.py` (lines 384-593,
`iter_self` … `iter_followings`) over the pre-order ARRAY encoding of an XDM tree
(DESIGN.md "Shared model A").  Core Lean only.

A tree is a list of records in document order; a node is its index.
  * `parent`  : index of the parent node (`XPathNode.parent`), `none` for a root
  * `size`    : number of records in the subtree below the node (namespace and attribute
                records included), so the subtree of `n` is the index interval `[n, n + size n]`
  * namespace / attribute records follow their element directly (they are flagged by `kind`)
Document order (`XPathNode.position`) is `<` on indices.

Three root forms of `XPathContext.__init__` (xpath_context.py:123-144) are modelled:
  * `Mode.doc`   root is a document node (ElementTree / fragment=False): record 0 has kind `doc`,
                 `context.root = context.document = 0`
  * `Mode.dummy` root is an Element, `fragment=None`: `context.document` is a *dummy* document that
                 is **not** the parent of the root element (`get_document_node(as_parent=False)`).
                 Encoding: record 0 = the dummy document (kind `doc`, size 0, no parent),
                 record 1 = the root element (no parent), `context.root = 1`
  * `Mode.frag`  root is an Element, `fragment=True`: no document, `context.root = 0`

The Python iterators are generators that mutate `context.item`/`context.axis` around every
`yield` and restore them afterwards; the model gives the *sequence of yielded nodes*.  The
"axis already set => test the item itself" rule of `iter_children_or_self` /
`iter_matching_nodes` is modelled structurally in `EPV/Model/Paths.lean` (`evalStep`).

The model mirrors /repo with the `fix:` commits of branches fix-c01, fix-c01-2 and fix-c01-3 (see
docs/C01.md).  Two helpers are pinned by the repository's own tests (`iter_followings` yields nothing
for attribute / namespace context nodes, `iter_attributes` yields an attribute context node itself);
the axis methods that call them handle these context kinds themselves (`followingAxis`,
`attributeAxis`).
-/
namespace EPV.XP

inductive Kind where
  | doc | elem | attr | ns | text | comment | pi
  deriving DecidableEq, Repr, Inhabited

structure Rec where
  kind : Kind
  uri : String      -- namespace URI of an element/attribute name ("" = no namespace)
  name : String     -- local name (element, attribute), prefix (namespace), target (PI)
  parent : Option Nat
  size : Nat
  deriving DecidableEq, Repr, Inhabited

abbrev Arr := List Rec

inductive Mode where
  | doc | dummy | frag
  deriving DecidableEq, Repr, Inhabited

/-! ### accessors (total; out-of-range indices never occur under `WF`) -/
def par (a : Arr) (i : Nat) : Option Nat := match a[i]? with | some r => r.parent | none => none
def sz (a : Arr) (i : Nat) : Nat := match a[i]? with | some r => r.size | none => 0
def kd (a : Arr) (i : Nat) : Kind := match a[i]? with | some r => r.kind | none => .text
def uriOf (a : Arr) (i : Nat) : String := match a[i]? with | some r => r.uri | none => ""
def nameOf (a : Arr) (i : Nat) : String := match a[i]? with | some r => r.name | none => ""

/-- `context.root` -/
def rootIdx : Mode → Nat | .doc => 0 | .dummy => 1 | .frag => 0
/-- `context.document is not None` -/
def hasDoc : Mode → Bool | .doc => true | .dummy => true | .frag => false
/-- the dummy document: `item is self.document and self.root is not self.document` -/
def isDummyDoc (m : Mode) (n : Nat) : Bool := m == .dummy && n == 0

/-- attribute or namespace record (never in a `children` list, never yielded by
`iter_descendants`) -/
def isAN (a : Arr) (i : Nat) : Bool := kd a i == .attr || kd a i == .ns
/-- `isinstance(item, (ElementNode, DocumentNode))` -/
def isED (a : Arr) (i : Nat) : Bool := kd a i == .elem || kd a i == .doc

/-! ### well-formedness of the encoding (decidable; checked by the driver on every tree) -/

def isRoot (m : Mode) (i : Nat) : Bool := i == 0 || (m == .dummy && i == 1)

/-- per-record conditions -/
def wfRec (m : Mode) (a : Arr) (i : Nat) : Bool :=
  decide (i + sz a i < a.length) &&
  (match par a i with
   | none => isRoot m i
   | some p => !isRoot m i && decide (p < i) && decide (i ≤ p + sz a p) &&
       -- the parent is the *nearest* enclosing interval
       (List.range i).all (fun q => !(decide (p < q)) || decide (q + sz a q < i)) &&
       -- owner of an attribute / namespace record is an element, and only attribute /
       -- namespace records stand between the two
       (!(isAN a i) || kd a p == .elem) &&
       (!(isAN a i) || (List.range i).all (fun q => !(decide (p < q)) || isAN a q))) &&
  -- subtree intervals nest
  (List.range i).all (fun q => !(decide (i ≤ q + sz a q)) || decide (i + sz a i ≤ q + sz a q)) &&
  -- only documents and elements have content; a document record is record 0
  (isED a i || sz a i == 0) &&
  (!(kd a i == .doc) || i == 0)

/-- the whole array, for a root form -/
def wfArr (m : Mode) (a : Arr) : Bool :=
  decide (0 < a.length) &&
  (List.range a.length).all (wfRec m a) &&
  (match m with
   | .doc => kd a 0 == .doc && sz a 0 + 1 == a.length
   | .frag => kd a 0 == .elem && sz a 0 + 1 == a.length
   | .dummy => kd a 0 == .doc && sz a 0 == 0 && decide (2 ≤ a.length) && kd a 1 == .elem &&
       sz a 1 + 2 == a.length)

/-! ### building blocks: the stored lists of a node -/

/-- `ElementNode.iter_descendants(with_self=False)` (xpath_nodes.py:1034-1053): the subtree below
`n` in document order, attributes and namespaces excluded -/
def descRange (a : Arr) (n : Nat) : List Nat :=
  (List.range' (n + 1) (sz a n)).filter (fun i => !isAN a i)

/-- the `children` list of a document or element node -/
def childrenOf (a : Arr) (n : Nat) : List Nat :=
  (descRange a n).filter (fun i => par a i == some n)

/-- `ElementNode.attributes` -/
def attrsOf (a : Arr) (n : Nat) : List Nat :=
  (List.range' (n + 1) (sz a n)).filter (fun i => par a i == some n && kd a i == .attr)

/-- `ElementNode.namespace_nodes` -/
def nssOf (a : Arr) (n : Nat) : List Nat :=
  (List.range' (n + 1) (sz a n)).filter (fun i => par a i == some n && kd a i == .ns)

/-- `node.iter_descendants(with_self=False)` for an element, a document or the dummy document
(`DocumentNode.iter_descendants`, xpath_nodes.py:1668-1678: the dummy document's only child is the
root element) -/
def descBelow (m : Mode) (a : Arr) (n : Nat) : List Nat :=
  if isDummyDoc m n then 1 :: descRange a 1 else descRange a n

/-- the parent chain, nearest first, as collected by `iter_ancestors` / `iter_preceding`:
`while parent is not None: append(parent); if parent is self.root and self.document is None: break;
parent = parent.parent` (fuel = index, parents are smaller) -/
def ancChain (m : Mode) (a : Arr) : Nat → Nat → List Nat
  | 0, _ => []
  | fuel + 1, i =>
    match par a i with
    | none => []
    | some p => if p == rootIdx m && !hasDoc m then [p] else p :: ancChain m a fuel p

/-- topmost node reached by the parent loop starting at `n` (`n` itself when it has no parent) -/
def topOf (m : Mode) (a : Arr) (n : Nat) : Nat := (ancChain m a n n).getLast?.getD n

/-! ### the context iterators -/

/-- `iter_self` (384-390) -/
def iterSelf (n : Nat) : List Nat := [n]

/-- `iter_attributes` (392-409).  The first branch (attribute context item yields itself) is pinned by
the suite; the attribute axis does not reach it (`attributeAxis`). -/
def iterAttributes (a : Arr) (n : Nat) : List Nat :=
  if kd a n == .attr then [n]
  else if kd a n == .elem then attrsOf a n
  else []

/-- namespace axis (`_xpath1_axes.py:53-72`): `for item in elem.namespace_nodes` -/
def iterNamespaces (a : Arr) (n : Nat) : List Nat :=
  if kd a n == .elem then nssOf a n else []

/-- `iter_children_or_self` (411-427) with `context.axis is None`, and the child branch of
`iter_matching_nodes` (439-452): the dummy document yields the root element. -/
def iterChildren (m : Mode) (a : Arr) (n : Nat) : List Nat :=
  if isED a n then
    if isDummyDoc m n then [rootIdx m] else childrenOf a n
  else []

/-- `iter_parent` (454-467) -/
def iterParent (m : Mode) (a : Arr) (n : Nat) : List Nat :=
  if hasDoc m || n != rootIdx m then
    match par a n with
    | some p => [p]
    | none => []
  else []

/-- `iter_siblings(axis)` (469-498), following-sibling branch: `follows` flag over the parent's
children -/
def iterFollowingSiblings (m : Mode) (a : Arr) (n : Nat) : List Nat :=
  if hasDoc m || n != rootIdx m then
    match par a n with
    | some p => if isAN a n then [] else ((childrenOf a p).dropWhile (· != n)).drop 1
    | none => []
  else []

/-- `iter_siblings('preceding-sibling')`: children of the parent up to the item -/
def iterPrecedingSiblings (m : Mode) (a : Arr) (n : Nat) : List Nat :=
  if hasDoc m || n != rootIdx m then
    match par a n with
    | some p => if isAN a n then [] else (childrenOf a p).takeWhile (· != n)
    | none => []
  else []

/-- `iter_descendants(axis)` (500-518); `withSelf` = `axis != 'descendant'` -/
def iterDescendants (m : Mode) (a : Arr) (withSelf : Bool) (n : Nat) : List Nat :=
  if isED a n then (if withSelf then [n] else []) ++ descBelow m a n
  else if withSelf then [n] else []

/-- `iter_ancestors(axis)` (520-545): `reversed(ancestors)` -/
def iterAncestors (m : Mode) (a : Arr) (orSelf : Bool) (n : Nat) : List Nat :=
  ((if orSelf then [n] else []) ++
    (if hasDoc m || n != rootIdx m then ancChain m a n n else [])).reverse

/-- `iter_preceding` (547-573): walk the topmost ancestor's `iter_descendants()` (with self) up to
the item (for an attribute / namespace item: up to its owner element) and drop the ancestors -/
def iterPreceding (m : Mode) (a : Arr) (n : Nat) : List Nat :=
  if hasDoc m || n != rootIdx m then
    match par a n with
    | none => []
    | some r0 =>
      let chain := r0 :: ancChain m a r0 r0
      let top := chain.getLast?.getD r0
      let stop := if isAN a n then r0 else n
      ((top :: descRange a top).takeWhile (· != stop)).filter (fun i => !chain.contains i)
  else []

/-- `iter_followings` (575-593): `root.iter_descendants(with_self=False)` filtered by
`position < item.position and item not in descendants`.  Attribute / namespace (and document)
context items yield nothing (pinned; see `followingAxis`). -/
def iterFollowings (m : Mode) (a : Arr) (n : Nat) : List Nat :=
  if isAN a n || kd a n == .doc then []
  else
    let descendants := if kd a n == .elem then n :: descRange a n else []
    let top := topOf m a n
    (descRange a top).filter (fun i => decide (n < i) && !descendants.contains i)

/-- `select__following_axis` (`_xpath1_axes.py`): `iter_followings()` is pinned by the suite to yield
nothing for attribute / namespace context nodes, so the axis method itself walks the owner's
descendants and then the owner's following nodes for these two kinds (fix F01b). -/
def followingAxis (m : Mode) (a : Arr) (n : Nat) : List Nat :=
  if isAN a n then
    match par a n with
    | some p => descRange a p ++ iterFollowings m a p
    | none => []
  else iterFollowings m a n

/-- `select__attribute_reference_or_axis`: returns at once for an attribute context node (fix F01c;
`iter_attributes()` itself, pinned by the suite and used by the 2.0 `attribute()` kind test under the
self axis, still yields the attribute) -/
def attributeAxis (a : Arr) (n : Nat) : List Nat :=
  if kd a n == .attr then [] else iterAttributes a n

/-! ### the thirteen axes -/
inductive Axis where
  | self | child | descendant | descendantOrSelf | parent | ancestor | ancestorOrSelf
  | followingSibling | precedingSibling | following | preceding | attribute | namespace
  deriving DecidableEq, Repr, Inhabited

/-- `reverse_axis=True` registrations in `_xpath1_axes.py` -/
def Axis.isReverse : Axis → Bool
  | .parent | .ancestor | .ancestorOrSelf | .precedingSibling | .preceding => true
  | _ => false

/-- nodes yielded by the context iterator behind each `select__*_axis` method, in yield order
(always document order, also for the reverse axes) -/
def iterAxis (m : Mode) (a : Arr) : Axis → Nat → List Nat
  | .self, n => iterSelf n
  | .child, n => iterChildren m a n
  | .descendant, n => iterDescendants m a false n
  | .descendantOrSelf, n => iterDescendants m a true n
  | .parent, n => iterParent m a n
  | .ancestor, n => iterAncestors m a false n
  | .ancestorOrSelf, n => iterAncestors m a true n
  | .followingSibling, n => iterFollowingSiblings m a n
  | .precedingSibling, n => iterPrecedingSiblings m a n
  | .following, n => followingAxis m a n
  | .preceding, n => iterPreceding m a n
  | .attribute, n => attributeAxis a n
  | .namespace, n => iterNamespaces a n

end EPV.XP

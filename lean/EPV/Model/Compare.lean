/-
C07 — executable model of elementpath's comparisons, effective boolean value and logic.
Core Lean only.  Every definition names the Python it transcribes (pinned tree, /repo/elementpath).

Layers
  1. numeric substrate: exact IEEE-754 doubles as rationals (`D`), round-to-nearest-even (`toD64`,
     `toD32`), CPython `math.isclose`                                        (Python floats are *modelled*)
  2. lexical helpers for `xs:untypedAtomic` payloads (a declared fragment, `LexNum`)
  3. the Python rich-comparison protocol (`dunder`, `pyBinop`) for the atomic classes of
     `elementpath/datatypes/*.py`
  4. the XPath layer: `iterCheck` (iter_comparison_data), `generalCmp`, `valueCmp`, `ebvList`,
     `ebvIter`, `andE/orE/notE/ifE`
-/
import EPV.Spec.Timeline
import EPV.Model.SeqFunsNum
namespace EPV.Cmp

/-! ## 1. numbers -/

/-- IEEE-754 binary64 value (also used for xs:float payloads, as the implementation does):
`fin q` is the exact rational value of a finite double (`fin 0` = +0). -/
inductive D where
  | nan | pinf | ninf | negZero
  | fin (q : Rat)
  deriving DecidableEq, Repr, Inhabited

def rabs (q : Rat) : Rat := if q < 0 then -q else q

namespace D
def isNaN : D → Bool | nan => true | _ => false
def isInf : D → Bool | pinf => true | ninf => true | _ => false
/-- -1 / 0 / 1 : position of the value on the extended line (NaN: 0, never used) -/
def rank : D → Int | pinf => 1 | ninf => -1 | _ => 0
/-- finite value (0 for the specials) -/
def val : D → Rat | fin q => q | _ => 0
/-- IEEE `<` (Python `float.__lt__`): false when a NaN is involved, -0 = +0 -/
def lt (a b : D) : Bool :=
  !a.isNaN && !b.isNaN && (decide (a.rank < b.rank) || (decide (a.rank = b.rank) && decide (a.val < b.val)))
/-- IEEE `==` -/
def eq (a b : D) : Bool :=
  !a.isNaN && !b.isNaN && decide (a.rank = b.rank) && decide (a.val = b.val)
def le (a b : D) : Bool := lt a b || eq a b
def isZero (a : D) : Bool := !a.isNaN && decide (a.rank = 0) && decide (a.val = 0)
end D

/-- floor(log2 q) for q > 0 -/
def ilog2 (q : Rat) : Int :=
  let e0 : Int := (Nat.log2 q.num.natAbs : Int) - (Nat.log2 q.den : Int)
  if (2 : Rat) ^ e0 ≤ q then e0 else e0 - 1

/-- round a rational to the nearest integer, ties to even -/
def roundHalfEven (q : Rat) : Int :=
  let f := q.floor
  let r := q - (f : Rat)
  if r < 1 / 2 then f else if 1 / 2 < r then f + 1 else if f % 2 = 0 then f else f + 1

/-- nearest (ties-to-even) value with `prec` significant bits and least exponent `eminUlp`
(unbounded above).  IEEE-754 §4.3.1 roundTiesToEven. -/
def rndRat (prec : Nat) (eminUlp : Int) (q : Rat) : Rat :=
  if q = 0 then 0 else
  let a := rabs q
  let e := ilog2 a
  let u : Int := if e - ((prec : Int) - 1) < eminUlp then eminUlp else e - ((prec : Int) - 1)
  let m := roundHalfEven (a / (2 : Rat) ^ u)
  let r := (m : Rat) * (2 : Rat) ^ u
  if q < 0 then -r else r

/-- rational → binary64 (what CPython's `float(int)`, `float(Decimal)`, `float(str)` and the float
arithmetic inside `math.isclose` do); `neg0` selects the sign of an exact zero -/
def toD64 (q : Rat) (neg0 : Bool := false) : D :=
  if q = 0 then (if neg0 then .negZero else .fin 0) else
  let r := rndRat 53 (-1074) q
  if (2 : Rat) ^ (1024 : Int) ≤ rabs r then (if q < 0 then .ninf else .pinf)
  else if r = 0 then (if q < 0 then .negZero else .fin 0)
  else .fin r

/-- rational → binary32 value (used by the *specification* only: promotion to xs:float) -/
def toD32 (q : Rat) (neg0 : Bool := false) : D :=
  if q = 0 then (if neg0 then .negZero else .fin 0) else
  let r := rndRat 24 (-149) q
  if (2 : Rat) ^ (128 : Int) ≤ rabs r then (if q < 0 then .ninf else .pinf)
  else if r = 0 then (if q < 0 then .negZero else .fin 0)
  else .fin r

/-- the double nearest to 1e-7 (`rel_tol` of helpers.py:300,306): 0x1.ad7f29abcaf48p-24 -/
def relTol : Rat := (944473296573929 : Rat) / 9444732965739290427392

/-- float multiplication / subtraction of CPython (IEEE, finite operands only are needed) -/
def D.mulFin (a b : Rat) : D := toD64 (a * b)
def D.subFin (a b : Rat) : D := toD64 (a - b)

def D.abs : D → D
  | .ninf => .pinf | .negZero => .fin 0 | .fin q => .fin (rabs q) | d => d

/-- CPython `math.isclose(a, b, rel_tol=1e-7, abs_tol=0.0)` (Modules/mathmodule.c math_isclose_impl):
`a == b` → true; an infinity → false; `diff = fabs(b - a)`;
`diff <= fabs(rel_tol*b) || diff <= fabs(rel_tol*a) || diff <= abs_tol`. -/
def isclose (a b : D) : Bool :=
  if D.eq a b then true
  else if a.isInf || b.isInf then false
  else if a.isNaN || b.isNaN then false
  else
    let diff := (D.subFin b.val a.val).abs
    D.le diff (D.mulFin relTol b.val).abs || D.le diff (D.mulFin relTol a.val).abs
    || D.le diff (.fin 0)

/-- `Float.__eq__` (datatypes/numeric.py): equal, or `math.isclose(rel_tol=1e-7)` -/
def numericEqual (a b : D) : Bool := D.eq a b || isclose a b
/-- `Float.__ne__` -/
def numericNotEqual (a b : D) : Bool := if D.eq a b then false else !isclose a b

/-! ## 2. atoms, items, modes -/

abbrev Str := List Nat   -- code points

/-- payload of a Date10 / DateTime10 / Time object (years 1..9999): `t` = the local wall-clock
reading of `_dt` in seconds since 0001-01-01T00:00:00, `tz` = the explicit timezone offset in minutes
(none = no timezone); `t` is negative before the common era.  xs:time values sit on 2000-01-01. -/
structure DT where
  t : Int
  tz : Option Int
  deriving DecidableEq, Repr, Inhabited

/-- `_year`: the library's internal year number of the local date — the proleptic-Gregorian
(astronomical) year of C11's calendar (EPV/Spec/Timeline.lean `yearOfDay`, day 0 = 0001-01-01, imported
read-only) for 1 CE and later, and one less for 1 BCE and earlier: the internal numbering has no year 0
(xs:dateTime('-0001-…') of XSD 1.0 and xs:dateTime('0000-…') of XSD 1.1 both have `_year = -1`) -/
def DT.year (d : DT) : Int :=
  let a := EPV.Timeline.yearOfDay (d.t / 86400)
  if a ≤ 0 then a - 1 else a

/-- `Timezone.__init__` (datetime.py:49-55) accepts offsets between -14:00 and +14:00 only -/
def DT.tzOK (d : DT) : Bool :=
  match d.tz with
  | none => true
  | some z => decide (-840 ≤ z) && decide (z ≤ 840)

/-- the instant on the UTC timeline; a missing timezone is read as UTC
(datetime.py:284-291 `replace(tzinfo=_UTC_TIMEZONE)`, `todelta`) -/
def DT.inst (d : DT) : Int := d.t - 60 * d.tz.getD 0

inductive Atom where
  | int (v : Int)                    -- Python int (xs:integer)
  | dec (q : Rat)                    -- decimal.Decimal (finite)
  | dbl (d : D)                      -- Python float (xs:double)
  | flt (d : D)                      -- datatypes.Float (xs:float), a float subclass
  | str (s : Str)
  | ua (s : Str)                     -- UntypedAtomic
  | bool (b : Bool)
  | uri (s : Str)                    -- AnyURI (value already whitespace-collapsed)
  | qn (ns pre loc : Str)            -- QName(uri, 'pre:loc' or 'loc')
  | date (v : DT) | dtm (v : DT) | time (v : DT)   -- Date10 / DateTime10 / Time, year 1..9999
  | dur (m s : Int) | ymd (m : Int) | dtd (s : Int)   -- Duration(months, seconds) and its two subclasses
  | hex (b : List Nat) | b64 (b : List Nat)           -- decoded octets
  deriving DecidableEq, Repr, Inhabited

inductive Item where
  | node (sv : Str)                  -- an element node of an untyped document with string value `sv`
  | atom (a : Atom)
  deriving DecidableEq, Repr, Inhabited

inductive Mode where
  | v1      -- XPath1Parser              (compatibility_mode = True, version '1.0')
  | v2c     -- XPath2Parser(compatibility_mode=True)
  | v2      -- XPath2Parser
  | v31     -- XPath31Parser
  deriving DecidableEq, Repr, Inhabited

def Mode.compat : Mode → Bool | .v1 => true | .v2c => true | _ => false

inductive Op where | eq | ne | lt | le | gt | ge
  deriving DecidableEq, Repr, Inhabited

def Op.swap : Op → Op
  | .eq => .eq | .ne => .ne | .lt => .gt | .le => .ge | .gt => .lt | .ge => .le
def Op.isOrd : Op → Bool | .eq => false | .ne => false | _ => true
def Op.isEqNe : Op → Bool | .eq => true | .ne => true | _ => false

/-- Python exceptions that are *not* TypeError/ValueError (they escape `select` un-wrapped) -/
inductive Exc where | invalidOperation | keyError | overflowError
  deriving DecidableEq, Repr, Inhabited

/-- canonical outcome kinds of the XPath layer -/
inductive Err where
  | XPTY0004 | FORG0001 | FORG0006
  | other (e : Exc)
  | unsupported          -- the input lies outside the declared lexical fragment of the model
  deriving DecidableEq, Repr, Inhabited

/-- result of one Python-level special method / operator call -/
inductive PyR where
  | ok (b : Bool) | notImpl | typeErr | valueErr | exc (e : Exc) | unsupported
  deriving DecidableEq, Repr, Inhabited

def PyR.map (f : Bool → Bool) : PyR → PyR | .ok b => .ok (f b) | r => r

/-! ## 3. lexical fragment for untypedAtomic payloads -/

def isWs (c : Nat) : Bool := c = 32 || c = 9 || c = 10 || c = 13
def stripL : Str → Str | [] => [] | c :: cs => if isWs c then stripL cs else c :: cs
def strip (s : Str) : Str := (stripL (stripL s).reverse).reverse
def isDigit (c : Nat) : Bool := 48 ≤ c && c ≤ 57
def isAsciiLetter (c : Nat) : Bool := (65 ≤ c && c ≤ 90) || (97 ≤ c && c ≤ 122)
def hasInnerWs (s : Str) : Bool := (strip s).any isWs

def digitsVal (ds : Str) : Nat := ds.foldl (fun acc c => acc * 10 + (c - 48)) 0

/-- unsigned `digits` or `digits.digits` -/
def parseUnsigned (s : Str) : Option Rat :=
  let ip := s.takeWhile isDigit
  let rest := s.dropWhile isDigit
  if ip.isEmpty then none else
  match rest with
  | [] => some (digitsVal ip : Nat)
  | 46 :: fp =>
    if fp.isEmpty || !fp.all isDigit then none
    else some ((digitsVal ip : Nat) + (digitsVal fp : Nat) / ((10 : Rat) ^ fp.length))
  | _ => none

inductive LexNum where
  | lit (q : Rat) (neg : Bool)    -- [+-]?digits(.digits)?  (neg: a leading '-')
  | nan | pinf | ninf             -- exactly "NaN", "INF", "-INF"
  | invalid                       -- certainly rejected by float(), Decimal() and get_double()
  | unsupported                   -- anything else (exponents, 'inf', '1_0', '.5', …): not modelled
  deriving DecidableEq, Repr

def sNaN : Str := [78, 97, 78]
def sINF : Str := [73, 78, 70]
def sMINF : Str := [45, 73, 78, 70]

def lower (c : Nat) : Nat := if 65 ≤ c && c ≤ 90 then c + 32 else c

/-- words (after removing a sign) that Python's float()/Decimal() accept without digits -/
def specialWords : List Str :=
  [[105,110,102], [110,97,110], [105,110,102,105,110,105,116,121], [115,110,97,110]]

/-- non-ASCII characters the generators use that are neither digits nor white space for Python's
float()/Decimal() (é, U+10000, U+FFFF); other non-ASCII characters stay outside the fragment -/
def inertChar (c : Nat) : Bool := c = 233 || c = 65536 || c = 65535

def lexNum (s0 : Str) : LexNum :=
  let s := strip s0
  if s = sNaN then .nan else if s = sINF then .pinf else if s = sMINF then .ninf else
  let (neg, body) := match s with
    | 45 :: r => (true, r)
    | 43 :: r => (false, r)
    | r => (false, r)
  match parseUnsigned body with
  | some q => .lit (if neg then -q else q) neg
  | none =>
    if !(s.any isDigit) && !(specialWords.contains (body.map lower)) && !(s.any (fun c => c > 127 && !inertChar c))
    then .invalid else .unsupported

/-- `get_double(str)` (helpers.py:283-295) and `float(str)` on the fragment -/
def strToDouble (s : Str) : Except PyR D :=
  match lexNum s with
  | .lit q neg => .ok (toD64 q neg)
  | .nan => .ok .nan | .pinf => .ok .pinf | .ninf => .ok .ninf
  | .invalid => .error .valueErr
  | .unsupported => .error .unsupported

/-- `Float.__new__(str)` (numeric.py:41-66): float(), then clamping to the single range -/
def clampFloat (d : D) : D :=
  match d with
  | .fin q =>
    if (340282349999999991754788743781432688640 : Rat) < q then .pinf
    else if q < -(340282349999999991754788743781432688640 : Rat) then .ninf
    else if -((4789048565205903 : Rat) / 47890485652059026823698344598447161988085597568237568) < q
         && q < (4789048565205903 : Rat) / 47890485652059026823698344598447161988085597568237568
    then (if q < 0 then .negZero else .fin 0)
    else d
  | d => d

def strToFloat (s : Str) : Except PyR D := (strToDouble s).map clampFloat

/-- `decimal.Decimal(str)`: finite value, NaN or ±Infinity; junk → decimal.InvalidOperation -/
def strToDecimal (s : Str) : Except PyR D :=
  match lexNum s with
  | .lit q _ => .ok (.fin q)
  | .nan => .ok .nan | .pinf => .ok .pinf | .ninf => .ok .ninf
  | .invalid => .error (.exc .invalidOperation)
  | .unsupported => .error .unsupported

def sTrue : Str := [116, 114, 117, 101]
def sFalse : Str := [102, 97, 108, 115, 101]

/-- untyped.py:89-94 cast of the lexical value to xs:boolean -/
def strToBool (s : Str) : Except PyR Bool :=
  let v := strip s
  if v = sTrue || v = [49] then .ok true
  else if v = sFalse || v = [48] then .ok false
  else .error .valueErr

def hexDigit? (c : Nat) : Option Nat :=
  if isDigit c then some (c - 48)
  else if 65 ≤ c && c ≤ 70 then some (c - 55)
  else if 97 ≤ c && c ≤ 102 then some (c - 87) else none

def hexDecode : Str → Option (List Nat)
  | [] => some []
  | [_] => none
  | a :: b :: rest => do
    let x ← hexDigit? a; let y ← hexDigit? b; let r ← hexDecode rest; pure ((16 * x + y) :: r)

def isB64Char (c : Nat) : Bool := isDigit c || isAsciiLetter c || c = 43 || c = 47 || c = 61

/-- `HexBinary(str)` (binary.py:42-66, 184-196) -/
def strToHex (s : Str) : Except PyR (List Nat) :=
  if hasInnerWs s then .error .unsupported else
  match hexDecode (strip s) with
  | some b => .ok b
  | none => .error .valueErr

def b64Val (c : Nat) : Option Nat :=
  if 65 ≤ c && c ≤ 90 then some (c - 65) else if 97 ≤ c && c ≤ 122 then some (c - 71)
  else if isDigit c then some (c + 4) else if c = 43 then some 62 else if c = 47 then some 63 else none

/-- canonical base64 (the pattern of binary.py:135-139): quanta of four characters, `=` padding only in
the last quantum and only after a character whose unused low bits are zero -/
def b64Decode : Str → Option (List Nat)
  | [] => some []
  | [a, b, 61, 61] => do
    let x ← b64Val a; let y ← b64Val b
    if y % 16 = 0 then some [x * 4 + y / 16] else none
  | [a, b, c, 61] => do
    let x ← b64Val a; let y ← b64Val b; let z ← b64Val c
    if z % 4 = 0 then some [x * 4 + y / 16, (y % 16) * 16 + z / 4] else none
  | a :: b :: c :: d :: rest => do
    let x ← b64Val a; let y ← b64Val b; let z ← b64Val c; let w ← b64Val d
    let r ← b64Decode rest
    some ((x * 4 + y / 16) :: ((y % 16) * 16 + z / 4) :: ((z % 4) * 64 + w) :: r)
  | _ => none

/-- `Base64Binary(str)` (binary.py:42-66, 141-152): white space removed, then the canonical pattern -/
def strToB64 (s : Str) : Except PyR (List Nat) :=
  match b64Decode (s.filter fun c => !isWs c) with
  | some b => .ok b
  | none => .error .valueErr

/-- NCName start / continuation characters among the characters of the fragment (ASCII, é, U+10000,
U+FFFF): the `[^\d\W][\w\-.…]*` pattern of qname.py:26-29 and the XML NameStartChar / NameChar classes
agree on them -/
def ncStart (c : Nat) : Bool := isAsciiLetter c || c = 95 || c = 233 || c = 65536
def ncChar (c : Nat) : Bool := ncStart c || isDigit c || c = 45 || c = 46

inductive NcName where
  | valid (v : Str) | invalid | prefixed | unsupported
  deriving DecidableEq, Repr

/-- classification of a lexical QName (after `strip`) on the fragment -/
def ncName (s : Str) : NcName :=
  let v := strip s
  if s.contains 58 then .prefixed
  else if !(v.all fun c => c < 128 || inertChar c) then .unsupported
  else match v with
  | [] => .invalid
  | c :: rest => if ncStart c && rest.all ncChar then .valid v else .invalid

/-- `QName.make(str)` (qname.py `make`, `__init__`): a valid NCName → QName(None, name) (no default
namespace in the harness' parsers); a prefixed name depends on the namespaces at hand (`namespaces[prefix]`:
the parser's, or none for an UntypedAtomic built without parser → KeyError): not modelled; anything
else → ValueError -/
def strToQName (s : Str) : Except PyR (Str × Str × Str) :=
  match ncName s with
  | .valid v => .ok ([], [], v)
  | .invalid => .error .valueErr
  | .prefixed => .error .unsupported
  | .unsupported => .error .unsupported

/-- strings of the fragment that are certainly not date/time/duration lexicals (no 'P', ':', 'T',
fewer than two '-'): `fromstring` raises ValueError on them; other strings are not modelled -/
def notTemporalLexical (s : Str) : Bool :=
  !((strip s).any (fun c => c = 80 || c = 58 || c = 84)) && ((strip s).filter (· = 45)).length < 2

/-- `AnyURI(str)` (uri.py:26-43): collapse white space; every string of the fragment without
'%', ':', '#', '[' , ']' is a valid URI reference -/
def strToUri (s : Str) : Except PyR Str :=
  if hasInnerWs s || s.any (fun c => c = 37 || c = 58 || c = 35 || c = 91 || c = 93 || c = 92) then .error .unsupported
  else .ok (strip s)

/-! ## 4. the Python rich-comparison protocol -/

def cmpBy {α} (lt : α → α → Bool) (eq : α → α → Bool) (op : Op) (a b : α) : Bool :=
  match op with
  | .eq => eq a b | .ne => !eq a b
  | .lt => lt a b | .gt => lt b a
  | .le => lt a b || eq a b | .ge => lt b a || eq a b

/-- IEEE / Python float comparisons (`!=` is the negation of `==`, the others are false on NaN) -/
def dCmp (op : Op) (a b : D) : Bool := cmpBy D.lt D.eq op a b

/-- code-point order of Python `str` -/
def strLt (a b : Str) : Bool := decide (a < b)
def sCmp (op : Op) (a b : Str) : Bool := cmpBy strLt (fun x y => decide (x = y)) op a b
def iCmp (op : Op) (a b : Int) : Bool := cmpBy (fun x y => decide (x < y)) (fun x y => decide (x = y)) op a b

/-- binary.py:92-130: first differing octet, else the lengths -/
def bytesLt : List Nat → List Nat → Bool
  | [], [] => false
  | [], _ :: _ => true
  | _ :: _, [] => false
  | x :: xs, y :: ys => if x ≠ y then decide (x < y) else bytesLt xs ys
def bCmp (op : Op) (a b : List Nat) : Bool := cmpBy bytesLt (fun x y => decide (x = y)) op a b

/-- numeric Python classes: int, bool, Decimal, float, Float — exact value on the extended line -/
def Atom.pyNum : Atom → Option D
  | .int v => some (.fin v) | .bool b => some (.fin (if b then 1 else 0))
  | .dec q => some (.fin q) | .dbl d => some d | .flt d => some d
  | _ => none

def Atom.isFloatCls : Atom → Bool | .dbl _ => true | .flt _ => true | _ => false
def Atom.isDur : Atom → Bool | .dur .. => true | .ymd _ => true | .dtd _ => true | _ => false
def Atom.isDT : Atom → Bool | .date _ => true | .dtm _ => true | .time _ => true | _ => false
def Atom.isBin : Atom → Bool | .hex _ => true | .b64 _ => true | _ => false
def Atom.durVal : Atom → Int × Int
  | .dur m s => (m, s) | .ymd m => (m, 0) | .dtd s => (0, s) | _ => (0, 0)
/-- `op.tzinfo = context.timezone` on a copy (base.py:602-615): a value without timezone takes the
implicit timezone of the dynamic context, the local clock reading is unchanged -/
def DT.fill (itz : Option Int) (d : DT) : DT :=
  match d.tz, itz with
  | none, some z => { d with tz := some z }
  | _, _ => d

def Atom.dt : Atom → DT | .date v => v | .dtm v => v | .time v => v | _ => ⟨0, none⟩
def Atom.binVal : Atom → List Nat | .hex b => b | .b64 b => b | _ => []
/-- `QName.qname` -/
def qnameStr (pre loc : Str) : Str := if pre.isEmpty then loc else pre ++ [58] ++ loc

/-- Python numeric comparison between int/bool/Decimal/float/Float objects.
`Float.__eq__/__ne__` (numeric.py:76-88) use `math.isclose` when both are `Float`;
an ordering between a `Decimal` and a NaN float signals decimal.InvalidOperation. -/
def numCmp (op : Op) (a b : Atom) (x y : D) : PyR :=
  match a, b, op with
  | .flt _, .flt _, .eq => .ok (numericEqual x y)
  | .flt _, .flt _, .ne => .ok (numericNotEqual x y)
  | _, _, _ =>
    let decNaN := match a, b with
      | .dec _, _ => y.isNaN | _, .dec _ => x.isNaN | _, _ => false
    if decNaN && op.isOrd then .exc .invalidOperation else .ok (dCmp op x y)

/-- calendar.leapdays / calendar.isleap -/
def leapdays (y1 y2 : Int) : Int :=
  let a := y1 - 1; let b := y2 - 1
  (b / 4 - a / 4) - (b / 100 - a / 100) + (b / 400 - a / 400)
def isleap (y : Int) : Bool := y % 4 = 0 && (y % 100 ≠ 0 || y % 400 = 0)
def monthDays (leap : Bool) (m : Int) : Int :=
  if m = 2 then (if leap then 29 else 28)
  else if m = 4 || m = 6 || m = 9 || m = 11 then 30 else if 1 ≤ m && m ≤ 12 then 31 else 0
def sumMonths (leap : Bool) (lo hi : Int) : Int :=
  (([1,2,3,4,5,6,7,8,9,10,11,12] : List Int).filter (fun k => lo ≤ k && k < hi)).foldl (fun acc k => acc + monthDays leap k) 0

/-- helpers.py:216-244 `months2days` -/
def months2days (year month delta : Int) : Int :=
  if delta = 0 then 0 else
  let total := month - 1 + delta
  let ty := year + total / 12
  let tm := total % 12 + 1
  let ydays := if month ≤ 2 then 365 * (ty - year) + leapdays year ty
               else 365 * (ty - year) + leapdays (year + 1) (ty + 1)
  if tm ≥ month then ydays + sumMonths (isleap ty) month tm
  else ydays - sumMonths (isleap ty) tm month

/-- datetime.py:1120-1144 `_compare_durations` on (months, whole seconds): four reference dates -/
def durCmp4 (op : Op) (a b : Int × Int) : Bool :=
  [(1696, 9), (1697, 2), (1903, 3), (1903, 7)].all fun ((y, m) : Int × Int) =>
    iCmp op (months2days y m a.1 * 86400 + a.2) (months2days y m b.1 * 86400 + b.2)

/-- same Python class for the `isinstance(other, self.__class__)` tests of Duration -/
def durInstanceOf (other self : Atom) : Bool :=
  match self, other with
  | .dur .., o => o.isDur
  | .ymd _, .ymd _ => true
  | .dtd _, .dtd _ => true
  | _, _ => false

/-- `type(b)` is a proper subclass of `type(a)`: Float < float, YearMonthDuration/DayTimeDuration < Duration
(bool < int shares int's slot, so the order of the calls does not matter there) -/
def subclassFirst : Atom → Atom → Bool
  | .dbl _, .flt _ => true
  | .dur .., .ymd _ => true
  | .dur .., .dtd _ => true
  | _, _ => false

/-- datetime.py:277-291, the tail of `_compare` for years 1..9999: different `_year` — within two
years the instants (`todelta()`), otherwise the year numbers; same `_year` — the `_dt` values, a naive
one read as UTC when the other has a timezone (for two naive or two aware values that is the order of
the instants as well) -/
def dtCompare (op : Op) (x y : DT) : Bool :=
  if x.year ≠ y.year then
    if x.year - y.year ≤ 2 ∧ y.year - x.year ≤ 2 then iCmp op x.inst y.inst else iCmp op x.year y.year
  else iCmp op x.inst y.inst

mutual
/-- `type(a).__op__(a, b)`: the special method of the class of `a`. -/
def dunder (m : Mode) (op : Op) (a b : Atom) (fuel : Nat) : PyR :=
  match fuel with
  | 0 => .unsupported
  | fuel + 1 =>
  match a with
  | .int _ | .bool _ | .dec _ | .dbl _ | .flt _ =>
    match a.pyNum, b.pyNum with
    | some x, some y => numCmp op a b x y
    | _, _ => .notImpl
  | .str s =>
    match b with
    | .str t => .ok (sCmp op s t)
    | _ => .notImpl
  | .ua s =>
    -- untyped.py:74-106 `_operator`; force_float is False for == and != only
    match b with
    | .ua t =>
      if op.isOrd then
        match strToDouble s, strToDouble t with
        | .ok x, .ok y => .ok (dCmp op x y)
        | .error e, _ => e
        | _, .error e => e
      else .ok (sCmp op s t)
    | .bool y =>
      match strToBool s with
      | .ok x => numCmp op (.bool x) b (.fin (if x then 1 else 0)) (.fin (if y then 1 else 0))
      | .error e => e
    | .int v =>
      match strToDouble s with
      | .ok x => .ok (dCmp op x (.fin v))
      | .error e => e
    | .str t => .ok (sCmp op s t)
    | .dbl y =>
      match strToDouble s with         -- op(get_double(self.value), other)
      | .ok x => .ok (dCmp op x y)
      | .error e => e
    | .flt y =>
      match strToDouble s with         -- op(get_double(self.value), other): a float against a Float
      | .ok x => .ok (dCmp op x y)
      | .error e => e
    | .dec q =>
      match strToDouble s with         -- op(get_double(self.value), float(other))
      | .ok x => .ok (dCmp op x (toD64 q))
      | .error e => e
    | .uri t =>
      match strToUri s with
      | .ok x => .ok (sCmp op x t)
      | .error e => e
    | .qn ns _ loc =>
      match strToQName s with
      | .ok (ns', _, loc') => pyBinop m op (.qn ns' [] loc') (.qn ns [] loc) fuel
      | .error e => e
    | .date _ | .dtm _ | .time _ | .dur .. | .ymd _ | .dtd _ =>
      -- fromstring() of a string of the fragment: never a valid date/time/duration lexical
      if notTemporalLexical s then .valueErr else .unsupported
    | .hex y =>
      match strToHex s with
      | .ok x => pyBinop m op (.hex x) (.hex y) fuel
      | .error e => e
    | .b64 y =>
      match strToB64 s with
      | .ok x => pyBinop m op (.b64 x) (.b64 y) fuel
      | .error e => e
  | .uri s =>
    -- uri.py:59-91
    match op, b with
    | _, .uri t => .ok (sCmp op s t)
    | _, .ua t => .ok (sCmp op s t)
    | _, .str t => .ok (sCmp op s t)
    | .eq, _ => .notImpl
    | .ne, _ => .notImpl
    | _, _ => pyBinop m op (.str s) b fuel       -- `self.value < other`
  | .qn ns pre loc =>
    -- qname.py:111-116 (no __ne__, no ordering)
    match op with
    | .eq | .ne =>
      let r : PyR := match b with
        | .qn ns' _ loc' => .ok (decide (ns = ns') && decide (loc = loc'))
        | .str _ | .ua _ => pyBinop m .eq b (.str (qnameStr pre loc)) fuel
        | _ => .notImpl
      if op = .ne then r.map (!·) else r
    | _ => .notImpl
  | .date _ | .dtm _ | .time _ =>
    -- datetime.py:231-283 `_compare`; an UntypedAtomic operand goes through `fromstring`
    if let .ua s := b then (if notTemporalLexical s then .valueErr else .unsupported)
    else if b.isDT then
      let clash : Bool := match a, b with
        | .time _, .date _ | .date _, .time _ => op.isEqNe
        | .dtm _, .date _ | .date _, .dtm _ => op.isOrd
        | _, _ => false
      if clash then .typeErr else .ok (dtCompare op a.dt b.dt)
    else if op = .eq then .ok false
    else if op = .ne then .ok true
    else .typeErr
  | .dur .. | .ymd _ | .dtd _ =>
    -- datetime.py:1146-1172
    match op with
    | .eq | .ne =>
      let r : PyR :=
        if durInstanceOf b a then .ok (decide (a.durVal = b.durVal))
        else match b with
          | .ua s =>
            if notTemporalLexical s then .valueErr else .unsupported   -- self.fromstring(other.value)
          | _ => if b.isDur then .ok (decide (a.durVal = b.durVal)) else .ok false  -- other == (months, seconds)
      if op = .ne then r.map (!·) else r
    | .lt | .gt =>
      if let .ua s := b then (if notTemporalLexical s then .valueErr else .unsupported)   -- self.fromstring(other.value)
      else if durInstanceOf b a then .ok (durCmp4 op a.durVal b.durVal) else .typeErr
    | .le | .ge =>
      match dunder m .eq a b fuel with
      | .ok true => .ok true
      | .ok false => if durInstanceOf b a then .ok (durCmp4 op a.durVal b.durVal) else .typeErr
      | r => r
  | .hex x | .b64 x =>
    -- binary.py:86-130 (`ordered` is set for values made by a 3.1 parser)
    match op with
    | .eq | .ne =>
      let r : PyR := if b.isBin then .ok (decide (x = b.binVal)) else .notImpl
      if op = .ne then r.map (!·) else r
    | _ => if m = .v31 && b.isBin then .ok (bCmp op x b.binVal) else .notImpl

/-- `operator.<op>(a, b)`: CPython `do_richcompare` — reflected method of a proper subclass first,
then `a.__op__(b)`, then `b.__swapped__(a)`, then identity for ==/!=, else TypeError. -/
def pyBinop (m : Mode) (op : Op) (a b : Atom) (fuel : Nat) : PyR :=
  match fuel with
  | 0 => .unsupported
  | fuel + 1 =>
  let fallback : PyR := match op with
    | .eq => .ok false | .ne => .ok true | _ => .typeErr
  if subclassFirst a b then
    match dunder m op.swap b a fuel with
    | .notImpl =>
      match dunder m op a b fuel with
      | .notImpl => fallback
      | r => r
    | r => r
  else
    match dunder m op a b fuel with
    | .notImpl =>
      match dunder m op.swap b a fuel with
      | .notImpl => fallback
      | r => r
    | r => r
end

/-- fuel bound: the protocol recurses at most through ua → typed → str chains -/
def pyOp (m : Mode) (op : Op) (a b : Atom) : PyR := pyBinop m op a b 8

/-! ## 5. XPath layer -/

abbrev R := Except Err Bool

instance instDecEqExcept {ε α} [DecidableEq ε] [DecidableEq α] : DecidableEq (Except ε α)
  | .ok a, .ok b => if h : a = b then isTrue (by rw [h]) else isFalse (by intro h'; cases h'; exact h rfl)
  | .error a, .error b => if h : a = b then isTrue (by rw [h]) else isFalse (by intro h'; cases h'; exact h rfl)
  | .ok _, .error _ => isFalse (by intro h; cases h)
  | .error _, .ok _ => isFalse (by intro h; cases h)

/-- how evaluate__comparison_operators (_xpath1_operators.py:84-102) and
evaluate__value_comparison_operators map Python exceptions to error codes -/
def liftPy : PyR → R
  | .ok b => .ok b
  | .typeErr => .error .XPTY0004
  | .valueErr => .error .FORG0001
  | .exc e => .error (.other e)
  | .notImpl => .error .unsupported
  | .unsupported => .error .unsupported

/-- atomization of one item (base.py:445-467): an untyped element node gives an UntypedAtomic in
2.0+, its string value (a `str`) in 1.0 -/
def atomize (m : Mode) : Item → Atom
  | .atom a => a
  | .node sv => if m = .v1 then .str sv else .ua sv

def isStrLike3 : Atom → Bool | .str _ => true | .ua _ => true | .uri _ => true | _ => false
def isQN : Atom → Bool | .qn .. => true | _ => false
def isStr : Atom → Bool | .str _ => true | _ => false
def isUri : Atom → Bool | .uri _ => true | _ => false
def isBoolA : Atom → Bool | .bool _ => true | _ => false
/-- `isinstance(x, Integer)`: Python ints that are not bools -/
def isInteger : Atom → Bool | .int _ => true | _ => false

/-- `float(x)` for the conversion of base.py:549 (compatibility mode, ordering operators) -/
def pyFloat : Atom → Except PyR D
  | .int v => if (2 : Rat) ^ (1024 : Int) ≤ rabs (v : Rat) then .error (.exc .overflowError) else
      (match toD64 v with
       | .pinf | .ninf => .error (.exc .overflowError)
       | d => .ok d)
  | .bool b => .ok (.fin (if b then 1 else 0))
  | .dec q => .ok (toD64 q)
  | .dbl d => .ok d
  | .flt d => .ok d
  | .str s => strToDouble s          -- float(str)
  | .ua s => strToDouble s           -- UntypedAtomic.__float__ → get_double
  | _ => .error .typeErr             -- no __float__

/-- the comparability classes of the final check of iter_comparison_data: bool, numeric
(int/float/Decimal), string-like (str/AnyURI), QName, Duration, AbstractBinary, AbstractDateTime -/
def cmpCategory : Atom → Nat
  | .bool _ => 0
  | .int _ | .dec _ | .dbl _ | .flt _ => 1
  | .str _ | .uri _ => 2
  | .qn .. => 3
  | .dur .. | .ymd _ | .dtd _ => 4
  | .hex _ | .b64 _ => 5
  | .date _ | .dtm _ | .time _ => 6
  | .ua _ => 7

/-- `.name` of a binary / date-time class -/
def kindName : Atom → Nat
  | .hex _ => 1 | .b64 _ => 2 | .date _ => 3 | .dtm _ => 4 | .time _ => 5 | _ => 0

/-- the check added after the `match` (both operands typed): same class; for binaries and dates/times
the same type name; for durations under an ordering operator the same subclass, and not xs:duration -/
def categoryOK (op : Op) (a b : Atom) : Bool :=
  match a, b with
  | .ua _, _ => true
  | _, .ua _ => true
  | _, _ =>
    decide (cmpCategory a = cmpCategory b) && decide (kindName a = kindName b) &&
    !(a.isDur && op.isOrd && !(match a, b with | .ymd _, .ymd _ => true | .dtd _, .dtd _ => true | _, _ => false))

/-- `QName.make(untyped, parser=self.parser)` of a general comparison (qname.py `make`): the 2.0
parsers refuse an UntypedAtomic argument (TypeError); a 3.x parser casts its string -/
def qnMake (m : Mode) (s : Str) : Except PyR Atom :=
  if m = .v31 then
    match strToQName s with
    | .ok (ns, pre, loc) => .ok (.qn ns pre loc)
    | .error e => .error e
  else .error .typeErr

/-- the `match op1` part of one pair of base.py `iter_comparison_data`: the isinstance-ordered dispatch;
returns the (possibly converted) pair, or the exception of a conversion / TypeError -/
def iterMatch (m : Mode) (a b : Atom) : Except PyR (Atom × Atom) :=
  match a with
  | .str _ => if isStrLike3 b then .ok (a, b) else .error .typeErr
  | .uri _ =>
    match b with
    | .ua t =>                                             -- yield op1, AnyURI(op2.value)
      match strToUri t with
      | .ok u => .ok (a, .uri u)
      | .error e => .error e
    | _ => if isStrLike3 b then .ok (a, b) else .error .typeErr
  | .bool _ =>
    if isStr b || isInteger b || isQN b || isUri b then .error .typeErr else .ok (a, b)
  | .int v =>
    match b with
    | .dbl _ | .flt _ | .ua _ => .ok (.dbl (toD64 v), b)   -- yield get_double(op1), op2
    | _ => if isStr b || isQN b || isUri b || isBoolA b then .error .typeErr else .ok (a, b)
  | .dbl _ | .flt _ =>
    match b with
    | .int v => .ok (a, .dbl (toD64 v))                   -- yield op1, get_double(op2)
    | .dec q => .ok (a, .dbl (toD64 q))
    | _ => if isStr b || isQN b || isUri b || isBoolA b then .error .typeErr else .ok (a, b)
  | .dec q =>
    match b with
    | .dbl _ | .flt _ => .ok (.dbl (toD64 q), b)
    | _ => if isStr b || isQN b || isUri b || isBoolA b then .error .typeErr else .ok (a, b)
  | .qn .. =>
    match b with
    | .qn .. => .ok (a, b)
    | .ua t =>                                             -- yield op1, type(op1).make(op2, parser)
      match qnMake m t with
      | .ok q => .ok (a, q)
      | .error e => .error e
    | _ => .error .typeErr
  | .ua s =>
    match b with
    | .ua t => .ok (.str s, .str t)      -- both untyped: `yield str(op1), str(op2)`
    | .int v => .ok (a, .dbl (toD64 v))  -- yield op1, get_double(op2)
    | .qn .. =>                          -- yield type(op2).make(op1, parser), op2
      match qnMake m s with
      | .ok q => .ok (q, b)
      | .error e => .error e
    | _ => .ok (a, b)
  | _ => .ok (a, b)

/-- one pair of iter_comparison_data: the dispatch, then the comparability check -/
def iterCheck (m : Mode) (op : Op) (a b : Atom) : Except PyR (Atom × Atom) :=
  match iterMatch m a b with
  | .error e => .error e
  | .ok p => if categoryOK op a b then .ok p else .error .typeErr

def Atom.fillTz (itz : Option Int) : Atom → Atom
  | .date v => .date (v.fill itz) | .dtm v => .dtm (v.fill itz) | .time v => .time (v.fill itz)
  | a => a

/-- base.py:602-615 `implicit_timezone_operands`: only when both operands are date/time values (and
the context has an implicit timezone: `DT.fill none` is the identity) -/
def fillPair (itz : Option Int) (a b : Atom) : Atom × Atom :=
  if a.isDT && b.isDT then (a.fillTz itz, b.fillTz itz) else (a, b)

/-- the comparison of one generated pair in the non-compatibility loop -/
def pairGeneralWith (po : Atom → Atom → PyR) (m : Mode) (op : Op) (a b : Atom) : R :=
  match iterCheck m op a b with
  | .error e => liftPy e
  | .ok (x, y) => liftPy (po x y)

/-- with the codepoint collation: the plain Python operator -/
def pairGeneral (m : Mode) (op : Op) (a b : Atom) : R := pairGeneralWith (pyOp m op) m op a b

/-- the same under a dynamic context with implicit timezone `itz` (minutes; none = no implicit
timezone): `yield self.implicit_timezone_operands(context, op1, op2)` before the operator -/
def pairGeneralCtx (itz : Option Int) (m : Mode) (op : Op) (a b : Atom) : R :=
  pairGeneral m op (fillPair itz a b).1 (fillPair itz a b).2

/-- `any(op(x1, x2) for x1, x2 in …)`: left-to-right, first error or first True wins -/
def anyPairs (f : Atom → Atom → R) : List (Atom × Atom) → R
  | [] => .ok false
  | (a, b) :: rest =>
    match f a b with
    | .error e => .error e
    | .ok true => .ok true
    | .ok false => anyPairs f rest

def product (l r : List Atom) : List (Atom × Atom) := l.flatMap fun a => r.map fun b => (a, b)

/-- F&O effective boolean value of one atom as computed by base.py:835-845 -/
def ebvAtom : Atom → R
  | .int v => .ok (decide (v ≠ 0))
  | .bool b => .ok b
  | .str s | .ua s | .uri s => .ok (!s.isEmpty)
  | .dbl d | .flt d => .ok (!(d.isNaN || d.isZero))
  | .dec q => .ok (decide (q ≠ 0))
  | _ => .error .FORG0006

/-- base.py:808-845 `boolean_value` for a list argument -/
def ebvList : List Item → R
  | [] => .ok false
  | .node _ :: _ => .ok true
  | [.atom a] => ebvAtom a
  | _ :: _ :: _ => .error .FORG0006

/-- base.py:820-833 `boolean_value` for an iterator argument: the loop, item by item
(`k` = items seen so far, `last` = the last item seen) -/
def ebvIterLoop : List Item → Nat → Option Item → R
  | [], 0, _ => .ok false
  | [], _, some (.atom a) => ebvAtom a
  | [], _, some (.node _) => .ok true
  | [], _, none => .ok false
  | it :: rest, k, _ =>
    if k ≠ 0 then .error .FORG0006
    else match it with
      | .node _ => .ok true
      | _ => ebvIterLoop rest (k + 1) (some it)

def ebvIter (l : List Item) : R := ebvIterLoop l 0 none

/-- first error among the conversions of a list -/
def mapFloat : List Atom → Except PyR (List D)
  | [] => .ok []
  | a :: rest =>
    match pyFloat a with
    | .error e => .error e
    | .ok d => match mapFloat rest with
      | .error e => .error e
      | .ok ds => .ok (d :: ds)

/-- base.py:547-553 and the shared loop: compatibility mode without a single-boolean operand —
ordering operators compare `float()` of every item, `=`/`!=` compare the raw Python objects in 1.0
and go through the type-checking loop in 2.0 compatibility mode -/
def compatLoopWith (pg : Atom → Atom → R) (m : Mode) (op : Op) (l r : List Atom) : R :=
  if op.isOrd then
    match mapFloat l with
    | .error e => liftPy e
    | .ok ls => match mapFloat r with
      | .error e => liftPy e
      | .ok rs => anyPairs (fun a b => liftPy (pyOp m op a b)) (product (ls.map .dbl) (rs.map .dbl))
  else if m = .v1 then anyPairs (fun a b => liftPy (pyOp m op a b)) (product l r)
  else anyPairs pg (product l r)

/-- without an implicit timezone -/
def compatLoop (m : Mode) (op : Op) (l r : List Atom) : R := compatLoopWith (pairGeneral m op) m op l r

/-- the operand is one atomic xs:boolean: `isinstance(values[0], bool) and len(values) == 1` -/
def singleBool? : List Atom → Option Bool
  | [.bool x] => some x
  | _ => none

/-- base.py:516-584 + _xpath1_operators.py:84-102: general comparison of two sequences -/
def generalCmpWith (pg : Atom → Atom → R) (m : Mode) (op : Op) (L Rr : List Item) : R :=
  let l := L.map (atomize m)
  let r := Rr.map (atomize m)
  if m.compat then
    -- 1. a single boolean operand (`left_values[0]` raises IndexError on an empty operand → no pairs → False)
    if l.isEmpty then .ok false
    else match singleBool? l with
      | some x =>
        (match ebvList (r.map .atom) with
         | .error e => .error e
         | .ok y => liftPy (pyOp m op (.bool x) (.bool y)))
      | none =>
        if r.isEmpty then .ok false
        else match singleBool? r with
          | some y =>
            (match ebvList (l.map .atom) with
             | .error e => .error e
             | .ok x => liftPy (pyOp m op (.bool x) (.bool y)))
          | none => compatLoopWith pg m op l r
  else anyPairs pg (product l r)

/-- general comparison in a context without implicit timezone -/
def generalCmp (m : Mode) (op : Op) (L Rr : List Item) : R := generalCmpWith (pairGeneral m op) m op L Rr

/-- general comparison in a context with implicit timezone `itz` (the 1.0 `product` path and the
float path of the compatibility branch never fill the timezone) -/
def generalCmpCtx (itz : Option Int) (m : Mode) (op : Op) (L Rr : List Item) : R :=
  generalCmpWith (pairGeneralCtx itz m op) m op L Rr

/-- Python class identity used by `cls0 is cls1` -/
inductive Cls where
  | int | dec | float | Float | str | bool | uri | qn | date | dtm | time | dur | ymd | dtd | hex | b64
  deriving DecidableEq, Repr

def Atom.cls : Atom → Cls
  | .int _ => .int | .dec _ => .dec | .dbl _ => .float | .flt _ => .Float | .str _ => .str
  | .ua _ => .str | .bool _ => .bool | .uri _ => .uri | .qn .. => .qn | .date _ => .date
  | .dtm _ => .dtm | .time _ => .time | .dur .. => .dur | .ymd _ => .ymd | .dtd _ => .dtd
  | .hex _ => .hex | .b64 _ => .b64

/-- `get_double(x)` of an int / Decimal operand (_xpath2_operators.py:542-545; helpers.py:293-294:
an integer goes through its string form, so beyond the double range it becomes INF, no OverflowError) -/
def getDouble (a : Atom) : Except PyR Atom :=
  match a with
  | .int v => .ok (.dbl (toD64 v))
  | .dec q => .ok (.dbl (toD64 q))
  | _ => .ok a

def isIntDec : Atom → Bool | .int _ => true | .dec _ => true | _ => false
def isNumCls : Atom → Bool | .int _ => true | .dec _ => true | .dbl _ => true | .flt _ => true | _ => false

/-- _xpath2_operators.py:510-563 on two atomized single operands (UntypedAtomic already turned
into `str` by get_atomized_operand) -/
def valuePairWith (po : Atom → Atom → PyR) (op : Op) (a b : Atom) : R :=
  let fin (x y : Atom) : R := liftPy (po x y)
  if a.cls = b.cls && a.cls ≠ .dur then fin a b
  else if a.isFloatCls && b.isFloatCls then fin a b
  else if isBoolA a || isBoolA b then .error .XPTY0004
  else if isIntDec a && isIntDec b then fin a b
  else if isStrLike3 a && isStrLike3 b then fin a b
  else if isNumCls a && isNumCls b then
    (if a.isFloatCls then
      match getDouble b with
      | .ok b' => fin a b'
      | .error e => liftPy e
    else
      match getDouble a with
      | .ok a' => fin a' b
      | .error e => liftPy e)
  else if a.isDur && b.isDur && (op = .eq || op = .ne) then fin a b
  else .error .XPTY0004

/-- with the codepoint collation: the plain Python operator -/
def valuePair (m : Mode) (op : Op) (a b : Atom) : R := valuePairWith (pyOp m op) op a b

/-- value comparison of two atoms under implicit timezone `itz`
(`operands[:] = self.implicit_timezone_operands(context, *operands)` before the operator) -/
def valuePairCtx (itz : Option Int) (m : Mode) (op : Op) (a b : Atom) : R :=
  valuePair m op (fillPair itz a b).1 (fillPair itz a b).2

/-- base.py:496-514 `get_atomized_operand`: none = empty operand -/
def atomizedOperand (m : Mode) : List Item → Except Err (Option Atom)
  | [] => .ok none
  | [it] => match atomize m it with
    | .ua s => .ok (some (.str s))
    | a => .ok (some a)
  | _ :: _ :: _ => .error .XPTY0004

/-- value comparison of two sequences: `none` = the empty sequence -/
def valueCmpWith (vp : Atom → Atom → R) (m : Mode) (L Rr : List Item) : Except Err (Option Bool) :=
  match atomizedOperand m L with
  | .error e => .error e
  | .ok x =>
    match atomizedOperand m Rr with
    | .error e => .error e
    | .ok y =>
      match x, y with
      | some a, some b => (vp a b).map some
      | _, _ => .ok none

def valueCmp (m : Mode) (op : Op) (L Rr : List Item) : Except Err (Option Bool) :=
  valueCmpWith (valuePair m op) m L Rr

def valueCmpCtx (itz : Option Int) (m : Mode) (op : Op) (L Rr : List Item) : Except Err (Option Bool) :=
  valueCmpWith (valuePairCtx itz m op) m L Rr

/-! ### logic (and/or/not/if evaluate through boolean_value on the selected iterator) -/

/-! ## the parser's default collation (base.py `collation_operator`, collations.py) -/

/-- the collations of the harness: Unicode codepoint, html-ascii-case-insensitive (C08's `Coll`) -/
abbrev Coll := EPV.Seq.Coll

/-- `html_ascii_strxfrm` (collations.py): A-Z folded to a-z; the codepoint collation's key is the string -/
def collKeyL (c : Coll) (s : Str) : Str :=
  match c with
  | .codepoint => s
  | .asciiCI => s.map EPV.Seq.asciiLower

/-- the string behind `str(x)` of a string-like operand -/
def strVal : Atom → Option Str
  | .str s | .uri s | .ua s => some s
  | _ => none

/-- base.py `collation_operator(op)`: the operator itself for the codepoint collation; otherwise two
string-like operands (str, AnyURI, UntypedAtomic) are compared as `op(strcoll(str(op1), str(op2)), 0)`
— an untyped left operand facing an anyURI is cast first — and any other pair is left to `op` -/
def pyOpC (c : Coll) (m : Mode) (op : Op) (x y : Atom) : PyR :=
  if c = .codepoint then pyOp m op x y else
  match strVal x, strVal y with
  | some s, some t =>
    (match x, y with
     | .ua _, .uri _ =>
       (match strToUri s with
        | .ok u => .ok (sCmp op (collKeyL c u) (collKeyL c t))
        | .error e => e)
     | _, _ => .ok (sCmp op (collKeyL c s) (collKeyL c t)))
  | _, _ => pyOp m op x y

/-- one pair of a general comparison under default collation `c` and implicit timezone `itz` -/
def pairGeneralC (c : Coll) (itz : Option Int) (m : Mode) (op : Op) (a b : Atom) : R :=
  pairGeneralWith (pyOpC c m op) m op (fillPair itz a b).1 (fillPair itz a b).2

/-- general comparison under default collation `c` (XPath2Parser / XPath31Parser `default_collation=`) -/
def generalCmpC (c : Coll) (itz : Option Int) (m : Mode) (op : Op) (L Rr : List Item) : R :=
  generalCmpWith (pairGeneralC c itz m op) m op L Rr

def valuePairC (c : Coll) (itz : Option Int) (m : Mode) (op : Op) (a b : Atom) : R :=
  valuePairWith (pyOpC c m op) op (fillPair itz a b).1 (fillPair itz a b).2

/-- value comparison under default collation `c` -/
def valueCmpC (c : Coll) (itz : Option Int) (m : Mode) (op : Op) (L Rr : List Item) : Except Err (Option Bool) :=
  valueCmpWith (valuePairC c itz m op) m L Rr

/-- _xpath1_operators.py:63-66: Python `and` — the right operand is not evaluated when the left is false -/
def andE (a b : R) : R :=
  match a with
  | .error e => .error e
  | .ok false => .ok false
  | .ok true => b
/-- _xpath1_operators.py:57-60 -/
def orE (a b : R) : R :=
  match a with
  | .error e => .error e
  | .ok true => .ok true
  | .ok false => b
/-- _xpath1_functions.py:357-359 -/
def notE (a : R) : R := a.map (!·)
/-- _xpath2_operators.py:99-110 -/
def ifE {α} (c : R) (t e : Except Err α) : Except Err α :=
  match c with
  | .error x => .error x
  | .ok true => t
  | .ok false => e

end EPV.Cmp

/-
C14 extension (phase 5, second item): a HISTORY of walks on one `LazyElementNode` tree.  Core Lean only.

Python: the same `LazyElementNode.__iter__` (xpath_nodes.py 1397-1413) called again and again on one tree:
`if not self.children:` builds a level only once, later walks find the `children` list of earlier walks
(mutated in place) and extend it below.
  `reachMany t ws`  = the tree after the walks `ws` (in this order) on the same tree object
  `Good`            = the invariant of every state such a history can produce: each `children` list is
                      either still empty or the complete list `__iter__` builds, each child again `Good`
                      (so `view` of the state is the eagerly built tree with some sub-trees cut off)
-/
import EPV.Model.LazyPath
namespace EPV.NodePath

/-- the tree after a history of walks (each `reach` starts at the root of the same tree object) -/
def reachMany (t : LNode) (ws : List (List Nat)) : LNode := ws.foldl reach t

/-- the states after 0, 1, …, n walks -/
def reachStates (t : LNode) : List (List Nat) → List LNode
  | [] => [t]
  | w :: ws => t :: reachStates (reach t w) ws

mutual
/-- invariant: `children` is empty (not built / nothing to build) or is the list `__iter__` builds
(same nodes once completed), all of them `Good` -/
def Good : LNode → Prop
  | .lazy src ch => ch = [] ∨ (ch.map fin = (lazyChildrenOf src).map fin ∧ GoodL ch)
  | _ => True
def GoodL : List LNode → Prop
  | [] => True
  | c :: cs => Good c ∧ GoodL cs
end

end EPV.NodePath

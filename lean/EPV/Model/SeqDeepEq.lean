/-
C08 (phase 5) — model of `fn:deep-equal` on sequences of atomic items.

Transcribes `elementpath/compare.py::deep_equal` (`sequence_deep_equal`, lines 69–196, the branch for
two atomic values in the `try:` block, lines 127–193) and `as_double` (lines 57–64) as they are in the
reference tree after the repairs of branch `fix-c08-6` (F08ab: `math.isnan(as_double(value2))`; F08ac: the
`math.isinf` branches compare after promotion to xs:double).

Items: the atoms of the C08 model plus xs:anyURI.  Nodes, maps, arrays and function items are outside
(`DErr.unsupported`; maps / arrays: C15).
-/
import EPV.Model.SeqFuns
namespace EPV.Seq

/-- items of the deep-equal fragment: the C08 atoms and xs:anyURI -/
inductive DItem where
  | int (n : Int)
  | dec (m : Int) (k : Nat)         -- xs:decimal m / 10^k
  | dbl (d : D)
  | str (s : String)
  | bool (b : Bool)
  | untyped (s : String)            -- xs:untypedAtomic
  | uri (s : String)                -- xs:anyURI
  | node (i : Nat)                  -- outside the fragment
  deriving DecidableEq, Repr, Inhabited

def DItem.ofAtom : Atom → DItem
  | .int n => .int n | .dec m k => .dec m k | .dbl d => .dbl d | .str s => .str s
  | .bool b => .bool b | .untyped s => .untyped s | .node i => .node i

/-- what escapes from the Python function: a bare `OverflowError` (none since the repair of F08ab; the
constructor stays so that a regression has a name in the protocol), or the item is outside the modelled fragment -/
inductive DErr where
  | overflow | unsupported
  deriving DecidableEq, Repr

/-- decidable equality of the results (for the `decide`d examples) -/
instance instDecEqDeqResult : DecidableEq (Except DErr Bool) := fun a b =>
  match a, b with
  | .ok x, .ok y => if h : x = y then isTrue (by rw [h]) else isFalse (by intro h'; cases h'; exact h rfl)
  | .error x, .error y => if h : x = y then isTrue (by rw [h]) else isFalse (by intro h'; cases h'; exact h rfl)
  | .ok _, .error _ => isFalse (by intro h; cases h)
  | .error _, .ok _ => isFalse (by intro h; cases h)

def DItem.isNode : DItem → Bool | .node _ => true | _ => false
def DItem.isBool : DItem → Bool | .bool _ => true | _ => false
def DItem.isUntyped : DItem → Bool | .untyped _ => true | _ => false

/-- `isinstance(v, (str, AnyURI, UntypedAtomic))`, with `str(v)` -/
def DItem.strLike : DItem → Option String
  | .str s => some s | .untyped s => some s | .uri s => some s | _ => none

/-- the exact value of a numeric item (Python's `==` between int / Decimal / float is exact) -/
def DItem.xv : DItem → XV
  | .int n => .q n 1
  | .dec m k => .q m (10 ^ k)
  | .dbl d => d.val
  | _ => .nan

/-- `as_double(v)` / `float(Decimal)`: the promotion to xs:double; integers beyond the range give ±INF -/
def DItem.toD : DItem → D
  | .int n => D.ofInt n
  | .dec m k => rnd m (10 ^ k)
  | .dbl d => d
  | _ => .nan

def D.isInf : D → Bool | .pinf => true | .ninf => true | _ => false

/-- `float(n)` raises OverflowError (`math.isnan(n)` converts its argument first) -/
def intOverflows (n : Int) : Bool := (D.ofInt n).isInf

/-- compare.py 154–169: `isinstance(value1, float)`; `b` is not a boolean, not a QName and the
pair is not string-like / untyped -/
def floatFirst (d : D) (b : DItem) : Except DErr Bool :=
  if d.isNaN then                                   -- `if not math.isnan(as_double(value2)): return False`
    match b with
    | .dbl e => .ok e.isNaN
    | _ => .ok false                                -- int: finite or ±INF; Decimal: not NaN; str / anyURI: TypeError
  else if d.isInf then .ok (D.eqv d b.toD)          -- `value1 != (float(value2) if Decimal else as_double(value2))`
  else match b with
    | .dec m k => .ok (D.eqv d (rnd m (10 ^ k)))    -- `value1 != float(value2)`
    | .dbl e => .ok (D.eqv d e)                     -- `as_double` leaves a float
    | .int n => .ok (D.eqv d (D.ofInt n))           -- `value1 != as_double(value2)`
    | _ => .ok false                                -- `not isinstance(value2, (float, int))`

/-- compare.py 171–184: `isinstance(value2, float)` and value1 is no float -/
def floatSecond (a : DItem) (e : D) : Bool :=
  if e.isNaN then false
  else if e.isInf then D.eqv a.toD e                -- promoted first (a string stays unequal)
  else match a with
    | .dec m k => D.eqv (rnd m (10 ^ k)) e
    | .int n => D.eqv (D.ofInt n) e
    | _ => false

/-- one pair of atomic values: the `try:` block of `sequence_deep_equal`; `true` = the loop goes on -/
def deepEqPair (cl : Coll) (v1 v2 : DItem) : Except DErr Bool :=
  if v1.isNode || v2.isNode then .error .unsupported
  else if v1.isBool || v2.isBool then               -- 128–133 (two equal booleans fall through to `!=`)
    match v1, v2 with
    | .bool x, .bool y => .ok (x == y)
    | _, _ => .ok false
  else match v1.strLike, v2.strLike with
    | some s, some t => .ok (collEq cl s t)         -- 145–148 `cm.strcoll(str(value1), str(value2))`
    | _, _ =>
      if v1.isUntyped || v2.isUntyped then .ok false   -- 150–152
      else match v1, v2 with
        | .dbl d, b => floatFirst d b
        | a, .dbl e => .ok (floatSecond a e)
        | .int n, .int n' => .ok (XV.eqv (.q n 1) (.q n' 1))         -- 182 `value1 != value2`
        | .int n, .dec m k => .ok (XV.eqv (.q n 1) (.q m (10 ^ k)))
        | .dec m k, .int n => .ok (XV.eqv (.q m (10 ^ k)) (.q n 1))
        | .dec m k, .dec m' k' => .ok (XV.eqv (.q m (10 ^ k)) (.q m' (10 ^ k')))
        | _, _ => .ok false                         -- string / anyURI with a number: unequal or TypeError

/-- `for value1, value2 in zip_longest(seq1, seq2)`: the first unequal pair returns False -/
def deepEqual (cl : Coll) : List DItem → List DItem → Except DErr Bool
  | [], [] => .ok true
  | [], _ :: _ => .ok false                         -- `(value1 is None) ^ (value2 is None)`
  | _ :: _, [] => .ok false
  | a :: as, b :: bs =>
    match deepEqPair cl a b with
    | .error e => .error e
    | .ok false => .ok false
    | .ok true => deepEqual cl as bs

/-- the inputs of the former finding F08ab (repaired on fix-c08-6): NaN first, then an integer beyond the xs:double range -/
def nanVsHuge (a b : DItem) : Bool :=
  match a, b with
  | .dbl d, .int n => d.isNaN && intOverflows n
  | _, _ => false

/-- the inputs of the former finding F08ac (repaired on fix-c08-6): ±INF beside an integer / decimal whose promotion to xs:double is the same
infinity (`INF eq 10^400` is true; fn:deep-equal said false) -/
def infVsHuge (a b : DItem) : Bool :=
  match a, b with
  | .dbl d, .int n => d.isInf && D.eqv d (D.ofInt n)
  | .dbl d, .dec m k => d.isInf && D.eqv d (rnd m (10 ^ k))
  | .int n, .dbl e => e.isInf && D.eqv (D.ofInt n) e
  | .dec m k, .dbl e => e.isInf && D.eqv (rnd m (10 ^ k)) e
  | _, _ => false

def pairTrigger (a b : DItem) : Bool := nanVsHuge a b || infVsHuge a b

/-- some pair of corresponding items is one of the formerly defective inputs (driver flag `t`, histogram only) -/
def deqTrigger : List DItem → List DItem → Bool
  | a :: as, b :: bs => pairTrigger a b || deqTrigger as bs
  | _, _ => false

end EPV.Seq

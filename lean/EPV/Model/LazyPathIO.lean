/-
Driver side of the lazily built trees of C14 (request `lazy=<tokens> walk=<i.j.k|->`).

ElementTree tokens (prefix notation, `~` = empty string):
  E,<ns>,<local>,<n>,(<prefix>,<uri>)*,<m>,(<ns>,<local>)*,<text 0|1>,<tail 0|1>,<k>,<kid>*
  C,<tail> | P,<target>,<tail>

Answer:
  built=<ip>;<kind>;<node.path>|…    every node `iter_lazy()` yields on the tree as it stands after the walk
                                      (index path `i.j.k` / `-` for the root; kind E/T/C/P; the model's path text)
  target=<ip>;<path in the lazily built tree>;<path in the eagerly built tree>;<selected in the tree as it
          stands>;<selected in the eagerly built tree>      (selected = index paths, `,` separated, `D` = dummy document, `NIL` = nothing)
  eager=<kinds of the eagerly built tree in document order>  full=<kinds of the lazy tree after building everything>
-/
import EPV.Proto
import EPV.Model.LazyPath
import EPV.Spec.NodePathSpec
namespace EPV.NodePath
open EPV.Proto

private def tokS (s : String) : String := if s == "~" then "" else s

private def pairsOf (k : Nat) (ts : List String) (acc : List (String × String)) :
    Option (List (String × String) × List String) :=
  match k, ts with
  | 0, ts => some (acc.reverse, ts)
  | k + 1, a :: b :: ts => pairsOf k ts ((tokS a, tokS b) :: acc)
  | _, _ => none

partial def parseETree : List String → Option (ETree × List String)
  | "C" :: tl :: rest => some (.comment (tl == "1"), rest)
  | "P" :: t :: tl :: rest => some (.pi (tokS t) (tl == "1"), rest)
  | "E" :: ns :: loc :: n :: rest => do
    let n ← nat? n
    let (nss, rest) ← pairsOf n rest []
    match rest with
    | m :: rest => do
      let m ← nat? m
      let (ats, rest) ← pairsOf m rest []
      match rest with
      | tx :: tl :: k :: rest => do
        let k ← nat? k
        let (kids, rest) ← parseKids k rest []
        some (.elem ⟨tokS ns, tokS loc⟩ nss (ats.map fun a => (⟨a.1, a.2⟩, "")) (tx == "1") (tl == "1") kids, rest)
      | _ => none
    | _ => none
  | _ => none
where
  parseKids (k : Nat) (ts : List String) (acc : List ETree) : Option (List ETree × List String) :=
    match k with
    | 0 => some (acc.reverse, ts)
    | k + 1 => do
      let (n, rest) ← parseETree ts
      parseKids k rest (n :: acc)

def showIp (ip : List Nat) : String := if ip.isEmpty then "-" else ".".intercalate (ip.map toString)

def parseIp (s : String) : Option (List Nat) :=
  if s == "-" || s == "" then some [] else (s.splitOn ".").mapM nat?

def kindLetter : Node → String
  | .elem .. => "E"
  | .text => "T"
  | .comment => "C"
  | .pi _ => "P"

mutual
def kindsOf : Node → List String
  | .elem _ _ _ ks => "E" :: kindsKids ks
  | n => [kindLetter n]
def kindsKids : List Node → List String
  | [] => []
  | c :: cs => kindsOf c ++ kindsKids cs
end

mutual
/-- the lazy tree after `for c in node:` has run on every element (a full walk) -/
def forceAll : Nat → LNode → LNode
  | 0, n => n
  | f + 1, .lazy src ch => .lazy src (forceKids f (LNode.lazy src ch).built)
  | _, n => n
def forceKids : Nat → List LNode → List LNode
  | _, [] => []
  | f, c :: cs => forceAll f c :: forceKids f cs
end

mutual
def etDepth : ETree → Nat
  | .elem _ _ _ _ _ kids => etDepthKids kids + 1
  | _ => 1
def etDepthKids : List ETree → Nat
  | [] => 0
  | c :: cs => max (etDepth c) (etDepthKids cs)
end

/-- absolute path text of a parent-less element root: evaluated through the dummy document -/
def absText (top : Node) (ip : List Nat) : String :=
  ((pathOf (docNode [top]) ⟨0 :: ip, .self⟩).map renderAbs).getD "NONE"

def absSel (top : Node) (ip : List Nat) : String :=
  match pathOf (docNode [top]) ⟨0 :: ip, .self⟩ with
  | none => "NONE"
  | some st =>
    let rs := (evalSteps (docNode [top]) st).map fun r =>
      match r.path, r.sel with
      | 0 :: p, .self => showIp p
      | [], .self => "D"
      | _, _ => "?"
    if rs.isEmpty then "NIL" else ",".intercalate rs

def answerLazy (tokens walk : String) : String :=
  match parseETree (tokens.splitOn ","), parseIp walk with
  | some (src, []), some is =>
    let t := reach (lazyRoot src) is
    let v := view t
    let built := (iterLazy t []).map fun ip =>
      s!"{showIp ip};{((descend v ip).map kindLetter).getD "?"};{absText v ip}"
    -- the node the walk ends at (an index out of range stops the walk one level above)
    let tgt := ((iterLazy t []).filter fun ip => ip.isPrefixOf is).foldl (fun a b => if b.length ≥ a.length then b else a) []
    let e := eager src
    let target := s!"{showIp tgt};{absText v tgt};{absText e tgt};{absSel v tgt};{absSel e tgt}"
    let full := view (forceAll (etDepth src + 1) (lazyRoot src))
    s!"built={"|".intercalate built} target={target} eager={"".intercalate (kindsOf e)} full={"".intercalate (kindsOf full)}"
  | _, _ => "bad-lazy"

end EPV.NodePath

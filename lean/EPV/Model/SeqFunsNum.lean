/-
Numeric kernel of C08, shared by the model (EPV/Model/SeqFuns.lean) and the specification
(EPV/Spec/FOSeq.lean).  Core Lean only.

* `XV` — an exact extended value: NaN, ±INF or the rational `n / d` (`d > 0`); its order is the
  order of IEEE 754 comparisons (NaN unordered) = Python's exact comparison of int / Decimal /
  float values.
* `D` — xs:double / Python `float`: NaN, ±INF, negative zero, or the exact dyadic value `m / 2^k`.
* `rnd n d` — the binary64 value nearest to `n / d` (ties to even, gradual underflow, overflow to
  ±INF): what `float(int)`, `float(Decimal)`, `float + float` and `float / int` compute.  The
  harness validates it against CPython (`float(Fraction(n, d))`) on every run.
* `roundSig28 n d` — `n / d` rounded to 28 significant digits, ties to even: the `decimal`
  context in which `Decimal / Decimal` of fn:avg is computed.

These functions are the *trusted arithmetic primitives* of C08: the theorems are stated over
them (they never look inside `rnd`), exactly as DESIGN.md §4 "C06" prescribes for IEEE rounding.
-/
namespace EPV.Seq

inductive XV where
  | nan | ninf | pinf
  | q (n : Int) (d : Nat)
  deriving DecidableEq, Repr, Inhabited

/-- `a < b` (false when an operand is NaN) -/
def XV.lt : XV → XV → Bool
  | .nan, _ => false
  | _, .nan => false
  | .pinf, _ => false
  | _, .ninf => false
  | .ninf, _ => true
  | _, .pinf => true
  | .q n d, .q n' d' => decide (n * (d' : Int) < n' * (d : Int))

/-- `a == b` -/
def XV.eqv : XV → XV → Bool
  | .nan, _ => false
  | _, .nan => false
  | .pinf, .pinf => true
  | .ninf, .ninf => true
  | .q n d, .q n' d' => decide (n * (d' : Int) = n' * (d : Int))
  | _, _ => false

/-- `a <= b` -/
def XV.le (a b : XV) : Bool := XV.lt a b || XV.eqv a b

def XV.isNaN : XV → Bool | .nan => true | _ => false

/-- Python `float` / xs:double -/
inductive D where
  | nan | ninf | pinf
  | fin (m : Int) (k : Nat)      -- m / 2^k
  | nzero                        -- -0.0
  deriving DecidableEq, Repr, Inhabited

def D.val : D → XV
  | .nan => .nan | .ninf => .ninf | .pinf => .pinf
  | .fin m k => .q m (2 ^ k)
  | .nzero => .q 0 1

def D.lt (a b : D) : Bool := XV.lt a.val b.val
def D.le (a b : D) : Bool := XV.le a.val b.val
def D.eqv (a b : D) : Bool := XV.eqv a.val b.val
def D.isNaN : D → Bool | .nan => true | _ => false
def D.isZero : D → Bool
  | .nzero => true
  | .fin m _ => m = 0
  | _ => false

def D.ofNat (n : Nat) : D := .fin (Int.ofNat n) 0

/-- ⌊log2 n⌋ for n > 0 (0 for 0), by halving -/
def log2Fuel : Nat → Nat → Nat
  | 0, _ => 0
  | fuel + 1, k => if k < 2 then 0 else 1 + log2Fuel fuel (k / 2)

def natLog2 (n : Nat) : Nat := log2Fuel n n

/-! ### `rnd`: round-to-nearest-even of a rational to binary64, in named steps

For `x = a / d > 0` put `A = a * 2^1074` (so that `x = (A / d) / 2^1074` and every binary64 value is an
integer multiple of `2^-1074`).  `pickF` chooses the exponent `f ≥ 0` of the last mantissa bit
(53-bit mantissa; `f = 0` in the subnormal range), `rhe` rounds the mantissa `A / (d * 2^f)`
half-to-even; the result is `m * 2^f / 2^1074`, or ±INF from `2^1024` on. -/

/-- `p / q` rounded to the nearest integer, ties to even -/
def rhe (p q : Nat) : Nat :=
  if 2 * (p % q) > q ∨ (2 * (p % q) = q ∧ (p / q) % 2 = 1) then p / q + 1 else p / q

/-- ⌊log2 A⌋, taking a factor 2^1074 out first (the arguments of `pickF` are of that form: the
halving loop then runs on the small cofactor) -/
def natLog2Scaled (A : Nat) : Nat :=
  if A % 2 ^ 1074 = 0 then natLog2 (A / 2 ^ 1074) + 1074 else natLog2 A

/-- `A / d` lies in (2^(lA-ld-1), 2^(lA-ld+1)): the exponent is `lA - ld - 52` or one less, at least 0 -/
def pickF (A d : Nat) : Nat :=
  let t : Int := (natLog2Scaled A : Int) - (natLog2 d : Int) - 52
  if t ≤ 0 then 0
  else if A / (d * 2 ^ t.toNat) < 2 ^ 52 then t.toNat - 1 else t.toNat

/-- the binary64 value `± m * 2^f / 2^1074` (±INF from 2^1024 on, a signed zero for `m = 0`) -/
def packD (neg : Bool) (m f : Nat) : D :=
  if m = 0 then (if neg then .nzero else .fin 0 0)
  else if natLog2 m + f ≥ 2098 then (if neg then .ninf else .pinf)
  else
    let mi : Int := if neg then -(m : Int) else (m : Int)
    if f ≥ 1074 then .fin (mi * 2 ^ (f - 1074)) 0 else .fin mi (1074 - f)

/-- nearest binary64 value of `n / d` -/
def rnd (n : Int) (d : Nat) : D :=
  if n = 0 ∨ d = 0 then .fin 0 0 else
  let A := n.natAbs * 2 ^ 1074
  let f := pickF A d
  packD (decide (n < 0)) (rhe A (d * 2 ^ f)) f

/-- `d` is a binary64 value: NaN, ±INF, −0, or a dyadic `m / 2^k` that `rnd` maps to itself.
(The type `D` has room for dyadics with more than 53 significant bits; no xs:double has such a value.) -/
def D.isRep : D → Bool
  | .fin m k => XV.eqv (rnd m (2 ^ k)).val (.q m (2 ^ k))
  | _ => true

/-- the double nearest to an exact value -/
def XV.toD : XV → D
  | .nan => .nan | .ninf => .ninf | .pinf => .pinf
  | .q n d => rnd n d

def D.neg : D → D
  | .nan => .nan | .pinf => .ninf | .ninf => .pinf | .nzero => .fin 0 0
  | .fin m k => if m = 0 then .nzero else .fin (-m) k

def D.isNeg : D → Bool
  | .ninf => true | .nzero => true | .fin m _ => m < 0 | _ => false

/-- `a + b` on binary64: exact sum, rounded; IEEE rules for the special values and the
sign of a zero result -/
def D.add : D → D → D
  | .nan, _ => .nan
  | _, .nan => .nan
  | .pinf, .ninf => .nan
  | .ninf, .pinf => .nan
  | .pinf, _ => .pinf
  | _, .pinf => .pinf
  | .ninf, _ => .ninf
  | _, .ninf => .ninf
  | .nzero, .nzero => .nzero
  | .nzero, b => b
  | a, .nzero => a
  | .fin m k, .fin m' k' => rnd (m * 2 ^ k' + m' * 2 ^ k) (2 ^ (k + k'))

/-- `a * b` on binary64 -/
def D.mul (a b : D) : D :=
  match a, b with
  | .nan, _ => .nan
  | _, .nan => .nan
  | a, b =>
    let neg := a.isNeg != b.isNeg
    let inf := match a, b with | .pinf, _ | .ninf, _ | _, .pinf | _, .ninf => true | _, _ => false
    if inf then
      if a.isZero || b.isZero then .nan else if neg then .ninf else .pinf
    else if a.isZero || b.isZero then (if neg then .nzero else .fin 0 0)
    else match a, b with
      | .fin m k, .fin m' k' => rnd (m * m') (2 ^ (k + k'))
      | _, _ => .nan

/-- `a / n` for a positive integer `n` (fn:avg) -/
def D.divNat (a : D) (n : Nat) : D :=
  match a with
  | .fin m k => if m = 0 then a else rnd m (2 ^ k * n)
  | a => a

/-- `n / d` rounded to 28 significant digits (ties to even), as `(m, k)` = `m / 10^k`: the quotient of
the `decimal` module in its default context.  A quotient of 10^28 or more keeps its 28 leading
digits (`k = 0`, trailing zeros).  `fuel` bounds the search for the scale. -/
def roundSig28 (n : Int) (d : Nat) : Int × Nat :=
  if n = 0 ∨ d = 0 then (0, 0) else
  let a := n.natAbs
  let rec findJ (fuel j : Nat) : Nat :=
    match fuel with
    | 0 => j
    | fuel + 1 => if a / (d * 10 ^ j) ≥ 10 ^ 28 then findJ fuel (j + 1) else j
  let j := findJ 6000 0
  if j > 0 then
    -- more than 28 integer digits: round at 10^j
    let den := d * 10 ^ j
    let mant := a / den
    let rem := a % den
    let mant' := if 2 * rem > den ∨ (2 * rem = den ∧ mant % 2 = 1) then mant + 1 else mant
    (if n < 0 then -((mant' * 10 ^ j : Nat) : Int) else ((mant' * 10 ^ j : Nat) : Int), 0)
  else
  let rec findK (fuel k : Nat) : Nat :=
    match fuel with
    | 0 => k
    | fuel + 1 => if a * 10 ^ k / d < 10 ^ 27 then findK fuel (k + 1) else k
  let k := findK 400 0
  let num := a * 10 ^ k
  let mant := num / d
  let rem := num % d
  let mant' := if 2 * rem > d ∨ (2 * rem = d ∧ mant % 2 = 1) then mant + 1 else mant
  (if n < 0 then -(mant' : Int) else (mant' : Int), k)

/-! ## the lexical space of xs:double (XSD 1.1 part 2 §3.3.5: optional sign, digits with an
optional fraction or a fraction alone, optional exponent; `INF`, `+INF`, `-INF`, `NaN`; the
whiteSpace facet is `collapse`) = what `helpers.get_double` accepts (`collapse_white_spaces`,
`NUMERIC_INF_OR_NAN`, `Patterns.numeric_literal`) before it calls `float()` -/

def isXmlWs (c : Char) : Bool := c == ' ' || c == '\t' || c == '\n' || c == '\r'

def trimWs (l : List Char) : List Char := ((l.dropWhile isXmlWs).reverse.dropWhile isXmlWs).reverse

def digitVal (c : Char) : Nat := c.toNat - '0'.toNat

def natOfDigits (ds : List Char) : Nat := ds.foldl (fun acc c => acc * 10 + digitVal c) 0

/-- the value of a valid xs:double literal, `none` for a string outside the lexical space -/
def lexDouble (s : String) : Option D :=
  let l := trimWs s.toList
  if l == "INF".toList || l == "+INF".toList then some .pinf
  else if l == "-INF".toList then some .ninf
  else if l == "NaN".toList then some .nan
  else
    let (neg, r0) := match l with
      | '-' :: r => (true, r)
      | '+' :: r => (false, r)
      | r => (false, r)
    let ip := r0.takeWhile Char.isDigit
    let r1 := r0.dropWhile Char.isDigit
    let (dot, fp, r2) := match r1 with
      | '.' :: r => (true, r.takeWhile Char.isDigit, r.dropWhile Char.isDigit)
      | r => (false, [], r)
    if ip.isEmpty && !(dot && !fp.isEmpty) then none
    else
      let ex : Option Int := match r2 with
        | [] => some 0
        | c :: r =>
          if c == 'e' || c == 'E' then
            let (eneg, ds) := match r with
              | '-' :: r' => (true, r')
              | '+' :: r' => (false, r')
              | r' => (false, r')
            if ds.isEmpty || !ds.all Char.isDigit then none
            else some (if eneg then -(natOfDigits ds : Int) else (natOfDigits ds : Int))
          else none
      match ex with
      | none => none
      | some e =>
        let mant := natOfDigits (ip ++ fp)
        let sh : Int := e - (fp.length : Int)
        if mant = 0 then some (if neg then .nzero else .fin 0 0)
        else
          let n : Int := if neg then -(mant : Int) else (mant : Int)
          some (if sh ≥ 0 then rnd (n * 10 ^ sh.toNat) 1 else rnd n (10 ^ (-sh).toNat))


/-! ## collations (F&O §5.3): the key of a string, shared by model and specification

`codepoint`: code points; `asciiCI`: http://www.w3.org/2005/xpath-functions/collation/html-ascii-case-insensitive,
"A–Z are mapped to a–z, then code points" (`s.translate({65..90 ↦ +32})` in collations.py).  Compared with
the engine's `CollationManager` on every run (kernel probe). -/

inductive Coll where
  | codepoint | asciiCI
  deriving DecidableEq, Repr

def asciiLower (n : Nat) : Nat := if 65 ≤ n ∧ n ≤ 90 then n + 32 else n

def collKey (c : Coll) (s : String) : List Nat :=
  match c with
  | .codepoint => s.toList.map Char.toNat
  | .asciiCI => s.toList.map fun ch => asciiLower ch.toNat

/-- equality of two strings under a collation -/
def collEq (c : Coll) (s t : String) : Bool :=
  match c with
  | .codepoint => s == t
  | .asciiCI => collKey .asciiCI s == collKey .asciiCI t

/-- `s` sorts before `t` under a collation -/
def collLt (c : Coll) (s t : String) : Bool := decide (collKey c s < collKey c t)

end EPV.Seq

/-
Numeric kernel of C08, shared by the model (EPV/Model/SeqFuns.lean) and the specification
(EPV/Spec/FOSeq.lean).  Core Lean only.

* `XV` — an exact extended value: NaN, ±INF or the rational `n / d` (`d > 0`); its order is the
  order of IEEE 754 comparisons (NaN unordered) = Python's exact comparison of int / Decimal /
  float values.
* `D` — xs:double / Python `float`: NaN, ±INF, negative zero, or the exact dyadic value `m / 2^k`.
* `rnd n d` — the binary64 value nearest to `n / d` (ties to even, gradual underflow, overflow to
  ±INF): what `float(int)`, `float(Decimal)`, `float + float` and `float / int` compute.  The
  harness validates it against CPython (`float(Fraction(n, d))`) on every run.
* `roundSig28 n d` — `n / d` rounded to 28 significant digits, ties to even: the `decimal`
  context in which `Decimal / Decimal` of fn:avg is computed.

These functions are the *trusted arithmetic primitives* of C08: the theorems are stated over
them (they never look inside `rnd`), exactly as DESIGN.md §4 "C06" prescribes for IEEE rounding.
-/
namespace EPV.Seq

inductive XV where
  | nan | ninf | pinf
  | q (n : Int) (d : Nat)
  deriving DecidableEq, Repr, Inhabited

/-- `a < b` (false when an operand is NaN) -/
def XV.lt : XV → XV → Bool
  | .nan, _ => false
  | _, .nan => false
  | .pinf, _ => false
  | _, .ninf => false
  | .ninf, _ => true
  | _, .pinf => true
  | .q n d, .q n' d' => decide (n * (d' : Int) < n' * (d : Int))

/-- `a == b` -/
def XV.eqv : XV → XV → Bool
  | .nan, _ => false
  | _, .nan => false
  | .pinf, .pinf => true
  | .ninf, .ninf => true
  | .q n d, .q n' d' => decide (n * (d' : Int) = n' * (d : Int))
  | _, _ => false

/-- `a <= b` -/
def XV.le (a b : XV) : Bool := XV.lt a b || XV.eqv a b

def XV.isNaN : XV → Bool | .nan => true | _ => false

/-- Python `float` / xs:double -/
inductive D where
  | nan | ninf | pinf
  | fin (m : Int) (k : Nat)      -- m / 2^k
  | nzero                        -- -0.0
  deriving DecidableEq, Repr, Inhabited

def D.val : D → XV
  | .nan => .nan | .ninf => .ninf | .pinf => .pinf
  | .fin m k => .q m (2 ^ k)
  | .nzero => .q 0 1

def D.lt (a b : D) : Bool := XV.lt a.val b.val
def D.le (a b : D) : Bool := XV.le a.val b.val
def D.eqv (a b : D) : Bool := XV.eqv a.val b.val
def D.isNaN : D → Bool | .nan => true | _ => false
def D.isZero : D → Bool
  | .nzero => true
  | .fin m _ => m = 0
  | _ => false

def D.ofNat (n : Nat) : D := .fin (Int.ofNat n) 0

/-- ⌊log2 n⌋ for n > 0 (0 for 0), by halving -/
def log2Fuel : Nat → Nat → Nat
  | 0, _ => 0
  | fuel + 1, k => if k < 2 then 0 else 1 + log2Fuel fuel (k / 2)

def natLog2 (n : Nat) : Nat := log2Fuel n n

/-- nearest binary64 value of `n / d` -/
def rnd (n : Int) (d : Nat) : D :=
  if n = 0 ∨ d = 0 then .fin 0 0 else
  let a := n.natAbs
  let neg := decide (n < 0)
  let scale (e : Int) : Nat × Nat :=
    if e ≥ 0 then (a, d * 2 ^ e.toNat) else (a * 2 ^ (-e).toNat, d)
  -- a / d lies in (2^(la-ld-1), 2^(la-ld+1))
  let e0 : Int := (natLog2 a : Int) - (natLog2 d : Int) - 52
  let s0 := scale e0
  let e1 : Int := if s0.1 / s0.2 < 2 ^ 52 then e0 - 1 else if s0.1 / s0.2 ≥ 2 ^ 53 then e0 + 1 else e0
  let e : Int := if e1 < -1074 then -1074 else e1
  let s := scale e
  let mant := s.1 / s.2
  let rem := s.1 % s.2
  let mant' := if 2 * rem > s.2 ∨ (2 * rem = s.2 ∧ mant % 2 = 1) then mant + 1 else mant
  if mant' = 0 then (if neg then .nzero else .fin 0 0)
  else if e + (natLog2 mant' : Int) + 1 > 1024 then (if neg then .ninf else .pinf)
  else
    let m : Int := if neg then -(mant' : Int) else (mant' : Int)
    if e ≥ 0 then .fin (m * 2 ^ e.toNat) 0 else .fin m (-e).toNat

/-- the double nearest to an exact value -/
def XV.toD : XV → D
  | .nan => .nan | .ninf => .ninf | .pinf => .pinf
  | .q n d => rnd n d

def D.neg : D → D
  | .nan => .nan | .pinf => .ninf | .ninf => .pinf | .nzero => .fin 0 0
  | .fin m k => if m = 0 then .nzero else .fin (-m) k

def D.isNeg : D → Bool
  | .ninf => true | .nzero => true | .fin m _ => m < 0 | _ => false

/-- `a + b` on binary64: exact sum, rounded; IEEE rules for the special values and the
sign of a zero result -/
def D.add : D → D → D
  | .nan, _ => .nan
  | _, .nan => .nan
  | .pinf, .ninf => .nan
  | .ninf, .pinf => .nan
  | .pinf, _ => .pinf
  | _, .pinf => .pinf
  | .ninf, _ => .ninf
  | _, .ninf => .ninf
  | .nzero, .nzero => .nzero
  | .nzero, b => b
  | a, .nzero => a
  | .fin m k, .fin m' k' => rnd (m * 2 ^ k' + m' * 2 ^ k) (2 ^ (k + k'))

/-- `a * b` on binary64 -/
def D.mul (a b : D) : D :=
  match a, b with
  | .nan, _ => .nan
  | _, .nan => .nan
  | a, b =>
    let neg := a.isNeg != b.isNeg
    let inf := match a, b with | .pinf, _ | .ninf, _ | _, .pinf | _, .ninf => true | _, _ => false
    if inf then
      if a.isZero || b.isZero then .nan else if neg then .ninf else .pinf
    else if a.isZero || b.isZero then (if neg then .nzero else .fin 0 0)
    else match a, b with
      | .fin m k, .fin m' k' => rnd (m * m') (2 ^ (k + k'))
      | _, _ => .nan

/-- `a / n` for a positive integer `n` (fn:avg) -/
def D.divNat (a : D) (n : Nat) : D :=
  match a with
  | .fin m k => if m = 0 then a else rnd m (2 ^ k * n)
  | a => a

/-- `n / d` rounded to 28 significant digits (ties to even), as `(m, k)` = `m / 10^k`;
`|n / d| < 10^28` is assumed.  `fuel` bounds the search for the scale. -/
def roundSig28 (n : Int) (d : Nat) : Int × Nat :=
  if n = 0 ∨ d = 0 then (0, 0) else
  let a := n.natAbs
  let rec findK (fuel k : Nat) : Nat :=
    match fuel with
    | 0 => k
    | fuel + 1 => if a * 10 ^ k / d < 10 ^ 27 then findK fuel (k + 1) else k
  let k := findK 400 0
  let num := a * 10 ^ k
  let mant := num / d
  let rem := num % d
  let mant' := if 2 * rem > d ∨ (2 * rem = d ∧ mant % 2 = 1) then mant + 1 else mant
  (if n < 0 then -(mant' : Int) else (mant' : Int), k)

/-! ## the lexical space of xs:double (XSD 1.1 part 2 §3.3.5: optional sign, digits with an
optional fraction or a fraction alone, optional exponent; `INF`, `+INF`, `-INF`, `NaN`; the
whiteSpace facet is `collapse`) = what `helpers.get_double` accepts (`collapse_white_spaces`,
`NUMERIC_INF_OR_NAN`, `Patterns.numeric_literal`) before it calls `float()` -/

def isXmlWs (c : Char) : Bool := c == ' ' || c == '\t' || c == '\n' || c == '\r'

def trimWs (l : List Char) : List Char := ((l.dropWhile isXmlWs).reverse.dropWhile isXmlWs).reverse

def digitVal (c : Char) : Nat := c.toNat - '0'.toNat

def natOfDigits (ds : List Char) : Nat := ds.foldl (fun acc c => acc * 10 + digitVal c) 0

/-- the value of a valid xs:double literal, `none` for a string outside the lexical space -/
def lexDouble (s : String) : Option D :=
  let l := trimWs s.toList
  if l == "INF".toList || l == "+INF".toList then some .pinf
  else if l == "-INF".toList then some .ninf
  else if l == "NaN".toList then some .nan
  else
    let (neg, r0) := match l with
      | '-' :: r => (true, r)
      | '+' :: r => (false, r)
      | r => (false, r)
    let ip := r0.takeWhile Char.isDigit
    let r1 := r0.dropWhile Char.isDigit
    let (dot, fp, r2) := match r1 with
      | '.' :: r => (true, r.takeWhile Char.isDigit, r.dropWhile Char.isDigit)
      | r => (false, [], r)
    if ip.isEmpty && !(dot && !fp.isEmpty) then none
    else
      let ex : Option Int := match r2 with
        | [] => some 0
        | c :: r =>
          if c == 'e' || c == 'E' then
            let (eneg, ds) := match r with
              | '-' :: r' => (true, r')
              | '+' :: r' => (false, r')
              | r' => (false, r')
            if ds.isEmpty || !ds.all Char.isDigit then none
            else some (if eneg then -(natOfDigits ds : Int) else (natOfDigits ds : Int))
          else none
      match ex with
      | none => none
      | some e =>
        let mant := natOfDigits (ip ++ fp)
        let sh : Int := e - (fp.length : Int)
        if mant = 0 then some (if neg then .nzero else .fin 0 0)
        else
          let n : Int := if neg then -(mant : Int) else (mant : Int)
          some (if sh ≥ 0 then rnd (n * 10 ^ sh.toNat) 1 else rnd n (10 ^ (-sh).toNat))


/-! ## collations (F&O §5.3): the key of a string, shared by model and specification

`codepoint`: code points; `asciiCI`: http://www.w3.org/2005/xpath-functions/collation/html-ascii-case-insensitive,
"A–Z are mapped to a–z, then code points" (`s.translate({65..90 ↦ +32})` in collations.py).  Compared with
the engine's `CollationManager` on every run (kernel probe). -/

inductive Coll where
  | codepoint | asciiCI
  deriving DecidableEq, Repr

def asciiLower (n : Nat) : Nat := if 65 ≤ n ∧ n ≤ 90 then n + 32 else n

def collKey (c : Coll) (s : String) : List Nat :=
  match c with
  | .codepoint => s.toList.map Char.toNat
  | .asciiCI => s.toList.map fun ch => asciiLower ch.toNat

/-- equality of two strings under a collation -/
def collEq (c : Coll) (s t : String) : Bool :=
  match c with
  | .codepoint => s == t
  | .asciiCI => collKey .asciiCI s == collKey .asciiCI t

/-- `s` sorts before `t` under a collation -/
def collLt (c : Coll) (s t : String) : Bool := decide (collKey c s < collKey c t)

end EPV.Seq

/-
Model of the function-item machinery of elementpath (C16).  Core Lean only.

What is transcribed (Python → Lean):

* `xpath30/_xpath30_functions.py  _InlineFunction.evaluate`          → `evalFnE`
      pinned tree: `self.variables = context.variables.copy(); return self`  (one slot on the
      syntax token, `Cfg.share = true`);  with the repair: `func = copy(self); func.variables = …`
      (`Cfg.share = false`)
* `xpath30/_xpath30_functions.py  _InlineFunction.__call__`          → `callFn` (inline branch)
      `context = copy(context)` (shares the variables dict), pinned tree:
      `context.variables.update(self.variables)` **into the caller's dict** (`Cfg.leak = true`);
      with the repair of F05 a private copy (`Cfg.leak = false`); parameters bound with `zip`
      (arity checked, XPTY0004, since the repair `fix: an inline function called with a wrong number…`);
      `'inline partial function'`: loop over `self._items` with the counter `k`
* `xpath_tokens/functions.py  XPathFunction.__call__` (named reference, partial named) → `callFn`
      (builtin branch; `check_arguments_number`)
* `xpath30/_xpath30_operators.py  evaluate__parenthesized_expression` (dynamic call, partial
      application with `?`: `copy(func)`, own argument list, fixed arguments evaluated now) → `evalCall`,
      `partialApply`
* `xpath30/_xpath30_operators.py  '#'.evaluate` (fresh token per evaluation)                 → `.named`
* `xpath30/_xpath30_operators.py  'let'`, `xpath2/_xpath2_operators.py 'for'`
      (`context.variables = context.variables.copy()`), `'!'` (same context, `context.item`)  → `step`
* `xpath30/_xpath30_functions.py  for-each / filter / fold-left / fold-right / for-each-pair`,
  `xpath31/_xpath31_functions.py sort / apply` (argument order, raw-token shortcut
      `func = self[k] if isinstance(self[k], XPathFunction)`, loops, `zip`)                     → `hof*`

Mutable state of the real code and where it lives here:
  * the variables dict of the current context → the `Env` argument/result `D` of `ev`
    (returned because a call can write into it when `leak`)
  * the `variables` slot of every inline-function token → `St.slots`
  * function objects (tokens, copies made by partial application, tokens made by `name#n`)
    → `St.heap` (append-only; an object is never modified after creation, the token slot is the
    only mutable part)

GHOST data (never influences a result, only the trigger flags): `ICtx.lex` and
`FObj.lex` carry the *lexical* bindings/focus, i.e. what the specification would see at the same
point.  The flags are the decidable trigger predicates of the `_partial` theorem:
  `stale`  a function item is used whose token slot holds other bindings than at its creation (F16)
  `scope`  a variable reference reads a value different from its lexical binding (F05 / F05c)
  `arity`  a plain inline function is partially applied with a number of arguments ≠ its arity, or
           passed to for-each/filter/sort with an arity ≠ 1 (neither is checked by the code, F16e)
  `misc`   `fn:apply` turned an `XPTY0004` raised *inside* the function into `FOAP0001`; or a partially
           applied `exists#1` / `empty#1` answered `true` (F16m)

Lazy generators: the model is eager.  It is faithful for programs in which every expression that
the real code pulls lazily while doing other work (the binding sequence of `for`, the sequence
arguments of the HOFs) is parenthesised, a variable reference or a literal — the printer of the
harness guarantees it.
-/
import EPV.Spec.ClosureSem
namespace EPV.Clo

/-- `dict[k] = v`: a Python dict has one entry per key (keeps the association list bounded by the
number of distinct variable names) -/
def envSet (D : Env) (k : Nat) (v : Seq) : Env := (k, v) :: D.filter (fun p => p.1 != k)

/-- `dict.update(new)` where earlier entries of `new` win over later ones -/
def envUpdate (D : Env) (new : List (Nat × Seq)) : Env := new.foldr (fun p d => envSet d p.1 p.2) D

/-- which of the two repairs the modelled tree contains -/
structure Cfg where
  /-- F16 present: function expression returns the token itself -/
  share : Bool
  /-- F05 present: a call binds captured variables and parameters in the caller's dict -/
  leak : Bool
  /-- F05c repaired: the body of a function item that has captured variables sees them and its
  parameters only (`context.variables = self.variables.copy()`), not the caller's variables -/
  lexical : Bool := false
  deriving DecidableEq, Repr, Inhabited

def Cfg.pinned : Cfg := { share := true, leak := true }
/-- the reference tree: F16, F05 and F05c repaired -/
def Cfg.fixed : Cfg := { share := false, leak := false, lexical := true }

structure Flags where
  stale : Bool := false
  scope : Bool := false
  arity : Bool := false
  deriving DecidableEq, Repr, Inhabited

def Flags.none : Flags := {}
def Flags.or (a b : Flags) : Flags :=
  { stale := a.stale || b.stale, scope := a.scope || b.scope, arity := a.arity || b.arity }
def Flags.any (a : Flags) : Bool := a.stale || a.scope || a.arity

/-- a function object: `tok = some i` when it is the token of function expression `i` itself;
`env` = its `variables` attribute (`None` for a token that was never evaluated) -/
structure FObj where
  tok : Option Nat
  code : Code
  env : Option Env
  lex : Env
  fixed : Option (List (Option Seq))
  /-- `func.context = copy(context)` of a named function reference: the captured focus
  (`context.item`, `context.position`, `context.size`) -/
  fitem : Option Item := none
  fpos : Nat := 0
  fsize : Nat := 0
  /-- `sequence_types` of a typed inline function (parameter types, result type) -/
  sig : Option Sig := none
  deriving Repr, Inhabited

structure St where
  heap : List FObj
  /-- token → (`variables`, ghost lexical bindings) -/
  slots : List (Nat × (Env × Env))
  deriving Repr, Inhabited

/-- state + trigger flags (or-ed along the run) + exception -/
@[reducible] def IM (α : Type) := St → Flags × Except Err (α × St)

instance : Monad IM where
  pure a := fun st => (Flags.none, .ok (a, st))
  bind m f := fun st => match m st with
    | (fl, .error e) => (fl, .error e)
    | (fl, .ok (a, st')) => let r := f a st'; (fl.or r.1, r.2)

def IM.throw {α} (e : Err) : IM α := fun _ => (Flags.none, .error e)
def IM.lift {α} : Except Err α → IM α
  | .ok a => pure a
  | .error e => IM.throw e
def IM.flag (fl : Flags) : IM Unit := fun st => (fl, .ok ((), st))
def IM.alloc (o : FObj) : IM Nat := fun st => (Flags.none, .ok (st.heap.length, { st with heap := st.heap ++ [o] }))
def IM.getObj (a : Nat) : IM FObj := fun st => match st.heap[a]? with
  | some o => (Flags.none, .ok (o, st)) | none => (Flags.none, .error .FUEL)
def IM.setSlot (t : Nat) (v : Env × Env) : IM Unit :=
  fun st => (Flags.none, .ok ((), { st with slots := (t, v) :: st.slots }))
def IM.getSlot (t : Nat) : IM (Option (Env × Env)) :=
  fun st => (Flags.none, .ok (st.slots.lookup t, st))
def IM.single (s : Seq) : IM Nat := match s with
  | [.fn a] => pure a
  | _ => IM.throw .XPTY0004
/-- dynamic context: `item` = `context.item`; `lex`, `litem` ghost -/
structure ICtx where
  item : Option Item
  lex : Env
  /-- `context.position`, `context.size` -/
  pos : Nat := 1
  size : Nat := 1
  deriving Repr, Inhabited

/-- `XPathFunction.arity`: `nargs` when it is an int (references, partial functions) else the
number of parameter tokens -/
def FObj.arity (o : FObj) : Nat := match o.fixed with
  | some pat => holes pat
  | none => match o.code with | .inline ps _ => ps.length | .builtin b => b.arity

/-- `check_arguments_number` (an inline function checks against its parameter count) -/
def FObj.nargsOk (o : FObj) (n : Nat) : Bool := o.arity == n

/-- the `'inline partial function'` loop of `__call__`:
`for varname, tk in zip(self.varnames, self): if tk is fixed: bind tk's value else bind args[k]; k += 1` -/
def zipFill : List Nat → List (Option Seq) → List Seq → List (Nat × Seq)
  | p :: ps, some v :: pat, args => (p, v) :: zipFill ps pat args
  | p :: ps, none :: pat, a :: args => (p, a) :: zipFill ps pat args
  | _, _, _ => []

section Step
variable (cfg : Cfg)
variable (ev : Expr → ICtx → Env → IM (Seq × Env))

/-- the variables the function object holds *now*: for the token of a function expression on a
tree with F16 that is the token's slot (whatever the last evaluation stored), otherwise what the
object got at creation.  Flags `stale` when the slot differs from the creation-time bindings. -/
def currentVars (o : FObj) : IM (Option Env × Env) :=
  match cfg.share, o.tok with
  | true, some t => do
    let s ← IM.getSlot t
    match s with
    | some (d, l) => do
      IM.flag { stale := decide (l ≠ o.lex) }
      pure (some d, l)
    | none => pure (o.env, o.lex)
  | _, _ => pure (o.env, o.lex)

/-- evaluate the body of an inline function with the parameter bindings `binds` -/
def runBody (c : ICtx) (D : Env) (body : Expr) (binds : List (Nat × Seq)) (env : Option Env) (lex : Env) :
    IM (Seq × Env) := do
  -- context = copy(context); context.variables.update(self.variables); context.variables[p] = v
  -- F05c repaired: `if self.variables is not None: context.variables = self.variables.copy()`
  let D1 := match cfg.lexical, env with
    | true, some e => envUpdate e binds
    | _, _ => envUpdate D (binds ++ env.getD [])
  -- `context.item = ABSENT_FOCUS`: the focus is absent in the body (repair of F16f)
  let r ← ev body { item := none, lex := binds ++ lex, pos := c.pos, size := c.size } D1
  -- with F05 the dict that was written is the caller's
  pure (r.1, if cfg.leak then r.2 else D)

/-- `func(*args, context=context)` for a function item at address `a` -/
def callFn (c : ICtx) (D : Env) (a : Nat) (args : List Seq) : IM (Seq × Env) := do
  let o ← IM.getObj a
  match o.code with
  | .builtin b =>
    -- XPathFunction.__call__: check_arguments_number, arguments into the token, evaluate
    if o.nargsOk args.length then
      let full := match o.fixed with | none => args | some pat => fill pat args
      if full.length = b.arity then do
        -- `context = copy(self.context or context)`: a reference evaluates in the context it captured
        let r ← IM.lift (b.apF (o.fitem, o.fpos, o.fsize) full)
        pure (r, D)
      else IM.throw .XPTY0004
    else IM.throw .XPTY0004
  | .inline ps body =>
    if o.nargsOk args.length then do
      let vars ← currentVars cfg o
      match o.fixed with
      | some pat => do
        -- the `'inline partial function'` loop binds `zipFill ps pat args` = `ps.zip (fill pat args)`
        -- (`zipFill_eq`); `get_argument` converts the supplied arguments, the fixed ones were
        -- converted when the partial application was evaluated (the conversion is idempotent)
        IM.flag { arity := decide (pat.length ≠ ps.length) }
        let conv ← IM.lift (sigArgs o.sig (fill pat args))
        let r ← runBody cfg ev c D body (ps.zip conv) vars.1 vars.2
        let v ← IM.lift (sigRes o.sig r.1)
        pure (v, r.2)
      | none =>
        -- repaired code: `if len(args) != len(self.varnames): raise XPTY0004`
        if args.length = ps.length then do
          -- `context.variables[varname] = get_argument(value)`: function conversion rules
          let conv ← IM.lift (sigArgs o.sig args)
          let r ← runBody cfg ev c D body (ps.zip conv) vars.1 vars.2
          -- `self.validated_result(result)`
          let v ← IM.lift (sigRes o.sig r.1)
          pure (v, r.2)
        else IM.throw .XPTY0004
    else IM.throw .XPTY0004

/-- argument expressions left to right in the caller's context, threading the dict -/
def evalArgs (c : ICtx) : Env → List (Option Expr) → IM (List (Option Seq) × Env)
  | D, [] => pure ([], D)
  | D, none :: as => do
    let r ← evalArgs c D as
    pure (none :: r.1, r.2)
  | D, some e :: as => do
    let v ← ev e c D
    let r ← evalArgs c v.2 as
    pure (some v.1 :: r.1, r.2)

def evalList (c : ICtx) : Env → List Expr → IM (List Seq × Env)
  | D, [] => pure ([], D)
  | D, e :: es => do
    let v ← ev e c D
    let r ← evalList c v.2 es
    pure (v.1 :: r.1, r.2)

/-- partial application (repaired code): `func.check_arguments_number(len(tokens)); func =
copy(func); func._items = [placeholder or ValueToken(tk.evaluate(context))…]` merged into the
placeholders of an already partial function; `to_partial_function()` -/
def partialApply (c : ICtx) (D : Env) (a : Nat) (args : List (Option Expr)) : IM (Seq × Env) := do
  let o ← IM.getObj a
  if o.nargsOk args.length then do
    let vars ← currentVars cfg o
    let r ← evalArgs ev c D args
    let pat := match o.fixed with | none => r.1 | some old => refill old r.1
    -- `tk.value = func.convert_argument(...)` for the fixed arguments of an inline function
    let pat' ← IM.lift (sigPat o.sig pat)
    let n ← IM.alloc { tok := none, code := o.code, env := vars.1, lex := vars.2, fixed := some pat',
                       fitem := o.fitem, fpos := o.fpos, fsize := o.fsize, sig := o.sig }
    pure ([.fn n], r.2)
  else IM.throw .XPTY0004

/-- function argument of the higher-order functions: `get_argument(context, index=k,
cls=XPathFunction, required=True)` — always evaluated (repair `the higher-order functions evaluate
their function argument`) -/
def funArgEval (c : ICtx) (D : Env) (f : Expr) : IM (Nat × Env) := do
  let v ← ev f c D
  let a ← IM.single v.1
  pure (a, v.2)

/-- `if func.arity != 2: raise XPTY0004` (fold-left, fold-right, for-each-pair) -/
def checkArity (a n : Nat) : IM Unit := do
  let o ← IM.getObj a
  if o.arity = n then pure () else IM.throw .XPTY0004

def funArgCheck (c : ICtx) (D : Env) (f : Expr) (n : Nat) : IM (Nat × Env) := do
  let fa ← funArgEval ev c D f
  checkArity fa.1 n
  pure fa

/-- `for item in …: result = func(item); yield from result` -/
def hofForEach (c : ICtx) (a : Nat) : Env → Seq → Seq → IM (Seq × Env)
  | D, acc, [] => pure (acc, D)
  | D, acc, x :: xs => do
    let r ← callFn cfg ev c D a [[x]]
    hofForEach c a r.2 (acc ++ r.1) xs

/-- `cond = func(item); if not isinstance(cond, bool): raise XPTY0004; if cond: yield item` -/
def hofFilter (c : ICtx) (a : Nat) : Env → Seq → Seq → IM (Seq × Env)
  | D, acc, [] => pure (acc, D)
  | D, acc, x :: xs => do
    let r ← callFn cfg ev c D a [[x]]
    match r.1 with
    | [.bool b] => hofFilter c a r.2 (if b then acc ++ [x] else acc) xs
    | _ => IM.throw .XPTY0004

/-- `result = zero; for item in seq: result = func(result, item)` -/
def hofFoldLeft (c : ICtx) (a : Nat) : Env → Seq → Seq → IM (Seq × Env)
  | D, res, [] => pure (res, D)
  | D, res, x :: xs => do
    let r ← callFn cfg ev c D a [res, [x]]
    hofFoldLeft c a r.2 r.1 xs

/-- `for item in reversed(sequence): result = func(item, result)`: called with the reversed list -/
def hofFoldRightRev (c : ICtx) (a : Nat) : Env → Seq → Seq → IM (Seq × Env)
  | D, res, [] => pure (res, D)
  | D, res, x :: xs => do
    let r ← callFn cfg ev c D a [[x], res]
    hofFoldRightRev c a r.2 r.1 xs

/-- `for item1, item2 in zip(seq1, seq2): yield from func(item1, item2)` -/
def hofPairs (c : ICtx) (a : Nat) : Env → Seq → List (Item × Item) → IM (Seq × Env)
  | D, acc, [] => pure (acc, D)
  | D, acc, (x, y) :: ps => do
    let r ← callFn cfg ev c D a [[x], [y]]
    hofPairs c a r.2 (acc ++ r.1) ps

/-- the key of every item (the real code calls the key function inside every comparison; the
model calls it once per item, in order — justified by `call_repeatable`, see docs/C16.md) -/
def hofKeys (ci : Bool) (c : ICtx) (a : Nat) : Env → List (Item × List Int) → Seq → IM (List (Item × List Int) × Env)
  | D, acc, [] => pure (acc, D)
  | D, acc, x :: xs => do
    let r ← callFn cfg ev c D a [[x]]
    let k ← IM.lift (keyOf ci r.1)
    hofKeys ci c a r.2 (acc ++ [(x, k)]) xs

/-- `sorted(items, key=cmp_to_key(deep_compare ∘ key))`: CPython's stable sort, here `List.mergeSort` -/
def sortByKey (ks : List (Item × List Int)) : Seq :=
  (ks.mergeSort fun p q => keyLe p.2 q.2).map (·.1)

/-- `get_operands`: `op1 = self.get_argument(context); if op1 is None: return None, None` — an empty
left operand ends the evaluation before the right operand is looked at -/
def evArith (op : AOp) (a b : Expr) (c : ICtx) (D : Env) : IM (Seq × Env) := do
  let x ← ev a c D
  match arithOperand x.1 with
  | .error e => IM.throw e
  | .ok none => pure ([], x.2)
  | .ok (some _) => do
    let y ← ev b c x.2
    let r ← IM.lift (arith op x.1 y.1)
    pure (r, y.2)

def evCompare (op : COp) (a b : Expr) (c : ICtx) (D : Env) : IM (Seq × Env) := do
  let x ← ev a c D
  let y ← ev b c x.2
  let r ← IM.lift (compareV op x.1 y.1)
  pure (r, y.2)

/-- `for results in iter_product(...): context.variables.update(...); yield from body.select(copy(context))`
on the private dict `D` of the `for` expression -/
def forLoop (c : ICtx) (x : Nat) (b : Expr) : Env → Seq → Seq → IM (Seq × Env)
  | D, acc, [] => pure (acc, D)
  | D, acc, i :: is => do
    let r ← ev b { c with lex := (x, [i]) :: c.lex } (envSet D x [i])
    forLoop c x b r.2 (acc ++ r.1) is

/-- `for context.item in self[0].select_with_focus(context): yield from self[1].select(context)`
(`select_with_focus`: `context.size = len(results)`, `context.position` = 1, 2, …) -/
def mapLoop (c : ICtx) (b : Expr) (size : Nat) : Nat → Env → Seq → Seq → IM (Seq × Env)
  | _, D, acc, [] => pure (acc, D)
  | k, D, acc, i :: is => do
    let r ← ev b { c with item := some i, pos := k, size := size } D
    mapLoop c b size (k + 1) r.2 (acc ++ r.1) is

def step (e : Expr) (c : ICtx) (D : Env) : IM (Seq × Env) :=
  match e with
  | .lit n => pure ([.int n], D)
  | .dlit n => pure ([.dec n], D)
  | .elit n => pure ([.dbl n], D)
  | .slit cs => pure ([.str cs], D)
  | .nanlit => pure ([.nan], D)
  | .inflit p => pure ([.inf p], D)
  | .negzlit => pure ([.negz], D)
  | .inst t e => do
    let v ← ev e c D
    pure ([.bool (match v.1 with | [x] => t.has x | _ => false)], v.2)
  | .tt => pure ([.bool true], D)
  | .ff => pure ([.bool false], D)
  | .emp => pure ([], D)
  | .var x => do
    -- context.variables[varname]
    IM.flag { scope := decide (D.lookup x ≠ c.lex.lookup x) }
    match D.lookup x with
    | some v => pure (v, D)
    | none => IM.throw .XPST0008
  | .dot => do
    match c.item with
    | some i => pure ([i], D)
    | none => IM.throw .XPDY0002
  | .posE => do
    -- `position()`: context.position
    match c.item with
    | some _ => pure ([.int c.pos], D)
    | none => IM.throw .XPDY0002
  | .lastE => do
    match c.item with
    | some _ => pure ([.int c.size], D)
    | none => IM.throw .XPDY0002
  | .add a b => evArith ev .add a b c D
  | .sub a b => evArith ev .sub a b c D
  | .mul a b => evArith ev .mul a b c D
  | .gt a b => evCompare ev .gt a b c D
  | .eq a b => evCompare ev .eq a b c D
  | .cat a b => do
    let x ← ev a c D
    let y ← ev b c x.2
    pure (x.1 ++ y.1, y.2)
  | .ite cnd t e => do
    let v ← ev cnd c D
    let b ← IM.lift (ebv v.1)
    if b then ev t c v.2 else ev e c v.2
  | .forE x s b => do
    -- context.variables = context.variables.copy(): everything below works on a private dict
    let xs ← ev s c D
    let r ← forLoop ev c x b xs.2 [] xs.1
    pure (r.1, D)
  | .letE x v b => do
    let xv ← ev v c D
    let r ← ev b { c with lex := (x, xv.1) :: c.lex } (envSet xv.2 x xv.1)
    pure (r.1, D)
  | .fnE t ps body => do
    -- pinned: self.variables = context.variables.copy(); return self
    -- repaired: func = copy(self); func.variables = context.variables.copy(); return func
    if cfg.share then IM.setSlot t (D, c.lex) else pure ()
    let n ← IM.alloc { tok := some t, code := .inline ps body, env := some D, lex := c.lex, fixed := none }
    pure ([.fn n], D)
  | .tfnE t ps tys rt body => do
    if cfg.share then IM.setSlot t (D, c.lex) else pure ()
    let n ← IM.alloc { tok := some t, code := .inline ps body, env := some D, lex := c.lex, fixed := none,
                       sig := some (tys, rt) }
    pure ([.fn n], D)
  | .named b => do
    -- a fresh token per evaluation, `func.context = copy(context)`
    let n ← IM.alloc { tok := none, code := .builtin b, env := none, lex := [], fixed := none,
                       fitem := c.item, fpos := c.pos, fsize := c.size }
    pure ([.fn n], D)
  | .call f args => do
    let fv ← ev f c D
    let a ← IM.single fv.1
    if args.any Option.isNone then partialApply cfg ev c fv.2 a args
    else do
      let vals ← evalList ev c fv.2 (args.filterMap id)
      callFn cfg ev c vals.2 a vals.1
  | .spart b args =>
    -- `name(?, v, …)`: the parser makes the call token a partial function; with the repair
    -- `fix: a partial application written in the expression evaluates its fixed arguments when it is
    -- evaluated …` its `evaluate` binds the fixed arguments now and returns a new function item
    if args.length = b.arity then do
      let r ← evalArgs ev c D args
      let n ← IM.alloc { tok := none, code := .builtin b, env := none, lex := [], fixed := some r.1 }
      pure ([.fn n], r.2)
    else IM.throw .XPTY0004
  | .par e => ev e c D
  | .smap a b => do
    let xs ← ev a c D
    mapLoop ev c b xs.1.length 1 xs.2 [] xs.1
  | .forEach s f => do
    let fa ← funArgCheck ev c D f 1
    let xs ← ev s c fa.2
    hofForEach cfg ev c fa.1 xs.2 [] xs.1
  | .filter s f => do
    let fa ← funArgCheck ev c D f 1
    let xs ← ev s c fa.2
    hofFilter cfg ev c fa.1 xs.2 [] xs.1
  | .foldL s z f => do
    let fa ← funArgCheck ev c D f 2
    let zero ← ev z c fa.2
    let xs ← ev s c zero.2
    hofFoldLeft cfg ev c fa.1 xs.2 zero.1 xs.1
  | .foldR s z f => do
    let fa ← funArgCheck ev c D f 2
    let zero ← ev z c fa.2
    let xs ← ev s c zero.2
    hofFoldRightRev cfg ev c fa.1 xs.2 zero.1 xs.1.reverse
  | .pairs s1 s2 f => do
    let fa ← funArgCheck ev c D f 2
    let xs ← ev s1 c fa.2
    -- zip() pulls the first sequence first and stops when it is exhausted
    if xs.1.isEmpty then pure ([], xs.2) else do
      let ys ← ev s2 c xs.2
      hofPairs cfg ev c fa.1 ys.2 [] (xs.1.zip ys.1)
  | .sortK ci s f => do
    -- `ci`: the collation in force is html-ascii-case-insensitive (the collation argument, or for `()`
    -- the parser's default collation — resolved by the harness from the parser it evaluates with)
    let fa ← funArgCheck ev c D f 1
    let xs ← ev s c fa.2
    if xs.1.length < 2 then pure (xs.1, xs.2) else do
      let ks ← hofKeys cfg ev ci c fa.1 xs.2 [] xs.1
      -- `deep_compare`: a boolean key component against a numeric one raises XPTY0004
      if keysUniform (ks.1.map (·.2)) then pure (sortByKey ks.1, ks.2) else IM.throw .XPTY0004
  | .apply f ms => do
    let fa ← funArgEval ev c D f
    let vals ← evalList ev c fa.2 ms
    let o ← IM.getObj fa.1
    -- `if func.arity != len(items): raise FOAP0001`
    if o.arity = vals.1.length then callFn cfg ev c vals.2 fa.1 vals.1 else IM.throw .FOAP0001

end Step

/-- the model's evaluator; same fuel discipline as the specification -/
def eval (cfg : Cfg) : Nat → Expr → ICtx → Env → IM (Seq × Env)
  | 0 => fun _ _ _ => IM.throw .FUEL
  | n + 1 => step cfg (eval cfg n)

structure Outcome where
  result : Except Err Seq
  flags : Flags
  deriving Repr, DecidableEq

/-- a whole program on the tree described by `cfg` -/
def implEval (cfg : Cfg) (fuel : Nat) (p : Expr) : Outcome :=
  let r := eval cfg fuel p { item := some (.int 1), lex := [] } [] { heap := [], slots := [] }
  { result := r.2.map (·.1.1), flags := r.1 }

end EPV.Clo

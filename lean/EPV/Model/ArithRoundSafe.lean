/-
C06 (phase 5): an input-only, decidable sufficient condition under which `quantize` in fn:round /
fn:round-half-to-even cannot leave the local decimal context of `roundCtxDigits` = 2000 digits
(`with decimal.localcontext() as ctx: ctx.prec = 2000` in `xpath30/_xpath30_functions.py evaluate__round`,
`xpath1/_xpath1_functions.py evaluate__round`, `xpath2/_xpath2_functions.py evaluate__round_half_to_even`).

`Decimal.quantize` raises InvalidOperation exactly when the rounded coefficient has more digits than
`ctx.prec`.  The rounded coefficient of n·10^-s at precision p is |n|·10^(p-s) rounded to an integer, so it
cannot be longer than the operand's own coefficient whenever p ≤ s (s = 0 for an xs:integer, i.e. every
zero or NEGATIVE precision on an integer).  Core Lean only.
-/
import EPV.Model.Arith
open EPV.FOArith
namespace EPV.Arith

/-- `roundSafe a p`: the operand is an xs:integer (scale 0) or an xs:decimal n·10^-s whose coefficient has
at most 2000 digits, and the precision does not ask for more fractional digits than the operand has.
Printed by the driver as flag `safe`; inside it the finding F06p is impossible (theorem
`roundSafe_not_F06p`) and the harness accepts no tag. -/
def roundSafe (a : Num) (p : Int) : Bool :=
  match a with
  | .int n => decide (p ≤ 0) && decide (n.natAbs < 10 ^ roundCtxDigits)
  | .dec n s => decide (p ≤ (s : Int)) && decide (n.natAbs < 10 ^ roundCtxDigits)
  | _ => false

/-- the same for a unary operation (false for everything but round / round-half-to-even) -/
def roundSafeOp (op : UnOp) (a : Num) : Bool :=
  match op with
  | .round p => roundSafe a p
  | .rhe p => roundSafe a p
  | _ => false

end EPV.Arith

/-
C02 (phase 5) — the mutation-free navigation API that READS the parent/children links of a built
node tree: `XPathNode.parent`, `ElementNode/DocumentNode.children`, `XPathNode.root_node`
(xpath_nodes.py:190-192), the `while parent is not None` walk of `XPathContext.iter_ancestors`
(xpath_context.py:564-590) and the descent through `children` of `iter_descendants`
(xpath_nodes.py:1037-1056, 1682-1692; xpath_context.py:541-562).

A link (Python object reference) is the `position` of the node it refers to; positions identify the
nodes of one tree (`build_positions_strict`).  `Nav` is one node as the API sees it: its own position,
`node.parent.position` and `[c.position for c in node.children]` — the `children` list is the `kids` list
the builder appended to (`parent.children.append(node)`), the parent link the `parent` argument the node
was constructed with.  Namespace and attribute nodes have a parent but are in no `children` list.
-/
import EPV.Model.Builder
namespace EPV.Builder

/-- one node with its links -/
structure Nav where
  kind : Kind
  pos : Nat
  /-- `node.parent.position` -/
  parent : Option Nat
  /-- `[c.position for c in node.children]` (`[]` for the kinds without children) -/
  children : List Nat
  deriving Repr, DecidableEq, Inhabited

/-- a lazily built namespace / attribute node: parent link, no children -/
def Nav.ofRec (r : Rec) : Nav := ⟨r.kind, r.pos, r.parent, []⟩

mutual
/-- the nodes of a subtree in `iter()` order with the links the builder gave them -/
def navNode (par : Option Nat) : PNode → List Nav
  | .doc p kids => ⟨.document, p, par, kids.map PNode.pos⟩ :: navKids (some p) kids
  | .elem p _ m a _ kids =>
      ⟨.element, p, par, kids.map PNode.pos⟩ ::
        ((namespaceNodes p m ++ attributeNodes p m a).map Nav.ofRec ++ navKids (some p) kids)
  | .text p _ => [⟨.text, p, par, []⟩]
  | .comment p _ => [⟨.comment, p, par, []⟩]
  | .pi p _ _ => [⟨.pi, p, par, []⟩]
def navKids (par : Option Nat) : List PNode → List Nav
  | [] => []
  | n :: ns => navNode par n ++ navKids par ns
end

/-- all nodes of the tree -/
def navOf (root : PNode) : List Nav := navNode none root

/-- dereference a link: the node object with that position -/
def navGet (navs : List Nav) (q : Nat) : Option Nav := navs.find? (·.pos == q)

/-- `node.parent` -/
def navParent (navs : List Nav) (q : Nat) : Option Nat := (navGet navs q).bind (·.parent)

/-- `node.children` -/
def navChildren (navs : List Nav) (q : Nat) : List Nat := ((navGet navs q).map (·.children)).getD []

/-- `iter_ancestors`: `parent = item.parent; while parent is not None: ancestors.append(parent);
parent = parent.parent` — the list `ancestors` (nearest first).  `fuel` bounds the `while`. -/
def navAncLoop (navs : List Nav) : Nat → Nat → List Nat
  | 0, _ => []
  | fuel + 1, q => match navParent navs q with
    | none => []
    | some p => p :: navAncLoop navs fuel p

/-- what `iter_ancestors` yields: `reversed(ancestors)`.  Fuel `q + 1`: every step goes to a smaller
position (`nav_ancestors`), so the `while` has ended before the fuel does. -/
def navIterAncestors (navs : List Nav) (q : Nat) : List Nat := (navAncLoop navs (q + 1) q).reverse

/-- `node.root_node`: `self if self.parent is None else self.parent.tree.root_node` -/
def navRootNode (navs : List Nav) (q : Nat) : Nat :=
  match navParent navs q with
  | none => q
  | some _ => (navs.head?.map (·.pos)).getD q

/-- `iter_descendants(with_self=True)` read as a recursion through `children` -/
def navDescLoop (navs : List Nav) : Nat → Nat → List Nat
  | 0, _ => []
  | fuel + 1, q => q :: (navChildren navs q).flatMap (navDescLoop navs fuel)

/-- descendants-or-self; the depth of a tree is below its number of nodes -/
def navDescendants (navs : List Nav) (q : Nat) : List Nat := navDescLoop navs (navs.length + 1) q

end EPV.Builder

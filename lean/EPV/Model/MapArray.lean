/-
Model of XPath 3.1 maps and arrays as implemented by elementpath (C15).  Core Lean only.

Python sources mirrored (tree = pinned snapshot + the `fix:` commits of branch fix-c15):
  elementpath/xpath_tokens/maps.py      XPathMap.__init__ (duplicate check), __call__, keys/items
  elementpath/xpath_tokens/arrays.py    XPathArray.__init__, __call__, items, iter_flatten
  elementpath/xpath31/_xpath31_functions.py   map:* (101-312) and array:* (314-520)
  elementpath/xpath31/_xpath31_operators.py   LookupOperatorToken.select (`?`)
  elementpath/compare.py                same_key
  elementpath/helpers.py                not_equal

Layers
  1. `Key`      atomic values used as keys, with the three key relations the code really uses:
                `dictEq`  (Python dict: hash + ==, NaN in the `None` slot),
                `scanEq`  (`==` scans with the NaN special cases: not_equal, map:contains, same_key),
  2. pure functions over insertion-ordered association lists (`Entries`) and lists (arrays),
     each a transcription of the named Python function body,
  3. a small heap machine: maps and arrays are *objects* in a `Store`, values refer to them by
     address, every operation allocates its result; with `alias := true` the three array
     functions `array:put/append/insert-before` behave as on the pinned tree (they write into
     the operand's own list), with `alias := false` as after the fix (they copy).
-/
namespace EPV.MapArray

/-! ## 1. keys -/

/-- Atomic values that occur as keys / atomic items.
`dec`/`dbl` carry the exact rational value (Python `Decimal`/finite `float`); `negz` only
records the sign of a zero double for printing.  `str`/`uri` are code-point lists.
`date year utc tz`: an xs:date with lexical year `year`, starting instant `utc` (minutes on the
proleptic timeline, the timezone applied, or taken as UTC when there is none) and optional
timezone offset in minutes.
`opq tag rep`: a value of a type whose identity is decided by a canonical representative computed
by the harness: tag 1 = xs:QName (`rep` = code points of `{namespace}local`), 2 = a duration
(`[months, microseconds]`), 3 = xs:hexBinary, 4 = xs:base64Binary (`rep` = the octets).
`unt s`: an xs:untypedAtomic with the string `s` (kept as it is by the constructor, map:entry and
map:put alike). -/
inductive Key where
  | int (v : Int)
  | dec (v : Rat)
  | dbl (v : Rat) (negz : Bool)
  | dnan
  | dinf (neg : Bool)
  | str (s : List Nat)
  | uri (s : List Nat)
  | bool (b : Bool)
  | date (year utc : Int) (tz : Option Int)
  | opq (tag : Nat) (rep : List Int)
  | unt (s : List Nat)
  deriving DecidableEq, Inhabited

inductive Err where
  | XQDY0137 | FOJS0003 | FOJS0005 | FOAY0001 | FOAY0002 | XPTY0004
  deriving DecidableEq, Inhabited

deriving instance DecidableEq for Except

/-- Equivalence class of a value under Python `==` (NaN apart): `int`, `Decimal`, `float` and
a boolean only equals the same boolean for every key relation of the code (since the fix "boolean
keys of a map are kept apart from the numbers 0 and 1": `same_key` has a bool test, the dict stores
booleans under a wrapper `dict_key`); `int`, `Decimal`, `float` compare by exact numeric value, `str` and `AnyURI` by
their string (uri.py `AnyURI.__eq__`), dates by `AbstractDateTime._compare` (datetime.py:257-289,
after C11's fix "values of contiguous years are compared as instants"): the instants with a missing
timezone read as UTC (the `year` field of a `Key.date` is the lexical year of that very date —
harness invariant), and `same_key` additionally requires both or neither value to have a timezone;
QNames, durations and binaries by value within their kind (`same_key` keeps hexBinary and
base64Binary apart).  `Key.eqRep` is the class under `compare.same_key`, the relation of all scans. -/
inductive EqRep where
  | num (v : Rat) | nan | inf (neg : Bool) | text (s : List Nat) | date (utc : Int) (aware : Bool)
  | opq (tag : Nat) (rep : List Int) | bool (b : Bool)
  deriving DecidableEq

def Key.eqRep : Key → EqRep
  | .int v => .num v
  | .dec v => .num v
  | .dbl v _ => .num v
  | .bool b => .bool b
  | .dnan => .nan
  | .dinf n => .inf n
  | .str s => .text s
  | .uri s => .text s
  | .unt s => .text s
  | .date _ u tz => .date u tz.isSome         -- same_key: both or neither value has a timezone
  | .opq t r => .opq t r                      -- same_key: hexBinary / base64Binary are not comparable

/-- What a Python dict distinguishes: `hash(k)` and `==`.  Hashes agree with `==` on numbers,
and strings (`hash(1) = hash(1.0) = hash(Decimal(1))`; booleans are wrapped by `dict_key`),
`AnyURI.__hash__ = hash(value)`), on dates since the fix "date/time values hash by their instant"
(`hash(self.todelta())`), on QNames and durations; an xs:hexBinary and an xs:base64Binary with the
same octets are `==` but hash their *text* (`hash(value.upper())` / `hash(value)`), which differs
unless both are empty (assumption: no accidental collision otherwise), so only the two empty
binaries meet in a dict. -/
inductive DictRep where
  | num (v : Rat) | nan | inf (neg : Bool) | text (s : List Nat) | date (utc : Int) (aware : Bool)
  | opq (tag : Nat) (rep : List Int) | bool (b : Bool)
  deriving DecidableEq

def Key.dictRep : Key → DictRep
  | .int v => .num v
  | .dec v => .num v
  | .dbl v _ => .num v
  | .bool b => .bool b
  | .dnan => .nan
  | .dinf n => .inf n
  | .str s => .text s
  | .uri s => .text s
  | .unt s => .text s
  | .date _ u tz => .date u tz.isSome         -- dict_key wraps the values without timezone
  | .opq t r => .opq t r                      -- dict_key wraps xs:base64Binary values

/-- same dict slot: `k in _map` / `_map[k]` of `XPathMap` (maps.py: NaN is stored under `None`,
so two NaNs meet). -/
def dictEq (a b : Key) : Bool := decide (a.dictRep = b.dictRep)

/-- `compare.same_key` (compare.py:387) on this key domain — the relation of every key scan
(map:contains/put/remove/find, map:merge slow path): Python `==`, plus NaN equal to NaN; a QName
is never the same key as a string (the `AbstractQName` xor test). -/
def scanEq (a b : Key) : Bool := decide (a.eqRep = b.eqRep)

/-- transcription of `compare.same_key(k1, k2)` (compare.py, after the fixes of fix-c15-3: boolean,
timezone and binary-type tests before the final `k1 == k2`) -/
def sameKeyPy (k1 k2 : Key) : Bool :=
  match k1 with
  | .str s | .uri s | .unt s =>            -- isinstance(k1, (str, AnyURI, UntypedAtomic))
    match k2 with
    | .str t | .uri t | .unt t => s == t   -- str(k1) == str(k2)
    | _ => false
  | .dnan => k2 == .dnan                   -- isinstance(k2, float) and math.isnan(k2)
  | .bool b => k2 == .bool b               -- isinstance(k1, bool) ^ isinstance(k2, bool) → False; else ==
  | .date _ u tz =>
    match k2 with
    | .date _ u' tz' => tz.isSome == tz'.isSome && u == u'   -- timezone presence, then == (instants)
    | _ => false
  | .opq t r =>
    match k2 with
    | .opq t' r' => t == t' && r == r'     -- binaries: same type; QName / durations: ==
    | _ => false
  | k1 =>                                  -- numbers: k1 == k2 (a boolean k2 is excluded by the xor test)
    match k2 with
    | .bool _ => false
    | k2 => k2.eqRep != .nan && decide (k1.eqRep = k2.eqRep)

/-! ## 2. pure functions -/

abbrev Entries (α : Type) := List (Key × α)

/-- `k in d` -/
def dictHas (es : Entries α) (k : Key) : Bool := es.any fun e => dictEq e.1 k

/-- `d[k]` / `KeyError` -/
def dictGet (es : Entries α) (k : Key) : Option α := (es.find? fun e => dictEq e.1 k).map (·.2)

/-- `d[k] = v`: an existing slot keeps its *old key object* and position -/
def dictSet : Entries α → Key → α → Entries α
  | [], k, v => [(k, v)]
  | (k', v') :: es, k, v => if dictEq k' k then (k', v) :: es else (k', v') :: dictSet es k v

/-- `d.pop(k)` -/
def dictPop (es : Entries α) (k : Key) : Entries α := es.filter fun e => !dictEq e.1 k

/-- `{k: v for k, v in pairs}` -/
def dictOfList (l : List (Key × α)) : Entries α := l.foldl (fun d e => dictSet d e.1 e.2) []

/-- `XPathMap.__init__(items)` (maps.py:95-116 after the F15a fix): a second NaN or a key already
in `_map` raises XQDY0137, otherwise the entry is appended. -/
def ctorAux (acc : Entries α) : List (Key × α) → Except Err (Entries α)
  | [] => .ok acc
  | (k, v) :: rest => if dictHas acc k then .error .XQDY0137 else ctorAux (acc ++ [(k, v)]) rest

def mapCtor (l : List (Key × α)) : Except Err (Entries α) := ctorAux [] l

/-- `map_(key)` = `XPathMap.__call__` (maps.py:191-214): `_map[key]`, `[]` on KeyError -/
def mapGet (es : Entries (List β)) (k : Key) : List β := (dictGet es k).getD []

/-- `map:contains` (functions.py, after the fix "identify keys with same_key"):
`any(same_key(k, key) for k in keys)`; `same_key` is `scanEq` on this domain (`sameKeyPy_eq_scanEq`) -/
def mapContains (es : Entries α) (k : Key) : Bool := es.any fun e => scanEq e.1 k

/-- `map:put` (functions.py, after the boolean-key fix):
`items = [(k, v) for k, v in map_.items() if not same_key(k, key)]; items.append((key, value)); XPathMap(items)` -/
def mapPut (es : Entries α) (k : Key) (v : α) : Except Err (Entries α) :=
  mapCtor ((es.filter fun e => !scanEq e.1 k) ++ [(k, v)])

/-- `map:remove`: keep `(k, v)` when `not any(same_key(k, x) for x in keys)` -/
def mapRemove (es : Entries α) (ks : List Key) : Except Err (Entries α) :=
  mapCtor (es.filter fun e => ks.all fun x => !scanEq e.1 x)

/-- `map:entry` (functions.py:200-212) -/
def mapEntry (k : Key) (v : α) : Except Err (Entries α) := mapCtor [(k, v)]

inductive Policy where
  | useFirst | useLast | useAny | reject | combine
  deriving DecidableEq, Inhabited

/-- `isinstance(k1, SAFE_KEY_ATOMIC_TYPES) or isinstance(k1, float) and not math.isnan(k1)`
(functions.py:233): int (and so bool), Decimal, dates, durations, binaries, non-NaN doubles take the dict fast path. -/
def isSafeKey : Key → Bool
  | .str _ | .uri _ | .unt _ | .dnan => false
  | .opq 1 _ => false                      -- a QName is not in SAFE_KEY_ATOMIC_TYPES
  | _ => true

/-- one `(k1, v)` of the `map:merge` loop (functions.py:231-263, after the F15e fix the `combine`
branch builds a new concatenated list) -/
def mergeStep (pol : Policy) (items : Entries (List β)) (e : Key × List β) : Except Err (Entries (List β)) :=
  let (k1, v) := e
  if isSafeKey k1 then
    if !dictHas items k1 then .ok (dictSet items k1 v)          -- items[k1] = v
    else match pol with
      | .reject => .error .FOJS0003
      | .useLast => .ok (dictSet (dictPop items k1) k1 v)       -- items.pop(k1); items[k1] = v
      | .combine => .ok (dictSet items k1 (mapGet items k1 ++ v))
      | _ => .ok items
  else
    match items.find? fun e2 => sameKeyPy k1 e2.1 with           -- for k2 in items: if same_key(k1, k2)
    | none => .ok (dictSet items k1 v)                           -- for-else
    | some (k2, v2) =>
      match pol with
      | .reject => .error .FOJS0003
      | .useLast => .ok (dictSet (dictPop items k2) k1 v)
      | .combine => .ok (dictSet items k2 (v2 ++ v))
      | _ => .ok items

def mergeLoop (pol : Policy) : Entries (List β) → List (Key × List β) → Except Err (Entries (List β))
  | items, [] => .ok items
  | items, e :: rest =>
    match mergeStep pol items e with
    | .ok items' => mergeLoop pol items' rest
    | .error x => .error x

/-- `map:merge` (functions.py:215-266): all entries of all maps in order, then `XPathMap(items)` -/
def mapMerge (maps : List (Entries (List β))) (pol : Policy) : Except Err (Entries (List β)) :=
  match mergeLoop pol [] maps.flatten with
  | .ok items => mapCtor items
  | .error x => .error x

/-! arrays: Python list operations with 1-based positions -/

/-- `XPathArray.__call__` (arrays.py:104-121) -/
def arrGet (ms : List α) (p : Int) : Except Err α :=
  if p ≤ 0 then .error .FOAY0001
  else match ms[(p - 1).toNat]? with
    | some x => .ok x
    | none => .error .FOAY0001

/-- `array:put` (functions.py:333-356): `items[position - 1] = member` / IndexError -/
def arrPut (ms : List α) (p : Int) (v : α) : Except Err (List α) :=
  if p ≤ 0 then .error .FOAY0001
  else if (p - 1).toNat < ms.length then .ok (ms.set (p - 1).toNat v)
  else .error .FOAY0001

/-- `array:insert-before` (functions.py:359-384): `items.insert(position - 1, member)` -/
def arrInsertBefore (ms : List α) (p : Int) (v : α) : Except Err (List α) :=
  if p ≤ 0 ∨ p > (ms.length : Int) + 1 then .error .FOAY0001
  else .ok (ms.insertIdx (p - 1).toNat v)

/-- `array:append` (functions.py:387-402) -/
def arrAppend (ms : List α) (v : α) : List α := ms ++ [v]

/-- `array:remove` (functions.py:405-430): every position must satisfy `0 < p <= len`;
`(v for k, v in enumerate(items, 1) if k not in positions)` -/
def arrRemove (ms : List α) (ps : List Int) : Except Err (List α) :=
  if ps.all fun p => 0 < p && p ≤ (ms.length : Int) then
    .ok ((ms.zipIdx 1).filterMap fun (v, k) => if ps.contains (k : Int) then none else some v)
  else .error .FOAY0001

/-- `array:subarray` (functions.py:433-459, after the error-code fix the negative length is
tested first): slices `items[start-1:start+length-1]`, `items[start-1:]` -/
def arrSubarray (ms : List α) (start : Int) (len : Option Int) : Except Err (List α) :=
  if (match len with | some l => decide (l < 0) | none => false) then .error .FOAY0002
  else if start < 1 ∨ start > (ms.length : Int) + 1 then .error .FOAY0001
  else match len with
    | none => .ok (ms.drop (start - 1).toNat)
    | some l =>
      if start + l > (ms.length : Int) + 1 then .error .FOAY0001
      else .ok ((ms.drop (start - 1).toNat).take l.toNat)

/-- `array:head` (functions.py:460-473) -/
def arrHead : List α → Except Err α
  | [] => .error .FOAY0001
  | x :: _ => .ok x

/-- `array:tail` (functions.py:476-489): `items[1:]` -/
def arrTail : List α → Except Err (List α)
  | [] => .error .FOAY0001
  | _ :: xs => .ok xs

/-- `array:reverse` (functions.py:492-502) -/
def arrReverse (ms : List α) : List α := ms.reverse

/-! deep-equal on atomic values, higher-order array functions -/

/-- `float(x)` for a rational `x` (a `Decimal`): the nearest binary64 value, ties to even.
Normal range only (no overflow to INF, no subnormals) — enough for every literal the harness
produces; assumption of the trusted base: CPython's `float(Decimal)` is correctly rounded. -/
def roundDbl (x : Rat) : Rat :=
  if x = 0 then 0 else
  let neg := decide (x < 0)
  let n := x.num.natAbs
  let d := x.den
  -- e with 2^52 <= n / (d * 2^e) < 2^53, found from the bit lengths and corrected by one
  let e0 : Int := (n.log2 : Int) - (d.log2 : Int) - 52
  let scaled (e : Int) : Nat × Nat := if e ≥ 0 then (n, d * 2 ^ e.toNat) else (n * 2 ^ (-e).toNat, d)
  let fits (e : Int) : Bool := let (a, b) := scaled e; decide (2 ^ 52 * b ≤ a) && decide (a < 2 ^ 53 * b)
  let e := if fits e0 then e0 else if fits (e0 - 1) then e0 - 1 else e0 + 1
  let (a, b) := scaled e
  let q := a / b
  let r := a % b
  let m := if 2 * r < b then q else if 2 * r > b then q + 1 else if q % 2 = 0 then q else q + 1
  let v : Rat := if e ≥ 0 then (m * 2 ^ e.toNat : Nat) else mkRat m (2 ^ (-e).toNat)
  if neg then -v else v

/-- the atomic branch of `compare.deep_equal` (compare.py, `else:` of the item loop, codepoint
collation) on this value domain -/
def pyAtomEq (a b : Key) : Bool :=
  match a, b with
  | .bool x, .bool y => x == y                         -- value1 is value2
  | .bool _, _ => false
  | _, .bool _ => false
  | .str s, .str t | .str s, .uri t | .uri s, .str t | .uri s, .uri t => s == t   -- strcoll == 0
  | .unt s, .str t | .unt s, .uri t | .unt s, .unt t | .str s, .unt t | .uri s, .unt t => s == t
  | .unt _, _ => false                                 -- an untypedAtomic against a non-string
  | _, .unt _ => false
  -- value1 is a float
  | .dnan, b => b == .dnan
  | .dinf n, b => b == .dinf n
  | .dbl v _, .dec w => v == roundDbl w                -- value1 != float(value2)
  | .dbl v _, .dbl w _ => v == w
  | .dbl v _, .int w => v == roundDbl (w : Rat)        -- value1 != as_double(value2): the integer is promoted
  | .dbl _ _, _ => false
  -- value2 is a float
  | _, .dnan => false
  | _, .dinf _ => false
  | .dec w, .dbl v _ => v == roundDbl w
  | .int w, .dbl v _ => roundDbl (w : Rat) == v
  | _, .dbl _ _ => false
  -- value1 != value2 (for dates the plain `==`: instants, a missing timezone read as UTC)
  | .date _ u _, .date _ u' _ => u == u'
  | a, b => decide (a.eqRep = b.eqRep)

/-- function arguments used with the higher-order functions (all pure, none allocates):
`function($x){$x}`, `function($x){<literal>}`, `function($x){($x,$x)}`, `function($x){count($x)}` -/
inductive Fn1 where
  | ident | const (k : Key) | dup | count
  deriving DecidableEq, Inhabited

/-- predicates for array:filter: `true()`/`false()`, `exists($x)`, `count($x) = 1`, and
`count($x)` (not a boolean: XPTY0004) -/
inductive Pred1 where
  | always (b : Bool) | nonEmpty | single | notBool
  deriving DecidableEq, Inhabited

/-- binary functions: `($a,$b)`, `($b,$a)`, `$a`, `$b`, `count($b)` -/
inductive Fn2 where
  | concat | rconcat | left | right | countR
  deriving DecidableEq, Inhabited

/-- `array:filter` (functions.py `filter_function` inside `filter(...)`) -/
def filterLoop (p : α → Option Bool) : List α → Except Err (List α)
  | [] => .ok []
  | x :: xs =>
    match p x with
    | none => .error .XPTY0004
    | some b =>
      match filterLoop p xs with
      | .ok r => .ok (if b then x :: r else r)
      | .error e => .error e

/-- `array:fold-left`: `for item in items: result = func(result, item)` -/
def foldLLoop (f : β → α → β) : β → List α → β
  | acc, [] => acc
  | acc, x :: xs => foldLLoop f (f acc x) xs

/-- `array:fold-right`: `for item in reversed(items): result = func(item, result)` -/
def foldRLoop (f : α → β → β) (zero : β) (ms : List α) : β := foldLLoop (fun acc x => f x acc) zero ms.reverse

/-- `array:for-each-pair`: `map(lambda x: func(*x), zip(items1, items2))` -/
def pairLoop (f : α → α → β) : List α → List α → List β
  | a :: as, b :: bs => f a b :: pairLoop f as bs
  | _, _ => []

/-! array:sort (functions.py `evaluate__array_sort`: `sorted(items, key=cmp_to_key(deep_compare …))`,
default collation) on the fragment where every member is a sequence of numbers (integer, decimal,
finite double) or every member is a sequence of xs:string values -/

/-- sort key of an atomic item: a number by its exact value, a string by its code points -/
inductive SKey where
  | num (v : Rat) | str (s : List Nat)
  deriving DecidableEq, Inhabited

def Key.sortKey? : Key → Option SKey
  | .int v => some (.num v)
  | .dec v => some (.num v)
  | .dbl v _ => some (.num v)
  | .str s => some (.str s)
  | _ => none

def lexLtNat : List Nat → List Nat → Bool
  | [], [] => false
  | [], _ :: _ => true
  | _ :: _, [] => false
  | a :: as, b :: bs => if a < b then true else if b < a then false else lexLtNat as bs

/-- strict order of sort keys (numbers before strings — the two never meet in one sort) -/
def SKey.lt : SKey → SKey → Bool
  | .num a, .num b => decide (a < b)
  | .str a, .str b => lexLtNat a b
  | .num _, .str _ => true
  | .str _, .num _ => false

/-- `deep_compare` of two sort keys (sequences): item by item, a proper prefix first -/
def lexLe : List SKey → List SKey → Bool
  | [], _ => true
  | _ :: _, [] => false
  | a :: as, b :: bs => if a.lt b then true else if b.lt a then false else lexLe as bs

def memberKey (m : List Key) : Option (List SKey) := m.mapM Key.sortKey?

def SKey.isNum : SKey → Bool | .num _ => true | .str _ => false

/-- Python's stable `sorted` with the comparator above; XPTY0004 when numbers and strings are mixed
(or a member is outside the fragment) -/
def arrSortKeyed (ms : List (α × List SKey)) : Except Err (List α) :=
  let ks := (ms.map (·.2)).flatten
  if ks.all SKey.isNum || ks.all (fun k => !k.isNum) then
    .ok ((ms.mergeSort fun a b => lexLe a.2 b.2).map (·.1))
  else .error .XPTY0004

/-! ## 3. heap machine -/

inductive Item where
  | atom (k : Key)
  | ref (a : Nat)
  deriving DecidableEq, Inhabited

abbrev Seq := List Item

inductive Obj where
  | arr (ms : List Seq)
  | map (es : Entries Seq)
  deriving DecidableEq, Inhabited

abbrev Store := List Obj

def intItem (n : Int) : Seq := [.atom (.int n)]
def boolItem (b : Bool) : Seq := [.atom (.bool b)]

def Fn1.app : Fn1 → Seq → Seq
  | .ident, x => x
  | .const k, _ => [.atom k]
  | .dup, x => x ++ x
  | .count, x => intItem x.length

def Pred1.app : Pred1 → Seq → Option Bool
  | .always b, _ => some b
  | .nonEmpty, x => some (!x.isEmpty)
  | .single, x => some (x.length == 1)
  | .notBool, _ => none

def Fn2.app : Fn2 → Seq → Seq → Seq
  | .concat, a, b => a ++ b
  | .rconcat, a, b => b ++ a
  | .left, a, _ => a
  | .right, _, b => b
  | .countR, _, b => intItem b.length

/-- the pure functions an interpreter is built from; `pyDialect` = the transcriptions above,
`specDialect` (EPV/Spec/FOMaps.lean) = the F&O definitions -/
structure Dialect where
  alias : Bool
  mapCtor : List (Key × Seq) → Except Err (Entries Seq)
  mapPut : Entries Seq → Key → Seq → Except Err (Entries Seq)
  mapRemove : Entries Seq → List Key → Except Err (Entries Seq)
  mapGet : Entries Seq → Key → Seq
  mapContains : Entries Seq → Key → Bool
  /-- `k in m.keys()` as used by deep-equal -/
  mapHas : Entries Seq → Key → Bool
  /-- deep-equal on two atomic items -/
  atomEq : Key → Key → Bool
  mapMerge : List (Entries Seq) → Policy → Except Err (Entries Seq)
  findEq : Key → Key → Bool
  arrIndex : Key → Except Err Int
  arrGet : List Seq → Int → Except Err Seq
  arrPut : List Seq → Int → Seq → Except Err (List Seq)
  arrInsertBefore : List Seq → Int → Seq → Except Err (List Seq)
  arrAppend : List Seq → Seq → List Seq
  arrRemove : List Seq → List Int → Except Err (List Seq)
  arrSubarray : List Seq → Int → Option Int → Except Err (List Seq)
  arrHead : List Seq → Except Err Seq
  arrTail : List Seq → Except Err (List Seq)
  arrReverse : List Seq → List Seq

/-- `item(value)` for an array item of a `?` lookup: `XPathArray.__call__` wants an `int` that is not
a `bool` (XPTY0004 otherwise) -/
def pyArrIndex : Key → Except Err Int
  | .int v => .ok v
  | _ => .error .XPTY0004

def pyDialect (alias : Bool) : Dialect where
  alias := alias
  mapCtor := mapCtor
  mapPut := mapPut
  mapRemove := mapRemove
  mapGet := mapGet
  mapContains := mapContains
  mapHas := dictHas
  atomEq := pyAtomEq
  mapMerge := mapMerge
  findEq := sameKeyPy
  arrIndex := pyArrIndex
  arrGet := arrGet
  arrPut := arrPut
  arrInsertBefore := arrInsertBefore
  arrAppend := arrAppend
  arrRemove := arrRemove
  arrSubarray := arrSubarray
  arrHead := arrHead
  arrTail := arrTail
  arrReverse := arrReverse

/-- a piece of a sequence constructor `(…, …)`: a literal atom or an earlier value -/
inductive Arg where
  | lit (k : Key)
  | var (i : Nat)
  deriving DecidableEq, Inhabited

/-- One step = one XPath expression whose operands are earlier values `$v_i` and literals.
The result is bound to the next variable. -/
inductive Op where
  | seq (parts : List Arg)                       -- `($v1, 3, $v2)`
  | mCtor (es : List (Key × Nat))                -- `map{k1: $v_i, …}`
  | mPut (m : Nat) (k : Key) (v : Nat)           -- `map:put($m, k, $v)`
  | mRemove (m : Nat) (ks : List Key)
  | mGet (m : Nat) (k : Key)
  | mContains (m : Nat) (k : Key)
  | mSize (m : Nat)
  | mKeys (m : Nat)
  | mEntry (k : Key) (v : Nat)
  | mMerge (ms : Nat) (pol : Option Policy)      -- `none`: an unknown `duplicates` option (FOJS0005)
  | mFind (input : Nat) (k : Key)
  | mForEach (m : Nat)                           -- `map:for-each($m, function($k,$v){[$k,$v]})`
  | lookup (v : Nat) (ks : Option (List Key))    -- `$v?*` / `$v?(k1, k2, …)`
  | aSquare (ms : List Nat)                      -- `[$v1, $v2]`
  | aCurly (v : Nat)                             -- `array{$v}`
  | aGet (a : Nat) (p : Int)
  | aPut (a : Nat) (p : Int) (v : Nat)
  | aInsert (a : Nat) (p : Int) (v : Nat)
  | aAppend (a : Nat) (v : Nat)
  | aRemove (a : Nat) (ps : List Int)
  | aSub (a : Nat) (start : Int) (len : Option Int)
  | aHead (a : Nat)
  | aTail (a : Nat)
  | aReverse (a : Nat)
  | aJoin (v : Nat)
  | aFlatten (v : Nat)
  | aSize (a : Nat)
  | aForEach (a : Nat) (f : Fn1)                 -- `array:for-each($a, f)`
  | aFilter (a : Nat) (p : Pred1)                -- `array:filter($a, p)`
  | aFoldL (a : Nat) (z : Nat) (f : Fn2)      -- `array:fold-left($a, $zero, f)`
  | aFoldR (a : Nat) (z : Nat) (f : Fn2)      -- `array:fold-right($a, $zero, f)`
  | aForEachPair (a b : Nat) (f : Fn2)           -- `array:for-each-pair($a, $b, f)`
  | mForEachF (m : Nat) (f : Fn2)                -- `map:for-each($m, f)`
  | deq (a b : Nat)                              -- `deep-equal($a, $b)`
  | aSort (a : Nat)                              -- `array:sort($a)` (members: numbers only or strings only)
  | call (f k : Nat) (first : Bool)              -- `$f(K)`: K = `$k`, or its first item (`$k[1]`, `head($k)`)
  | call2 (t k1 k2 : Nat)                        -- `$t($k1)($k2)`
  deriving Inhabited

/-- literal keys of an operation (what the clash predicate of the findings F15d/F15f looks at) -/
def opKeys : Op → List Key
  | .mCtor es => es.map (·.1)
  | .mPut _ k _ | .mGet _ k | .mContains _ k | .mEntry k _ | .mFind _ k => [k]
  | .mRemove _ ks => ks
  | .lookup _ (some ks) => ks
  | _ => []

/-- operations that only read (no object is created): map:get/contains/size/keys, array:get/head/size
and the `?` lookup; with the variables they read -/
def readVars : Op → Option (List Nat)
  | .mGet m _ | .mContains m _ | .mSize m | .mKeys m => some [m]
  | .aGet a _ | .aHead a | .aSize a => some [a]
  | .lookup v _ => some [v]
  | _ => none

/-- `deep-equal` steps are outside the refinement theorem (their atom comparison has its own
agreement theorem and clash predicate) -/
def opIsDeq : Op → Bool
  | .deq .. => true
  | _ => false

structure St where
  store : Store
  env : List Seq
  deriving Inhabited

/-- `$v_i` (unbound = empty sequence; the generator never refers to an unbound variable) -/
def St.var (st : St) (i : Nat) : Seq := st.env.getD i []

/-- `get_argument(context, cls=XPathMap, required=True)`: exactly one item, which is a map -/
def asMap (s : Store) (v : Seq) : Except Err (Entries Seq) :=
  match v with
  | [.ref a] => match s[a]? with
    | some (.map es) => .ok es
    | _ => .error .XPTY0004
  | _ => .error .XPTY0004

def asArr (s : Store) (v : Seq) : Except Err (Nat × List Seq) :=
  match v with
  | [.ref a] => match s[a]? with
    | some (.arr ms) => .ok (a, ms)
    | _ => .error .XPTY0004
  | _ => .error .XPTY0004

/-- `XPathMap(parser, items)` / `XPathArray(parser, items)`: a new object -/
def alloc (s : Store) (o : Obj) : Store × Seq := (s ++ [o], [.ref s.length])

/-- `XPathArray.iter_flatten` (arrays.py:128-141) / `array:flatten` (functions.py:520-532);
`fuel` bounds the nesting depth (every reference points to an older object) -/
def flattenItems (s : Store) : Nat → Seq → Seq
  | 0, _ => []
  | fuel + 1, v => v.flatMap fun it =>
    match it with
    | .atom k => [.atom k]
    | .ref a => match s[a]? with
      | some (.arr ms) => flattenItems s fuel ms.flatten
      | _ => [.ref a]

/-- `collect_matching_items` of `map:find` (functions.py:276-291) -/
def findItems (eq : Key → Key → Bool) (s : Store) (key : Key) : Nat → Seq → List Seq
  | 0, _ => []
  | fuel + 1, v => v.flatMap fun it =>
    match it with
    | .atom _ => []
    | .ref a => match s[a]? with
      | some (.arr ms) => ms.flatMap fun m => findItems eq s key fuel m
      | some (.map es) => es.flatMap fun e =>
          (if eq e.1 key then [e.2] else []) ++ findItems eq s key fuel e.2
      | none => []

/-- one item of the left operand of `?` (operators.py:202-229) -/
def lookupItem (d : Dialect) (s : Store) (ks : Option (List Key)) (it : Item) : Except Err Seq :=
  match it with
  | .atom _ => .error .XPTY0004
  | .ref a => match s[a]? with
    | some (.map es) => match ks with
      | none => .ok (es.flatMap (·.2))
      | some ks => .ok (ks.flatMap fun k => d.mapGet es k)
    | some (.arr ms) => match ks with
      | none => .ok ms.flatten
      | some ks => (ks.mapM fun k => do let p ← d.arrIndex k; d.arrGet ms p).map List.flatten
    | none => .error .XPTY0004


mutual
  /-- `sequence_deep_equal` of compare.py (after the fix "deep-equal compares maps and arrays
  recursively") on atoms, maps and arrays; `fuel` bounds the nesting depth -/
  def deepEqSeq (d : Dialect) (s : Store) : Nat → Seq → Seq → Bool
    | 0, _, _ => false
    | fuel + 1, v1, v2 =>
      v1.length == v2.length && (v1.zip v2).all fun p => deepEqItem d s fuel p.1 p.2
  def deepEqItem (d : Dialect) (s : Store) : Nat → Item → Item → Bool
    | _, .atom a, .atom b => d.atomEq a b
    | 0, _, _ => false
    | fuel + 1, .ref a, .ref b =>
      match s[a]?, s[b]? with
      | some (.map e1), some (.map e2) =>
        e1.length == e2.length &&
          e1.all fun e => d.mapHas e2 e.1 && deepEqSeq d s fuel e.2 (d.mapGet e2 e.1)
      | some (.arr m1), some (.arr m2) =>
        m1.length == m2.length && (m1.zip m2).all fun p => deepEqSeq d s fuel p.1 p.2
      | _, _ => false
    | _, _, _ => false
end

/-- all atomic values reachable from a value (for the clash predicate of deep-equal) -/
def atomsOf (s : Store) : Nat → Seq → List Key
  | 0, _ => []
  | fuel + 1, v => v.flatMap fun it =>
    match it with
    | .atom k => [k]
    | .ref a => match s[a]? with
      | some (.arr ms) => atomsOf s fuel ms.flatten
      | some (.map es) => es.flatMap fun e => e.1 :: atomsOf s fuel e.2
      | none => []

/-- A map or an array called as a function with one argument — `XPathMap.__call__` /
`XPathArray.__call__` reached through the dynamic function call `$f(K)`: the function must be one
map or array, a one-item argument sequence is that item, the item must be atomic (for an array: an
xs:integer position); anything else is XPTY0004. -/
def callFn (d : Dialect) (s : Store) (f : Seq) (arg : Seq) : Except Err Seq :=
  match arg with
  | [.atom key] =>
    match f with
    | [.ref a] =>
      match s[a]? with
      | some (.map es) => .ok (d.mapGet es key)
      | some (.arr ms) => do let p ← d.arrIndex key; d.arrGet ms p
      | none => .error .XPTY0004
    | _ => .error .XPTY0004
  | _ => .error .XPTY0004

/-- sort key of an array member (a sequence of atomic items of the fragment) -/
def seqSortKey (m : Seq) : Option (List SKey) :=
  m.mapM fun it => match it with
    | .atom k => k.sortKey?
    | .ref _ => none

/-- `array:sort($a)` -/
def arrSort (ms : List Seq) : Except Err (List Seq) :=
  match ms.mapM (fun m => (seqSortKey m).map fun k => (m, k)) with
  | some keyed => arrSortKeyed keyed
  | none => .error .XPTY0004

def allocMany (s : Store) : List Obj → Store × Seq
  | [] => (s, [])
  | o :: os =>
    let (s1, r) := alloc s o
    let (s2, rs) := allocMany s1 os
    (s2, r ++ rs)

/-- the three array functions of F15c: with `alias` the operand's own list is overwritten too -/
def writeBack (d : Dialect) (s : Store) (a : Nat) (ms : List Seq) : Store :=
  if d.alias then s.set a (.arr ms) else s

def liftAlloc (s : Store) (r : Except Err Obj) : Except Err (Store × Seq) :=
  r.map (alloc s)


/-- evaluation of one operation: new store and the value -/
def evalOp (d : Dialect) (st : St) : Op → Except Err (Store × Seq)
  | .seq parts => .ok (st.store, parts.flatMap fun
      | .lit k => [.atom k]
      | .var i => st.var i)
  | .mCtor es => liftAlloc st.store ((d.mapCtor (es.map fun (k, i) => (k, st.var i))).map .map)
  | .mPut m k v => do
      let es ← asMap st.store (st.var m)
      liftAlloc st.store ((d.mapPut es k (st.var v)).map .map)
  | .mRemove m ks => do
      let es ← asMap st.store (st.var m)
      liftAlloc st.store ((d.mapRemove es ks).map .map)
  | .mGet m k => do
      let es ← asMap st.store (st.var m)
      .ok (st.store, d.mapGet es k)
  | .mContains m k => do
      let es ← asMap st.store (st.var m)
      .ok (st.store, boolItem (d.mapContains es k))
  | .mSize m => do
      let es ← asMap st.store (st.var m)
      .ok (st.store, intItem es.length)
  | .mKeys m => do
      let es ← asMap st.store (st.var m)
      .ok (st.store, es.map fun e => .atom e.1)
  | .mEntry k v => liftAlloc st.store ((d.mapCtor [(k, st.var v)]).map .map)
  | .mMerge ms pol =>
      match pol with
      | none => .error .FOJS0005                 -- the options are read first
      | some p => do
        let maps ← (st.var ms).mapM fun it => asMap st.store [it]
        liftAlloc st.store ((d.mapMerge maps p).map .map)
  | .mFind input k =>
      .ok (alloc st.store (.arr (findItems d.findEq st.store k (st.store.length + 1) (st.var input))))
  | .mForEach m => do
      let es ← asMap st.store (st.var m)
      .ok (allocMany st.store (es.map fun e => .arr [[.atom e.1], e.2]))
  | .lookup v ks => do
      let parts ← (st.var v).mapM (lookupItem d st.store ks)
      .ok (st.store, parts.flatten)
  | .aSquare ms => .ok (alloc st.store (.arr (ms.map st.var)))
  | .aCurly v => .ok (alloc st.store (.arr ((st.var v).map fun it => [it])))
  | .aGet a p => do
      let (_, ms) ← asArr st.store (st.var a)
      let x ← d.arrGet ms p
      .ok (st.store, x)
  | .aPut a p v => do
      let (addr, ms) ← asArr st.store (st.var a)
      let ms' ← d.arrPut ms p (st.var v)
      .ok (alloc (writeBack d st.store addr ms') (.arr ms'))
  | .aInsert a p v => do
      let (addr, ms) ← asArr st.store (st.var a)
      let ms' ← d.arrInsertBefore ms p (st.var v)
      .ok (alloc (writeBack d st.store addr ms') (.arr ms'))
  | .aAppend a v => do
      let (addr, ms) ← asArr st.store (st.var a)
      let ms' := d.arrAppend ms (st.var v)
      .ok (alloc (writeBack d st.store addr ms') (.arr ms'))
  | .aRemove a ps => do
      let (_, ms) ← asArr st.store (st.var a)
      liftAlloc st.store ((d.arrRemove ms ps).map .arr)
  | .aSub a start len => do
      let (_, ms) ← asArr st.store (st.var a)
      liftAlloc st.store ((d.arrSubarray ms start len).map .arr)
  | .aHead a => do
      let (_, ms) ← asArr st.store (st.var a)
      let x ← d.arrHead ms
      .ok (st.store, x)
  | .aTail a => do
      let (_, ms) ← asArr st.store (st.var a)
      liftAlloc st.store ((d.arrTail ms).map .arr)
  | .aReverse a => do
      let (_, ms) ← asArr st.store (st.var a)
      .ok (alloc st.store (.arr (d.arrReverse ms)))
  | .aJoin v => do
      let parts ← (st.var v).mapM fun it => (asArr st.store [it]).map (·.2)
      .ok (alloc st.store (.arr parts.flatten))
  | .aFlatten v => .ok (st.store, flattenItems st.store (st.store.length + 1) (st.var v))
  | .aSize a => do
      let (_, ms) ← asArr st.store (st.var a)
      .ok (st.store, intItem ms.length)
  | .aForEach a f => do
      let (_, ms) ← asArr st.store (st.var a)
      .ok (alloc st.store (.arr (ms.map f.app)))
  | .aFilter a p => do
      let (_, ms) ← asArr st.store (st.var a)
      let ms' ← filterLoop p.app ms
      .ok (alloc st.store (.arr ms'))
  | .aFoldL a z f => do
      let (_, ms) ← asArr st.store (st.var a)
      .ok (st.store, foldLLoop f.app (st.var z) ms)
  | .aFoldR a z f => do
      let (_, ms) ← asArr st.store (st.var a)
      .ok (st.store, foldRLoop f.app (st.var z) ms)
  | .aForEachPair a b f => do
      let (_, ms1) ← asArr st.store (st.var a)
      let (_, ms2) ← asArr st.store (st.var b)
      .ok (alloc st.store (.arr (pairLoop f.app ms1 ms2)))
  | .mForEachF m f => do
      let es ← asMap st.store (st.var m)
      .ok (st.store, es.flatMap fun e => f.app [.atom e.1] e.2)
  | .deq a b =>
      .ok (st.store, boolItem (deepEqSeq d st.store (2 * st.store.length + 4) (st.var a) (st.var b)))
  | .aSort a => do
      let (_, ms) ← asArr st.store (st.var a)
      let ms' ← arrSort ms
      .ok (alloc st.store (.arr ms'))
  | .call f k first => do
      let r ← callFn d st.store (st.var f) (if first then (st.var k).take 1 else st.var k)
      .ok (st.store, r)
  | .call2 t k1 k2 => do
      let r ← callFn d st.store (st.var t) (st.var k1)
      let r2 ← callFn d st.store r (st.var k2)
      .ok (st.store, r2)

/-- one step: the result (or the empty sequence after an error) is bound to the next variable;
an operation that raises leaves the store as it was -/
def step (d : Dialect) (st : St) (op : Op) : St × Option Err :=
  match evalOp d st op with
  | .ok (s, v) => ({ store := s, env := st.env ++ [v] }, none)
  | .error e => ({ store := st.store, env := st.env ++ [[]] }, some e)

def run (d : Dialect) (st : St) (ops : List Op) : St :=
  ops.foldl (fun st op => (step d st op).1) st

end EPV.MapArray

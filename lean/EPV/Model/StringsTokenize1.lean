/-
C09 extension (phase 5 round): the ONE-ARGUMENT form of `fn:tokenize` (XPath 3.1), a pure string
function (no user regular expression).  Transcribes
`elementpath/xpath2/_xpath2_functions.py::evaluate__tokenize` (after fix F09o, branch fix-c09-5), the branch
```
input_string = self.get_argument(context, cls=str)
if input_string is None:
    return []
elif self.parser.version >= '3.1' and len(self) == 1:
    pattern = ' '
    input_string = ' '.join(re.split('[ \t\n\r]+', input_string.strip(' \t\n\r')))
...
result = []
if input_string:
    k = 0
    for match in re_pattern.finditer(input_string):      # pattern ' ': every single #x20
        result.append(input_string[k:match.start()])
        k = match.end()
    result.append(input_string[k:])
    if len(result) == 1: return result[0]                 # a one-item sequence is its item
return result
```
`strip(' \t\n\r')` and `re.split('[ \t\n\r]+', …)` are the same CPython primitives `contains-token` uses:
`pyStripWs`, `reSplitWs` of EPV/Model/Strings.lean.  Core Lean only.
-/
import EPV.Model.Strings
namespace EPV.Strings
open EPV.FOStrings (Str)

/-- `evaluate__tokenize`, one-argument form with the 3.1 parser (`none` = the empty sequence).
The `finditer` loop over the literal pattern `' '` appends the slice before every single #x20 and the
rest: `pySplitSp` (= `str.split(' ')`). -/
def fnTokenize1 : Option Str → List Str
  | none => []
  | some inputString =>
    let inputString := pyJoinSp (reSplitWs (pyStripWs inputString))
    match inputString with
    | [] => []
    | ns => pySplitSp ns

/-- the string holds a FORM FEED or a VERTICAL TAB (the former trigger of F09o, now fixed; printed by the
driver for the input histogram only) -/
def hasFfVt : Option Str → Bool
  | none => false
  | some s => s.any fun c => c == 0xC || c == 0xB

end EPV.Strings

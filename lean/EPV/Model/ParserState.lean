/-
Model of the per-instance parse cursor of `elementpath/tdop.py :: Parser` and of
`Parser.parse` / `XPath1Parser.parse` (C03, part (a): parser reuse after failure).
Core Lean only.

Python state (tdop.py:447-465, `__slots__ = 'source', 'tokens', 'next_match', '_start_token',
'token', 'next_token'`; xpath1_parser.py:75 `parse_arguments`):

  source        the text being parsed                     (assigned only in `__init__` and `parse`)
  tokens        iterator over the tokenizer's matches     (here: the list of matches not yet consumed)
  next_match    the match object of `next_token`
  token         current token        next_token   look-ahead token
  parse_arguments   flag switched off/on by the `=>` operator's `led` (xpath31/_xpath31_operators.py:241-254)

`τ` is the type of tokens, `μ` of tokenizer matches, `ε` of errors, `ρ` of parse results.
The *body* of a parse (`advance(); expression(); next_token.expected('(end)')`, tdop.py:495-497) is
an arbitrary function `Cursor → Except ε ρ × Cursor`: it may fail at any point and leave ANY cursor
behind.  Everything proved below holds for every such function.
-/
namespace EPV.PState

structure Cursor (τ μ : Type) where
  source : String
  tokens : List μ
  nextMatch : Option μ
  token : τ
  nextToken : τ
  parseArgs : Bool
  deriving DecidableEq, Repr

/-- `Parser.__init__` (tdop.py:458-465) + class attribute `parse_arguments = True` -/
def Cursor.init {τ μ : Type} (start : τ) : Cursor τ μ :=
  { source := "", tokens := [], nextMatch := none, token := start, nextToken := start, parseArgs := true }

/-- the `finally` block of `Parser.parse` (tdop.py:499-502):
`self.tokens = iter(()); self.next_match = None; self.token = self.next_token = self._start_token`.
`source` is NOT reset (it keeps the text of the last call). -/
def resetCursor {τ μ : Type} (start : τ) (c : Cursor τ μ) : Cursor τ μ :=
  { c with tokens := [], nextMatch := none, token := start, nextToken := start }

/-- names of the attributes written by the `finally` block, in source order, with the written value;
compared by `EPV.C03.finally_matches_model` with what the translator reads from the live AST -/
def resetFields : List (String × String) :=
  [("tokens", "iter(())"), ("next_match", "None"), ("token", "self._start_token"),
   ("next_token", "self._start_token")]

/-- the argument of `parse`: a `str`, or any other Python object (→ `TypeError` in `finditer`) -/
inductive Src where
  | str (s : String)
  | other (tag : Nat)
  deriving DecidableEq, Repr

/-- what one parser class fixes: the start token, the tokenizer (`none` = `finditer` raised
`TypeError`), the error built for a non-string source, the parse body and the post-processing of
`XPath1Parser.parse` (label check, static evaluation; xpath1_parser.py:249-262). -/
structure Config (τ μ ε ρ : Type) where
  start : τ
  tokenize : Src → Option (List μ)
  invalidSource : Src → ε
  body : Cursor τ μ → Except ε ρ × Cursor τ μ
  post : ρ → Except ε ρ

variable {τ μ ε ρ : Type}

/-- `Parser.parse` (tdop.py:478-502):
```
try:
    try: self.tokens = iter(self.tokenizer.finditer(source))
    except TypeError as err: raise (invalid).wrong_syntax(...)
    self.source = source
    self.advance(); root_token = self.expression(); self.next_token.expected('(end)')
    return root_token
finally: <resetCursor>
``` -/
def baseParse (cfg : Config τ μ ε ρ) (c : Cursor τ μ) (src : Src) : Except ε ρ × Cursor τ μ :=
  match cfg.tokenize src, src with
  | some ms, .str s =>
    let c1 := { c with tokens := ms, source := s }
    let (r, c2) := cfg.body c1
    (r, resetCursor cfg.start c2)
  | some _, .other _ => (.error (cfg.invalidSource src), resetCursor cfg.start c)   -- not reachable for `re`
  | none, _ => (.error (cfg.invalidSource src), resetCursor cfg.start c)

/-- `XPath1Parser.parse` (xpath1_parser.py:244-263, with the `fix:` commit that wraps
`super().parse(source)` in `try … finally: self.parse_arguments = True`); the static evaluation
(`post`) runs after the cursor has been reset and does not write it. -/
def xpParse (cfg : Config τ μ ε ρ) (c : Cursor τ μ) (src : Src) : Except ε ρ × Cursor τ μ :=
  let (r, c') := baseParse cfg c src
  (r.bind cfg.post, { c' with parseArgs := true })

/-- the pinned (unfixed) `XPath1Parser.parse`: `parse_arguments` is left as the body left it -/
def xpParsePinned (cfg : Config τ μ ε ρ) (c : Cursor τ μ) (src : Src) : Except ε ρ × Cursor τ μ :=
  let (r, c') := baseParse cfg c src
  (r.bind cfg.post, c')

/-- a cursor between two calls: everything but `source` is as in a new instance -/
def Clean (start : τ) (c : Cursor τ μ) : Prop :=
  c.tokens = [] ∧ c.nextMatch = none ∧ c.token = start ∧ c.nextToken = start ∧ c.parseArgs = true

/-- a sequence of `parse` calls on ONE instance: the results, and the cursor after every call -/
def runHistory (cfg : Config τ μ ε ρ) : Cursor τ μ → List Src → List (Except ε ρ × Cursor τ μ)
  | _, [] => []
  | c, s :: rest =>
    let rc := xpParse cfg c s
    rc :: runHistory cfg rc.2 rest

def runHistoryPinned (cfg : Config τ μ ε ρ) : Cursor τ μ → List Src → List (Except ε ρ × Cursor τ μ)
  | _, [] => []
  | c, s :: rest =>
    let rc := xpParsePinned cfg c s
    rc :: runHistoryPinned cfg rc.2 rest

/-- each call on its own new instance -/
def freshRuns (cfg : Config τ μ ε ρ) (srcs : List Src) : List (Except ε ρ × Cursor τ μ) :=
  srcs.map fun s => xpParse cfg (Cursor.init cfg.start) s

/-- the `source` attribute a reused instance shows after a history (text of the last `str` call) -/
def lastSource : String → List Src → String
  | s, [] => s
  | _, .str s :: rest => lastSource s rest
  | s, .other _ :: rest => lastSource s rest

end EPV.PState

/-
Model of the XPath regex functions as functions of the match-span list (C12, layer 3):
  fn:tokenize       elementpath/xpath2/_xpath2_functions.py  evaluate__tokenize  (after `fix:` 2f75a8a)
  fn:replace        elementpath/xpath2/_xpath2_functions.py  evaluate__replace
  fn:analyze-string elementpath/xpath30/_xpath30_functions.py evaluate__analyze_string
                    (string values of the `match` / `non-match` children; `fn:group` children are
                    not modelled)
  fn:matches        `re.search(...) is not None`
`spans` stands for what Python's `re` finds for the translated pattern in the input string
(`finditer` / repeated `search(input, k)` / `sub`): ordered, non-overlapping, non-empty
`[start, stop)` pairs.  Python's matcher itself is trusted, not modelled.  Core Lean only.
-/
import EPV.Model.CharClass
namespace EPV.Regex

abbrev Span := Nat × Nat

/-- `s[a:b]` -/
def slice (s : List Ch) (a b : Nat) : List Ch := (s.drop a).take (b - a)

/-- `fn:matches`: `re.search(pattern, s) is not None` -/
def matchesM (spans : List Span) : Bool := !spans.isEmpty

/-- `fn:tokenize` loop body: `result.append(input_string[k:match.start()]); k = match.end()` -/
def tokStep (s : List Ch) (st : Nat × List (List Ch)) (m : Span) : Nat × List (List Ch) :=
  (m.2, st.2 ++ [slice s st.1 m.1])

/-- `fn:tokenize`: `result = []; if input_string: k = 0; for match in finditer: ...;
result.append(input_string[k:])` -/
def tokenizeM (s : List Ch) (spans : List Span) : List (List Ch) :=
  if s.isEmpty then [] else
  let st := spans.foldl (tokStep s) (0, [])
  st.2 ++ [slice s st.1 s.length]

/-- `fn:analyze-string`: the `while k < len(input_string)` loop; each iteration consumes the next
match at or after `k` (`compiled_pattern.search(input_string, k)`); the pair is
(is it a `match` element, its string value) -/
def analyzeM (s : List Ch) (k : Nat) : List Span → List (Bool × List Ch)
  | [] => if k < s.length then [(false, slice s k s.length)] else []      -- `match is None`
  | (a, b) :: rest =>
    if k < s.length then
      (if a > k then [(false, slice s k a)] else []) ++ (true, slice s a b) :: analyzeM s b rest
    else []

/-- replacement templates of the modelled fragment: literal text free of `$` and `\`, and `$0` -/
inductive RPart where
  | lit (t : List Ch)
  | whole                    -- `$0`, rewritten to `\g<0>` by the implementation
  deriving Repr, Inhabited

/-- the text a template part stands for when the match is `m` -/
def RPart.expand (m : List Ch) : RPart → List Ch
  | .lit t => t
  | .whole => m

/-- `re_pattern.sub(replacement, input_string)` -/
def subM (s : List Ch) (parts : List RPart) (k : Nat) : List Span → List Ch
  | [] => slice s k s.length
  | (a, b) :: rest =>
    slice s k a ++ parts.flatMap (RPart.expand (slice s a b)) ++ subM s parts b rest

/-- `.replace('\\$', '$')` applied to the *result* of `sub` -/
def unescDollar : List Ch → List Ch
  | 92 :: 36 :: rest => 36 :: unescDollar rest
  | c :: rest => c :: unescDollar rest
  | [] => []

/-- `fn:replace` (no `q` flag, valid replacement): `re_pattern.sub(...).replace('\\$', '$')` -/
def replaceM (s : List Ch) (parts : List RPart) (spans : List Span) : List Ch :=
  unescDollar (subM s parts 0 spans)

/-- trigger predicate of known finding F12r: the input contains `\$` -/
def hasBackslashDollar : List Ch → Bool
  | 92 :: 36 :: _ => true
  | _ :: rest => hasBackslashDollar rest
  | [] => false

/-! ### `translate_pattern`: multi-digit back-references (patterns.py:207-218) -/

/-- `regex.append('\\%s' % pattern[pos])`, then
`for k in range(1, len(reference)): if total_groups < int(reference[:k + 1]): '[d]'; break` /
`else: regex.append(d)`.  `n` = `int(reference[:k])`; the result is the number of digits that form
the reference (`g` = `total_groups`, the groups opened so far). -/
def brLoop (g : Nat) : Nat → Nat → List Nat → Nat
  | _, k, [] => k
  | n, k, d :: r => if g < n * 10 + d then k else brLoop g (n * 10 + d) (k + 1) r

/-- what the emitted text `\\<digits>[<d>]<digits>` encodes: (group number, literal digits) -/
def resolveM (digits : List Nat) (g : Nat) : Nat × List Nat :=
  match digits with
  | [] => (0, [])
  | d1 :: ds =>
    let k := brLoop g d1 1 ds
    ((digits.take k).foldl (fun n d => n * 10 + d) 0, digits.drop k)

end EPV.Regex

/-! ### `translate_pattern`: the scanner outside bracket expressions (patterns.py:114-279)

The `while pos < pattern_len` loop, one source lexeme per step.  What the code appends to `regex`
is modelled as a list of tokens: structural fragments (`(` / `(?:`, `)`, `|`, quantifiers) and
*atoms* — each atom stands for one fragment text whose meaning under Python's `re` is a parameter
(`PySem`, Lemmas/RegexTranslate.lean).  Two fragments are merged for convenience: a quantifier
followed by `?` (appended in two iterations as `*` and `?`) is one reluctant-quantifier token, with
the checks of both iterations; and the no-op rewrite `regex[-1] = '(?:^)'` before a quantifier after
an anchor is not represented.  `none` = `RegexError`. -/
namespace EPV.Regex

/-- structural tokens, generic in the atom type -/
inductive Tok (α : Type) where
  | atom (a : α)
  | lpar (capture : Bool)
  | rpar
  | bar
  | quant (lo : Nat) (hi : Option Nat) (lazy : Bool)
  deriving Repr, Inhabited

def Tok.map {α β : Type} (f : α → β) : Tok α → Tok β
  | .atom a => .atom (f a)
  | .lpar c => .lpar c
  | .rpar => .rpar
  | .bar => .bar
  | .quant lo hi l => .quant lo hi l

/-- regular-expression syntax trees over an atom type -/
inductive Ast (α : Type) where
  | eps
  | atom (a : α)
  | group (capture : Bool) (r : Ast α)
  | cat (a b : Ast α)
  | alt (a b : Ast α)
  | quant (r : Ast α) (lo : Nat) (hi : Option Nat) (lazy : Bool)
  deriving Repr, Inhabited

/-! The grammar shared by XSD ([64] regExp ::= branch ('|' branch)*, [65] branch ::= piece*,
[66] piece ::= atom quantifier?, [72] atom ::= ... | '(' regExp ')') and by Python's `re` for the
fragments above (alternation of concatenations of optionally repeated items, items = atoms or
parenthesised sub-expressions).  Fuel-based recursive descent; `none` = syntax error. -/
mutual
def tRegExp {α : Type} : Nat → List (Tok α) → Option (Ast α × List (Tok α))
  | 0, _ => none
  | f + 1, ts =>
    match tBranch f ts with
    | none => none
    | some (b, .bar :: rest) => (tRegExp f rest).map fun (r, rest') => (.alt b r, rest')
    | some res => some res
def tBranch {α : Type} : Nat → List (Tok α) → Option (Ast α × List (Tok α))
  | 0, _ => none
  | f + 1, ts =>
    match ts with
    | [] => some (.eps, [])
    | .bar :: _ => some (.eps, ts)
    | .rpar :: _ => some (.eps, ts)
    | _ =>
      match tPiece f ts with
      | none => none
      | some (p, rest) =>
        (tBranch f rest).map fun (b, rest') => (match b with | .eps => p | _ => .cat p b, rest')
def tPiece {α : Type} : Nat → List (Tok α) → Option (Ast α × List (Tok α))
  | 0, _ => none
  | f + 1, ts =>
    match tAtom f ts with
    | none => none
    | some (a, .quant lo hi l :: rest) => some (.quant a lo hi l, rest)
    | some res => some res
def tAtom {α : Type} : Nat → List (Tok α) → Option (Ast α × List (Tok α))
  | 0, _ => none
  | f + 1, ts =>
    match ts with
    | .atom a :: rest => some (.atom a, rest)
    | .lpar c :: rest =>
      match tRegExp f rest with
      | some (r, .rpar :: rest') => some (.group c r, rest')
      | _ => none
    | _ => none
end

def parseT {α : Type} (ts : List (Tok α)) : Option (Ast α) :=
  match tRegExp (4 * ts.length + 8) ts with
  | some (r, []) => some r
  | _ => none

/-- the fragment texts `translate_pattern` can append for one atom -/
inductive PyAtom where
  | chr (c : Ch)                 -- the character itself (`regex.append(ch)`)
  | esc (e : Ch)                 -- `\e` handed to Python unchanged (final `else` of the escape case)
  | dotAll                       -- `.` under `re.DOTALL`
  | dotNoNL                      -- `[^\r\n]`
  | bol | bolM                   -- `^`  /  `(?<!\n\Z)^`
  | eol | eolM                   -- `$(?!\n\Z)`  /  `$`
  | litAnchor (c : Ch)           -- `\^` `\$` (anchors off)
  | cls (cc : CC)                -- `str(char_class)`  (or `[^\w\W]` when it prints as `[]`)
  | nameEsc (start : Bool) (neg : Bool)   -- `[...]` / `[^...]` with I_SHORTCUT_REPLACE / C_SHORTCUT_REPLACE
  | prop (s : SetE) (neg : Bool) -- `[%s]` / `[^%s]` of a category or block (inside `(?-i:..)` under IGNORECASE)
  | propAll                      -- unknown `Is` block under XSD 1.1: `[%s]` of `UnicodeSubset([(0, maxunicode)])`
  | backref (n : Nat)            -- `\N`
  | bracketDigit (d : Nat)       -- `[d]` after a back-reference
  | bslash                       -- a lone `\` at the end of the pattern (re.compile rejects it)
  deriving Inhabited

structure ScanOpts where
  dotAll : Bool := false
  multi : Bool := false
  verbose : Bool := false
  v10 : Bool := true
  backrefs : Bool := true        -- back_references
  lazy : Bool := true            -- lazy_quantifiers
  anchors : Bool := true
  deriving Inhabited

def startsWith1 (a : Ch) : List Ch → Bool
  | c :: _ => c == a
  | [] => false
def startsWith2 (a b : Ch) : List Ch → Bool
  | c :: d :: _ => c == a && d == b
  | _ => false

/-- `QUANTIFIER_PATTERN = {\d+(,(\d+)?)?}` matched at `{`: (lo, hi, rest after `}`) -/
def scanBrace (inp : List Ch) : Option (Nat × Option Nat × List Ch) :=
  let num (l : List Ch) : Nat := l.foldl (fun n c => n * 10 + (c - 48)) 0
  let d1 := inp.takeWhile isDig
  if d1.isEmpty then none else
  match inp.dropWhile isDig with
  | 125 :: rest => some (num d1, some (num d1), rest)
  | 44 :: rest1 =>
    let d2 := rest1.takeWhile isDig
    match rest1.dropWhile isDig with
    | 125 :: rest => some (num d1, if d2.isEmpty then none else some (num d2), rest)
    | _ => none
  | _ => none

/-- the lazy marker after a quantifier and the look-ahead checks of the two iterations:
`first` = the characters that may not follow the quantifier itself (`?+*{` after `? * +`, `?+*` after
`{..}`) unless it is a `?` and lazy quantifiers are on; the marker `?` is then itself checked against `?+*{` -/
def scanLazy (o : ScanOpts) (afterBrace : Bool) (rest : List Ch) : Option (Bool × List Ch) :=
  let bad1 (c : Ch) : Bool := c == 63 || c == 43 || c == 42 || (!afterBrace && c == 123)
  let bad2 (c : Ch) : Bool := c == 63 || c == 43 || c == 42 || c == 123
  match rest with
  | [] => some (false, [])
  | c :: rest' =>
    if !bad1 c then some (false, rest)
    else if !(o.lazy && c == 63) then none
    else match rest' with
      | [] => some (true, [])
      | c2 :: _ => if bad2 c2 && !(o.lazy && c2 == 63) then none else some (true, rest')

/-- one iteration of the loop at `ch :: rest`; `atStart` = `pos == 0`, `total` = `total_groups`,
`nested` = `nested_groups`.  Returns the appended tokens, the remaining text and the new counters. -/
def scanStep (T : MTables) (o : ScanOpts) (atStart : Bool) (total nested : Nat) :
    List Ch → Option (List (Tok PyAtom) × List Ch × Nat × Nat)
  | [] => none
  | 46 :: rest => some ([.atom (if o.dotAll then .dotAll else .dotNoNL)], rest, total, nested)
  | 94 :: rest =>
    some ([.atom (if !o.anchors then .litAnchor 94 else if o.multi then .bolM else .bol)], rest, total, nested)
  | 36 :: rest =>
    some ([.atom (if !o.anchors then .litAnchor 36 else if o.multi then .eolM else .eol)], rest, total, nested)
  | 91 :: rest =>
    match parseClassM T o.v10 (rest.length + 1) rest with
    | some (cc, rest') => some ([.atom (.cls cc)], rest', total, nested)
    | none => none
  | 123 :: rest =>
    if atStart then none else
    match scanBrace rest with
    | none => none
    | some (lo, hi, rest') =>
      match scanLazy o true rest' with
      | none => none
      | some (lz, rest'') => some ([.quant lo hi lz], rest'', total, nested)
  | 40 :: rest =>
    let nonCap := startsWith2 63 58 rest                               -- `pattern[pos:pos+3] == '(?:'`
    let ext := startsWith1 63 rest                                     -- `pattern[pos:pos+2] == '(?'`
    if ext && !nonCap then none                                        -- `(?...)` extension notation
    else if nonCap then
      -- with back_references off the text becomes `(?:?:` which re.compile rejects
      if o.backrefs then some ([.lpar false], rest.drop 2, total, nested + 1) else none
    else some ([.lpar o.backrefs], rest, total + 1, nested + 1)        -- group_open_char
  | 93 :: _ => none
  | 41 :: rest => if nested == 0 then none else some ([.rpar], rest, total, nested - 1)
  | 92 :: rest0 =>
    let rest := if o.verbose then rest0.dropWhile (· == 32) else rest0
    match rest with
    | [] => some ([.atom .bslash], [], total, nested)                    -- `regex.append('\\')`
    | e :: rest' =>
      if isDig e then
        let more := rest'.takeWhile isDig
        let digits := (e - 48) :: more.map (· - 48)
        let k := brLoop total (e - 48) 1 (more.map (· - 48))
        let n := (digits.take k).foldl (fun n d => n * 10 + d) 0
        -- digits beyond the `[d]` stay in the text and are read as plain characters
        match digits.drop k with
        | [] => some ([.atom (.backref n)], rest'.drop (k - 1), total, nested)
        | d :: _ => some ([.atom (.backref n), .atom (.bracketDigit d)], rest'.drop k, total, nested)
      else if e == 105 then some ([.atom (.nameEsc true false)], rest', total, nested)
      else if e == 73 then some ([.atom (.nameEsc true true)], rest', total, nested)
      else if e == 99 then some ([.atom (.nameEsc false false)], rest', total, nested)
      else if e == 67 then some ([.atom (.nameEsc false true)], rest', total, nested)
      else if e == 112 || e == 80 then
        match rest' with
        | 123 :: rest2 =>
          let name0 := rest2.takeWhile (· != 125)
          match rest2.dropWhile (· != 125) with
          | 125 :: rest3 =>
            let name := if o.verbose then name0.filter (· != 32) else name0
            match T.prop name with
            | some s => some ([.atom (.prop s (e == 80))], rest3, total, nested)
            | none => if o.v10 || name.take 2 != [73, 115] then none else some ([.atom .propAll], rest3, total, nested)
          | _ => none
        | _ => none
      else some ([.atom (.esc e)], rest', total, nested)
  | c :: rest =>
    if c == 63 || c == 42 || c == 43 then
      if atStart then none else
      match scanLazy o false rest with
      | none => none
      | some (lz, rest') =>
        some ([.quant (if c == 43 then 1 else 0) (if c == 63 then some 1 else none) lz], rest', total, nested)
    else if c == 124 then some ([.bar], rest, total, nested)
    else some ([.atom (.chr c)], rest, total, nested)

/-- the whole loop -/
def scanLoop (T : MTables) (o : ScanOpts) : Nat → Bool → Nat → Nat → List Ch → Option (List (Tok PyAtom))
  | 0, _, _, _, _ => none
  | _ + 1, _, _, nested, [] => if nested > 0 then none else some []      -- unterminated subpattern
  | fuel + 1, atStart, total, nested, inp =>
    match scanStep T o atStart total nested inp with
    | none => none
    | some (toks, rest, total', nested') =>
      (scanLoop T o fuel false total' nested' rest).map (toks ++ ·)

/-- `translate_pattern(pattern, flags, xsd_version, back_references, lazy_quantifiers, anchors)`
as a token list; with `anchors = False` the result is wrapped as `^( ... )$(?!\n\Z)` -/
def translateM (T : MTables) (o : ScanOpts) (pattern : List Ch) : Option (List (Tok PyAtom)) :=
  if forbiddenEscape o.backrefs none pattern then none else
  match scanLoop T o (pattern.length + 1) true 0 0 pattern with
  | none => none
  | some toks =>
    if o.anchors then some toks
    else some ([.atom .bol, .lpar o.backrefs] ++ toks ++ [.rpar, .atom .eol])

end EPV.Regex

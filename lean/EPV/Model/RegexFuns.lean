/-
Model of the XPath regex functions as functions of the match-span list (C12, layer 3):
  fn:tokenize       elementpath/xpath2/_xpath2_functions.py  evaluate__tokenize  (after `fix:` 2f75a8a)
  fn:replace        elementpath/xpath2/_xpath2_functions.py  evaluate__replace
  fn:analyze-string elementpath/xpath30/_xpath30_functions.py evaluate__analyze_string
                    (string values of the `match` / `non-match` children; `fn:group` children are
                    not modelled)
  fn:matches        `re.search(...) is not None`
`spans` stands for what Python's `re` finds for the translated pattern in the input string
(`finditer` / repeated `search(input, k)` / `sub`): ordered, non-overlapping, non-empty
`[start, stop)` pairs.  Python's matcher itself is trusted, not modelled.  Core Lean only.
-/
import EPV.Model.CharClass
namespace EPV.Regex

abbrev Span := Nat × Nat

/-- `s[a:b]` -/
def slice (s : List Ch) (a b : Nat) : List Ch := (s.drop a).take (b - a)

/-- `fn:matches`: `re.search(pattern, s) is not None` -/
def matchesM (spans : List Span) : Bool := !spans.isEmpty

/-- `fn:tokenize` loop body: `result.append(input_string[k:match.start()]); k = match.end()` -/
def tokStep (s : List Ch) (st : Nat × List (List Ch)) (m : Span) : Nat × List (List Ch) :=
  (m.2, st.2 ++ [slice s st.1 m.1])

/-- `fn:tokenize`: `result = []; if input_string: k = 0; for match in finditer: ...;
result.append(input_string[k:])` -/
def tokenizeM (s : List Ch) (spans : List Span) : List (List Ch) :=
  if s.isEmpty then [] else
  let st := spans.foldl (tokStep s) (0, [])
  st.2 ++ [slice s st.1 s.length]

/-- `fn:analyze-string`: the `while k < len(input_string)` loop; each iteration consumes the next
match at or after `k` (`compiled_pattern.search(input_string, k)`); the pair is
(is it a `match` element, its string value) -/
def analyzeM (s : List Ch) (k : Nat) : List Span → List (Bool × List Ch)
  | [] => if k < s.length then [(false, slice s k s.length)] else []      -- `match is None`
  | (a, b) :: rest =>
    if k < s.length then
      (if a > k then [(false, slice s k a)] else []) ++ (true, slice s a b) :: analyzeM s b rest
    else []

/-- replacement templates of the modelled fragment: literal text free of `$` and `\`, and `$0` -/
inductive RPart where
  | lit (t : List Ch)
  | whole                    -- `$0`, rewritten to `\g<0>` by the implementation
  deriving Repr, Inhabited

/-- the text a template part stands for when the match is `m` -/
def RPart.expand (m : List Ch) : RPart → List Ch
  | .lit t => t
  | .whole => m

/-- `re_pattern.sub(replacement, input_string)` -/
def subM (s : List Ch) (parts : List RPart) (k : Nat) : List Span → List Ch
  | [] => slice s k s.length
  | (a, b) :: rest =>
    slice s k a ++ parts.flatMap (RPart.expand (slice s a b)) ++ subM s parts b rest

/-- `.replace('\\$', '$')` applied to the *result* of `sub` -/
def unescDollar : List Ch → List Ch
  | 92 :: 36 :: rest => 36 :: unescDollar rest
  | c :: rest => c :: unescDollar rest
  | [] => []

/-- `fn:replace` (no `q` flag, valid replacement): `re_pattern.sub(...).replace('\\$', '$')` -/
def replaceM (s : List Ch) (parts : List RPart) (spans : List Span) : List Ch :=
  unescDollar (subM s parts 0 spans)

/-- trigger predicate of known finding F12r: the input contains `\$` -/
def hasBackslashDollar : List Ch → Bool
  | 92 :: 36 :: _ => true
  | _ :: rest => hasBackslashDollar rest
  | [] => false

/-! ### `translate_pattern`: multi-digit back-references (patterns.py:207-218) -/

/-- `regex.append('\\%s' % pattern[pos])`, then
`for k in range(1, len(reference)): if total_groups < int(reference[:k + 1]): '[d]'; break` /
`else: regex.append(d)`.  `n` = `int(reference[:k])`; the result is the number of digits that form
the reference (`g` = `total_groups`, the groups opened so far). -/
def brLoop (g : Nat) : Nat → Nat → List Nat → Nat
  | _, k, [] => k
  | n, k, d :: r => if g < n * 10 + d then k else brLoop g (n * 10 + d) (k + 1) r

/-- what the emitted text `\\<digits>[<d>]<digits>` encodes: (group number, literal digits) -/
def resolveM (digits : List Nat) (g : Nat) : Nat × List Nat :=
  match digits with
  | [] => (0, [])
  | d1 :: ds =>
    let k := brLoop g d1 1 ds
    ((digits.take k).foldl (fun n d => n * 10 + d) 0, digits.drop k)

end EPV.Regex

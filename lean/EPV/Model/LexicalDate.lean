/-
C10 — the year-bearing date/time constructors.  `Date.fromstring`, `DateTime.fromstring`, `GregorianYear.fromstring`,
`GregorianYearMonth.fromstring` (and the XSD 1.0 classes) are C11's model `Cal.dateOfLex`, `Cal.dateTimeOfLex`,
`Cal.gOfLex` (EPV/Model/CalendarLex.lean, imported read-only: the regex groups, `int()` of the fields, the year checks,
`AbstractDateTime.__init__`).  This file only adds xs:dateTimeStamp, which C11 does not model.
-/
import EPV.Model.CalendarLex
namespace EPV.Lex

/-- the `tzinfo` group of `DateTime.pattern` matched the empty string (the text after the seconds is empty) -/
def stampTzAbsent (s : List Char) : Bool :=
  match Cal.parseDateBody (Cal.pyStripAll s) with
  | some (_, _, _, _, 'T' :: rest) =>
    match Cal.parseTimeBody rest with
    | some (_, _, _, _, tail) => tail.isEmpty
    | none => false
  | _ => false

/-- datetime.py `DateTimeStamp(DateTime)`: the pattern of `DateTime` with the `tzinfo` group mandatory — a literal without
timezone does not match, `fromstring` raises `ValueError` before anything is computed — then `DateTime.fromstring` /
`DateTime.__init__` (the check `if self.tzinfo is None: raise ValueError` of `DateTimeStamp.__init__` cannot fire on
this path).  The class exists for XSD 1.1 only. -/
def dateTimeStampOfLex (s : List Char) : Except Cal.Err Cal.DT :=
  if stampTzAbsent s then .error .value else Cal.dateTimeOfLex true s

end EPV.Lex

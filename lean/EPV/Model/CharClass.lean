/-
Model of `elementpath/regex/character_classes.py :: CharacterClass` (C12, layer 1) and of the
class scanner `patterns.py :: parse_character_class` + `CharacterClass.add` +
`codepoints.py :: iterparse_character_subset`.

Core Lean only.  Sets of code points are *symbolic* (`SetE`: unions / intersections /
differences of half-open range lists); membership is evaluated pointwise, emptiness is decided on
the finite set of range bounds (`SetE.isEmpty`, proved exact in `Lemmas/RegexClass.lean`).  The
list representation of `UnicodeSubset` itself is the subject of C13, not of this file.
-/
namespace EPV.Regex

abbrev Ch := Nat

/-- `sys.maxunicode + 1` -/
def maxCP1 : Nat := 0x110000

/-! ### symbolic code-point sets (what a `UnicodeSubset` denotes) -/

inductive SetE where
  | ranges (l : List (Nat × Nat))      -- half-open `[lo, hi)` entries
  | union (a b : SetE)                  -- `|=`
  | inter (a b : SetE)                  -- `&=`
  | diff (a b : SetE)                   -- `-=`
  deriving Inhabited

def memR (x : Nat) (l : List (Nat × Nat)) : Bool := l.any fun r => decide (r.1 ≤ x) && decide (x < r.2)

def SetE.mem : SetE → Nat → Bool
  | .ranges l, x => memR x l
  | .union a b, x => a.mem x || b.mem x
  | .inter a b, x => a.mem x && b.mem x
  | .diff a b, x => a.mem x && !b.mem x

/-- all range bounds occurring in the expression -/
def SetE.bounds : SetE → List Nat
  | .ranges l => l.flatMap fun r => [r.1, r.2]
  | .union a b | .inter a b | .diff a b => a.bounds ++ b.bounds

/-- `not subset` / `bool(subset)`: the set has no element.  Decided on the range bounds (the
membership function is constant between two consecutive bounds). -/
def SetE.isEmpty (e : SetE) : Bool := e.bounds.all fun b => !e.mem b

def SetE.none : SetE := .ranges []
def SetE.all : SetE := .ranges [(0, maxCP1)]          -- `[(0, maxunicode + 1)]`
def SetE.single (c : Nat) : SetE := .ranges [(c, c + 1)]
def SetE.range (a b : Nat) : SetE := .ranges [(a, b + 1)]   -- inclusive `a-b`

/-! ### `CharacterClass` -/

/-- the `positive` / `negative` pair (character_classes.py:93-111) -/
structure CC where
  pos : SetE
  neg : SetE
  deriving Inhabited

def CC.new : CC := ⟨.none, .none⟩

/-- one parsed item of a class body as `CharacterClass.add` sees it: a character, a range, a
lower-case escape (`\d \s \w \i \c \p{..}`, `neg = false`) or an upper-case escape
(`\D \S \W \I \C \P{..}`, `neg = true`) with the subset it names -/
structure Item where
  neg : Bool
  set : SetE
  deriving Inhabited

/-- `CharacterClass.add` for one item (character_classes.py:160-190):
`self.positive |= value` for plain characters and lower-case escapes,
`self.negative |= value` for upper-case escapes -/
def CC.addItem (c : CC) (it : Item) : CC :=
  if it.neg then { c with neg := .union c.neg it.set } else { c with pos := .union c.pos it.set }

/-- `CharacterClass.complement` (character_classes.py:245-249): swap, unless both are empty -/
def CC.complement (c : CC) : CC :=
  if !c.pos.isEmpty || !c.neg.isEmpty then ⟨c.neg, c.pos⟩ else ⟨.all, c.neg⟩

/-- `CharacterClass.__isub__` (character_classes.py:142-153) -/
def CC.isub (c o : CC) : CC :=
  let c1 : CC :=
    if !c.neg.isEmpty then
      let c' : CC := if !o.neg.isEmpty then ⟨.union c.pos (.diff o.neg c.neg), .none⟩ else c
      { c' with neg := .union c'.neg o.pos }
    else if !o.neg.isEmpty then { c with pos := .inter c.pos o.neg }
    else c
  { c1 with pos := .diff c1.pos o.pos }

/-- `CharacterClass.__contains__` (character_classes.py:123-131) -/
def CC.contains (c : CC) (x : Nat) : Bool :=
  if !c.neg.isEmpty then !c.neg.mem x || c.pos.mem x else c.pos.mem x

/-- what the text produced by `CharacterClass.__str__` (character_classes.py:113-121) denotes once
`translate_pattern` has turned `[]` into `[^\w\W]`: `[pos]`, `[^neg]` or `[complement(neg) pos]`
(code points `< maxCP1` only) -/
def CC.strDenote (c : CC) (x : Nat) : Bool :=
  if c.neg.isEmpty then c.pos.mem x
  else if c.pos.isEmpty then !c.neg.mem x
  else (!c.neg.mem x) || c.pos.mem x

/-- a class expression as the scanner hands it to the algebra:
`[` `^`? items `]`  or  `[` `^`? items `-[` sub `]` `]` -/
inductive ClassE where
  | plain (negated : Bool) (items : List Item)
  | minus (negated : Bool) (items : List Item) (sub : ClassE)
  deriving Inhabited

/-- `CharacterClass(charset)` then `complement()` if the source starts with `^` -/
def evalGroup (ng : Bool) (items : List Item) : CC :=
  let c := items.foldl CC.addItem CC.new
  if ng then c.complement else c

/-- `parse_character_class` (patterns.py:52-111) after tokenisation: build the class from the
items, complement it if it starts with `^`, subtract the recursively parsed class after `-[` -/
def evalClass : ClassE → CC
  | .plain ng items => evalGroup ng items
  | .minus ng items sub => (evalGroup ng items).isub (evalClass sub)

end EPV.Regex

/-
Model of `elementpath/regex/character_classes.py :: CharacterClass` (C12, layer 1) and of the
class scanner `patterns.py :: parse_character_class` + `CharacterClass.add` +
`codepoints.py :: iterparse_character_subset`.

Core Lean only.  Sets of code points are *symbolic* (`SetE`: unions / intersections /
differences of half-open range lists); membership is evaluated pointwise, emptiness is decided on
the finite set of range bounds (`SetE.isEmpty`, proved exact in `Lemmas/RegexClass.lean`).  The
list representation of `UnicodeSubset` itself is the subject of C13, not of this file.
-/
import EPV.Model.CharSubsetParse
namespace EPV.Regex

abbrev Ch := Nat

/-- `sys.maxunicode + 1` -/
def maxCP1 : Nat := 0x110000

/-! ### symbolic code-point sets (what a `UnicodeSubset` denotes) -/

inductive SetE where
  | ranges (l : List (Nat × Nat))      -- half-open `[lo, hi)` entries
  | union (a b : SetE)                  -- `|=`
  | inter (a b : SetE)                  -- `&=`
  | diff (a b : SetE)                   -- `-=`
  deriving Inhabited

def memR (x : Nat) (l : List (Nat × Nat)) : Bool := l.any fun r => decide (r.1 ≤ x) && decide (x < r.2)

def SetE.mem : SetE → Nat → Bool
  | .ranges l, x => memR x l
  | .union a b, x => a.mem x || b.mem x
  | .inter a b, x => a.mem x && b.mem x
  | .diff a b, x => a.mem x && !b.mem x

/-- all range bounds occurring in the expression -/
def SetE.bounds : SetE → List Nat
  | .ranges l => l.flatMap fun r => [r.1, r.2]
  | .union a b | .inter a b | .diff a b => a.bounds ++ b.bounds

/-- `not subset` / `bool(subset)`: the set has no element.  Decided on the range bounds (the
membership function is constant between two consecutive bounds). -/
def SetE.isEmpty (e : SetE) : Bool := e.bounds.all fun b => !e.mem b

def SetE.none : SetE := .ranges []
def SetE.all : SetE := .ranges [(0, maxCP1)]          -- `[(0, maxunicode + 1)]`
def SetE.single (c : Nat) : SetE := .ranges [(c, c + 1)]
def SetE.range (a b : Nat) : SetE := .ranges [(a, b + 1)]   -- inclusive `a-b`

/-! ### `CharacterClass` -/

/-- the `positive` / `negative` pair (character_classes.py:93-111) -/
structure CC where
  pos : SetE
  neg : SetE
  deriving Inhabited

def CC.new : CC := ⟨.none, .none⟩

/-- one parsed item of a class body as `CharacterClass.add` sees it: a character, a range, a
lower-case escape (`\d \s \w \i \c \p{..}`, `neg = false`) or an upper-case escape
(`\D \S \W \I \C \P{..}`, `neg = true`) with the subset it names -/
structure Item where
  neg : Bool
  set : SetE
  deriving Inhabited

/-- `CharacterClass.add` for one item (character_classes.py:160-190):
`self.positive |= value` for plain characters and lower-case escapes,
`self.negative |= value` for upper-case escapes -/
def CC.addItem (c : CC) (it : Item) : CC :=
  if it.neg then { c with neg := .union c.neg it.set } else { c with pos := .union c.pos it.set }

/-- `CharacterClass.complement` (character_classes.py:245-249): swap, unless both are empty -/
def CC.complement (c : CC) : CC :=
  if !c.pos.isEmpty || !c.neg.isEmpty then ⟨c.neg, c.pos⟩ else ⟨.all, c.neg⟩

/-- `CharacterClass.__isub__` (character_classes.py:142-153) -/
def CC.isub (c o : CC) : CC :=
  let c1 : CC :=
    if !c.neg.isEmpty then
      let c' : CC := if !o.neg.isEmpty then ⟨.union c.pos (.diff o.neg c.neg), .none⟩ else c
      { c' with neg := .union c'.neg o.pos }
    else if !o.neg.isEmpty then { c with pos := .inter c.pos o.neg }
    else c
  { c1 with pos := .diff c1.pos o.pos }

/-- `CharacterClass.__contains__` (character_classes.py:123-131) -/
def CC.contains (c : CC) (x : Nat) : Bool :=
  if !c.neg.isEmpty then !c.neg.mem x || c.pos.mem x else c.pos.mem x

/-- what the text produced by `CharacterClass.__str__` (character_classes.py:113-121) denotes once
`translate_pattern` has turned `[]` into `[^\w\W]`: `[pos]`, `[^neg]` or `[complement(neg) pos]`
(code points `< maxCP1` only) -/
def CC.strDenote (c : CC) (x : Nat) : Bool :=
  if c.neg.isEmpty then c.pos.mem x
  else if c.pos.isEmpty then !c.neg.mem x
  else (!c.neg.mem x) || c.pos.mem x

/-- a class expression as the scanner hands it to the algebra:
`[` `^`? items `]`  or  `[` `^`? items `-[` sub `]` `]` -/
inductive ClassE where
  | plain (negated : Bool) (items : List Item)
  | minus (negated : Bool) (items : List Item) (sub : ClassE)
  deriving Inhabited

/-- `CharacterClass(charset)` then `complement()` if the source starts with `^` -/
def evalGroup (ng : Bool) (items : List Item) : CC :=
  let c := items.foldl CC.addItem CC.new
  if ng then c.complement else c

/-- `parse_character_class` (patterns.py:52-111) after tokenisation: build the class from the
items, complement it if it starts with `^`, subtract the recursively parsed class after `-[` -/
def evalClass : ClassE → CC
  | .plain ng items => evalGroup ng items
  | .minus ng items sub => (evalGroup ng items).isub (evalClass sub)

end EPV.Regex

/-! ### the class scanner

Transcription of `patterns.py :: parse_character_class` (lines 52-115 after `fix:` a738bef),
`CharacterClass.add` with its `_re_char_set.split`, and
`codepoints.py :: iterparse_character_subset`.  Every `RegexError` / `IndexError` is `none`. -/
namespace EPV.Regex

/-- the Unicode subsets the implementation looks up while scanning a class -/
structure MTables where
  /-- `s_shortcut` ... `w_shortcut` by lower-case letter (`s d i c w`) -/
  esc : Ch → SetE
  /-- `unicode_subset(name)`: categories and `Is` blocks; `none` = `RegexError` -/
  prop : List Ch → Option SetE
  deriving Inhabited

def chIn (c : Ch) (s : String) : Bool := s.toList.any fun d => d.toNat == c

/-- the set of a list of code-point entries as `UnicodeSubset` stores them -/
def cpSet (l : List EPV.USet.CP) : SetE :=
  .ranges (l.map fun | .one n => (n, n + 1) | .rng a b => (a, b))

/-- `UnicodeSubset.update(str)` as a set: the union of what `iterparse_character_subset` yields.
The generator itself (codepoints.py:117-207, state `escaped / on_range / char`, `next(iterator)`) is
C13's transcription `EPV.USet.iterparse` (Model/CharSubsetParse.lean, imported read-only), which C13
proves equal to the XSD group grammar where the grammar speaks (Props/C13Str.lean). -/
def parseSubset (s : List Ch) : Option SetE :=
  (EPV.USet.iterparse s.toArray).map cpSet

/-- does an escape token of `_re_char_set` start here?  returns its length.
`\\[nrt|.\-^?*+{}()\]sSdDiIcCwW]`  or  `\\[pP]{[a-zA-Z\-0-9]+}` -/
def escTokenLen : List Ch → Option Nat
  | 92 :: e :: rest =>
    if chIn e "nrt|.-^?*+{}()]sSdDiIcCwW" then some 2
    else if e == 112 || e == 80 then
      match rest with
      | 123 :: rest' =>
        let isN (c : Ch) : Bool := (48 ≤ c && c ≤ 57) || (65 ≤ c && c ≤ 90) || (97 ≤ c && c ≤ 122) || c == 45
        let name := rest'.takeWhile isN
        match rest'.dropWhile isN with
        | 125 :: _ => if name.isEmpty then none else some (name.length + 4)
        | _ => none
      | _ => none
    else none
  | _ => none

/-- `_re_char_set.split(charset)`: literal text / escape token, alternating.  `p2`, `p1` are the two
characters before the current position (lookbehind `(?<!.-)`; `.` does not match a newline). -/
def reSplit : Nat → List Ch → Option Ch → Option Ch → List Ch → List (Bool × List Ch)
  | 0, _, _, _, cur => [(false, cur.reverse)]
  | _, [], _, _, cur => [(false, cur.reverse)]
  | fuel + 1, c :: rest, p2, p1, cur =>
    let blocked := p1 == some 45 && (match p2 with | some x => x != 10 | none => false)
    match (if blocked then none else escTokenLen (c :: rest)) with
    | some n =>
      let tok := (c :: rest).take n
      let rest' := (c :: rest).drop n
      let q1 := tok.getLast?
      let q2 := (tok.dropLast).getLast?
      (false, cur.reverse) :: (true, tok) :: reSplit fuel rest' q2 q1 []
    | none => reSplit fuel rest p1 (some c) (c :: cur)

/-- `_re_unicode_ref.search(part)`: some `\p{name}` / `\P{name}` with `name` in `[\w-]+` occurs -/
def hasUnicodeRef : List Ch → Bool
  | [] => false
  | 92 :: e :: 123 :: rest =>
    let isW (c : Ch) : Bool := (48 ≤ c && c ≤ 57) || (65 ≤ c && c ≤ 90) || (97 ≤ c && c ≤ 122) || c == 95 || c == 45 || c ≥ 128
    ((e == 112 || e == 80) && !(rest.takeWhile isW).isEmpty && (rest.dropWhile isW).head? == some 125)
      || hasUnicodeRef (e :: 123 :: rest)
  | _ :: rest => hasUnicodeRef rest

/-- one part of the split in `CharacterClass.add` (character_classes.py:160-190) -/
def addPart (T : MTables) (c : CC) (part : List Ch) : Option CC :=
  match part with
  | [92, e] =>
    if chIn e "sdicw" then some (c.addItem ⟨false, T.esc e⟩)
    else if chIn e "SDICW" then some (c.addItem ⟨true, T.esc (e + 32)⟩)
    else if e == 110 then some (c.addItem ⟨false, .single 10⟩)
    else if e == 114 then some (c.addItem ⟨false, .single 13⟩)
    else if e == 116 then some (c.addItem ⟨false, .single 9⟩)
    else if chIn e "|.-^?*+{}()[]\\" then some (c.addItem ⟨false, .single e⟩)
    else if e == 112 || e == 80 then none                       -- `\p` without `{..}`
    else (parseSubset part).map fun s => c.addItem ⟨false, s⟩
  | 92 :: e :: rest =>
    if e == 112 || e == 80 then
      if !hasUnicodeRef part then none else
      let name := rest.drop 1 |>.dropLast                       -- `part[3:-1]`
      match T.prop name with
      | some s => some (c.addItem ⟨e == 80, s⟩)
      | none => if (rest.drop 1).take 2 == [73, 115] then some (c.addItem ⟨false, .all⟩) else none
    else (parseSubset part).map fun s => c.addItem ⟨false, s⟩
  | _ => (parseSubset part).map fun s => c.addItem ⟨false, s⟩

/-- `CharacterClass(charset)` -/
def mkClass (T : MTables) (charset : List Ch) : Option CC :=
  (reSplit (charset.length + 1) charset none none []).foldlM (fun c p => addPart T c p.2) CC.new

/-- `HYPHENS_PATTERN = (?<!\\)--` -/
def hasDoubleHyphen : Option Ch → List Ch → Bool
  | p, 45 :: 45 :: rest => p != some 92 || hasDoubleHyphen (some 45) (45 :: rest)
  | _, c :: rest => hasDoubleHyphen (some c) rest
  | _, [] => false

/-- `INVALID_HYPHEN_PATTERN = [^\\]-[^\\]-[^\\]` -/
def hasInvalidHyphen : List Ch → Bool
  | a :: 45 :: b :: 45 :: c :: rest =>
    (a != 92 && b != 92 && c != 92) || hasInvalidHyphen (45 :: b :: 45 :: c :: rest)
  | _ :: rest => hasInvalidHyphen rest
  | [] => false

/-- the `while True` loop of `parse_character_class`: find the end of the group (`]` or `-[`),
skipping escapes; returns (group text, rest starting at `]` or `-[`) -/
def scanGroup : List Ch → List Ch → Option (List Ch × List Ch)
  | [], _ => none                                        -- IndexError
  | 91 :: _, _ => none                                   -- invalid character '['
  | 92 :: d :: rest, acc =>
    if 48 ≤ d && d ≤ 57 then none                        -- back-reference in class
    else scanGroup rest (d :: 92 :: acc)
  | 92 :: [], _ => none
  | 93 :: rest, acc => some (acc.reverse, 93 :: rest)
  | 45 :: 91 :: rest, acc => some (acc.reverse, 45 :: 91 :: rest)
  | c :: rest, acc => scanGroup rest (c :: acc)

/-- `parse_character_class()` with `pattern[pos] == '['` already consumed; returns the class and
the text after its closing `]` -/
def parseClassM (T : MTables) (v10 : Bool) : Nat → List Ch → Option (CC × List Ch)
  | 0, _ => none
  | fuel + 1, inp =>
    let (ng, inp) := match inp with
      | 94 :: rest => (true, rest)
      | _ => (false, inp)
    match scanGroup inp [] with
    | none => none
    | some (grp, rest) =>
      if grp.isEmpty then none                                                   -- empty class
      else if hasDoubleHyphen none grp && grp.length > 2 then none               -- '--'
      else if v10 && hasInvalidHyphen grp then none
      else
        match mkClass T grp with
        | none => none
        | some c =>
          let c := if ng then c.complement else c
          match rest with
          | 93 :: rest' => some (c, rest')
          | _ :: _ :: rest' =>                                                   -- `-[`
            match parseClassM T v10 fuel rest' with
            | some (sub, 93 :: rest'') => some (c.isub sub, rest'')
            | _ => none
          | _ => none

def isHex (c : Ch) : Bool := (48 ≤ c && c ≤ 57) || (65 ≤ c && c ≤ 70) || (97 ≤ c && c ≤ 102)
def isDig (c : Ch) : Bool := 48 ≤ c && c ≤ 57

/-- `FORBIDDEN_ESCAPES_REF_PATTERN` / `..._NOREF_PATTERN` `.search(pattern)` (patterns.py:25-30,
checked before the scan): `(?<!\\)\\(U[hex]{8}|u[hex]{4}|x[hex]{2}|o{\d+}|A|Z|z|B|b|o|0\d{2})`,
and `\d+` as well when back-references are off.  (`\d` is modelled for ASCII digits.) -/
def forbiddenEscape (backrefs : Bool) : Option Ch → List Ch → Bool
  | _, [] => false
  | prev, 92 :: rest =>
    let hit : Bool :=
      prev != some 92 &&
      (match rest with
       | 85 :: r => (r.take 8).length == 8 && (r.take 8).all isHex
       | 117 :: r => (r.take 4).length == 4 && (r.take 4).all isHex
       | 120 :: r => (r.take 2).length == 2 && (r.take 2).all isHex
       | 65 :: _ | 90 :: _ | 122 :: _ | 66 :: _ | 98 :: _ | 111 :: _ => true
       | 48 :: a :: b :: _ => (isDig a && isDig b) || !backrefs
       | d :: _ => !backrefs && isDig d
       | [] => false)
    hit || forbiddenEscape backrefs (some 92) rest
  | _, c :: rest => forbiddenEscape backrefs (some c) rest

/-- a whole pattern that is one class expression `[...]` (through `translate_pattern`) -/
def parseClassText (T : MTables) (v10 : Bool) (backrefs : Bool) (s : List Ch) : Option CC :=
  if forbiddenEscape backrefs none s then none else
  match s with
  | 91 :: rest =>
    match parseClassM T v10 (rest.length + 1) rest with
    | some (c, []) => some c
    | _ => none
  | _ => none

end EPV.Regex

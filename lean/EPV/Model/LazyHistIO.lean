/-
Driver side of the walk histories of C14 (request `lazy=<ElementTree tokens> walks=<w1>/<w2>/…`, a walk = `i.j.k` or `-`).

Answer:
  built=<ip>;<kind>;<node.path>|…   every node `iter_lazy()` yields on the tree after ALL walks
  targets=<rec>|…                   one per walk: <ip of the node reached>;<its path in the state right after
                                    this walk>;<path in the eagerly built tree>;<selected in the final state>;
                                    <selected in the eagerly built tree>
  counts=<n1>,<n2>,…                number of nodes `iter_lazy()` yields after each walk
  good=<0|1>                        (diagnostic) the final state still has a node wherever an earlier state had one
  eager=<kinds>  full=<kinds>
-/
import EPV.Model.LazyPathIO
import EPV.Model.LazyHist
namespace EPV.NodePath
open EPV.Proto

def targetOf (t : LNode) (is : List Nat) : List Nat :=
  ((iterLazy t []).filter fun ip => ip.isPrefixOf is).foldl (fun a b => if b.length ≥ a.length then b else a) []

def answerLazyHist (tokens walks : String) : String :=
  match parseETree (tokens.splitOn ","), (walks.splitOn "/").mapM parseIp with
  | some (src, []), some ws =>
    let states := reachStates (lazyRoot src) ws          -- before the first walk, after walk 1, …
    let final := reachMany (lazyRoot src) ws
    let v := view final
    let e := eager src
    let built := (iterLazy final []).map fun ip =>
      s!"{showIp ip};{((descend v ip).map kindLetter).getD "?"};{absText v ip}"
    let targets := (ws.zip (states.drop 1)).map fun (w, t) =>
      let tgt := targetOf t w
      s!"{showIp tgt};{absText (view t) tgt};{absText e tgt};{absSel v tgt};{absSel e tgt}"
    let counts := (states.drop 1).map fun t => toString (iterLazy t []).length
    let mono := (states.all fun t => (iterLazy t []).all fun ip => (descend v ip).isSome)
    let full := view (forceAll (etDepth src + 1) final)
    s!"built={"|".intercalate built} targets={"|".intercalate targets} counts={",".intercalate counts} good={if mono then 1 else 0} eager={"".intercalate (kindsOf e)} full={"".intercalate (kindsOf full)}"
  | _, _ => "bad-lazy-history"

end EPV.NodePath

/-
C11 extension (phase 5): the timezone LEXICAL reader and printer of `elementpath/datatypes/datetime.py`,
`Timezone.fromstring` (lines 57-70) and `Timezone.__str__` / `tzname` (lines 93-115), on ARBITRARY text
(the existing `EPV.CalLex.tzParse` only covers a text already matched by the `tzinfo` group of the date patterns).
Mirrors the code after `fix-c11-5` (F11z): the text is stripped of XML white space, the three zero forms are answered
directly, anything else must match `_TIMEZONE_PATTERN` in full before it is split.  Line by line, including the CPython
primitives the method is made of: `str.strip(chars)`, `re.fullmatch`, `str.split(':')`, `int(str)` (white space, sign,
`_` separators, Unicode decimal digits, the 4300-digit limit), the `datetime.timedelta` range (OverflowError) and the
`Timezone.__init__` range check (ValueError) — the last four can no longer fail after the pattern, which is a theorem.
Core Lean only.
-/
namespace EPV.TzLex

abbrev Str := List Char

/-- result of `Timezone.fromstring`: the offset in minutes, or the class of the exception raised -/
inductive Res where
  | ok (minutes : Int)
  | valueError
  | overflowError
deriving DecidableEq, Repr

def Res.isOk : Res → Bool
  | .ok _ => true
  | _ => false

/-- code points with `str.isspace()` true (`Py_UNICODE_ISSPACE`; checked against the live interpreter on every run) -/
def pySpaceCPs : List Nat :=
  [9, 10, 11, 12, 13, 28, 29, 30, 31, 32, 133, 160, 5760, 8192, 8193, 8194, 8195, 8196, 8197, 8198, 8199, 8200, 8201,
   8202, 8232, 8233, 8239, 8287, 12288]

def isPySpace (c : Char) : Bool := pySpaceCPs.contains c.toNat

/-- the argument of `text.strip(' \\t\\n\\r')` -/
def stripChars : List Char := [' ', '\t', '\n', '\r']
def isStripChar (c : Char) : Bool := stripChars.contains c

/-- `text.strip(' \\t\\n\\r')` -/
def xmlStrip (s : Str) : Str := ((s.dropWhile isStripChar).reverse.dropWhile isStripChar).reverse

def cls09 : List Char := ['0', '1', '2', '3', '4', '5', '6', '7', '8', '9']
def cls03 : List Char := ['0', '1', '2', '3']
def cls05 : List Char := ['0', '1', '2', '3', '4', '5']

/-- `_TIMEZONE_PATTERN.fullmatch(literal) is not None` for `[+-](?:(?:0[0-9]|1[0-3]):[0-5][0-9]|14:00)`
(explicit ASCII classes: `\\d` would also match the other Unicode decimal digits) -/
def matchPattern : Str → Bool
  | [sg, a, b, c, d, e] =>
    (sg == '+' || sg == '-') &&
    ((((a == '0' && cls09.contains b) || (a == '1' && cls03.contains b)) && c == ':' && cls05.contains d && cls09.contains e) ||
     (a == '1' && b == '4' && c == ':' && d == '0' && e == '0'))
  | _ => false

/-- `('Z', '00:00', '-0:0')`: the literals answered with a zero offset before the pattern is consulted; the last two are
not XSD literals and are kept because tests/test_datatypes.py pins them (narrowed finding F11z) -/
def zeroForms : List Str := [['Z'], ['0', '0', ':', '0', '0'], ['-', '0', ':', '0']]

/-- `s.split(':')` -/
def splitColon : Str → List Str
  | [] => [[]]
  | c :: r =>
    if c == ':' then [] :: splitColon r
    else match splitColon r with
      | h :: t => (c :: h) :: t
      | [] => [[c]]

/-- code points of the digit ZERO of every Unicode decimal-digit run (`Nd`, value 0; the nine following code points are
1..9) as known to the interpreter (`Py_UNICODE_TODECIMAL`; checked against the live interpreter on every run) -/
def ndZeros : List Nat :=
  [48, 1632, 1776, 1984, 2406, 2534, 2662, 2790, 2918, 3046, 3174, 3302, 3430, 3558, 3664, 3792, 3872, 4160, 4240, 6112,
   6160, 6470, 6608, 6784, 6800, 6992, 7088, 7232, 7248, 42528, 43216, 43264, 43472, 43504, 43600, 44016, 65296, 66720,
   68912, 69734, 69872, 69942, 70096, 70384, 70736, 70864, 71248, 71360, 71472, 71904, 72016, 72784, 73040, 73120, 73552,
   92768, 92864, 93008, 120782, 120792, 120802, 120812, 120822, 123200, 123632, 124144, 125264, 130032]

/-- `Py_UNICODE_TODECIMAL` -/
def decimalOf (c : Char) : Option Nat :=
  (ndZeros.find? fun z => z ≤ c.toNat && c.toNat < z + 10).map (c.toNat - ·)

/-- `_PyUnicode_TransformDecimalAndSpaceToASCII` (used by `int(str)`): code points < 127 unchanged, other white space
→ `' '`, other decimal digits → ASCII digit; anything else makes the conversion fail (`none`) -/
def toAscii : Str → Option Str
  | [] => some []
  | c :: r =>
    if c.toNat < 127 then (toAscii r).map (c :: ·)
    else if isPySpace c then (toAscii r).map (' ' :: ·)
    else match decimalOf c with
      | some d => (toAscii r).map (Char.ofNat (48 + d) :: ·)
      | none => none

/-- C `Py_ISSPACE`: space, `\t \n \v \f \r` (NOT `\x1c..\x1f`, which `str.strip` removes) -/
def isCSpace (c : Char) : Bool := c.toNat == 32 || (9 ≤ c.toNat && c.toNat ≤ 13)

/-- the digits of `D(_?D)*` (`prev` = the previous character was a digit); `none` when the text has another shape -/
def scanDigits : Str → Bool → Option Str
  | [], prev => if prev then some [] else none
  | c :: r, prev =>
    if c.isDigit then (scanDigits r true).map (c :: ·)
    else if c == '_' && prev then scanDigits r false
    else none

/-- `int(s)` for a `str` (base 10): `none` = ValueError -/
def pyInt (s : Str) : Option Int :=
  match toAscii s with
  | none => none
  | some a =>
    let a := a.dropWhile isCSpace
    let (neg, a) := match a with
      | '+' :: r => (false, r)
      | '-' :: r => (true, r)
      | r => (false, r)
    let body := (a.reverse.dropWhile isCSpace).reverse
    match scanDigits body false with
    | none => none
    | some ds =>
      if ds.length > 4300 then none      -- sys.int_max_str_digits
      else
        let v : Int := (Nat.ofDigitChars 10 ds 0 : Nat)
        some (if neg then -v else v)

/-- `datetime.timedelta(minutes=total)` followed by `Timezone.__init__` (datetime.py:49-55): OverflowError of
`timedelta` when |days| > 999999999, ValueError of the constructor outside −14:00..+14:00 -/
def ctor (total : Int) : Res :=
  if total / 1440 < -999999999 || total / 1440 > 999999999 then .overflowError
  else if total < -840 || total > 840 then .valueError
  else .ok total

/-- the tail of `Timezone.fromstring` (datetime.py, after the pattern check) on the stripped literal:
```
hours, minutes = literal.split(':')                      # ValueError unless exactly two parts
if hours.startswith('-'): cls(timedelta(hours=int(hours), minutes=-int(minutes)))
else:                     cls(timedelta(hours=int(hours), minutes=int(minutes)))
``` -/
def tryBody (t : Str) : Res :=
  match splitColon t with
  | [hours, minutes] =>
    match pyInt hours, pyInt minutes with
    | some h, some mi => ctor (if hours.head? == some '-' then h * 60 - mi else h * 60 + mi)
    | _, _ => .valueError
  | _ => .valueError

/-- `Timezone.fromstring` after `literal = text.strip(' \\t\\n\\r')`:
```
if literal in ('Z', '00:00', '-0:0'): return cls(timedelta(0))
elif _TIMEZONE_PATTERN.fullmatch(literal) is None: raise ValueError(...)
```
then the split/int/constructor tail -/
def fromLiteral (lit : Str) : Res :=
  if zeroForms.contains lit then .ok 0
  else if !matchPattern lit then .valueError
  else tryBody lit

/-- `Timezone.fromstring` (datetime.py, `fix-c11-5`), result in minutes (argument-type errors are outside: the text is a `str`) -/
def fromString (text : Str) : Res := fromLiteral (xmlStrip text)

/-- `'{:02d}'.format(n)` -/
def fmt02 (n : Nat) : Str :=
  let ds := Nat.toDigits 10 n
  List.replicate (2 - ds.length) '0' ++ ds

/-- `Timezone.__str__` = `tzname(None)` (datetime.py:93-115) of an offset of `m` minutes:
`'Z'` when `not self.offset`; else sign and `offset.seconds // 3600`, `offset.seconds // 60 % 60` of the absolute value -/
def toStr (m : Int) : Str :=
  if m == 0 then ['Z']
  else
    let sign := if m < 0 then '-' else '+'
    let seconds := (m.natAbs * 60) % 86400
    sign :: (fmt02 (seconds / 3600) ++ ':' :: fmt02 (seconds / 60 % 60))

end EPV.TzLex

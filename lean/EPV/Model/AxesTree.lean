/-
C01 — the inductive view of an XML tree (DESIGN.md "Shared model A" (i)) and its pre-order array
`flatten` (view (ii), on which `EPV/Model/Axes.lean` works).  Core Lean only.
`EPV/Lemmas/AxesFlatten.lean` proves `WF r.mode r.flatten` for every tree, so every theorem about
well-formed arrays holds for every finite tree.

  * an element carries its namespace nodes (prefixes, `xml` first in elementpath), its attributes
    (namespace URI, local name) and its children; text / comment / processing-instruction are leaves
  * `Root.doc kids`        a document node with its children (comments, PIs, the root element)
  * `Root.dummy …` / `Root.frag …`  an element root (default form with elementpath's dummy document /
    `fragment=True`)
-/
import EPV.Model.Axes
namespace EPV.XP

inductive LeafKind where
  | text | comment | pi
  deriving DecidableEq, Repr, Inhabited

def LeafKind.toKind : LeafKind → Kind
  | .text => .text
  | .comment => .comment
  | .pi => .pi

mutual
  inductive XNode where
    | elem (uri name : String) (nss : List String) (attrs : List (String × String)) (kids : XForest)
    | leaf (k : LeafKind) (name : String)
  inductive XForest where
    | nil
    | cons (k : XNode) (ks : XForest)
end

/-- the namespace and attribute records of the element at index `i` -/
def hdrRecs (i : Nat) (nss : List String) (attrs : List (String × String)) : List Rec :=
  nss.map (fun pf => (⟨.ns, "", pf, some i, 0⟩ : Rec)) ++
  attrs.map (fun ul => (⟨.attr, ul.1, ul.2, some i, 0⟩ : Rec))

mutual
  /-- records of the subtree of a node placed at index `i` with parent `p` -/
  def flatNode (p : Option Nat) (i : Nat) : XNode → List Rec
    | .elem u n nss attrs kids =>
      ⟨.elem, u, n, p, (hdrRecs i nss attrs).length +
          (flatForest (some i) (i + 1 + (hdrRecs i nss attrs).length) kids).length⟩ ::
        (hdrRecs i nss attrs ++ flatForest (some i) (i + 1 + (hdrRecs i nss attrs).length) kids)
    | .leaf k nm => [⟨k.toKind, "", nm, p, 0⟩]
  /-- records of a sequence of siblings starting at index `i` -/
  def flatForest (p : Option Nat) (i : Nat) : XForest → List Rec
    | .nil => []
    | .cons k ks => flatNode p i k ++ flatForest p (i + (flatNode p i k).length) ks
end

inductive Root where
  | doc (kids : XForest)
  | dummy (uri name : String) (nss : List String) (attrs : List (String × String)) (kids : XForest)
  | frag (uri name : String) (nss : List String) (attrs : List (String × String)) (kids : XForest)

def Root.mode : Root → Mode
  | .doc _ => .doc
  | .dummy .. => .dummy
  | .frag .. => .frag

def Root.flatten : Root → Arr
  | .doc kids =>
    ⟨.doc, "", "", none, (flatForest (some 0) 1 kids).length⟩ :: flatForest (some 0) 1 kids
  | .dummy u n nss attrs kids => ⟨.doc, "", "", none, 0⟩ :: flatNode none 1 (.elem u n nss attrs kids)
  | .frag u n nss attrs kids => flatNode none 0 (.elem u n nss attrs kids)

end EPV.XP

/-
C02 — the context discipline of the evaluator for the operator fragment of the property, as a small
state-passing model: an expression is evaluated against the *mutable* context object of the caller
(`item`, `position`, `size`, `axis`), returns its value and leaves the context in some state.

Transcribed disciplines (after the fixes F02f, F02g, F02h):
* step / axis / name-test / variable selectors: `status = self.item, self.axis; …; self.item, self.axis = status`
  (xpath_context.py iterators) — `leaf`
* leading `/`, `//` (`_xpath1_operators.py` `select__child_path` / `select__descendant_path`, one operand):
  `item = context.item; context.item = context.document; yield from self[0].select(context); context.item = item`
* `E1/E2` (`select_with_focus`): the step expression runs on the same context, per item of `E1`
  with `item`, `position`, `size` set; the status is restored at the end
* `union` `|` `intersect` `except` `,`: `self[k].select(copy(context))` — each operand on its own copy
* `is` `<<` `>>`: `self[0].select(context)` then `self[1].select(context)` — ONE shared context
* `innermost` `outermost` `root`: argument on the caller's context, the ancestor scan on a copy
Core Lean only.
-/
namespace EPV.Focus

structure Focus where
  item : Nat
  position : Nat
  size : Nat
  axis : Option String
  deriving DecidableEq, Repr

/-- complete evaluation: the value and the state in which the caller's context object is left -/
abbrev Sel := Focus → List Nat × Focus

inductive Expr where
  /-- a selector that follows the save/restore discipline; its value depends on the context item -/
  | leaf (g : Nat → List Nat)
  /-- leading `/` or `//` -/
  | rootPath (e : Expr)
  /-- `E1/E2`; `norm` = document order without duplicates -/
  | step (norm : List Nat → List Nat) (e1 e2 : Expr)
  /-- `union`, `|`, `intersect`, `except` -/
  | setop (op : List Nat → List Nat → List Nat) (e1 e2 : Expr)
  /-- `is`, `<<`, `>>` (result encoded as a list) -/
  | cmp (op : List Nat → List Nat → List Nat) (e1 e2 : Expr)
  /-- `E1, E2` -/
  | comma (e1 e2 : Expr)
  /-- `innermost(E)`, `outermost(E)`, `root(E)` -/
  | scan (op : List Nat → List Nat) (e : Expr)

/-- items of a list with their 1-based positions -/
def enum1 (l : List Nat) : List (Nat × Nat) := l.zipIdx 1

/-- how the implementation treats the caller's context -/
def evalSt : Expr → Sel
  | .leaf g, f => (g f.item, f)
  | .rootPath e, f =>
      let r := evalSt e { f with item := 0 }                 -- `context.item = context.document`
      (r.1, { r.2 with item := f.item })                     -- `context.item = item`
  | .step norm e1 e2, f =>
      let r1 := evalSt e1 f
      let vals := (enum1 r1.1).flatMap fun (it, k) =>
        (evalSt e2 { r1.2 with item := it, position := k, size := r1.1.length }).1
      (norm vals, r1.2)                                       -- `self.item, self.size, … = status`
  | .setop op e1 e2, f => (op (evalSt e1 f).1 (evalSt e2 f).1, f)      -- copies
  | .cmp op e1 e2, f =>
      let r1 := evalSt e1 f
      let r2 := evalSt e2 r1.2                                -- the SAME context object
      (op r1.1 r2.1, r2.2)
  | .comma e1 e2, f => ((evalSt e1 f).1 ++ (evalSt e2 f).1, f)         -- copies (F02f)
  | .scan op e, f =>
      let r := evalSt e f
      (op r.1, r.2)                                           -- the scan itself runs on a copy (F02h)

/-- XPath 3.1 §2.1.2 / §3: every operand is evaluated with the focus of the enclosing expression -/
def evalPure : Expr → Focus → List Nat
  | .leaf g, f => g f.item
  | .rootPath e, f => evalPure e { f with item := 0 }
  | .step norm e1 e2, f =>
      norm ((enum1 (evalPure e1 f)).flatMap fun (it, k) =>
        evalPure e2 { f with item := it, position := k, size := (evalPure e1 f).length })
  | .setop op e1 e2, f => op (evalPure e1 f) (evalPure e2 f)
  | .cmp op e1 e2, f => op (evalPure e1 f) (evalPure e2 f)
  | .comma e1 e2, f => evalPure e1 f ++ evalPure e2 f
  | .scan op e, f => op (evalPure e f)

/-! the disciplines before the fixes, for the kernel-checked witnesses -/

/-- leading `/` before F02g: the item stays on the document -/
def rootPathOld (s : Sel) : Sel := fun f => s { f with item := 0 }

/-- `is`-like comparison of two selectors on one shared context -/
def cmpShared (op : List Nat → List Nat → List Nat) (s1 s2 : Sel) : Sel := fun f =>
  let r1 := s1 f
  let r2 := s2 r1.2
  (op r1.1 r2.1, r2.2)

end EPV.Focus

/-
C01 — the second evaluation path: `token.evaluate(context)`, and the 3.0 / 3.1 parenthesised
expression whose `select` is the generic `XPathToken.select` over `evaluate`.

What `evaluate` returns for a token of the fragment (`PyVal`: a Python list, a single node, an atomic):
  * default `XPathToken.evaluate` (all axis tokens, `/`, `//`, `[`, `|`, kind tests) and the own `evaluate`
    of name tests and `*`:  `xlist(self.select(context))`                                → `toPy (select value)`
  * tokens that only define `evaluate` (literals, `position`, `last`, `count`, `not`, `and`, `or`,
    comparisons): the atomic value; their `select` is the generic one                     → `toPy` as well
  * `.`  : `return context.item`                                                          → a single node
  * `..` : `for value in copy(context).iter_parent(): return value` / `else: return []`    → node | []
  * `(`…`)` 1.0 / 2.0: `self[0].evaluate(context)`;  3.0 / 3.1: the same, a one-item list unwrapped
The generic `select`: `item = self.evaluate(context); yield from item if list else yield item` = `ofPy`.
(The generated table `EPV.Gen.C01.evalSelect` records for every token symbol and parser class which of
the two methods is the generic one; `EPV/Props/C01Methods.lean` checks it.)
-/
import EPV.Model.Paths
namespace EPV.XP

inductive PyVal where
  | seq (l : List Nat)
  | node (n : Nat)
  | num (k : Nat)
  | dec (neg : Bool) (tenths : Nat)
  | bool (b : Bool)
  | err
  deriving DecidableEq, Repr

/-- `xlist(self.select(context))` for node results / the atomic value -/
def toPy : Val → PyVal
  | .nodes l => .seq l
  | .num k => .num k
  | .dec n t => .dec n t
  | .bool b => .bool b
  | .err => .err

/-- the generic `XPathToken.select`: a list is expanded, anything else is yielded as one item -/
def ofPy : PyVal → Val
  | .seq l => .nodes l
  | .node n => .nodes [n]
  | .num k => .num k
  | .dec n t => .dec n t
  | .bool b => .bool b
  | .err => .err

/-- `if isinstance(value, list) and len(value) == 1: value = value[0]` (3.0 `(`) -/
def unwrap1 : PyVal → PyVal
  | .seq [n] => .node n
  | v => v

/-- `token.evaluate(context)`; `v3` = the 3.0 / 3.1 parser classes.  The `select` value of every token other
than `(` is `eval` (`EPV/Model/Paths.lean`; shared function objects: `EPV.C01.methods_shared`). -/
def evaluate (v3 : Bool) (m : Mode) (a : Arr) : Expr → Focus → PyVal
  | .ctxItem, f => .node f.item
  | .parentAbbr, f =>
    match iterParent m a f.item with
    | p :: _ => .node p
    | [] => .seq []
  | .paren e, f => if v3 then unwrap1 (evaluate v3 m a e f) else evaluate v3 m a e f
  | e, f => toPy (eval m a e f)

/-- `select` of the 3.0 / 3.1 parenthesised expression: generic select over its own `evaluate` -/
def selectParen30 (m : Mode) (a : Arr) (e : Expr) (f : Focus) : Val :=
  ofPy (evaluate true m a (.paren e) f)

end EPV.XP

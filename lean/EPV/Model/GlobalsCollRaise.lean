/-
C19 (phase 5b) — the comparison bracket `CollationManager._locale_call` (collations.py) with the
outcome of the C-library call made explicit: `locale.strcoll` / `locale.strxfrm` *raise*
`ValueError: embedded null character` on an operand containing U+0000.

```
def _locale_call(self, func, *args):
    with _locale_collate_lock:
        current = locale.setlocale(locale.LC_COLLATE, None)
        locale.setlocale(locale.LC_COLLATE, self._effective_lc_collate)
        try:     return func(*args)          # may raise
        finally: locale.setlocale(locale.LC_COLLATE, current)
```
`useLocR w eff false` is `useLoc w eff` (EPV/Model/Globals.lean).  Core Lean only.
-/
import EPV.Model.Globals
namespace EPV.Globals.CollRaise
open EPV.Globals

/-- the bracket as it is: the `finally` restores on the normal and on the exceptional exit, then the
`with` statement releases the lock; the primitive's `ValueError` stays pending through both -/
def useLocR (w : World) (eff : Loc) (raises : Bool) (σ : State) : Res Unit :=
  if σ.lock then .stuck σ
  else
    let σ1 := { σ with lock := true }
    let saved := σ1.lc
    match setloc w σ1 eff with
    | none => .err .localeError { logFail σ1 eff with lock := false }
    | some σ2 =>
      leave w saved (if raises then .error .valueError else .ok ())
        { σ2 with log := σ2.log ++ [.coll eff σ2.lc] }

/-- the variant without `try/finally` (restore only after a normal return): the `with` statement
still releases the lock when the primitive raises, the locale stays switched -/
def useLocNoFinally (w : World) (eff : Loc) (raises : Bool) (σ : State) : Res Unit :=
  if σ.lock then .stuck σ
  else
    let σ1 := { σ with lock := true }
    let saved := σ1.lc
    match setloc w σ1 eff with
    | none => .err .localeError { logFail σ1 eff with lock := false }
    | some σ2 =>
      let σ3 := { σ2 with log := σ2.log ++ [.coll eff σ2.lc] }
      if raises then .err .valueError { σ3 with lock := false }
      else leave w saved (.ok ()) σ3

/-- the state a result ends in -/
def final : Res Unit → State
  | .ok _ σ => σ
  | .err _ σ => σ
  | .stuck σ => σ

def isStuck : Res Unit → Bool
  | .stuck _ => true
  | _ => false

/-- a sequence of comparisons by one manager, the `k`-th (if any) raising: later ones are not made -/
def useMany (w : World) (eff : Loc) : List Bool → State → Res Unit
  | [], σ => .ok () σ
  | r :: rs, σ =>
    match useLocR w eff r σ with
    | .ok _ σ' => useMany w eff rs σ'
    | other => other

end EPV.Globals.CollRaise

/-
C16 extension (phase 5) — model of the code for arrays and maps holding function items.

| Python | Lean |
|---|---|
| `XPathArray.evaluate` / `_evaluate` (`xpath_tokens/arrays.py:89-102`): square constructor `[tk.evaluate(context) for tk in self._items]` — the members are VALUES; an inline function member is the item `_InlineFunction.evaluate` returns (its own `variables` copy) | `runCont` (array branch): `evalList` over the member expressions in the dict of the place of creation |
| `XPathMap.evaluate` + `__init__` (`xpath_tokens/maps.py:136-150, 206-216`): `(get_key(k), v.evaluate(context))` pair by pair, `dict_key(k) in _map → XQDY0137` after the value of the duplicate entry was evaluated | `runCont` (map branch): `firstDup`, `evalList` over the prefix up to the duplicate |
| `XPathArray.__call__` (`arrays.py:105-123`): one xs:integer, `position <= 0 → FOAY0001`, `items[position - 1]`, `IndexError → FOAY0001` | `arrGet` |
| `XPathMap.__call__` (`maps.py:242-264`): `_map[dict_key(key)]`, `KeyError → []` | `mapGet` |
| unary lookup `?k` (`xpath31/_xpath31_operators.py`, `'?'` led: `items(context)[k-1]` / `map(k)`) — same member | `contGet` |
| `'('.evaluate` (`xpath30/_xpath30_operators.py:79-139`) on the looked-up value: one function item, partial application when a `?` argument, else arguments then `func(*args, context=context)` | `useBody` (`call`): `IM.single`, `partialApply`, `evalList`, `callFn` of `Model/Closures.lean` |
| `for $f in $c?k return $f(args)` (`xpath2/_xpath2_operators.py:206-220`) | `useBody` (`each`): `forLoop` |
| `let` (`xpath30/_xpath30_operators.py:174-188`) | `runLets` |
| `evaluate__array_for_each` (`xpath31/_xpath31_functions.py:524-534`): `func = get_argument(index=1, cls=XPathFunction)`, `XPathArray(items=map(lambda x: func(x, context=context), items))`, `if func.arity != 1: raise XPTY0004` (repair F16x), then `?*` (`iter_flatten`) | `runUses` (`forEach`, array): `funArgCheck`, `hofMembers` |
| `select__map_for_each` (`:284-300`): `if func.arity != 2: raise XPTY0004` (repair F16x), `for k, v in map_.items(context): result = func(k, v, context=context)` | `runUses` (`forEach`, map), `argLists` |

The container itself is not an `Item` (the closure fragment has no container values): it lives in the
variable `$c`, which no expression of the fragment can name, and is consulted only by the uses.
-/
import EPV.Model.Closures
import EPV.Spec.ContainerSem
namespace EPV.Clo

/-- `XPathArray.__call__`: `position <= 0 → FOAY0001`; `items[position - 1]`, `IndexError → FOAY0001` -/
def arrGet (ms : List Seq) (k : Int) : Except XErr Seq :=
  if k ≤ 0 then .error .FOAY0001
  else match ms[(k - 1).toNat]? with
    | some m => .ok m
    | none => .error .FOAY0001

/-- `XPathMap.__call__`: `try: return _map[dict_key(key)] except KeyError: return []` -/
def mapGet (kv : List (Int × Seq)) (k : Int) : Seq :=
  match kv.lookup k with
  | some m => m
  | none => []

def contGet (isMap : Bool) (kv : List (Int × Seq)) (k : Int) : Except XErr Seq :=
  if isMap then .ok (mapGet kv k) else arrGet (kv.map (·.2)) k

section Cont
variable (cfg : Cfg) (ev : Expr → ICtx → Env → IM (Seq × Env))

/-- nested `let`: each binding evaluated in the dict so far, written into the (copied) dict -/
def runLets {α} (k : ICtx → Env → IM α) : ICtx → Env → List (Nat × Expr) → IM α
  | c, D, [] => k c D
  | c, D, (x, e) :: r => do
    let xv ← ev e c D
    runLets k { c with lex := (x, xv.1) :: c.lex } (envSet xv.2 x xv.1) r

/-- one use, given the member that the lookup returned -/
def useBody (c : ICtx) (D : Env) (tgt : Seq) : CUse → IM (Seq × Env)
  | .get _ => pure (tgt, D)
  | .call _ args => do
    let a ← IM.single tgt
    if args.any Option.isNone then partialApply cfg ev c D a args
    else do
      let vals ← evalList ev c D (args.filterMap id)
      callFn cfg ev c vals.2 a vals.1
  | .each x _ args => do
    let r ← forLoop ev c x (.call (.var x) args) D [] tgt
    pure (r.1, D)

/-- `for x in items: func(x, context=context)` / `for k, v in map_.items(): func(k, v, context=context)` -/
def hofMembers (c : ICtx) (a : Nat) : Env → Seq → List (List Seq) → IM (Seq × Env)
  | D, acc, [] => pure (acc, D)
  | D, acc, as :: rest => do
    let r ← callFn cfg ev c D a as
    hofMembers c a r.2 (acc ++ r.1) rest

/-- the operands of the final `,` left to right -/
def runUses (isMap : Bool) (kv : List (Int × Seq)) (c : ICtx) :
    Env → Seq → List CStep → IM (Except XErr Seq × Env)
  | D, acc, [] => pure (.ok acc, D)
  | D, acc, .use u :: us =>
    match contGet isMap kv u.key with
    | .error x => pure (.error x, D)
    | .ok tgt => do
      let r ← useBody cfg ev c D tgt u
      runUses isMap kv c r.2 (acc ++ r.1) us
  | D, acc, .forEach f :: us => do
    -- `get_argument(context, index=1, required=True, cls=XPathFunction)`: one function item;
    -- `if func.arity != 1 (2): raise XPTY0004` (repair F16x: also for an empty array / map)
    let fa ← funArgCheck ev c D f (if isMap then 2 else 1)
    let r ← hofMembers cfg ev c fa.1 fa.2 [] (argLists isMap kv)
    runUses isMap kv c r.2 (acc ++ r.1) us

def runCont (p : CProg) (c : ICtx) (D : Env) : IM (Except XErr Seq × Env) :=
  runLets ev (fun c1 D1 =>
    match (if p.isMap then firstDup [] (p.entries.map (·.1)) 0 else none) with
    | some j => do
      let r ← evalList ev c1 D1 ((p.entries.take (j + 1)).map (·.2))
      pure (.error .XQDY0137, r.2)
    | none => do
      let ms ← evalList ev c1 D1 (p.entries.map (·.2))
      let kv := (p.entries.map (·.1)).zip ms.1
      runLets ev (fun c2 D2 => runUses cfg ev p.isMap kv c2 D2 [] p.uses) c1 ms.2 p.post) c D p.pre

end Cont

structure COutcome where
  result : Except Err (Except XErr Seq)
  flags : Flags
  deriving Repr, DecidableEq

/-- a whole container program on the tree described by `cfg` -/
def implContEval (cfg : Cfg) (fuel : Nat) (p : CProg) : COutcome :=
  let r := runCont cfg (eval cfg fuel) p { item := some (.int 1), lex := [] } [] { heap := [], slots := [] }
  { result := r.2.map (·.1.1), flags := r.1 }

end EPV.Clo

/-
Executable model of elementpath's numeric operators and rounding functions, transcribed from the
Python that exists in the tree *with the `fix:` commits of branch fix-c06 applied* (see docs/C06.md):

  get_operands            elementpath/xpath_tokens/base.py:586-635   → `coerce`
  '+' '-' (binary/unary)  elementpath/xpath1/_xpath1_operators.py:107-166 → `opAdd` `opSub` `opNeg` `opPos`
  '*'                     elementpath/xpath_tokens/tokens.py:375-418 → `opMul`
  'div'                   elementpath/xpath1/_xpath1_operators.py:170-206 → `opDiv`
  'mod'                   elementpath/xpath1/_xpath1_operators.py:209-235 → `opMod`
  'idiv'                  elementpath/xpath2/_xpath2_operators.py:641-672 → `opIdiv`
  floor / ceiling         elementpath/xpath1/_xpath1_functions.py:466-497 → `fnFloorCeil`
  round (1 argument)      elementpath/xpath1/_xpath1_functions.py:500-535 → `fnRound1`
  round (3.0, precision)  elementpath/xpath30/_xpath30_functions.py:1787-1823 → `fnRound`
  round-half-to-even, abs elementpath/xpath2/_xpath2_functions.py:354-411 → `fnRhe` `fnAbs`
  Float.__new__ / dunder  elementpath/datatypes/numeric.py:24-170 → `mkFloat`, `liftF`

Python values: `int` (unbounded `Int`), `decimal.Decimal` (coefficient and scale, value n·10^-s;
the decimal context — 28 digits, ROUND_HALF_EVEN — is `ctx28`), `float` (a `Dbl`) and elementpath's
`Float` subclass of `float` (a `Dbl` marked `flt`).

Trusted, not modelled: IEEE-754 binary64 rounding of the hardware and of `float(int)`,
`float(Decimal)` = the parameter `R.r64`; `math.fmod` is exact; `float // float` returns the exact
floor of the exact quotient (true when |quotient| < 2^51; the driver flags the other cases).
Core Lean only.
-/
import EPV.Spec.FOArith
namespace EPV.Arith
open EPV.FOArith (Err Dbl Rounding rnd XVal BinOp UnOp f32safe)

inductive Ver | v10 | v20 | v30 | v31
  deriving DecidableEq, Repr, Inhabited

/-- a Python numeric object -/
inductive Num
  | int (n : Int)                 -- int
  | dec (n : Int) (s : Nat)       -- decimal.Decimal with value n / 10^s
  | dbl (d : Dbl)                 -- float
  | flt (d : Dbl)                 -- elementpath.datatypes.Float (subclass of float)
  deriving DecidableEq, Inhabited

/-! ### Python `int` -/

/-- Python `a // b` on ints (floor division) -/
def pyFloorDiv (a b : Int) : Int := Int.fdiv a b
/-- Python `a % b` on ints (sign of the divisor) -/
def pyMod (a b : Int) : Int := Int.fmod a b

/-- `idiv` on two ints, `_xpath2_operators.py`:
`result = op1 // op2; if result >= 0 or … or not op1 % op2: return int(result) else: return int(result) + 1` -/
def idivInt (a b : Int) : Int :=
  let result := pyFloorDiv a b
  if result ≥ 0 ∨ pyMod a b = 0 then result else result + 1

/-- `mod` on two ints, `_xpath1_operators.py`:
`abs(op1) % abs(op2) if op1 >= 0 else -(abs(op1) % abs(op2))` -/
def modInt (a b : Int) : Int :=
  if a ≥ 0 then pyMod (Int.natAbs a) (Int.natAbs b) else -(pyMod (Int.natAbs a) (Int.natAbs b))

/-! ### `decimal.Decimal` (sign, coefficient, exponent) with the default context -/

def p10 (k : Nat) : Nat := 10 ^ k

/-- number of decimal digits of a coefficient (`len(self._int)`), 1 for 0 -/
def numDigits (n : Nat) : Nat := FOArith.numDigits10 n

/-- rounded magnitude ⌊N/D⌉ for the three rounding modes used by the code; `D > 0` -/
inductive Mode | halfUp | halfDown | halfEven
  deriving DecidableEq, Repr

def roundMag (m : Mode) (N D : Nat) : Nat :=
  let q := N / D
  let r := N % D
  if 2 * r < D then q
  else if D < 2 * r then q + 1
  else match m with
    | .halfUp => q + 1
    | .halfDown => q
    | .halfEven => if q % 2 = 0 then q else q + 1

/-- the context rounding applied to every arithmetic result: at most 28 significant digits,
ROUND_HALF_EVEN.  Result again as (n, s) (a positive exponent is multiplied out). -/
def ctx28 (n : Int) (s : Nat) : Int × Nat :=
  let c := n.natAbs
  let d := numDigits c
  if d ≤ 28 then (n, s) else
  let k := d - 28
  let c' := roundMag .halfEven c (p10 k)
  let sgn : Int := if n < 0 then -1 else 1
  if k ≤ s then (sgn * c', s - k) else (sgn * c' * p10 (k - s), 0)

def mkDec (p : Int × Nat) : Num := .dec p.1 p.2

/-- `Decimal.__add__`: align the exponents, add the coefficients, round to the context -/
def decAdd (a : Int) (sa : Nat) (b : Int) (sb : Nat) : Int × Nat :=
  let s := max sa sb
  ctx28 (a * p10 (s - sa) + b * p10 (s - sb)) s

def decMul (a : Int) (sa : Nat) (b : Int) (sb : Nat) : Int × Nat := ctx28 (a * b) (sa + sb)

/-- magnitude of the truncated quotient of two decimals: both coefficients brought to the common
scale, then integer division of the magnitudes (`Decimal._divide`) -/
def decQuotMag (a : Int) (sa : Nat) (b : Int) (sb : Nat) : Nat :=
  (a.natAbs * p10 (max sa sb - sa)) / (b.natAbs * p10 (max sa sb - sb))

/-- `Decimal.__floordiv__` (truncates toward zero; `b ≠ 0`): `none` = InvalidOperation because the
quotient has more than 28 digits -/
def decIdiv (a : Int) (sa : Nat) (b : Int) (sb : Nat) : Option Int :=
  let q := decQuotMag a sa b sb
  if numDigits q > 28 then none
  else some (if (a < 0) = (b < 0) then (q : Int) else -(q : Int))

/-- `Decimal.__mod__` (remainder of the truncating division, sign of the dividend; `b ≠ 0`) -/
def decMod (a : Int) (sa : Nat) (b : Int) (sb : Nat) : Option (Int × Nat) :=
  let s := max sa sb
  let q := decQuotMag a sa b sb
  if numDigits q > 28 then none
  else
    let r : Nat := (a.natAbs * p10 (s - sa)) % (b.natAbs * p10 (s - sb))
    some (ctx28 (if a < 0 then -(r : Int) else r) s)

/-- `Decimal.__truediv__`: the exact quotient rounded to 28 significant digits (half even);
`b ≠ 0` -/
def decDiv (a : Int) (sa : Nat) (b : Int) (sb : Nat) : Int × Nat :=
  let q : Rat := ((a * p10 sb : Int) : Rat) / ((b * p10 sa : Int) : Rat)
  if q = 0 then (0, 0) else
  let m := if q < 0 then -q else q
  let k : Int := 27 - FOArith.ilog10 m  -- digits kept after the decimal point
  let scaled : Rat := m * (10 : Rat) ^ k
  let c := roundMag .halfEven scaled.num.natAbs scaled.den
  let sgn : Int := if q < 0 then -1 else 1
  if 0 ≤ k then (sgn * c, k.toNat) else (sgn * c * p10 (-k).toNat, 0)

/-! ### Python `float`, `math.fmod`, elementpath `Float` -/

def ofInt (R : Rounding) (n : Int) : Dbl := rnd R.r64 n
def ofDec (R : Rounding) (n : Int) (s : Nat) : Dbl := rnd R.r64 ((n : Rat) / (p10 s : Nat))

/-- exact value of the Python literals `3.4028235E38` and `1e-37` in `Float.__new__` -/
def floatMax : Rat := 340282349999999991754788743781432688640
def floatTiny : Rat := (4789048565205903 : Rat) / 47890485652059026823698344598447161988085597568237568

/-- `Float.__new__`: clamp to ±INF above 3.4028235E38, flush to ±0 below 1e-37 -/
def mkFloat : Dbl → Dbl
  | .fin q =>
    if floatMax < q then .inf false
    else if q < -floatMax then .inf true
    else if -floatTiny < q ∧ q < floatTiny then .zero (decide (q < 0))
    else .fin q
  | d => d

/-- the arithmetic the implementation really performs on xs:float: binary64 rounding followed by the
range clamp of `Float.__new__` in place of rounding to binary32 -/
def implR (R : Rounding) : Rounding := { r64 := R.r64, r32 := fun q => mkFloat (R.r64 q) }

def fadd (R : Rounding) (x y : Dbl) : Dbl := FOArith.ieeeAdd R.r64 x y
def fsub (R : Rounding) (x y : Dbl) : Dbl := FOArith.ieeeAdd R.r64 x y.neg
def fmul (R : Rounding) (x y : Dbl) : Dbl := FOArith.ieeeMul R.r64 x y
/-- Python `x / y` on floats for `y ≠ 0` (the operators test `divisor != 0` first) -/
def ftruediv (R : Rounding) (x y : Dbl) : Dbl := FOArith.ieeeDiv R.r64 x y

/-- `math.fmod(x, y)` for finite `x` and `y ≠ 0` (exact; C library) -/
def fmod : Dbl → Dbl → Dbl
  | .nan, _ => .nan
  | _, .nan => .nan
  | x, .inf _ => x
  | .zero a, _ => .zero a
  | .fin x, .fin y =>
    let m := x - y * (FOArith.trunc (x / y) : Int)
    if m = 0 then .zero (decide (x < 0)) else .fin m
  | _, _ => .nan            -- not reached by the code (ValueError cases are guarded)

/-- is `x % y` (Python float modulo, `y ≠ 0`) a NaN? -/
def pyFloatModIsNan : Dbl → Dbl → Bool
  | .nan, _ => true
  | .inf _, _ => true
  | _, .nan => true
  | _, _ => false

def Dbl.isZero : Dbl → Bool | .zero _ => true | _ => false
def Dbl.isInf : Dbl → Bool | .inf _ => true | _ => false
def Dbl.isNan : Dbl → Bool | .nan => true | _ => false

/-! ### operand coercion: `get_operands` -/

/-- `float(Decimal)` / `Float(Decimal)` when the other operand is a float (base.py:621-630) -/
def coerce (R : Rounding) : Num → Num → Num × Num
  | .dbl x, .dec n s => (.dbl x, .dbl (ofDec R n s))
  | .flt x, .dec n s => (.flt x, .flt (mkFloat (ofDec R n s)))
  | .dec n s, .dbl y => (.dbl (ofDec R n s), .dbl y)
  | .dec n s, .flt y => (.flt (mkFloat (ofDec R n s)), .flt y)
  | a, b => (a, b)

/-- result of a Python binary float operation `f` on two operands at least one of which is a
`float`: `Float` if both are `Float` or one is `Float` and the other an `int` (the dunder methods of
`Float` re-wrap with `Float(...)`), plain `float` otherwise; ints are converted by `float(int)` -/
def liftF (R : Rounding) (f : Dbl → Dbl → Dbl) : Num → Num → Num
  | .flt x, .flt y => .flt (mkFloat (f x y))
  | .flt x, .int n => .flt (mkFloat (f x (ofInt R n)))
  | .int n, .flt y => .flt (mkFloat (f (ofInt R n) y))
  | .flt x, .dbl y => .dbl (f x y)
  | .dbl x, .flt y => .dbl (f x y)
  | .dbl x, .dbl y => .dbl (f x y)
  | .dbl x, .int n => .dbl (f x (ofInt R n))
  | .int n, .dbl y => .dbl (f (ofInt R n) y)
  | a, _ => a               -- not reached: no float operand

/-- coefficient/scale view of an int or Decimal -/
def asDec : Num → Option (Int × Nat)
  | .int n => some (n, 0)
  | .dec n s => some (n, s)
  | _ => none

def isZero : Num → Bool
  | .int n => n == 0
  | .dec n _ => n == 0
  | .dbl d => Dbl.isZero d
  | .flt d => Dbl.isZero d

def isFloat : Num → Bool
  | .dbl _ => true | .flt _ => true | _ => false

def isFlt : Num → Bool | .flt _ => true | _ => false
def isDbl : Num → Bool | .dbl _ => true | _ => false

def dblOf : Num → Option Dbl
  | .dbl d => some d | .flt d => some d | _ => none

/-- `math.isinf(x)` / `math.isnan(x)` on any numeric object -/
def numIsInf : Num → Bool
  | .dbl d => Dbl.isInf d | .flt d => Dbl.isInf d | _ => false
def numIsNan : Num → Bool
  | .dbl d => Dbl.isNan d | .flt d => Dbl.isNan d | _ => false

/-- `float(int)` raises OverflowError ("int too large to convert to float") exactly when the rounded value
is infinite -/
def intOvf (R : Rounding) : Num → Bool
  | .int n => Dbl.isInf (ofInt R n)
  | _ => false

/-- an operator that mixes a float with an integer beyond the xs:double range: every operator maps the
OverflowError to FOAR0002 (F&O 4.2: overflow "may raise FOAR0002") -/
def mixedOverflow (R : Rounding) (a b : Num) : Bool :=
  (isFloat a || isFloat b) && (intOvf R a || intOvf R b)

/-! ### the operators -/

def opAdd (R : Rounding) (a b : Num) : Except Err Num :=
  match coerce R a b with
  | (.int x, .int y) => pure (.int (x + y))
  | (a, b) =>
    match asDec a, asDec b with
    | some (x, sx), some (y, sy) => pure (mkDec (decAdd x sx y sy))
    | _, _ => if mixedOverflow R a b then throw .FOAR0002 else pure (liftF R (fadd R) a b)

def opSub (R : Rounding) (a b : Num) : Except Err Num :=
  match coerce R a b with
  | (.int x, .int y) => pure (.int (x - y))
  | (a, b) =>
    match asDec a, asDec b with
    | some (x, sx), some (y, sy) => pure (mkDec (decAdd x sx (-y) sy))
    | _, _ => if mixedOverflow R a b then throw .FOAR0002 else pure (liftF R (fsub R) a b)

def opMul (R : Rounding) (a b : Num) : Except Err Num :=
  match coerce R a b with
  | (.int x, .int y) => pure (.int (x * y))
  | (a, b) =>
    match asDec a, asDec b with
    | some (x, sx), some (y, sy) => pure (mkDec (decMul x sx y sy))
    | _, _ => if mixedOverflow R a b then throw .FOAR0002 else pure (liftF R (fmul R) a b)

/-- does `str(divisor)` start with '-' for a zero divisor? (only -0.0) -/
def zeroIsNeg : Num → Bool
  | .dbl (.zero n) => n
  | .flt (.zero n) => n
  | _ => false

/-- `dividend > 0` / `dividend == 0` / `isnan(dividend)` on any numeric object -/
def signOf : Num → Option Int      -- none = NaN
  | .int n => some (if n > 0 then 1 else if n = 0 then 0 else -1)
  | .dec n _ => some (if n > 0 then 1 else if n = 0 then 0 else -1)
  | .dbl d | .flt d =>
    match d with
    | .nan => none
    | .zero _ => some 0
    | .inf n => some (if n then -1 else 1)
    | .fin q => some (if q > 0 then 1 else -1)

/-- `promoted_float(op1, op2, value)`: an xs:float (`Float(value)`) unless an operand is an xs:double -/
def promF (a b : Num) (d : Dbl) : Num :=
  if (isFlt a || isFlt b) && !isDbl a && !isDbl b then .flt (mkFloat d) else .dbl d

/-- the float value of an operand that is returned by `a mod ±INF` (`float(op1)`) -/
def asDblOf (R : Rounding) : Num → Dbl
  | .int n => ofInt R n
  | .dec n s => ofDec R n s
  | .dbl d => d
  | .flt d => d

def opDiv (R : Rounding) (v : Ver) (a b : Num) : Except Err Num :=
  let (a, b) := coerce R a b
  if !isZero b then
    match asDec a, asDec b with
    | some (x, sx), some (y, sy) => pure (mkDec (decDiv x sx y sy))
    | _, _ => if mixedOverflow R a b then throw .FOAR0002 else pure (liftF R (ftruediv R) a b)
  else if v != .v10 && !isFloat a && !isFloat b then throw .FOAR0001
  else match signOf a with
    | none => pure (promF a b .nan)
    | some 0 => pure (promF a b .nan)
    | some s => pure (promF a b (.inf ((s < 0) != zeroIsNeg b)))

/-- `mod` (`_xpath1_operators.py`, after the fixes) -/
def opMod (R : Rounding) (v : Ver) (a b : Num) : Except Err Num :=
  let (a, b) := coerce R a b
  if isZero b && (isFloat a || isFloat b) then pure (promF a b .nan)
  else
    match a, b with
    | .int x, .int y => if y = 0 then throw .FOAR0001 else pure (.int (modInt x y))
    | a, b =>
      -- `isinstance(op2, float) and math.isinf(op2) and not math.isinf(op1) and op1 != 0`
      if numIsInf b && intOvf R a then throw .FOAR0002
      else if numIsInf b && !numIsInf a && !isZero a then
        pure (promF a b (asDblOf R a))      -- all parser versions (the 1.0 switch was removed)
      else
      match asDec a, asDec b with
      | some (x, sx), some (y, sy) =>
        if y = 0 then throw .FOAR0001 else
        match decMod x sx y sy with
        | some r => pure (mkDec r)
        | none => throw .FOAR0002         -- InvalidOperation with a non-zero divisor
      | _, _ =>
        if mixedOverflow R a b then throw .FOAR0002 else
        -- result = op1 % op2;  NaN is returned as is, otherwise type(result)(math.fmod(op1, op2))
        pure (liftF R (fun x y => if pyFloatModIsNan x y then .nan else fmod x y) a b)

/-- `0 if math.isinf(op2) else math.trunc(Fraction(float(op1)) / Fraction(float(op2)))`: the exact truncated
quotient of the two doubles; `x` finite, `y` non-zero and not NaN -/
def idivFloat : Dbl → Dbl → Int
  | .zero _, _ => 0
  | .fin _, .inf _ => 0
  | .fin x, .fin y => FOArith.trunc (x / y)
  | _, _ => 0               -- not reached

/-- `idiv` (`_xpath2_operators.py`, after the fixes) -/
def opIdiv (R : Rounding) (a b : Num) : Except Err Num :=
  let (a, b) := coerce R a b
  if mixedOverflow R a b then throw .FOAR0002     -- math.isinf / math.isnan overflow on the integer
  else if numIsInf a then throw (if isZero b then .FOAR0001 else .FOAR0002)
  else if numIsNan a || numIsNan b then throw .FOAR0002
  else if isZero b then throw .FOAR0001
  else
    match a, b with
    | .int x, .int y => pure (.int (idivInt x y))
    | a, b =>
      match asDec a, asDec b with
      | some (x, sx), some (y, sy) =>
        match decIdiv x sx y sy with
        | some q => pure (.int q)
        | none => throw .FOAR0002
      | _, _ =>
        let fx := match a with | .int n => ofInt R n | .dbl d => d | .flt d => d | _ => .nan
        let fy := match b with | .int n => ofInt R n | .dbl d => d | .flt d => d | _ => .nan
        pure (.int (idivFloat fx fy))

def opNeg : Num → Num
  | .int n => .int (-n)
  | .dec n s => mkDec (ctx28 (-n) s)
  | .dbl d => .dbl d.neg
  | .flt d => .flt (mkFloat d.neg)

def opPos : Num → Num
  | .dec n s => mkDec (ctx28 n s)
  | a => a

/-- `fn:abs` -/
def fnAbs : Num → Num
  | .int n => .int n.natAbs
  | .dec n s => mkDec (ctx28 n.natAbs s)
  | .dbl d => .dbl d.abs
  | .flt d => .flt (mkFloat d.abs)

/-- `type(arg)(math.floor(arg))` / `math.ceil`, then the sign of zero is restored for floats -/
def fnFloorCeil (R : Rounding) (ceil : Bool) : Num → Num
  | .int n => .int n
  | .dec n s =>
    let q : Rat := (n : Rat) / (p10 s : Nat)
    .dec (if ceil then q.ceil else q.floor) 0
  | .dbl d => .dbl (go d)
  | .flt d => .flt (mkFloat (go d))
where
  go : Dbl → Dbl
    | .fin x =>
      let i : Int := if ceil then x.ceil else x.floor
      if i = 0 then .zero (decide (x < 0)) else ofInt R i
    | d => d

/-- `number.quantize(Decimal(1).scaleb(-p), rounding=…)` on the exact value `neg, N/D·…`:
magnitude `|x|·10^p` rounded to an integer `c`;  value `±c / 10^p` -/
def quantMag (m : Mode) (x : Rat) (p : Int) : Nat :=
  let a := if x < 0 then -x else x
  if 0 ≤ p then roundMag m (a.num.natAbs * p10 p.toNat) a.den
  else roundMag m a.num.natAbs (a.den * p10 (-p).toNat)

/-- value `±c·10^-p` as a rational -/
def unscale (neg : Bool) (c : Nat) (p : Int) : Rat :=
  let v : Rat := if 0 ≤ p then (c : Rat) / (p10 p.toNat : Nat) else (c : Rat) * (p10 (-p).toNat : Nat)
  if neg then -v else v

/-- Python `round(x)` (no digits): nearest integer, ties to even -/
def pyRoundInt (x : Rat) : Int :=
  let c := quantMag .halfEven x 0
  if x < 0 then -(c : Int) else c

/-- back to the argument's class: `type(arg)(Decimal)` / `type(arg)(int)` -/
def retype (R : Rounding) (like : Num) (neg : Bool) (q : Rat) : Num :=
  match like with
  | .int _ => .int q.floor
  | .dec _ _ => .dec (q * (q.den : Nat)).floor (numDigits q.den - 1)   -- q = k / 10^s exactly
  | .dbl _ => .dbl (if q = 0 then .zero neg else R.r64 q)
  | .flt _ => .flt (mkFloat (if q = 0 then .zero neg else R.r64 q))

def exactOf : Num → Option Rat
  | .int n => some n
  | .dec n s => some ((n : Rat) / (p10 s : Nat))
  | .dbl (.fin q) => some q
  | .flt (.fin q) => some q
  | .dbl (.zero _) => some 0
  | .flt (.zero _) => some 0
  | _ => none

def argNeg : Num → Bool
  | .int n => n < 0
  | .dec n _ => n < 0
  | .dbl d => FOArith.Dbl.isNeg d
  | .flt d => FOArith.Dbl.isNeg d

/-- digits of the local decimal context in which fn:round / round-half-to-even quantize -/
def roundCtxDigits : Nat := 2000

/-- decimal result with explicit scale `p` (kept as n/10^p when p ≥ 0) -/
def decOfUnscaled (neg : Bool) (c : Nat) (p : Int) : Num :=
  let n : Int := if neg then -(c : Int) else c
  if 0 ≤ p then .dec n p.toNat else .dec (n * p10 (-p).toNat) 0

/-- shared body of `fn:round`: `Decimal(arg).quantize(exp, ROUND_HALF_UP if number > 0 else
ROUND_HALF_DOWN)`, InvalidOperation (more than 28 digits) → `type(arg)(round(arg))` -/
def roundCore (R : Rounding) (a : Num) (p : Int) : Num :=
  match exactOf a with
  | none => a                                   -- NaN / ±INF are returned unchanged
  | some x =>
    let neg := argNeg a
    let c := quantMag (if x > 0 then .halfUp else .halfDown) x p
    if numDigits c > roundCtxDigits then
      let i := pyRoundInt x
      match a with
      | .int n => .int n                        -- round(int) is the int
      | .dec _ _ => .dec i 0
      | .dbl _ => .dbl (ofInt R i)                -- float(int): the sign of a zero is lost
      | .flt _ => .flt (mkFloat (ofInt R i))
    else
      match a with
      | .int _ => .int (unscale neg c p).floor
      | .dec _ _ => decOfUnscaled neg c p
      | _ => retype R a neg (unscale neg c p)

/-- `fn:round($arg)` of XPath 1.0 / 2.0 (`_xpath1_functions.py`) -/
def fnRound1 (R : Rounding) (a : Num) : Num := roundCore R a 0

/-- `fn:round($arg, $precision)` of XPath 3.0+ (`_xpath30_functions.py`) -/
def fnRound (R : Rounding) (a : Num) (p : Int) : Num := roundCore R a p

/-- `fn:round-half-to-even($arg, $precision)`:  int → `round(int, p)`;  Decimal →
`Decimal.__round__(p)` = quantize ROUND_HALF_EVEN (more than 28 digits: float fallback, flagged by
the driver);  float → `float(round(Decimal.from_float(x), p))`;  Float → `Float(round(x, p))` -/
def fnRhe (R : Rounding) (a : Num) (p : Int) : Num :=
  match exactOf a with
  | none => a
  | some x =>
    let neg := argNeg a
    let c := quantMag .halfEven x p
    match a with
    | .int n => if 0 ≤ p then .int n else .int (unscale neg c p).floor
    | .dec _ _ =>
      if numDigits c > roundCtxDigits then
        -- InvalidOperation → Decimal.from_float(round(float(item), precision))
        match rnd R.r64 x with
        | .fin y =>
          let r := unscale (decide (y < 0)) (quantMag .halfEven y p) p
          (match rnd R.r64 r with
           | .fin z => .dec (z.num * 5 ^ z.den.log2) z.den.log2      -- z = num / 2^k exactly
           | _ => .dec 0 0)
        | _ => .dec 0 0
      else decOfUnscaled neg c p
    | _ => retype R a neg (unscale neg c p)

/-- does the Decimal branch of round-half-to-even leave exact decimal arithmetic (InvalidOperation →
`Decimal.from_float(round(float(item), precision))`)? -/
def rheDecOverflow (a : Num) (p : Int) : Bool :=
  match a, exactOf a with
  | .dec _ _, some x => numDigits (quantMag .halfEven x p) > roundCtxDigits
  | _, _ => false

/-! ### the abstraction from Python objects to XDM values, and the dispatch by operator -/

def absNum : Num → XVal
  | .int n => .integer n
  | .dec n s => .decimal ((n : Rat) / (p10 s : Nat))
  | .dbl d => .double d
  | .flt d => .float d

/-- XDM type of a Python numeric object -/
def numTy : Num → FOArith.Ty
  | .int _ => .integer | .dec _ _ => .decimal | .dbl _ => .double | .flt _ => .float

def modelBin (R : Rounding) (v : Ver) (op : BinOp) (a b : Num) : Except Err Num :=
  match op with
  | .add => opAdd R a b
  | .sub => opSub R a b
  | .mul => opMul R a b
  | .div => opDiv R v a b
  | .idiv => opIdiv R a b
  | .mod => opMod R v a b

def modelUn (R : Rounding) (v : Ver) (op : UnOp) (a : Num) : Num :=
  match op with
  | .neg => opNeg a
  | .pos => opPos a
  | .abs => fnAbs a
  | .floor => fnFloorCeil R false a
  | .ceiling => fnFloorCeil R true a
  | .round p => if v = .v10 ∨ v = .v20 then fnRound1 R a else fnRound R a p
  | .rhe p => fnRhe R a p

/-! ### XPath 1.0 parser (compatibility mode): string operands go through `number_value` →
`helpers.get_double` (collapse white space, `INF`/`-INF`/`NaN`, the xs:double lexical pattern
`[+-]?(digits(.digits*)?|.digits)([Ee][+-]?digits)?`, then Python `float(str)`); integer and decimal
literals are NOT converted by the binary operators (finding F06v) but are by floor/ceiling/round -/

/-- characters matched by the implementation's white-space class `[ \\t\\n\\r]` (helpers.Patterns.whitespaces;
XML white space only since the fix "whiteSpace normalisation … treats only XML white space") -/
def isPySpace (c : Char) : Bool := FOArith.isXmlSpace c

/-- `([Ee][+-]?[0-9]+)?$` on the rest after the mantissa: the exponent -/
def scanExp (cs : List Char) : Option Int :=
  match cs with
  | [] => some 0
  | c :: t =>
    if c == 'e' || c == 'E' then
      let (neg, ds) := match t with
        | '-' :: u => (true, u)
        | '+' :: u => (false, u)
        | u => (false, u)
      if ds.isEmpty || !(ds.all Char.isDigit) then none
      else some (if neg then -(FOArith.digitsVal ds : Int) else (FOArith.digitsVal ds : Int))
    else none

/-- the optional sign `[+-]?` of the xs:double lexical pattern -/
def splitSign : List Char → Bool × List Char
  | '-' :: t => (true, t)
  | '+' :: t => (false, t)
  | t => (false, t)

/-- `float(value)` after `numeric_literal` matched: mantissa, then `([Ee][+-]?[0-9]+)?$` -/
def getDoubleBody (R : Rounding) (neg : Bool) : Option (List Char × List Char × List Char) → Dbl
  | some (i, f, rest) =>
    (match scanExp rest with
     | some e => FOArith.signedToDbl R.r64 neg (FOArith.decimalToRat i f e)
     | none => .nan)
  | none => .nan

/-- `helpers.get_double(str)`: collapse white space, `INF`/`-INF`/`NaN`, the xs:double lexical pattern,
Python `float(str)` -/
def getDouble (R : Rounding) (cs : List Char) : Dbl :=
  let s := FOArith.stripWith isPySpace cs
  if s = ['I', 'N', 'F'] then .inf false
  else if s = ['-', 'I', 'N', 'F'] then .inf true
  else if s = ['N', 'a', 'N'] then .nan
  else getDoubleBody R (splitSign s).1 (FOArith.scanMantissa (splitSign s).2)

def matchesBody : Option (List Char × List Char × List Char) → Bool
  | some (_, _, []) => true
  | _ => false

/-- `XPATH1_NUMBER_PATTERN.match(str)`: `[ \t\n\r]*-?(digits(.digits*)?|.digits)[ \t\n\r]*\Z` -/
def matches10 (cs : List Char) : Bool :=
  matchesBody (FOArith.scanMantissa (FOArith.splitMinus (FOArith.stripWith isPySpace cs)).2)

/-- `XPathToken.number_value(str)` of the 1.0 parser: NaN unless the XPath 1.0 pattern matches, then
`get_double` -/
def pyNumber (R : Rounding) (cs : List Char) : Dbl :=
  if matches10 cs then getDouble R cs else .nan

/-- an operand of the 1.0 parser -/
inductive Opnd | num (n : Num) | str (cs : List Char)

/-- `validated_value` in compatibility mode: a string becomes a float -/
def conv10 (R : Rounding) : Opnd → Num
  | .num n => n
  | .str cs => .dbl (pyNumber R cs)

/-- `number_value(arg)` on a number: `float(arg)` -/
def toDbl10 (R : Rounding) : Num → Num
  | .int n => .dbl (ofInt R n)
  | .dec n s => .dbl (ofDec R n s)
  | .dbl d => .dbl d
  | .flt d => .dbl d

def model10Bin (R : Rounding) (op : BinOp) (a b : Opnd) : Except Err Num :=
  modelBin R .v10 op (conv10 R a) (conv10 R b)

/-- floor / ceiling / round convert their argument with `number_value` first; unary minus does not -/
def model10Un (R : Rounding) (op : UnOp) (a : Opnd) : Num :=
  match op with
  | .neg => modelUn R .v10 .neg (conv10 R a)
  | .pos => modelUn R .v10 .pos (conv10 R a)
  | op => modelUn R .v10 op (toDbl10 R (conv10 R a))

def absOpnd : Opnd → FOArith.Opnd10
  | .num (.int n) => .int n
  | .num (.dec n s) => .dec ((n : Rat) / (p10 s : Nat))
  | .num (.dbl d) => .dbl d
  | .num (.flt d) => .dbl d
  | .str cs => .str cs

def isExactOpnd : Opnd → Bool
  | .num (.int _) => true
  | .num (.dec _ _) => true
  | _ => false

/-! ### empty-sequence operands: `get_operands` / `get_argument` return `None` -/

/-- binary operators: `if op1 is None: return []` (get_operands yields (None, None) when either operand is
empty); `idiv` raises XPST0005 instead (`if op1 is None or op2 is None: raise self.error('XPST0005')`) -/
def modelBinE (R : Rounding) (v : Ver) (op : BinOp) (a b : Option Num) : Except Err (Option Num) :=
  match a, b with
  | some x, some y => (modelBin R v op x y).map some
  | _, _ => if op = .idiv then throw .XPST0005 else pure none

/-- unary minus/plus and the functions: `return [] if arg is None` (XPath 2.0+) -/
def modelUnE (R : Rounding) (v : Ver) (op : UnOp) : Option Num → Option Num
  | some x => some (modelUn R v op x)
  | none => none

/-! ### call sites evaluated repeatedly (`for $a in …, $b in … return $a op $b`, one parsed token re-evaluated
with other variables, a function item called again): the model of a call site is a function of its
arguments only — no state is carried on the token between evaluations -/

def evalCallSiteBin (R : Rounding) (v : Ver) (op : BinOp) : List (Num × Num) → List (Except Err Num)
  | [] => []
  | (a, b) :: rest => modelBin R v op a b :: evalCallSiteBin R v op rest

/-- the unary call site `f($x, $p)`: the operator (with its precision) may change at every evaluation -/
def evalCallSiteUn (R : Rounding) (v : Ver) : List (UnOp × Num) → List Num
  | [] => []
  | (op, a) :: rest => modelUn R v op a :: evalCallSiteUn R v rest

/-- `for $a in as, $b in bs return $a op $b`: the argument pairs in evaluation order -/
def forPairs (as bs : List Num) : List (Num × Num) := as.flatMap fun a => bs.map fun b => (a, b)

/-! ### trigger predicates of the known findings and of the excluded regions
(decidable, computed from the input only; hypotheses of the `_partial` theorems) -/


/-- the promoted type of the operation is xs:float -/
def floatTyped (a b : Num) : Bool := (isFlt a || isFlt b) && !isDbl a && !isDbl b

/-- exact value of a finite operand (zeros are 0), `none` for NaN / ±INF -/
def finiteVal : Num → Option Rat := exactOf

def safeOperand (a : Num) : Bool :=
  match finiteVal a with
  | some q => f32safe q
  | none => true

def exactBinResult (op : BinOp) (x y : Rat) : Rat :=
  match op with
  | .add => x + y
  | .sub => x - y
  | .mul => x * y
  | .div => if y = 0 then 0 else x / y
  | .mod => if y = 0 then 0 else x - y * (FOArith.trunc (x / y) : Int)
  | .idiv => 0

/-- the operand as the xs:float payload it is promoted to (by the implementation) -/
def asF (R : Rounding) : Num → Dbl
  | .int n => ofInt R n
  | .dec n s => mkFloat (ofDec R n s)
  | .dbl d => d
  | .flt d => d

/-- Bool form of the side conditions of `float_ops_eq_spec_up_to_rounding` (integer operands inside the
`Float` range, remainder not flushed): where they hold, an xs:float result must be exactly the F&O result
computed with `implR` -/
def floatHyp (R : Rounding) (op : BinOp) (a b : Num) : Bool :=
  (match a with | .int n => mkFloat (ofInt R n) == ofInt R n | _ => true) &&
  (match b with | .int n => mkFloat (ofInt R n) == ofInt R n | _ => true) &&
  (op != .mod || mkFloat (fmod (asF R a) (asF R b)) == fmod (asF R a) (asF R b))

/-- F06c: xs:float is stored and computed in binary64 and flushed to zero below 1e-37 -/
def trigF06c_bin (op : BinOp) (a b : Num) : Bool :=
  floatTyped a b &&
  !(safeOperand a && safeOperand b &&
    (match finiteVal a, finiteVal b with
     | some x, some y => f32safe (exactBinResult op x y)
     | _, _ => true))

def trigF06c_un (op : UnOp) (a : Num) : Bool :=
  isFlt a &&
  !(safeOperand a &&
    (match finiteVal a with
     | some x => f32safe (FOArith.exactUn op x)
     | none => true))

/-- the exact decimal result needs more than 28 significant digits -/
def trigIdef_bin (op : BinOp) (a b : Num) : Bool :=
  match asDec a, asDec b with
  | some (x, sx), some (y, sy) =>
    (match op with
     | .add => numDigits (x * p10 (max sx sy - sx) + y * p10 (max sx sy - sy)).natAbs > 28
     | .sub => numDigits (x * p10 (max sx sy - sx) - y * p10 (max sx sy - sy)).natAbs > 28
     | .mul => numDigits (x * y).natAbs > 28
     | .div => y != 0 &&
        (let r := decDiv x sx y sy
         decide (((r.1 : Rat) / (p10 r.2 : Nat)) ≠ ((x * p10 sy : Int) : Rat) / ((y * p10 sx : Int) : Rat)))
     | .idiv => y != 0 && numDigits (decQuotMag x sx y sy) > 28
     | .mod => y != 0 && (numDigits (decQuotMag x sx y sy) > 28 ||
        numDigits ((x.natAbs * p10 (max sx sy - sx)) % (y.natAbs * p10 (max sx sy - sy))) > 28))
  | _, _ => false

/-- the only exact-operand region left without an exact specification: `idiv` / `mod` whose quotient has
more than 28 digits (Python raises InvalidOperation → FOAR0002 / FOAR0001) -/
def trigQuot28 (op : BinOp) (a b : Num) : Bool :=
  match asDec a, asDec b, a, b with
  | _, _, .int _, .int _ => false
  | some (x, sx), some (y, sy), _, _ =>
    (op == .idiv || op == .mod) && y != 0 && numDigits (decQuotMag x sx y sy) > 28
  | _, _, _, _ => false

def trigIdef_un (op : UnOp) (a : Num) : Bool :=
  match op, a with
  | .neg, .dec n _ => numDigits n.natAbs > 28
  | .pos, .dec n _ => numDigits n.natAbs > 28
  | .abs, .dec n _ => numDigits n.natAbs > 28
  | _, _ => false

/-- F06p: `quantize` raises InvalidOperation (more than 28 digits) and the code falls back to
`round(arg)` / float rounding -/
def trigF06p (op : UnOp) (a : Num) : Bool :=
  match op, exactOf a with
  | .round p, some x => numDigits (quantMag (if x > 0 then .halfUp else .halfDown) x p) > roundCtxDigits
  | .rhe p, some _ => rheDecOverflow a p
  | _, _ => false

/-- an integer operand beyond the xs:double range is promoted to a float: the code raises FOAR0002 where a
cast would give ±INF (F&O 4.2 allows either on overflow) -/
def trigOvf (R : Rounding) (a b : Num) : Bool :=
  let (a, b) := coerce R a b
  mixedOverflow R a b

/-- F06v: the XPath 1.0 parser computes integer and decimal literals exactly (int / Decimal) instead of
as IEEE doubles: the value differs from XPath 1.0 arithmetic (e.g. `1 div 3`, `0.1 + 0.2`, `5 mod 0`) -/
def trigF06v_bin (R : Rounding) (op : BinOp) (a b : Opnd) : Bool :=
  isExactOpnd a && isExactOpnd b &&
  !(match model10Bin R op a b, FOArith.spec10Bin R op (absOpnd a) (absOpnd b) with
    | .ok m, .ok s => (absNum m).num10 == s.num10
    | .error e1, .error e2 => e1 == e2
    | _, _ => false)

def trigF06v_un (R : Rounding) (op : UnOp) (a : Opnd) : Bool :=
  isExactOpnd a && !((absNum (model10Un R op a)).num10 == (FOArith.spec10Un R op (absOpnd a)).num10)

end EPV.Arith

/-
C04 extension (phase 5): the keyword ExprSingle forms on top of the Pratt model.

  XPath 2.0 [4] ExprSingle ::= ForExpr | QuantifiedExpr | IfExpr | OrExpr          (3.0 [7]: + LetExpr)
  [7]  IfExpr ::= "if" "(" Expr ")" "then" ExprSingle "else" ExprSingle
  [5]  ForExpr ::= "for" "$" VarName "in" ExprSingle "return" ExprSingle           (one binding clause)
  [6]  QuantifiedExpr ::= ("some" | "every") "$" VarName "in" ExprSingle "satisfies" ExprSingle
  3.0 [11] LetExpr ::= "let" "$" VarName ":=" ExprSingle "return" ExprSingle

This is a *layer over* `EPV.Pratt` (the inductive types of the operator fragment are untouched): an `XTree`
has the keyword nodes on top and operator-fragment trees (`Tree`) as leaves.  Keyword forms *below* an operator
or inside a bracket (`(if …)`, `1 + if …`) are outside this layer (`Err.syntax` here; the driver prints the flag
`kwop` for them).

Token alphabet: `List Tok`; the keywords are closing symbols with numbers ≥ 2 (a closing symbol stops the inner
Pratt loop exactly like a token with lbp 0 does, and has no `nud` in the inner parser):
  2 then, 3 else, 4 return, 5 in, 6 satisfies, 7 :=, 8 if, 9 for, 10 let, 11 some, 12 every.

Python ↔ Lean
* `nud__if_expression` _xpath2_operators.py:89-101: `advance('('); expression(); advance(')'); advance('then');
  expression(5); advance('else'); expression(5)` ↔ `xsingle`, case 8 (the condition is `expression()` = `xsingle` then
  `xloop`, since the fix of F04p).  `if` not followed by `(` is a name (`as_name`): `Err.unmodelled`.
* `nud__for_expression` :209-235, `nud__quantified_expressions` :153-180, `nud__let_expression`
  _xpath30_operators.py:185-204: `next_token.expected('$'); variable = expression(5); advance('in' | ':=');
  expression(5); [',' → next clause]; advance('return' | 'satisfies'); expression(5)` ↔ `xsingle`, cases 9–12
  (one clause; a `,` after the range expression is `Err.unmodelled`; since the fix of F04q the variable returned by
  `expression(5)` must be the `$` token itself: `if variable.symbol != '$': raise variable.wrong_syntax()`).
* `Parser.expression(5)` on anything else ↔ `EPV.Pratt.expr T _ 5` (leaf).
* `Parser.parse` = `expression(0)` + `(end)`: an ExprSingle followed by the `while 0 < next.lbp` loop, in which only
  `,` (lbp 5, `infix 5`) can fire after an operand closed at rbp 5 (`commaOnly`, decided on the generated tables)
  ↔ `xloop`, `xparse`.
Core Lean only.
-/
import EPV.Model.Pratt
namespace EPV.Kw
open EPV.Syn EPV.Pratt

inductive XTree where
  /-- an operator-fragment expression (OrExpr level) -/
  | leaf (t : Tree)
  /-- `l , r` at the Expr level (operator row `o`) -/
  | seq (o : Nat) (l r : XTree)
  /-- `if ( c ) then a else b`; `g` = the row of `(` -/
  | ite (g : Nat) (c a b : XTree)
  /-- `for|let|some|every v in|:= r return|satisfies b`; `q` = keyword number -/
  | bind (q : Nat) (v : Tree) (r b : XTree)
  deriving Repr, DecidableEq, Inhabited

def isBinder (q : Nat) : Bool := q == 9 || q == 10 || q == 11 || q == 12
/-- keyword between variable and range expression -/
def sepOf (q : Nat) : Nat := if q == 10 then 7 else 5
/-- keyword before the body -/
def finOf (q : Nat) : Nat := if q == 11 || q == 12 then 6 else 4

def XTree.yield : XTree → List Tok
  | .leaf t => t.yield
  | .seq o l r => l.yield ++ .op o :: r.yield
  | .ite g c a b => .close 8 :: .op g :: (c.yield ++ .close 0 :: .close 2 :: (a.yield ++ .close 3 :: b.yield))
  | .bind q v r b => .close q :: (v.yield ++ .close (sepOf q) :: (r.yield ++ .close (finOf q) :: b.yield))

/-- number of keyword nodes + leaves: the fuel `xsingle` needs -/
def XTree.size : XTree → Nat
  | .leaf _ => 1
  | .seq _ l r => l.size + r.size + 1
  | .ite _ c a b => c.size + a.size + b.size + 1
  | .bind _ _ r b => r.size + b.size + 1

mutual
/-- `expression(5)` at an ExprSingle position -/
def xsingle (T : Tbl) (lp comma : Nat) : Nat → List Tok → Except Err (XTree × List Tok)
  | 0, _ => .error .fuel
  | f + 1, .close q :: rest =>
    if q == 8 then
      match rest with
      | .op g :: rest1 =>
        if g != lp then .error .unmodelled else
        -- the condition: `expression()` = an ExprSingle and the `,` loop
        match xsingle T lp comma f rest1 with
        | .ok (c0, rest0) =>
          match xloop T lp comma f c0 rest0 with
          | .ok (c, .close 0 :: .close 2 :: rest2) =>
            match xsingle T lp comma f rest2 with
            | .ok (a, .close 3 :: rest3) =>
              match xsingle T lp comma f rest3 with
              | .ok (b, rest4) => .ok (.ite g c a b, rest4)
              | .error e => .error e
            | .ok _ => .error .syntax
            | .error e => .error e
          | .ok _ => .error .syntax
          | .error e => .error e
        | .error e => .error e
      | _ => .error .unmodelled
    else if isBinder q then
      match rest with
      | .atom 2 _ :: _ =>
        match expr T (2 * rest.length + 2) 5 rest with
        | .ok (.atom 2 n, .close s :: rest1) =>
          if s != sepOf q then .error .syntax else
          match xsingle T lp comma f rest1 with
          | .ok (r, .close e :: rest2) =>
            if e != finOf q then .error .syntax else
            match xsingle T lp comma f rest2 with
            | .ok (b, rest3) => .ok (.bind q (.atom 2 n) r b, rest3)
            | .error e => .error e
          | .ok (_, .op o :: _) => if o == comma then .error .unmodelled else .error .syntax
          | .ok _ => .error .syntax
          | .error e => .error e
        -- `if variable.symbol != '$': raise variable.wrong_syntax()`, or `advance('in' | ':=')` fails
        | .ok _ => .error .syntax
        | .error e => .error e
      | _ => .error .unmodelled
    else if q ≤ 1 then .error .syntax
    else .error .unmodelled
  | _ + 1, toks =>
    match expr T (2 * toks.length + 2) 5 toks with
    | .ok (t, rest) => .ok (.leaf t, rest)
    | .error e => .error e

/-- the `while 0 < next.lbp` loop of `expression(0)` after an operand closed at rbp 5: `,` -/
def xloop (T : Tbl) (lp comma : Nat) : Nat → XTree → List Tok → Except Err (XTree × List Tok)
  | 0, _, _ => .error .fuel
  | f + 1, left, .op o :: rest =>
    if o == comma then
      match xsingle T lp comma f rest with
      | .ok (r, rest') => xloop T lp comma f (.seq o left r) rest'
      | .error e => .error e
    else .ok (left, .op o :: rest)
  | _ + 1, left, toks => .ok (left, toks)
end

/-- `Parser.parse` -/
def xparse (T : Tbl) (lp comma : Nat) (toks : List Tok) : Except Err XTree :=
  match xsingle T lp comma (toks.length + 1) toks with
  | .ok (l, rest) =>
    match xloop T lp comma (toks.length + 1) l rest with
    | .ok (x, []) => .ok x
    | .ok _ => .error .syntax
    | .error e => .error e
  | .error e => .error e

/-- row index of a symbol -/
def symIdx (rows : List Row) (s : String) : Nat := rows.findIdx (·.sym == s)

/-- table condition that justifies `xloop`: after an operand closed at rbp 5 only `,` can be taken by the loop
of `expression(0)`, and its led is `infix 5` without guards -/
def commaOnly (rows : List Row) (comma : Nat) : Bool :=
  (rows[comma]?).any (fun r => r.lbp == 5 && r.led == .infix 5 [] []) &&
  (List.range rows.length).all fun o => o == comma || (tableOf rows).lbp o == 0 || 5 < (tableOf rows).lbp o

/-- a keyword-start token directly after an operator or opening bracket other than at an ExprSingle start is
outside this layer; over-approximation printed by the driver: some `if/for/let/some/every` follows an operator token -/
def kwOperand : List Tok → Bool
  | .op _ :: .close q :: rest => (8 ≤ q) || kwOperand (.close q :: rest)
  | _ :: rest => kwOperand rest
  | [] => false

/-- F04r trigger (token level): a `?` (row `qm`) directly after a `(` or a `,` that is not followed by a key specifier
token (`rhs` of its prefix nud in the table: name, integer, keyword name, `*`, `(`).  `LookupOperatorToken.__init__`
(_xpath31_operators.py) zeroes lbp/rbp of such a token and `nud` returns it bare as an *argument placeholder* — also
when the `(` is not an argument list (`( ? - n6 )`, `if ( ? - n6 ) …`, `n1 , ? - n6`). -/
def placeholderAt (T : Tbl) (qm lp comma : Nat) : List Tok → Bool
  | .op a :: .op b :: rest =>
    ((a == lp || a == comma) && b == qm &&
      !(match T.nud qm with | .prefix _ rhs => rhsOk rhs rest | _ => true)) ||
    placeholderAt T qm lp comma (.op b :: rest)
  | _ :: rest => placeholderAt T qm lp comma rest
  | [] => false

end EPV.Kw

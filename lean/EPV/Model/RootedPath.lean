/-
C14 extension (phase 5, second item, part 2): ROOTED SUB-TREES.  Core Lean only.

A node tree is built for a whole document / element; the dynamic context is created on one of its
element nodes that has an element parent: `XPathContext(root=sub)` with `sub.parent` an `ElementNode`
(`XPathContext.is_rooted_subtree()`, xpath_context.py 280-281).  Python transcribed:
* `XPathContext.__init__` 136-153: `fragment is None`, root an etree element node  ->
  `self.document = self.root.get_document_node(as_parent=False)`: a dummy document whose only child is `sub`
* `select__child_path` (_xpath1_operators.py 336-347): a leading `/` moves the focus to `context.document`
      -> `evalAbsRooted sub steps` = evaluation from the dummy document above `sub`
* `evaluate__root` (_xpath2_functions.py 1523-1548) -> `context.get_root(item)` (xpath_context.py 255-258):
  a node of the sub-tree gets `context.root` = `sub`     -> `evalRootFnRooted sub steps` = evaluation from `sub`
* `node.path` (`f"{self.parent.path}/…"`): the recursion does not stop at the context root — the steps are those
  from the root of the WHOLE tree     -> `pathOf atop ⟨apre ++ is, sel⟩`
* `evaluate__path` (_xpath30_functions.py) after fix-c14-6: `if context.is_rooted_subtree():` and the item lies under
  `context.root` (parent chain) -> `Q{fn}root()` + `item.path[len(context.root.path):]`, the steps from the CONTEXT root
      -> `fnPathRooted` (`EPV.C14.rooted_fn_path_slicing`: cutting the prefix of the whole-tree path gives exactly these steps)
  before the fix: `root_node = item.root_node`, the root of the whole tree -> `fnPathRootedOld`
Finding F14l (narrowed): `node.path` in such a context never selects its node; `fn:path` does (`EPV.C14.rooted_*`).
-/
import EPV.Spec.NodePathSpec
namespace EPV.NodePath

def Node.isElem : Node → Bool
  | .elem .. => true
  | _ => false

/-- TRIGGER of F14l: `pre` denotes, in the whole tree `top` (`isDoc`: `top = docNode kids`), an element whose
parent is an element (not the document) -/
def rootedCtx (isDoc : Bool) (top : Node) (pre : List Nat) : Bool :=
  decide (pre.length ≥ (if isDoc then 2 else 1)) && ((descend top pre).map Node.isElem).getD false

/-- strip the dummy document: results as references relative to the context root -/
def underDummy (r : Ref) : Option Ref :=
  match r.path with
  | 0 :: p => some ⟨p, r.sel⟩
  | _ => none

/-- `/steps` in a rooted sub-tree context: evaluated from the dummy document above the context root -/
def evalAbsRooted (sub : Node) (steps : List Step) : List Ref := evalSteps (docNode [sub]) steps

/-- `root()/steps` in a rooted sub-tree context: `root()` is the context root -/
def evalRootFnRooted (sub : Node) (steps : List Step) : List Ref := evalSteps sub steps

/-- `fn:path(item)` in a rooted sub-tree context (after fix-c14-6): the steps from the context root at `pre`,
to be rendered in the `Q{fn}root()` form; `r` is relative to the context root -/
def fnPathRooted (top : Node) (pre : List Nat) (r : Ref) : Option (List Step) :=
  match descend top pre with
  | some sub => pathOf sub r
  | none => none

/-- before fix-c14-6: the steps from the root of the whole tree -/
def fnPathRootedOld (top : Node) (pre : List Nat) (r : Ref) : Option (List Step) :=
  pathOf top ⟨pre ++ r.path, r.sel⟩

end EPV.NodePath

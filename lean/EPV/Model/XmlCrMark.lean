/-
C17: the carriage-return marking step of `serialization.py :: serialize_to_xml` (ElementTree back end, method xml) on the
WHOLE output of one element, not on one text.

The serializer's output for an element is a sequence of pieces.  The repository's code (fixed tree, `fix: fn:serialize chooses the U+000D placeholder outside every string …`):

    used = {c for e in elem.iter() for t in (e.text, e.tail, e.tag, *e.attrib.keys(), *e.attrib.values())
            if isinstance(t, str) for c in t}
    cr_mark = next(chr(c) for c in range(0xE000, 0xF8FF) if chr(c) not in used)
    … every '\r' of text and tails (not of comments / PIs) is replaced by cr_mark in a deep copy …
    chunks[-1] = tostringlist(copy).replace(cr_mark, '&#13;')          -- on the WHOLE serialized string

`e.text` of a comment / PI is its data; `e.tag` and the attribute keys are `{uri}local`, so `used` covers text, tails,
attribute values, comment and PI data, namespace URIs and local names (`Scan.all`).  Everything else in the output is
punctuation and generated `nsN` prefixes (ASCII), so scanning the markup pieces as a whole chooses the same mark.
Before the fix (`Scan.values`, finding F17x) tags and attribute names were not read; `Scan.textTail` is the seeded
regression (attribute values not read either).  Core Lean only.
-/
import EPV.Model.Json
namespace EPV.Json

/-- one piece of the serialized element, with the SOURCE string it is written from -/
inductive Piece where
  | markup (s : Str)   -- `<`, names, `="`, `>` …: written as it is; never contains a private-use character (XML Name)
  | nsuri (s : Str)    -- a namespace URI (from `{uri}local`): attribute-escaped; NOT scanned by the code
  | chars (s : Str)    -- text or tail: CR marked, then `_escape_cdata`
  | attr (s : Str)     -- attribute value: `_escape_attrib` (writes CR as `&#13;` itself)
  | raw (s : Str)      -- comment / PI data: written as it is
  deriving Repr, DecidableEq, Inhabited

def Piece.src : Piece → Str
  | .markup s | .nsuri s | .chars s | .attr s | .raw s => s

/-- which strings the `used` scan reads: text and tails (+ comment / PI data, which are `e.text`) only — the seeded
regression; + attribute values — the tree before the fix (F17x); every string — the fixed tree -/
inductive Scan where
  | textTail | values | all
  deriving Repr, DecidableEq, Inhabited

/-- is the piece's source string in the `used` scan? -/
def Piece.scanned (sc : Scan) : Piece → Bool
  | .chars _ | .raw _ => true
  | .attr _ => sc != .textTail
  | .markup _ | .nsuri _ => sc == .all

def usedChars (sc : Scan) (ps : List Piece) : Str := (ps.filter (Piece.scanned sc)).flatMap Piece.src

/-- `next(chr(c) for c in range(0xE000, 0xF8FF) if chr(c) not in used)`; `none` = StopIteration -/
def chooseMark (used : Str) : Option Nat := ((List.range (0xF8FF - 0xE000)).map (0xE000 + ·)).find? (fun c => !used.contains c)

/-- what `tostringlist` writes for the piece of the marked copy -/
def Piece.emitMarked (k : Nat) : Piece → Str
  | .markup s => s
  | .nsuri s => etEscapeAttr s
  | .chars s => etEscapeText (replaceAll [13] [k] s)
  | .attr s => etEscapeAttr s
  | .raw s => s

/-- the intended output: as above with every U+000D of text / tails written `&#13;` -/
def Piece.emitWanted : Piece → Str
  | .markup s => s
  | .nsuri s => etEscapeAttr s
  | .chars s => lxEscapeText s
  | .attr s => etEscapeAttr s
  | .raw s => s

/-- the marking step on the whole output -/
def serializeMarked (sc : Scan) (ps : List Piece) : Option Str :=
  match chooseMark (usedChars sc ps) with
  | none => none
  | some k => some (replaceAll [k] [38, 35, 49, 51, 59] (ps.flatMap (Piece.emitMarked k)))

def wantedOutput (ps : List Piece) : Str := ps.flatMap Piece.emitWanted

/-- the guard of the marking step: some text or tail contains U+000D -/
def piecesHaveCR (ps : List Piece) : Bool := ps.any fun p => match p with | .chars s => s.contains 13 | _ => false

/-- `serialize_to_xml` on one element: the marking step only when the guard holds, else ElementTree's output as it is -/
def serializeRepo (sc : Scan) (ps : List Piece) : Option Str :=
  if piecesHaveCR ps then serializeMarked sc ps else some (ps.flatMap (Piece.emitMarked 13))

/-- EXACT trigger of finding F17x (`Scan.values`; fixed) and of the seeded regression (`Scan.textTail`): the chosen mark occurs in a
source string that the scan did not look at -/
def markCollides (sc : Scan) (ps : List Piece) : Bool :=
  piecesHaveCR ps &&
  match chooseMark (usedChars sc ps) with
  | none => false
  | some k => ps.any (fun p => p.src.contains k)

end EPV.Json

/-
Line protocol for the focus fragment of C05 (used by Drivers/C05.lean for lines starting with `FC `):
  FC STEPS=<env>|<env>|... E=<expr tokens separated by spaces>
env  : `_` (no variables) or `<n>:<val>,<n>:<val>` ; val = atoms joined by `.` (`e` = empty sequence):
       `i<int>`, `s~<letters>`, `b0|b1`
expr : prefix code — I n | T ~s | D (.) | P (position()) | Z (last()) | V n | A a b (+) | C a b (||) | G a b (>)
       | S a b (,) | M k e (map{"k": e}) | M2 k1 e1 k2 e2 | Q e ([e]) | R e (array{e}) | K e k (e?k) | W e (e?*)
       | B a b (a ! b) | F n a b (for $vn in a return b) | H a b (a[b])
Answer: one record per step joined by `|`:
  m=<model, reference tree, slots threaded through the history> s=<specification>
  c=<model with the seeded constant-cache quirk, slots threaded> st=<number of filled slots of the reference model>
values: items joined by `,` — i<int> s~<text> b<0|1> m{k:atoms;k:atoms} a[atoms;atoms] ; `()` empty; ERR:<kind>
-/
import EPV.Proto
import EPV.Spec.FocusCtorSem
namespace EPV.FocusCtor
open EPV.Proto

partial def parseFE : List String → Option (FExpr × List String)
  | "I" :: k :: r => (int? k).map fun n => (.int n, r)
  | "T" :: s :: r => some (.str (s.drop 1).toString, r)
  | "D" :: r => some (.dot, r)
  | "P" :: r => some (.pos, r)
  | "Z" :: r => some (.last, r)
  | "V" :: x :: r => (nat? x).map fun n => (.var n, r)
  | "A" :: r => do let (a, r) ← parseFE r; let (b, r) ← parseFE r; pure (.add a b, r)
  | "C" :: r => do let (a, r) ← parseFE r; let (b, r) ← parseFE r; pure (.cat a b, r)
  | "G" :: r => do let (a, r) ← parseFE r; let (b, r) ← parseFE r; pure (.gt a b, r)
  | "S" :: r => do let (a, r) ← parseFE r; let (b, r) ← parseFE r; pure (.seq a b, r)
  | "B" :: r => do let (a, r) ← parseFE r; let (b, r) ← parseFE r; pure (.bang a b, r)
  | "H" :: r => do let (a, r) ← parseFE r; let (b, r) ← parseFE r; pure (.pred a b, r)
  | "M" :: k :: r => do let (e, r) ← parseFE r; pure (.mapC k e, r)
  | "M2" :: k1 :: r => do
      let (e1, r) ← parseFE r
      match r with
      | k2 :: r => do let (e2, r) ← parseFE r; pure (.mapC2 k1 e1 k2 e2, r)
      | [] => none
  | "Q" :: r => do let (e, r) ← parseFE r; pure (.arrSq e, r)
  | "R" :: r => do let (e, r) ← parseFE r; pure (.arrCurly e, r)
  | "W" :: r => do let (e, r) ← parseFE r; pure (.lookStar e, r)
  | "K" :: r => do
      let (e, r) ← parseFE r
      match r with
      | k :: r => pure (.lookK e k, r)
      | [] => none
  | "F" :: x :: r => do let x ← nat? x; let (a, r) ← parseFE r; let (b, r) ← parseFE r; pure (.forE x a b, r)
  | _ => none

def parseAtom (s : String) : Option Val :=
  if s == "e" then some [] else
  match s.toList with
  | 'i' :: r => (int? (String.ofList r)).map fun n => [.atom (.int n)]
  | 's' :: '~' :: r => some [.atom (.str (String.ofList r))]
  | ['b', '0'] => some [.atom (.bool false)]
  | ['b', '1'] => some [.atom (.bool true)]
  | _ => none

def parseFEnv (s : String) : Option Env :=
  if s == "_" || s == "" then some [] else
  (s.splitOn ",").mapM fun kv =>
    match kv.splitOn ":" with
    | [k, v] => do
      let k ← nat? k
      let v ← (v.splitOn ".").mapM parseAtom
      pure (k, v.flatten)
    | _ => none

def showAtom : Atom → String
  | .int i => s!"i{i}"
  | .str s => s!"s~{s}"
  | .bool b => if b then "b1" else "b0"

def showAtoms (l : List Atom) : String := ".".intercalate (l.map showAtom)

def showItem : Item → String
  | .atom a => showAtom a
  | .map es => "m{" ++ ";".intercalate (es.map fun (k, v) => s!"{k}:{showAtoms v}") ++ "}"
  | .arr ms => "a[" ++ ";".intercalate (ms.map showAtoms) ++ "]"

def showFErr : Err → String
  | .type => "ERR:type"
  | .nofocus => "ERR:nofocus"
  | .unbound => "ERR:unbound"
  | .dup => "ERR:dup"

def showRes : Except Err Val → String
  | .ok [] => "()"
  | .ok l => ",".intercalate (l.map showItem)
  | .error e => showFErr e

def answerFC (line : String) : String :=
  let fs := fields line
  match ((field fs "STEPS").splitOn "|").mapM parseFEnv with
  | none => "bad-steps"
  | some steps =>
    let etoks := (((line.splitOn " E=").getD 1 "").splitOn " ").filter (· ≠ "")
    match parseFE etoks with
    | some (e, []) =>
      let seeded := (fhistory FQuirks.seeded e steps []).1
      let (_, recs) := (steps.zip seeded).foldl (fun (acc : Store × List String) (sp : Env × Except Err Val) =>
        let (st, recs) := acc
        let r := feval FQuirks.reference e sp.1 none st
        (r.2, recs ++ [s!"m={showRes r.1} s={showRes (fsem e sp.1 none)} c={showRes sp.2} st={r.2.length}"]))
        ([], [])
      "|".intercalate recs
    | _ => "bad-expr"

end EPV.FocusCtor

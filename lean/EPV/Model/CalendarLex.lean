/-
C11 — lexical forms of xs:dateTime, xs:date, xs:time (datatypes/datetime.py): a recogniser for the
`pattern`s of the classes with the value extraction of `fromstring`, and the string forms (`__str__`).
Core Lean only (no import of another property's module).

DateTime.pattern:
  ^(?P<year>-?[0-9]*[0-9]{4})-(?P<month>[0-9]{2})-(?P<day>[0-9]{2})
   (T(?P<hour>[0-9]{2}):(?P<minute>[0-9]{2}):(?P<second>[0-9]{2})(?:\.(?P<microsecond>[0-9]+))?)
   (?P<tzinfo>Z|[+-](?:(?:0[0-9]|1[0-3]):[0-5][0-9]|14:00))?$
Date.pattern / Time.pattern: the date part / the time part, each followed by the optional timezone.
The pattern is deterministic from the left: the year digits, the fraction digits are maximal runs of
digits, every other field has a fixed width.
-/
import EPV.Model.Calendar

/-! ### white space and the timezone group

C11's own transcription (kept independent of the other properties' modules so that the builds do not depend on each
other; C10's `EPV.Lex` has the same definitions and proves more about them: exhaustiveness of the lexical space). -/
namespace EPV.CalLex

abbrev Str := List Char

/-- `' \t\n\r'`: XML white space -/
def pyWhiteCPs : List Nat := [9, 10, 13, 32]
def isPyWhite (c : Char) : Bool := pyWhiteCPs.contains c.toNat
def isPyStripWhite (c : Char) : Bool := isPyWhite c

/-- `s.strip(' \t\n\r')` -/
def pyStrip (s : Str) : Str :=
  ((s.dropWhile isPyStripWhite).reverse.dropWhile isPyStripWhite).reverse

def isDigit (c : Char) : Bool := c.isDigit

/-- Python `int(ds)` for a string of ASCII digits -/
def digitsVal (ds : Str) : Nat := Nat.ofDigitChars 10 ds 0

/-- Python `int(s)` restricted to strings matching `^[\-+]?[0-9]+$` -/
def intOfLex (s : Str) : Int :=
  match s with
  | '-' :: r => - (digitsVal r : Int)
  | '+' :: r => (digitsVal r : Int)
  | r => (digitsVal r : Int)

/-- the `tzinfo` group of every date/time pattern (full match): `Z|[+-](?:(?:0[0-9]|1[0-3]):[0-5][0-9]|14:00)` -/
def matchTz : Str → Bool
  | ['Z'] => true
  | [sg, a, b, c, d, e] =>
    (sg == '+' || sg == '-') &&
    (((((a == '0' && isDigit b) || (a == '1' && ('0' ≤ b && b ≤ '3'))) && c == ':') &&
        ('0' ≤ d && d ≤ '5') && isDigit e) ||
     (a == '1' && b == '4' && c == ':' && d == '0' && e == '0'))
  | _ => false

/-- `Timezone.fromstring` (datetime.py:57-70) on a text matched by the group, in minutes:
`hours, minutes = text.split(':')`; when `hours.startswith('-')` the offset is
`timedelta(hours=int(hours), minutes=-int(minutes))` (so `-00:30` is −30), else `+`; `'Z'` is 0 -/
def tzOfLex : Str → Int
  | ['Z'] => 0
  | [sg, a, b, _, d, e] =>
    if sg == '-' then intOfLex [sg, a, b] * 60 - (digitsVal [d, e] : Int)
    else intOfLex [sg, a, b] * 60 + (digitsVal [d, e] : Int)
  | _ => 0

def tzParse (s : Str) : Option Int := if matchTz s then some (tzOfLex s) else none

/-- two decimal digits, zero padded (`'{:02d}'`) -/
def twoDigits (n : Nat) : Str :=
  if n < 10 then '0' :: Nat.toDigits 10 n else Nat.toDigits 10 n

/-- `Timezone.tzname` / `__str__` (datetime.py:102-115): `'Z'` for a zero offset, else sign, `hh:mm` of the absolute value -/
def tzCanon (m : Int) : Str :=
  if m == 0 then ['Z']
  else (if m < 0 then '-' else '+') :: (twoDigits (m.natAbs / 60) ++ ':' :: twoDigits (m.natAbs % 60))

end EPV.CalLex

namespace EPV.Cal
open EPV.CalLex (Str)

/-- `datetime_string.strip(' \\t\\n\\r')` (fix-c11-2: XML white space only) -/
def pyStripAll (s : Str) : Str := EPV.CalLex.pyStrip s

/-- value of a run of ASCII digits (`int(...)`) -/
def digitsVal (ds : Str) : Nat := Nat.ofDigitChars 10 ds 0

/-- `[0-9]{2}` -/
def two (a b : Char) : Option Nat := if a.isDigit && b.isDigit then some (digitsVal [a, b]) else none

/-- the `year` group at the head of the string: sign, the maximal run of digits, the rest -/
def splitYear (s : Str) : Bool × Str × Str :=
  match s with
  | '-' :: r => (true, r.takeWhile Char.isDigit, r.dropWhile Char.isDigit)
  | _ => (false, s.takeWhile Char.isDigit, s.dropWhile Char.isDigit)

/-- `(?P<year>…)-(?P<month>[0-9]{2})-(?P<day>[0-9]{2})` at the head: (negative, year digits, month, day, rest) -/
def parseDateBody (s : Str) : Option (Bool × Str × Nat × Nat × Str) :=
  let (neg, yd, rest) := splitYear s
  if yd.length < 4 then none else
  match rest with
  | '-' :: m1 :: m2 :: '-' :: d1 :: d2 :: tail =>
    match two m1 m2, two d1 d2 with
    | some mo, some d => some (neg, yd, mo, d, tail)
    | _, _ => none
  | _ => none

/-- `hh:mm:ss(\.[0-9]+)?` at the head: (hour, minute, second, fraction digits, rest) -/
def parseTimeBody (s : Str) : Option (Nat × Nat × Nat × Option Str × Str) :=
  match s with
  | h1 :: h2 :: ':' :: m1 :: m2 :: ':' :: s1 :: s2 :: tail =>
    match two h1 h2, two m1 m2, two s1 s2 with
    | some h, some mi, some sec =>
      match tail with
      | '.' :: r =>
        let fd := r.takeWhile Char.isDigit
        if fd.isEmpty then none else some (h, mi, sec, some fd, r.dropWhile Char.isDigit)
      | _ => some (h, mi, sec, none, tail)
    | _, _, _ => none
  | _ => none

/-- the optional `tzinfo` group followed by the end of the string -/
def parseTzTail (s : Str) : Option (Option Int) :=
  if s.isEmpty then some none else (EPV.CalLex.tzParse s).map some

/-- `fromstring`: `microseconds += '0' * (6 - len(microseconds)); int(microseconds[:6])` (padding on the right,
truncation — not rounding — beyond six digits) -/
def fracUs (fd : Option Str) : Int :=
  match fd with
  | none => 0
  | some ds => (digitsVal ((ds ++ List.replicate (6 - ds.length) '0').take 6) : Nat)

/-- `fromstring`: the year value with the checks of datetime.py:418-431 (no leading zero beyond four digits;
XSD 1.0 has no year 0000; XSD 1.1 shifts years ≤ 0) -/
def yearOfLex (v11 : Bool) (neg : Bool) (yd : Str) : Except Err Int :=
  if yd.head? = some '0' ∧ yd.length > 4 then .error .value
  else lexYear v11 (if neg then -(digitsVal yd : Int) else (digitsVal yd : Int))

/-- `microseconds.strip('0')` is non-empty: some fraction digit is not `0` -/
def fracNonZero (fd : Option Str) : Bool :=
  match fd with
  | none => false
  | some ds => ds.any (· != '0')

/-- `fromstring` (C10's end-of-day fix): `if kwargs.get('hour') == 24 and microseconds.strip('0'): raise ValueError`
— the untruncated fraction of an hour-24 literal must consist of zeros -/
def endOfDayBad (h : Nat) (fd : Option Str) : Bool := h == 24 && fracNonZero fd

/-- `DateTime.fromstring` / `DateTime10.fromstring` -/
def dateTimeOfLex (v11 : Bool) (s : Str) : Except Err DT :=
  match parseDateBody (pyStripAll s) with
  | some (neg, yd, mo, d, 'T' :: rest) =>
    match parseTimeBody rest with
    | some (h, mi, sec, fd, tail) =>
      match parseTzTail tail with
      | some tz =>
        if endOfDayBad h fd then .error .value else do
        let y ← yearOfLex v11 neg yd
        mk y mo d h mi sec (fracUs fd) tz
      | none => .error .value
    | none => .error .value
  | _ => .error .value

/-- `Date.fromstring` / `Date10.fromstring` -/
def dateOfLex (v11 : Bool) (s : Str) : Except Err DT :=
  match parseDateBody (pyStripAll s) with
  | some (neg, yd, mo, d, tail) =>
    match parseTzTail tail with
    | some tz => do
      let y ← yearOfLex v11 neg yd
      mk y mo d 0 0 0 0 tz
    | none => .error .value
  | none => .error .value

/-- `Time.fromstring` -/
def timeOfLex (s : Str) : Except Err DT :=
  match parseTimeBody (pyStripAll s) with
  | some (h, mi, sec, fd, tail) =>
    match parseTzTail tail with
    | some tz => if endOfDayBad h fd then .error .value else timeMk h mi sec (fracUs fd) tz
    | none => .error .value
  | none => .error .value

/-- the literals of the former finding F11r (repaired by C10's end-of-day fix, now rejected by `endOfDayBad`): an end-of-day literal `24:00:00.000000d…` whose fraction is non-zero only below the
microsecond: the fraction is truncated to six digits, so the literal is accepted as `24:00:00` although
`endOfDayFrag` (XSD 1.1) only allows zeros after the point -/
def endOfDaySubMicro (s : Str) : Bool :=
  let body := pyStripAll s
  let tpart := match parseDateBody body with
    | some (_, _, _, _, 'T' :: rest) => rest
    | _ => body
  match parseTimeBody tpart with
  | some (24, 0, 0, some fd, _) => (fd.take 6).all (· == '0') && (fd.drop 6).any (· != '0')
  | _ => false

/-- `Gregorian*.fromstring` (datetime.py:700-880): the patterns
gYear `^(year)(tz)?$`, gYearMonth `^(year)-(MM)(tz)?$`, gMonth `^--(MM)(tz)?$`, gMonthDay `^--(MM)-(DD)(tz)?$`,
gDay `^---(DD)(tz)?$` with the year handling of `fromstring` and the constructor's defaults -/
def gOfLex (k : GKind) (v11 : Bool) (s : Str) : Except Err DT :=
  let body := pyStripAll s
  match k with
  | .gYear =>
    let (neg, yd, rest) := splitYear body
    if yd.length < 4 then .error .value else
    match parseTzTail rest with
    | some tz => do
      let y ← yearOfLex v11 neg yd
      gMk .gYear y 0 0 tz
    | none => .error .value
  | .gYearMonth =>
    let (neg, yd, rest) := splitYear body
    if yd.length < 4 then .error .value else
    match rest with
    | '-' :: m1 :: m2 :: tail =>
      match two m1 m2, parseTzTail tail with
      | some mo, some tz => do
        let y ← yearOfLex v11 neg yd
        gMk .gYearMonth y mo 0 tz
      | _, _ => .error .value
    | _ => .error .value
  | .gMonth =>
    match body with
    | '-' :: '-' :: m1 :: m2 :: tail =>
      match two m1 m2, parseTzTail tail with
      | some mo, some tz => gMk .gMonth 0 mo 0 tz
      | _, _ => .error .value
    | _ => .error .value
  | .gMonthDay =>
    match body with
    | '-' :: '-' :: m1 :: m2 :: '-' :: d1 :: d2 :: tail =>
      match two m1 m2, two d1 d2, parseTzTail tail with
      | some mo, some d, some tz => gMk .gMonthDay 0 mo d tz
      | _, _, _ => .error .value
    | _ => .error .value
  | .gDay =>
    match body with
    | '-' :: '-' :: '-' :: d1 :: d2 :: tail =>
      match two d1 d2, parseTzTail tail with
      | some d, some tz => gMk .gDay 0 0 d tz
      | _, _ => .error .value
    | _ => .error .value

/-! ### string forms -/

/-- `'{:0w}'.format(n)` for a natural number -/
def pad (w n : Nat) : Str := List.replicate (w - (Nat.toDigits 10 n).length) '0' ++ Nat.toDigits 10 n

/-- `iso_year`: sign and at least four digits of the year in the numbering of the XSD version -/
def fmtYear (v11 : Bool) (y : Int) : Str :=
  let n := isoYear v11 y
  (if n < 0 then ['-'] else []) ++ pad 4 n.natAbs

def rstrip0 (s : Str) : Str := (s.reverse.dropWhile (· == '0')).reverse

/-- `hh:mm:ss` and, for a non-zero microsecond, `'.' + '{:06}'.format(microsecond).rstrip('0')` -/
def fmtTimeOfDay (us : Int) : Str :=
  let u := us.toNat
  pad 2 (u / 3600000000) ++ ':' :: pad 2 (u / 60000000 % 60) ++ ':' :: pad 2 (u / 1000000 % 60) ++
    (if u % 1000000 = 0 then [] else '.' :: rstrip0 (pad 6 (u % 1000000)))

def fmtTz (tz : Option Int) : Str := match tz with | none => [] | some z => EPV.CalLex.tzCanon z

def fmtDateBody (v11 : Bool) (v : DT) : Str :=
  fmtYear v11 v.year ++ '-' :: pad 2 v.month.toNat ++ '-' :: pad 2 v.day.toNat

/-- `DateTime.__str__` -/
def fmtDateTime (v11 : Bool) (v : DT) : Str := fmtDateBody v11 v ++ 'T' :: fmtTimeOfDay v.us ++ fmtTz v.tz
/-- `Date.__str__` -/
def fmtDate (v11 : Bool) (v : DT) : Str := fmtDateBody v11 v ++ fmtTz v.tz
/-- `Time.__str__` -/
def fmtTime (v : DT) : Str := fmtTimeOfDay v.us ++ fmtTz v.tz

/-- `Gregorian*.__str__` -/
def fmtG (k : GKind) (v11 : Bool) (v : DT) : Str :=
  match k with
  | .gYear => fmtYear v11 v.year ++ fmtTz v.tz
  | .gYearMonth => fmtYear v11 v.year ++ '-' :: pad 2 v.month.toNat ++ fmtTz v.tz
  | .gMonth => '-' :: '-' :: pad 2 v.month.toNat ++ fmtTz v.tz
  | .gMonthDay => '-' :: '-' :: pad 2 v.month.toNat ++ '-' :: pad 2 v.day.toNat ++ fmtTz v.tz
  | .gDay => '-' :: '-' :: '-' :: pad 2 v.day.toNat ++ fmtTz v.tz

end EPV.Cal
